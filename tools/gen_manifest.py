#!/usr/bin/env python3
"""Generates /verif/MANIFEST.json from tools/manifest_src.json (claimed checks) and
properties.jsonl (everything else goes to not_applicable with its reason)."""
import json, os, sys
here = os.path.dirname(os.path.abspath(__file__))
root = os.path.dirname(here)
src = json.load(open(os.path.join(here, "manifest_src.json")))
props = [json.loads(l) for l in open(os.path.join(root, "properties.jsonl"))]
baseline = json.load(open("/root/.vp/BASELINE.json"))
checks, na = [], []
for p in props:
    pid = p["id"]
    if pid in src["claimed"]:
        e = src["claimed"][pid]
        checks.append({
            "property_id": pid,
            "quick_cmd": f"bin/taskverif -prop {pid} -tier quick",
            "thorough_cmd": f"bin/taskverif -prop {pid} -tier thorough",
            "evidence_file": f"evidence/{pid}.json",
            "replay_cmd_template": "cat {path}",
            "engine": "taskverif",
            "level_claimed": {"category": "other", "text": e["text"], "design_ref": f"DESIGN.md §5 {pid}"},
            "level_note": e["note"],
            "technique": e["technique"],
        })
    else:
        na.append({"property_id": pid, "reason": src["not_applicable"].get(pid, "check not built yet in this round; see DESIGN.md §5 for the planned structural clauses")})
m = {
    "version": 1,
    "setup_cmd": "mkdir -p /verif/bin /verif/evidence && cd /verif/checker && env -u GOWORK GOFLAGS=-mod=vendor GOPROXY=off GOSUMDB=off GOTOOLCHAIN=local go build -o /verif/bin/taskverif .",
    "hooks": {
        "guard": "verif",
        "enable": "none required: the checks read /repo's source and need no instrumentation",
        "baseline_off_cmd": baseline["cmd"],
        "source_commits": [],
        "add_only": True,
    },
    "engines": [{
        "name": "taskverif",
        "path": "checker/",
        "serves_properties": [c["property_id"] for c in checks],
        "kind_free_text": "repository-specific static analyser over go/types + go/ssa (x/tools v0.29.0, vendored): finite-domain decision tables, dominance/must-pass-through, who-may-write, layer-chain provenance, error discipline, typestate, registry exhaustiveness",
    }],
    "checks": checks,
    "not_applicable": na,
    "notes": src.get("notes", ""),
}
if not na:
    del m["not_applicable"]
json.dump(m, open(os.path.join(root, "MANIFEST.json"), "w"), indent=1)
print(f"{len(checks)} checks, {len(na)} not applicable")
