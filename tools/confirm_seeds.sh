#!/bin/bash
# Confirms sub-agent mutations: for each /tmp/seed_<ID>.out/m<i>: in the scratch
# worktree /tmp/seed_<ID>: patch applies, builds, full suite passes, demo fails;
# without patch demo passes. Writes a line per mutation to $1 (result file).
export GOFLAGS=-mod=mod GOPROXY=off GOSUMDB=off GOTOOLCHAIN=local; unset GOWORK
res=${1:-/tmp/seed_confirm.txt}; : > "$res"
for id in "${@:2}"; do
  wt=/tmp/seed_$id
  # (one test of the suite writes to the temp directory: a private one per worktree, so that parallel confirmations do not collide)
  mkdir -p /tmp/seed_$id.tmp; export TMPDIR=/tmp/seed_$id.tmp
  for m in /tmp/seed_$id.out/m*; do
    [ -f "$m/patch.diff" ] || continue
    n=$(basename $m)
    (cd $wt && git checkout -q -- . && git clean -fdq)
    # demo on clean tree
    timeout 300 bash $m/demo/run.sh $wt > $m/confirm_clean.log 2>&1; clean=$?
    (cd $wt && git checkout -q -- . && git clean -fdq)
    if ! (cd $wt && git apply --whitespace=nowarn $m/patch.diff) ; then echo "$id $n APPLY-FAIL" >> "$res"; continue; fi
    (cd $wt && go build ./... > $m/confirm_build.log 2>&1); build=$?
    (cd $wt && timeout 600 go test -vet=off -count=1 -timeout 300s ./... > $m/confirm_suite.log 2>&1); suite=$?
    timeout 300 bash $m/demo/run.sh $wt > $m/confirm_mut.log 2>&1; mut=$?
    (cd $wt && git checkout -q -- . && git clean -fdq)
    echo "$id $n clean_demo=$clean build=$build suite=$suite mutated_demo=$mut" >> "$res"
  done
done
echo DONE >> "$res"
