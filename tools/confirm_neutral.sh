#!/bin/bash
# confirms that each neutral variant applies, builds, vets and passes the suite (in a scratch worktree)
export GOFLAGS=-mod=mod GOPROXY=off GOSUMDB=off GOTOOLCHAIN=local; unset GOWORK
wt=/tmp/neutral_confirm; git -C /repo worktree add --detach $wt HEAD >/dev/null 2>&1
for f in /verif/variants/neutral/*.diff; do
  (cd $wt && git checkout -q -- . && git clean -fdq)
  if ! (cd $wt && git apply --whitespace=nowarn $f); then echo "$(basename $f) APPLY-FAIL"; continue; fi
  (cd $wt && go build ./... >/dev/null 2>&1); b=$?
  (cd $wt && go vet ./... >/dev/null 2>&1); v=$?
  (cd $wt && timeout 300 go test -vet=off -count=1 -timeout 200s ./... >/dev/null 2>&1); t=$?
  echo "$(basename $f) build=$b vet=$v suite=$t"
done
git -C /repo worktree remove --force $wt
