#!/bin/bash
# runs all 20 quick checks on /repo; prints only the checks that do not pass
fail=0
for i in $(seq -w 1 20); do
  out=$(/verif/bin/taskverif -prop C$i 2>&1); r=$?
  if [ $r -ne 0 ]; then fail=1; echo "C$i exit=$r"; echo "$out" | grep -E "^\s+(violated|undischarged)|INFRA" | cut -c1-240; fi
done
[ $fail -eq 0 ] && echo "all 20 checks pass on /repo"
exit $fail
