#!/bin/bash
# usage: tools/seedcheck.sh <seed-id> [props...]  — run checks (default: the seed's own property) against a seeded change
id=$1; shift
props="$@"; [ -z "$props" ] && props=${id%%-*}
/verif/tools/try.sh /verif/seeded/$id/patch.diff $props
