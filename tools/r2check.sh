#!/bin/bash
# usage: tools/r2check.sh <suffix e.g. r2> — runs the own property's check (and optionally all) on every /tmp/seed_<Cxx><suffix>.out/m*/patch.diff
suf=${1:-r2}
for d in /tmp/seed_C*${suf}.out/m*; do
  [ -f $d/patch.diff ] || continue
  id=$(basename $(dirname $d)); id=${id#seed_}; id=${id%.out}; prop=${id%$suf}; m=$(basename $d)
  T=$(mktemp -d /tmp/tv_r2.XXXXXX); mkdir -p "$T/repo" "$T/verif/evidence"
  (cd /repo && git ls-files -z | xargs -0 cp --parents -t "$T/repo"); cp /verif/known_findings.txt "$T/verif/"
  if ! (cd "$T/repo" && git init -q . && git apply --whitespace=nowarn "$d/patch.diff" 2>/dev/null); then echo "$id-$m APPLY-FAIL"; rm -rf "$T"; continue; fi
  o=$(/verif/bin/taskverif -prop $prop -root "$T/repo" -verif "$T/verif" 2>&1); r=$?
  rules=$(echo "$o" | grep -E "^\s+(violated|undischarged)" | awk '{print $1":"$2}' | sort -u | tr '\n' ',' | sed 's/,$//')
  echo "$id-$m exit=$r $rules"
  rm -rf "$T"
done
