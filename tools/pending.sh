#!/bin/bash
# usage: tools/pending.sh [name...] — runs all 20 checks on each pending neutral variant, prints the alarms
cd /verif
names="$@"; [ -z "$names" ] && names=$(ls variants/neutral_pending/*.diff | xargs -n1 basename | sed 's/.diff$//')
D=$(mktemp -d /tmp/tv_pend.XXXXXX)
for n in $names; do cp variants/neutral_pending/$n.diff $D/; done
tools/matrix.sh $D $D/out.tsv >/dev/null 2>&1
while IFS= read -r line; do
  n=$(echo "$line" | cut -f1); al=$(echo "$line" | tr '\t' '\n' | grep -E "^C[0-9]+:[12]:" | tr '\n' ' ')
  echo "$n ${al:-SILENT}"
done < $D/out.tsv | sort
rm -rf $D
