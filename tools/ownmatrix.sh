#!/bin/bash
# usage: tools/ownmatrix.sh <dir of <PROP>-name.diff | seeded> — runs only the own property's check per patch
dir=$(readlink -f $1)
run_one() {
  patch=$1; name=$2; prop=${name%%-*}
  T=$(mktemp -d /tmp/tv_om.XXXXXX); mkdir -p "$T/repo" "$T/verif/evidence"
  (cd /repo && git ls-files -z | xargs -0 cp --parents -t "$T/repo"); cp /verif/known_findings.txt "$T/verif/"
  if ! (cd "$T/repo" && git init -q . && git apply --whitespace=nowarn "$patch" 2>/dev/null); then echo "$name APPLY-FAIL"; rm -rf "$T"; return; fi
  o=$(/verif/bin/taskverif -prop $prop -root "$T/repo" -verif "$T/verif" 2>&1); r=$?
  rules=$(echo "$o" | grep -E "^\s+(violated|undischarged)" | awk '{print $1":"$2}' | sort -u | tr '\n' ',' | sed 's/,$//')
  echo "$name exit=$r $rules"
  rm -rf "$T"
}
export -f run_one
for f in "$dir"/*/patch.diff "$dir"/*.diff; do
  [ -f "$f" ] || continue
  n=$(basename $(dirname "$f")); [ "$(basename "$f")" != "patch.diff" ] && n=$(basename "$f" .diff)
  echo "$f $n"
done | xargs -P 12 -L 1 bash -c 'run_one "$0" "$1"' | sort
