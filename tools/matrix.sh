#!/bin/bash
# usage: tools/matrix.sh <dir-with-*/patch.diff or *.diff> <out.tsv>
# Runs every check against every patch (each applied to a scratch copy of /repo) and
# records exit status and the violated rules.
dir=$1; out=$2
props=$(python3 -c "import json;print(' '.join(c['property_id'] for c in json.load(open('/verif/MANIFEST.json'))['checks']))")
run_one() {
  patch=$1; name=$2
  T=$(mktemp -d /tmp/tv_mx.XXXXXX)
  mkdir -p "$T/repo" "$T/verif/evidence"
  (cd /repo && git ls-files -z | xargs -0 cp --parents -t "$T/repo")
  cp /verif/known_findings.txt "$T/verif/"
  if ! (cd "$T/repo" && git init -q . && git apply --whitespace=nowarn "$patch" 2>/dev/null); then echo -e "$name\tAPPLY-FAIL"; rm -rf "$T"; return; fi
  line="$name"
  for p in $PROPS; do
    o=$(/verif/bin/taskverif -prop $p -root "$T/repo" -verif "$T/verif" 2>&1); r=$?
    rules=$(echo "$o" | grep -E "^\s+(violated|undischarged)" | awk '{print $2}' | sort -u | tr '\n' ',' | sed 's/,$//')
    [ $r -eq 2 ] && rules="INFRA"
    line="$line\t$p:$r:$rules"
  done
  echo -e "$line"
  rm -rf "$T"
}
export -f run_one; export PROPS="$props"
: > "$out"
for f in "$dir"/*/patch.diff "$dir"/*.diff; do
  [ -f "$f" ] || continue
  n=$(basename $(dirname "$f")); [ "$(basename "$f")" != "patch.diff" ] && n=$(basename "$f" .diff)
  echo "$f $n"
done | xargs -P 10 -L 1 bash -c 'run_one "$0" "$1"' >> "$out"
sort -o "$out" "$out"
