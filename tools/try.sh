#!/bin/bash
# usage: tools/try.sh <patch.diff|-> <prop> [<prop>...]
# Applies the patch to a scratch copy of /repo (never to /repo itself), runs the
# given checks against the copy, prints violations, removes the copy.
set -u
patch="$1"; shift
T=$(mktemp -d /tmp/tv_try.XXXXXX)
trap 'rm -rf "$T"' EXIT
mkdir -p "$T/repo" "$T/verif/evidence"
(cd /repo && git ls-files -z | xargs -0 cp --parents -t "$T/repo") 
cp /verif/known_findings.txt "$T/verif/" 2>/dev/null
if [ "$patch" != "-" ]; then
  (cd "$T/repo" && git init -q . 2>/dev/null; git apply --whitespace=nowarn "$patch") || { echo "PATCH DOES NOT APPLY"; exit 3; }
fi
rc=0
for p in "$@"; do
  out=$(/verif/bin/taskverif -prop "$p" -root "$T/repo" -verif "$T/verif" 2>&1); r=$?
  echo "== $p exit=$r"
  echo "$out" | grep -E "^\s+(violated|undischarged)|^VIOLATION|^INFRA|^KNOWN" | sed "s#$T/repo/##g" | cut -c1-400
  [ $r -ne 0 ] && rc=$r
done
exit $rc
