package rules

import (
	"go/token"
	"go/types"

	"golang.org/x/tools/go/ssa"

	"taskverif/an"
)

// chanLatch is a hand-made replacement of the scheduler's WaitGroup, found by
// what it does. Two forms are recognised:
//
//	"channel-list":     per launch a channel is made and appended to a list;
//	                    the goroutine closes it (deferred, first thing); after
//	                    the scheduling loop every element of the list is
//	                    received from.
//	"counter+channel":  per launch a local counter is incremented by one; the
//	                    goroutine sends one value on a channel made before the
//	                    loops (deferred, first thing); after the scheduling
//	                    loop the channel is received from once per count
//	                    (`for ; n > 0; n-- { <-ch }`).
//
// In both the three obligations of the WaitGroup protocol have a counterpart:
// reg dominates the launch (Add), the goroutine signals exactly once on every
// path (Done), and wait — the exit of the drain loop — is passed only after
// every signal was received (Wait).
type chanLatch struct {
	kind     string
	reg      ssa.Instruction   // in the launch function, dominating the go statement
	drain    *an.Loop          // the loop that receives the signals
	drainFn  *ssa.Function     // where it lives (the function of the scheduling loop)
	waitExit *ssa.BasicBlock   // the drain loop's normal exit: past it every signal was received
	recvs    []ssa.Instruction // the receive(s) in the drain loop
	doneOK   bool
	why      string
}

// resolveChanLatch looks for a channel latch around the launch.
func resolveChanLatch(s *sched) *chanLatch {
	p := s.p
	lf := s.launchFn
	of := s.outerFn
	if of == nil {
		of = lf
	}
	if lf == nil || s.launch == nil || s.body == nil {
		return nil
	}
	// what the goroutine signals on: a deferred close(ch) / ch <- v in its entry block, ch a captured variable
	type signal struct {
		closeIt bool
		fv      *ssa.FreeVar
		inDefer *ssa.Function
	}
	var sig *signal
	for _, in := range s.body.Blocks[0].Instrs {
		d, ok := in.(*ssa.Defer)
		if !ok {
			switch in.(type) {
			case *ssa.If, *ssa.Return, *ssa.Panic, *ssa.Go:
				goto scanned
			}
			continue
		}
		for _, callee := range p.Callees(&d.Call) {
			if callee.Blocks == nil {
				continue
			}
			// the deferred function signals exactly once on all its paths
			var sends []ssa.Instruction
			an.EachInstr(callee, func(x ssa.Instruction) {
				switch y := x.(type) {
				case *ssa.Send:
					sends = append(sends, x)
					_ = y
				case *ssa.Call:
					if b, ok := y.Call.Value.(*ssa.Builtin); ok && b.Name() == "close" {
						sends = append(sends, x)
					}
				}
			})
			if len(sends) != 1 {
				continue
			}
			first := callee.Blocks[0].Instrs[0]
			onAll := first == sends[0]
			if !onAll {
				onAll, _ = an.OnAllPathsToExit(first, func(x ssa.Instruction) bool { return x == sends[0] }, nil)
			}
			if !onAll {
				continue
			}
			var ch ssa.Value
			closeIt := false
			switch y := sends[0].(type) {
			case *ssa.Send:
				ch = y.Chan
			case *ssa.Call:
				ch, closeIt = y.Call.Args[0], true
			}
			// the channel: a variable captured by the goroutine body (possibly through the deferred closure)
			for _, src := range an.ResolveAll(ch) {
				_ = src
			}
			if u, ok := ch.(*ssa.UnOp); ok && u.Op == token.MUL {
				ch = u.X
			}
			if fv, ok := ch.(*ssa.FreeVar); ok {
				sig = &signal{closeIt: closeIt, fv: fv, inDefer: callee}
			}
		}
	}
scanned:
	if sig == nil {
		return nil
	}
	// the variable behind the free variable, in the launch function
	cellOf := func(fv *ssa.FreeVar) ssa.Value {
		fn := fv.Parent()
		idx := -1
		for i, f := range fn.FreeVars {
			if f == fv {
				idx = i
			}
		}
		var mc *ssa.MakeClosure
		if fn.Parent() != nil {
			an.EachInstr(fn.Parent(), func(in ssa.Instruction) {
				if m, ok := in.(*ssa.MakeClosure); ok && m.Fn == ssa.Value(fn) {
					mc = m
				}
			})
		}
		if mc == nil || idx < 0 || idx >= len(mc.Bindings) {
			return nil
		}
		return mc.Bindings[idx]
	}
	cell := cellOf(sig.fv)
	if inner, ok := cell.(*ssa.FreeVar); ok {
		cell = cellOf(inner)
	}
	if cell == nil {
		return nil
	}
	chanValue := func(v ssa.Value) *ssa.MakeChan {
		for _, r := range an.ResolveAll(v) {
			if mk, ok := r.(*ssa.MakeChan); ok {
				return mk
			}
		}
		if a, ok := v.(*ssa.Alloc); ok && a.Referrers() != nil {
			var mk *ssa.MakeChan
			n := 0
			for _, r := range *a.Referrers() {
				if st, ok := r.(*ssa.Store); ok && st.Addr == ssa.Value(a) {
					n++
					mk, _ = an.Resolve(st.Val).(*ssa.MakeChan)
					if mk == nil {
						if ct, ok := st.Val.(*ssa.ChangeType); ok {
							mk, _ = ct.X.(*ssa.MakeChan)
						}
					}
				}
			}
			if n == 1 {
				return mk
			}
		}
		return nil
	}
	mk := chanValue(cell)
	if mk == nil {
		return nil
	}
	lt := &chanLatch{drainFn: of}
	inInner := func(in ssa.Instruction) bool {
		return s.launchFn != s.loopFn || s.inner.Blocks[in.Block()]
	}
	afterLoops := func(l *an.Loop) bool {
		if s.outer == nil || l == s.outer || s.outer.Blocks[l.Header] {
			return false
		}
		ex := s.outer.NormalExit()
		return ex != nil && ex.Dominates(l.Header)
	}
	if sig.closeIt {
		// channel-list: the channel is made in the launch iteration and appended to a list there
		if mk.Parent() != lf || !inInner(mk) || !an.Dominates(mk, s.launch) {
			return nil
		}
		var listCell *ssa.Alloc
		an.EachInstr(lf, func(in ssa.Instruction) {
			call, ok := in.(*ssa.Call)
			if !ok || !an.Dominates(call, s.launch) || !inInner(call) {
				return
			}
			if b, ok := call.Call.Value.(*ssa.Builtin); !ok || b.Name() != "append" {
				return
			}
			holds := false
			for _, e := range an.VariadicElems(call.Call.Args[1]) {
				for _, src := range an.Sources(e) {
					if ct, ok := src.(*ssa.ChangeType); ok {
						src = ct.X
					}
					if src == ssa.Value(mk) {
						holds = true
					}
					if u, ok := src.(*ssa.UnOp); ok && u.X == cell {
						holds = true
					}
				}
			}
			if !holds || call.Referrers() == nil {
				return
			}
			for _, r := range *call.Referrers() {
				if st, ok := r.(*ssa.Store); ok {
					if a, ok := st.Addr.(*ssa.Alloc); ok {
						listCell = a
						lt.reg = call
					}
				}
			}
		})
		if listCell == nil {
			// the list may be a plain SSA value carried by φs (no closure captures it): append result flows to a φ
			an.EachInstr(lf, func(in ssa.Instruction) {
				call, ok := in.(*ssa.Call)
				if !ok || !an.Dominates(call, s.launch) || !inInner(call) {
					return
				}
				if b, ok := call.Call.Value.(*ssa.Builtin); !ok || b.Name() != "append" {
					return
				}
				for _, e := range an.VariadicElems(call.Call.Args[1]) {
					for _, src := range an.Sources(e) {
						if ct, ok := src.(*ssa.ChangeType); ok {
							src = ct.X
						}
						if src == ssa.Value(mk) {
							lt.reg = call
						}
					}
				}
			})
		}
		if lt.reg == nil {
			return nil
		}
		lt.kind = "channel-list"
		// the drain loop: after the scheduling loop, ranges over the list, receives from the element on every pass
		for _, l := range an.Loops(of) {
			if !afterLoops(l) {
				continue
			}
			op := l.RangeOperand()
			if op == nil {
				continue
			}
			isList := false
			if listCell != nil {
				if u, ok := op.(*ssa.UnOp); ok && u.X == ssa.Value(listCell) {
					isList = true
				}
			} else {
				// a φ-carried list: the operand's sources include the registering append
				seen := map[ssa.Value]bool{}
				var walk func(v ssa.Value) bool
				walk = func(v ssa.Value) bool {
					if seen[v] {
						return false
					}
					seen[v] = true
					for _, src := range an.Sources(v) {
						if src == ssa.Value(lt.reg.(*ssa.Call)) {
							return true
						}
						if ph, ok := src.(*ssa.Phi); ok {
							for _, e := range ph.Edges {
								if walk(e) {
									return true
								}
							}
						}
					}
					return false
				}
				isList = walk(op)
			}
			if !isList {
				continue
			}
			_, elems := l.RangeKeyValue()
			ex := &an.Explorer{P: p, NoReturn: noReturn}
			l.Bound(ex)
			ex.Effect = func(in ssa.Instruction, st *an.State) string {
				if u, ok := in.(*ssa.UnOp); ok && u.Op == token.ARROW {
					for _, e := range elems {
						if an.SameValue(u.X, e) {
							lt.recvs = append(lt.recvs, in)
							return "recv"
						}
					}
				}
				return ""
			}
			outs := ex.Run(of, l.BodyEntry(), l.Header, nil)
			every := len(outs) > 0
			for _, o := range outs {
				if !(o.End == "stop" && o.StopBlock == l.Header && count(o.Effects, "recv") == 1) {
					every = false
				}
			}
			if every && l.NormalExit() != nil {
				lt.drain, lt.waitExit = l, l.NormalExit()
			}
		}
	} else {
		// counter+channel: the channel is made before the loops; a local counter is incremented per launch
		if mk.Parent() != of || (s.outer != nil && s.outer.Blocks[mk.Block()]) {
			return nil
		}
		// the counter: a φ (or cell) of integer type incremented by the constant one in the launch iteration
		var counter ssa.Value
		an.EachInstr(lf, func(in ssa.Instruction) {
			bo, ok := in.(*ssa.BinOp)
			if !ok || bo.Op != token.ADD || !an.Dominates(bo, s.launch) || !inInner(bo) {
				return
			}
			if k, ok := an.ConstInt(bo.Y); !ok || k != 1 {
				return
			}
			if b, ok := bo.Type().Underlying().(*types.Basic); !ok || b.Info()&types.IsInteger == 0 {
				return
			}
			// a loop index is advanced in the loop header region, not in front of the launch; the counter's
			// value is consumed by the drain loop's condition
			counter, lt.reg = bo, bo
		})
		if lt.reg == nil {
			return nil
		}
		lt.kind = "counter+channel"
		derivesFromCounter := func(v ssa.Value) bool {
			seen := map[ssa.Value]bool{}
			var walk func(v ssa.Value) bool
			walk = func(v ssa.Value) bool {
				if v == nil || seen[v] {
					return false
				}
				seen[v] = true
				if v == counter {
					return true
				}
				switch x := v.(type) {
				case *ssa.Phi:
					for _, e := range x.Edges {
						if walk(e) {
							return true
						}
					}
				case *ssa.UnOp:
					if a, ok := x.X.(*ssa.Alloc); ok && a.Referrers() != nil {
						for _, r := range *a.Referrers() {
							if st, ok := r.(*ssa.Store); ok && st.Addr == ssa.Value(a) && walk(st.Val) {
								return true
							}
						}
					}
				case *ssa.BinOp:
					return walk(x.X)
				}
				return false
			}
			return walk(v)
		}
		for _, l := range an.Loops(of) {
			if !afterLoops(l) {
				continue
			}
			br, ok := an.BranchOf(l.Header)
			if !ok {
				continue
			}
			bo, ok := br.If.Cond.(*ssa.BinOp)
			if !ok || bo.Op != token.GTR || !l.Blocks[br.True] {
				continue
			}
			if k, ok := an.ConstInt(bo.Y); !ok || k != 0 || !derivesFromCounter(bo.X) {
				continue
			}
			// one pass: exactly one receive from the channel, the count goes down by exactly one
			iv, isPhi := bo.X.(*ssa.Phi)
			if !isPhi || iv.Block() != l.Header {
				continue
			}
			stepOK := false
			for k, pred := range l.Header.Preds {
				if !l.Blocks[pred] {
					continue
				}
				if sub, ok := iv.Edges[k].(*ssa.BinOp); ok && sub.Op == token.SUB && sub.X == ssa.Value(iv) {
					if c1, ok := an.ConstInt(sub.Y); ok && c1 == 1 {
						stepOK = true
					}
				}
			}
			if !stepOK {
				continue
			}
			ex := &an.Explorer{P: p, NoReturn: noReturn}
			l.Bound(ex)
			ex.Effect = func(in ssa.Instruction, st *an.State) string {
				if u, ok := in.(*ssa.UnOp); ok && u.Op == token.ARROW && chanValue(u.X) == mk {
					lt.recvs = append(lt.recvs, in)
					return "recv"
				}
				if u, ok := in.(*ssa.UnOp); ok && u.Op == token.ARROW {
					if ld, ok := u.X.(*ssa.UnOp); ok && ld.X == cell {
						lt.recvs = append(lt.recvs, in)
						return "recv"
					}
				}
				return ""
			}
			outs := ex.Run(of, l.BodyEntry(), l.Header, nil)
			every := len(outs) > 0
			for _, o := range outs {
				if !(o.End == "stop" && o.StopBlock == l.Header && count(o.Effects, "recv") == 1) {
					every = false
				}
			}
			if every && l.NormalExit() != nil {
				lt.drain, lt.waitExit = l, l.NormalExit()
			}
		}
	}
	if lt.drain == nil {
		lt.why = "no loop after the scheduling loop receives every completion signal"
		return lt
	}
	lt.doneOK = true
	return lt
}
