package rules

import (
	"go/token"
	"go/types"
	"strings"

	"golang.org/x/tools/go/ssa"

	"taskverif/an"
)

// taskStorageWrites checks C08.4: the per-stage copy of a task is a shallow
// copy — its slices and maps (commands, hooks, variations, …) are the shared
// task's own. Nothing in the module may therefore write an element of a slice
// or map that is reachable from a field of a task.Task it did not build
// itself: such a write is seen by every other stage, pipeline or direct run
// that uses the task.
//
// A value is definition-backed when it is a slice or map loaded from a field
// of a Task (unless that Task was allocated by the function and the field was
// given a container the function made), an element of reference type taken
// from a definition-backed slice or map (index, range), a re-slice of such a
// value, or a slice that copy() filled from a definition-backed slice whose
// elements are of reference type (the elements stay shared). Element stores
// (x[i] = v), map updates (m[k] = v) and append in place on a
// definition-backed value are violations. Helper parameters and results are
// followed within the module.
func taskStorageWrites(c *an.Ctx, rule string) {
	protectedStorageWrites(c, rule, protectedStorage{
		owner:  func(a *ssa.FieldAddr) bool { return an.TypeIs(a.X.Type(), "pkg/task", "Task") },
		what:   "task",
		whyBad: "the per-stage copy of a task shares its slices and maps with the task in the configuration, so every other stage, pipeline or direct run that uses the task sees the write",
	})
}

// protectedStorage names a family of slices and maps that only their owner may write in place.
type protectedStorage struct {
	owner  func(a *ssa.FieldAddr) bool // the fields the storage is reachable from
	what   string                      // "task", "graph"
	whyBad string
	exempt func(f *ssa.Function) bool // the functions that maintain the storage
}

// graphStorageWrites: the adjacency lists of an execution graph (from / to) are what the scheduler's gate, the
// cycle check and the graph commands read; only the functions that build the graph (reached from AddStage and the
// constructor) write them. A filter, a removal or an append in place on a list taken from them — in a String
// method, a debug helper — silently drops or duplicates declared edges.
func graphStorageWrites(c *an.Ctx, rule string) {
	p := c.P
	var roots []*ssa.Function
	for _, name := range []string{"AddStage", "addEdge", "addNode"} {
		if f := p.Func("pkg/scheduler", "ExecutionGraph", name); f != nil {
			roots = append(roots, f)
		}
	}
	if f := p.Func("pkg/scheduler", "", "NewExecutionGraph"); f != nil {
		roots = append(roots, f)
	}
	builders := p.Reach(roots, func(e an.CallEdge) bool { return e.Kind == an.EdgeCall && inPkgs("pkg/scheduler")(e.Callee) })
	protectedStorageWrites(c, rule, protectedStorage{
		owner: func(a *ssa.FieldAddr) bool {
			tf := an.TypeField(a)
			roles := resolveEdgeRoles(p)
			return strings.HasPrefix(tf, "ExecutionGraph.") && roles.isEdgeMapField(strings.TrimPrefix(tf, "ExecutionGraph."))
		},
		what:   "graph",
		whyBad: "the lists are the graph's own adjacency lists: an edge removed, shifted or duplicated there is an edge the dependency gate, the cycle check and the graph commands no longer see as declared",
		exempt: func(f *ssa.Function) bool { _, ok := builders[f]; return ok },
	})
}

func protectedStorageWrites(c *an.Ctx, rule string, spec protectedStorage) {
	p := c.P
	isRef := func(t types.Type) bool {
		switch t.Underlying().(type) {
		case *types.Slice, *types.Map:
			return true
		}
		return false
	}
	elemIsRef := func(t types.Type) bool {
		switch u := t.Underlying().(type) {
		case *types.Slice:
			return isRef(u.Elem())
		case *types.Map:
			return isRef(u.Elem())
		}
		return false
	}
	// per function: values that hold shared elements because copy() put them there
	holdsShared := map[ssa.Value]bool{}
	sharedParam := map[*ssa.Parameter]bool{}
	sharedRet := map[*ssa.Function]bool{}
	var backed func(v ssa.Value, depth int) bool
	backed = func(v ssa.Value, depth int) bool {
		if v == nil || depth > 8 || !isRef(v.Type()) {
			return false
		}
		for _, s := range an.Sources(v) {
			switch x := s.(type) {
			case *ssa.Parameter:
				if sharedParam[x] {
					return true
				}
			case *ssa.UnOp:
				if x.Op != token.MUL {
					continue
				}
				switch a := x.X.(type) {
				case *ssa.FieldAddr:
					if !spec.owner(a) {
						continue
					}
					// a field of a task the function builds itself, holding what the function stored there
					if fresh, copied := an.FreshBase(a.X); fresh && !copied {
						if fwd, ok := an.ForwardLoad(x); ok {
							if backed(fwd[0], depth+1) {
								return true
							}
							continue
						}
						continue
					}
					return true
				case *ssa.IndexAddr:
					// element of a slice that is backed by / holds shared elements
					if backed(a.X, depth+1) || holdsShared[an.Resolve(a.X)] {
						return true
					}
				}
			case *ssa.Lookup:
				if backed(x.X, depth+1) || holdsShared[an.Resolve(x.X)] {
					return true
				}
			case *ssa.Extract:
				// range over a map / slice: value component
				if nx, ok := x.Tuple.(*ssa.Next); ok && x.Index == 2 {
					if rg, ok := nx.Iter.(*ssa.Range); ok && (backed(rg.X, depth+1) || holdsShared[an.Resolve(rg.X)]) {
						return true
					}
				}
				if lk, ok := x.Tuple.(*ssa.Lookup); ok && x.Index == 0 && (backed(lk.X, depth+1) || holdsShared[an.Resolve(lk.X)]) {
					return true
				}
				if call, ok := x.Tuple.(*ssa.Call); ok {
					if callee := call.Call.StaticCallee(); callee != nil && sharedRet[callee] {
						return true
					}
				}
			case *ssa.Slice:
				if backed(x.X, depth+1) {
					return true
				}
			case *ssa.Call:
				if callee := x.Call.StaticCallee(); callee != nil && sharedRet[callee] {
					return true
				}
				if b, ok := x.Call.Value.(*ssa.Builtin); ok && b.Name() == "append" && backed(x.Call.Args[0], depth+1) {
					return true
				}
			}
		}
		return false
	}
	var fns []*ssa.Function
	for _, f := range p.Funcs {
		if an.InModule(f) && f.Blocks != nil {
			fns = append(fns, f)
		}
	}
	// fixed point over copy(), parameters and results
	for round := 0; round < 6; round++ {
		changed := false
		for _, f := range fns {
			an.EachInstr(f, func(in ssa.Instruction) {
				// a local map or slice that is given a protected list as an element holds shared storage
				if mu, isMU := in.(*ssa.MapUpdate); isMU {
					if isRef(mu.Value.Type()) && backed(mu.Value, 0) && !holdsShared[an.Resolve(mu.Map)] && !backed(mu.Map, 0) {
						holdsShared[an.Resolve(mu.Map)] = true
						changed = true
					}
					return
				}
				call, ok := in.(*ssa.Call)
				if !ok {
					return
				}
				if b, isB := call.Call.Value.(*ssa.Builtin); isB && b.Name() == "copy" {
					dst, src := call.Call.Args[0], call.Call.Args[1]
					if elemIsRef(src.Type()) && (backed(src, 0) || holdsShared[an.Resolve(src)]) && !holdsShared[an.Resolve(dst)] {
						holdsShared[an.Resolve(dst)] = true
						// the slice value built on the same array
						if sl, ok := an.Resolve(dst).(*ssa.Slice); ok {
							holdsShared[sl.X] = true
						}
						changed = true
					}
					return
				}
				callee := call.Call.StaticCallee()
				if callee == nil || callee.Blocks == nil || !an.InModule(callee) {
					return
				}
				for i, a := range call.Call.Args {
					if i < len(callee.Params) && !sharedParam[callee.Params[i]] && isRef(a.Type()) && (backed(a, 0) || holdsShared[an.Resolve(a)]) {
						sharedParam[callee.Params[i]] = true
						changed = true
					}
				}
			})
			if !sharedRet[f] {
				for _, ret := range an.Returns(f) {
					for i := range ret.Results {
						if v := an.RetVal(ret, i); isRef(v.Type()) && backed(v, 0) {
							sharedRet[f] = true
							changed = true
						}
					}
				}
			}
		}
		if !changed {
			break
		}
	}
	n, nBad := 0, 0
	for _, f := range fns {
		if spec.exempt != nil && spec.exempt(f) {
			continue
		}
		an.EachInstr(f, func(in ssa.Instruction) {
			switch x := in.(type) {
			case *ssa.MapUpdate:
				n++
				if backed(x.Map, 0) {
					nBad++
					c.Bad(rule, an.Short(f)+":map-write("+spec.what+")", x.Pos(), "%s writes an entry of a map that belongs to a %s it did not build (%s): %s", an.Short(f), spec.what, an.Prov(x.Map), spec.whyBad)
				}
			case *ssa.Call:
				if b, ok := x.Call.Value.(*ssa.Builtin); ok && b.Name() == "append" && len(x.Call.Args) > 0 {
					n++
					if backed(x.Call.Args[0], 0) {
						nBad++
						c.Bad(rule, an.Short(f)+":append("+spec.what+")", x.Pos(), "%s appends to a slice that belongs to a %s it did not build (%s): with spare capacity — always so after a re-slice like s[:0] or s[:i] — the append overwrites elements of the array the %s still uses; %s", an.Short(f), spec.what, an.Prov(x.Call.Args[0]), spec.what, spec.whyBad)
					}
				}
			case *ssa.Store:
				ia, ok := x.Addr.(*ssa.IndexAddr)
				if !ok {
					return
				}
				n++
				if backed(ia.X, 0) {
					nBad++
					c.Bad(rule, an.Short(f)+":element-write("+spec.what+")", x.Pos(), "%s writes an element of a slice that belongs to a %s it did not build (%s): %s", an.Short(f), spec.what, an.Prov(ia.X), spec.whyBad)
				}
			}
		})
	}
	if nBad == 0 {
		c.OK(rule, "module:"+spec.what+"-storage", token.NoPos, "%d element/map writes in the module: none into a slice or map reachable from a %s the writer did not build", n, spec.what)
	}
}
