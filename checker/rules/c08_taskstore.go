package rules

import (
	"go/token"
	"go/types"

	"golang.org/x/tools/go/ssa"

	"taskverif/an"
)

// taskStorageWrites checks C08.4: the per-stage copy of a task is a shallow
// copy — its slices and maps (commands, hooks, variations, …) are the shared
// task's own. Nothing in the module may therefore write an element of a slice
// or map that is reachable from a field of a task.Task it did not build
// itself: such a write is seen by every other stage, pipeline or direct run
// that uses the task.
//
// A value is definition-backed when it is a slice or map loaded from a field
// of a Task (unless that Task was allocated by the function and the field was
// given a container the function made), an element of reference type taken
// from a definition-backed slice or map (index, range), a re-slice of such a
// value, or a slice that copy() filled from a definition-backed slice whose
// elements are of reference type (the elements stay shared). Element stores
// (x[i] = v), map updates (m[k] = v) and append in place on a
// definition-backed value are violations. Helper parameters and results are
// followed within the module.
func taskStorageWrites(c *an.Ctx, rule string) {
	p := c.P
	isRef := func(t types.Type) bool {
		switch t.Underlying().(type) {
		case *types.Slice, *types.Map:
			return true
		}
		return false
	}
	elemIsRef := func(t types.Type) bool {
		switch u := t.Underlying().(type) {
		case *types.Slice:
			return isRef(u.Elem())
		case *types.Map:
			return isRef(u.Elem())
		}
		return false
	}
	// per function: values that hold shared elements because copy() put them there
	holdsShared := map[ssa.Value]bool{}
	sharedParam := map[*ssa.Parameter]bool{}
	sharedRet := map[*ssa.Function]bool{}
	var backed func(v ssa.Value, depth int) bool
	backed = func(v ssa.Value, depth int) bool {
		if v == nil || depth > 8 || !isRef(v.Type()) {
			return false
		}
		for _, s := range an.Sources(v) {
			switch x := s.(type) {
			case *ssa.Parameter:
				if sharedParam[x] {
					return true
				}
			case *ssa.UnOp:
				if x.Op != token.MUL {
					continue
				}
				switch a := x.X.(type) {
				case *ssa.FieldAddr:
					if !an.TypeIs(a.X.Type(), "pkg/task", "Task") {
						continue
					}
					// a field of a task the function builds itself, holding what the function stored there
					if fresh, copied := an.FreshBase(a.X); fresh && !copied {
						if fwd, ok := an.ForwardLoad(x); ok {
							if backed(fwd[0], depth+1) {
								return true
							}
							continue
						}
						continue
					}
					return true
				case *ssa.IndexAddr:
					// element of a slice that is backed by / holds shared elements
					if backed(a.X, depth+1) || holdsShared[an.Resolve(a.X)] {
						return true
					}
				}
			case *ssa.Lookup:
				if backed(x.X, depth+1) {
					return true
				}
			case *ssa.Extract:
				// range over a map / slice: value component
				if nx, ok := x.Tuple.(*ssa.Next); ok && x.Index == 2 {
					if rg, ok := nx.Iter.(*ssa.Range); ok && (backed(rg.X, depth+1) || holdsShared[an.Resolve(rg.X)]) {
						return true
					}
				}
				if lk, ok := x.Tuple.(*ssa.Lookup); ok && x.Index == 0 && backed(lk.X, depth+1) {
					return true
				}
				if call, ok := x.Tuple.(*ssa.Call); ok {
					if callee := call.Call.StaticCallee(); callee != nil && sharedRet[callee] {
						return true
					}
				}
			case *ssa.Slice:
				if backed(x.X, depth+1) {
					return true
				}
			case *ssa.Call:
				if callee := x.Call.StaticCallee(); callee != nil && sharedRet[callee] {
					return true
				}
				if b, ok := x.Call.Value.(*ssa.Builtin); ok && b.Name() == "append" && backed(x.Call.Args[0], depth+1) {
					return true
				}
			}
		}
		return false
	}
	var fns []*ssa.Function
	for _, f := range p.Funcs {
		if an.InModule(f) && f.Blocks != nil {
			fns = append(fns, f)
		}
	}
	// fixed point over copy(), parameters and results
	for round := 0; round < 6; round++ {
		changed := false
		for _, f := range fns {
			an.EachInstr(f, func(in ssa.Instruction) {
				call, ok := in.(*ssa.Call)
				if !ok {
					return
				}
				if b, isB := call.Call.Value.(*ssa.Builtin); isB && b.Name() == "copy" {
					dst, src := call.Call.Args[0], call.Call.Args[1]
					if elemIsRef(src.Type()) && (backed(src, 0) || holdsShared[an.Resolve(src)]) && !holdsShared[an.Resolve(dst)] {
						holdsShared[an.Resolve(dst)] = true
						// the slice value built on the same array
						if sl, ok := an.Resolve(dst).(*ssa.Slice); ok {
							holdsShared[sl.X] = true
						}
						changed = true
					}
					return
				}
				callee := call.Call.StaticCallee()
				if callee == nil || callee.Blocks == nil || !an.InModule(callee) {
					return
				}
				for i, a := range call.Call.Args {
					if i < len(callee.Params) && !sharedParam[callee.Params[i]] && isRef(a.Type()) && (backed(a, 0) || holdsShared[an.Resolve(a)]) {
						sharedParam[callee.Params[i]] = true
						changed = true
					}
				}
			})
			if !sharedRet[f] {
				for _, ret := range an.Returns(f) {
					for i := range ret.Results {
						if v := an.RetVal(ret, i); isRef(v.Type()) && backed(v, 0) {
							sharedRet[f] = true
							changed = true
						}
					}
				}
			}
		}
		if !changed {
			break
		}
	}
	n, nBad := 0, 0
	for _, f := range fns {
		an.EachInstr(f, func(in ssa.Instruction) {
			switch x := in.(type) {
			case *ssa.MapUpdate:
				n++
				if backed(x.Map, 0) {
					nBad++
					c.Bad(rule, an.Short(f)+":map-write(task)", x.Pos(), "%s writes an entry of a map that belongs to a task it did not build (%s): the per-stage copy of a task shares its maps with the task in the configuration, so every other stage, pipeline or direct run that uses the task sees the write", an.Short(f), an.Prov(x.Map))
				}
			case *ssa.Call:
				if b, ok := x.Call.Value.(*ssa.Builtin); ok && b.Name() == "append" && len(x.Call.Args) > 0 {
					n++
					if backed(x.Call.Args[0], 0) {
						nBad++
						c.Bad(rule, an.Short(f)+":append(task)", x.Pos(), "%s appends to a slice that belongs to a task it did not build (%s): with spare capacity — always so after a re-slice like s[:0] — the append overwrites elements of the array the configured task still uses", an.Short(f), an.Prov(x.Call.Args[0]))
					}
				}
			case *ssa.Store:
				ia, ok := x.Addr.(*ssa.IndexAddr)
				if !ok {
					return
				}
				n++
				if backed(ia.X, 0) {
					nBad++
					c.Bad(rule, an.Short(f)+":element-write(task)", x.Pos(), "%s writes an element of a slice that belongs to a task it did not build (%s): the per-stage copy of a task shares its slices with the task in the configuration", an.Short(f), an.Prov(ia.X))
				}
			}
		})
	}
	if nBad == 0 {
		c.OK(rule, "module:task-storage", token.NoPos, "%d element/map writes in the module: none into a slice or map reachable from a task the writer did not build", n)
	}
}
