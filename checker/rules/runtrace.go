package rules

import (
	"fmt"
	"go/token"
	"go/types"
	"sort"
	"strings"

	"golang.org/x/tools/go/ssa"

	"taskverif/an"
)

// The Run trace: TaskRunner.Run is explored with every helper of pkg/runner
// inlined (depth ≤ 4), so that the rules see the same sequence of primitive
// events whether a phase lives in Run or in a helper. Events are recognised
// by what an instruction does, never by the name of the function it is in.

// jobKind classifies the job compiled from / executed for a command value.
func commandKind(v ssa.Value, st *an.State) string {
	if st != nil {
		v = st.Root(v)
	}
	for _, src := range an.Sources(v) {
		ap := an.AccessPath(src)
		if an.TypeIs(ap.Base.Type(), "pkg/task", "Task") || (st != nil && an.TypeIs(st.Root(ap.Base).Type(), "pkg/task", "Task")) {
			switch ap.LastField() {
			case "Condition":
				return "condition"
			}
		}
		// element of t.Before / t.After / t.Commands
		if u, ok := src.(*ssa.UnOp); ok && u.Op == token.MUL {
			if ia, ok := u.X.(*ssa.IndexAddr); ok {
				base := ia.X
				if st != nil {
					base = st.Root(base)
				}
				switch an.AccessPath(base).LastField() {
				case "Before":
					return "before"
				case "After":
					return "after"
				case "Commands":
					return "command"
				}
			}
		}
	}
	return "?"
}

func jobKind(job ssa.Value, st *an.State) string {
	if st != nil {
		job = st.Root(job)
	}
	// the job walk: a φ advancing through .Next
	if phi, ok := job.(*ssa.Phi); ok {
		for _, ed := range phi.Edges {
			if an.AccessPath(ed).LastField() == "Next" {
				return "command"
			}
		}
	}
	for _, src0 := range an.Sources(job) {
		src := src0
		if st != nil {
			src = st.Root(src0)
		}
		if e, ok := src.(*ssa.Extract); ok {
			if call, ok := e.Tuple.(*ssa.Call); ok {
				if _, ok := resolveCmdCompiler(an.CurrentProg).asCall(call); ok {
					return ccCommandKind(call, st)
				}
				if _, ok := an.IsCallTo(call, fnCompileTask); ok {
					return "command"
				}
			}
		}
		// the job walk: a φ advancing through .Next, or its entry value
		if phi, ok := src.(*ssa.Phi); ok {
			for _, ed := range phi.Edges {
				if an.AccessPath(ed).LastField() == "Next" {
					return "command"
				}
			}
		}
	}
	return "?"
}

// runEvent labels an instruction of pkg/runner; "" = not an event. errs
// reports which value(s) carry the event's error.
// gateSelect: sel polls the Done channel of the runner's context (a non-blocking "has the runner been cancelled?");
// it returns the index of that case, or -1.
func gateSelect(sel *ssa.Select) int {
	ctxField := resolveRunnerState(an.CurrentProg).ctx
	for i, stt := range sel.States {
		if stt.Dir != types.RecvOnly {
			continue
		}
		for _, src := range an.Sources(stt.Chan) {
			call, ok := src.(*ssa.Call)
			if ok && call.Call.IsInvoke() && call.Call.Method.Name() == "Done" && an.FieldProv(call.Call.Value) == ctxField {
				return i
			}
		}
	}
	return -1
}

func runEvent(in ssa.Instruction, st *an.State) string {
	if sel, ok := in.(*ssa.Select); ok && !sel.Blocking && gateSelect(sel) >= 0 {
		return "gate"
	}
	switch x := in.(type) {
	case *ssa.MapUpdate:
		// the cleanup registry kept as a plain map (under a mutex) instead of a sync.Map
		if an.FieldProv(x.Map) == "TaskRunner.cleanupList" {
			return "cleanup.register"
		}
		return ""
	case *ssa.Store:
		if fa, ok := x.Addr.(*ssa.FieldAddr); ok && an.TypeIs(fa.X.Type(), "pkg/task", "Task") {
			switch an.AccessPath(fa).LastField() {
			case "Skipped":
				return "skip"
			case "Errored":
				return "errored"
			case "ExitCode":
				if st != nil {
					if a := st.Eval(x.Val); a.K == an.AConst {
						return "exitcode:=" + a.String()
					}
				}
				return "exitcode:=status"
			}
		}
		return ""
	case ssa.CallInstruction:
		cc := x.Common()
		name := an.ShortCallee(cc)
		if call, ok := resolveCmdCompiler(an.CurrentProg).asCall(in); ok {
			return "compile(" + ccCommandKind(call, st) + ")"
		}
		switch name {
		case fnCtxUp:
			return "ctx.Up"
		case fnCtxBefore:
			return "ctx.Before"
		case fnCtxAfter:
			return "ctx.After"
		case fnNewTaskOutput:
			return "output.new"
		case fnOutStart:
			return "output.start"
		case fnOutFinish:
			return "output.finish"
		case fnCompileTask:
			return "compile(task)"
		case fnExecIface, fnExecDefault:
			job := cc.Args[len(cc.Args)-1]
			return "exec(" + jobKind(job, st) + ")"
		case fnWgAdd:
			if an.FieldKey(cc.Args[0]) == resolveRunnerState(an.CurrentProg).running {
				return "register"
			}
		case fnWgDone:
			if an.FieldKey(cc.Args[0]) == resolveRunnerState(an.CurrentProg).running {
				return "unregister"
			}
		case "(*sync.Map).Store":
			if an.FieldKey(cc.Args[0]) == "TaskRunner.cleanupList" {
				return "cleanup.register"
			}
		case fnSet:
			if an.FieldProv(cc.Value) == "TaskRunner.env" {
				return "store"
			}
		}
		if cc.IsInvoke() && cc.Method.Name() == "Err" && an.FieldProv(cc.Value) == resolveRunnerState(an.CurrentProg).ctx {
			return "gate"
		}
	}
	return ""
}

var runRank = map[string]float64{
	"gate": 0, "register": 0.5, "cleanup.register": 0.9, "ctx.Up": 1, "ctx.Before": 2, "output.new": 2.5,
	"compile(condition)": 3, "exec(condition)": 3, "skip": 3.5,
	"compile(before)": 4, "exec(before)": 4, "compile(task)": 5, "compile(command)": 5, "output.start": 6,
	"exec(command)": 7, "errored": 7, "exitcode:=status": 7, "store": 8, "compile(after)": 9, "exec(after)": 9,
	"output.finish": 10, "ctx.After": 10, "exitcode:=0": 10, "unregister": 11,
}

// runRow is one row of the Run trace table.
type runRow struct {
	name       string
	fail       string // event whose error is non-nil ("" = none)
	exitStatus int    // for a failing exec: 1 = IsExitStatus says yes, 0 = no, -1 = unseeded
	af         int    // Task.AllowFailure: 1/0/-1
}

type runPath struct {
	events []string
	end    string
	ret    an.AVal
}

// traceRun explores Run for one row.
// staleWorld makes traceRun start from a task whose result flags are still set from an earlier run.
var staleWorld bool

func traceRun(c *an.Ctx, run *ssa.Function, task *ssa.Parameter, row runRow) []runPath {
	stale := staleWorld
	p := c.P
	ex := &an.Explorer{P: p, NoReturn: noReturn, MaxDepth: 4, MaxVisits: 3,
		Inline: func(f *ssa.Function) bool {
			o := an.Outer(f)
			return o.Pkg == run.Pkg && f != run && an.Short(f) != fnCtxUp && an.Short(f) != fnCtxBefore && an.Short(f) != fnCtxAfter && an.Short(f) != fnCtxDown &&
				an.Short(f) != fnCompileTask && !resolveCmdCompiler(an.CurrentProg).isFn(f)
		},
	}
	errOfEvent := func(v ssa.Value, st *an.State) (string, bool) {
		var call ssa.CallInstruction
		switch x := v.(type) {
		case *ssa.Extract:
			ci, ok := x.Tuple.(*ssa.Call)
			if !ok || !an.IsErrorType(x.Type()) {
				return "", false
			}
			call = ci
		case *ssa.Call:
			if !an.IsErrorType(x.Type()) {
				return "", false
			}
			call = x
		default:
			return "", false
		}
		ev := runEvent(call, st)
		if ev == "" {
			return "", false
		}
		return ev, true
	}
	ex.AtomSt = func(v ssa.Value, st *an.State) (an.AVal, bool) {
		// the cancellation test written as a poll of ctx.Done(): the case is taken iff the runner is cancelled
		if e, ok := v.(*ssa.Extract); ok && e.Index == 0 {
			if sel, ok := e.Tuple.(*ssa.Select); ok && !sel.Blocking {
				if k := gateSelect(sel); k >= 0 {
					if row.fail == "gate" {
						return an.AInt(int64(k)), true
					}
					return an.AInt(-1), true
				}
			}
		}
		if ev, ok := errOfEvent(v, st); ok {
			if ev == row.fail {
				// the first occurrence on the path is the one that fails: what follows it (a loop that goes on to the
				// next command instead of stopping, say) succeeds, so that a failure forgotten by a later success shows
				if ev != "gate" && count(st.Effects(), ev) > 1 {
					return an.AVal{K: an.ANil}, true
				}
				return an.AVal{K: an.ANonNil}, true
			}
			return an.AVal{K: an.ANil}, true
		}
		// NewDefaultExecutor never fails here (os.Getwd): keep the table on the phases
		if e, ok := v.(*ssa.Extract); ok && an.IsErrorType(e.Type()) {
			if call, ok := e.Tuple.(*ssa.Call); ok && isExecutorCtor(call.Call.StaticCallee()) {
				return an.AVal{K: an.ANil}, true
			}
		}
		if e, ok := v.(*ssa.Extract); ok && e.Index == 1 && row.exitStatus >= 0 {
			if call, ok := e.Tuple.(*ssa.Call); ok {
				if _, ok := an.IsCallTo(call, fnIsExitStatus, "mvdan.cc/sh/v3/interp.IsExitStatus"); ok {
					return an.ABool(row.exitStatus == 1), true
				}
			}
		}
		if u, ok := v.(*ssa.UnOp); ok && u.Op == token.MUL {
			if fa, ok := u.X.(*ssa.FieldAddr); ok && an.TypeIs(fa.X.Type(), "pkg/task", "Task") {
				// the task's result flags hold what the events of this path wrote (C07.2 checks that
				// nothing outside TaskRunner.Run writes them)
				switch an.AccessPath(fa).LastField() {
				case "Errored":
					return an.ABool(stale || has(st.Effects(), "errored")), true
				case "Skipped":
					return an.ABool(stale || has(st.Effects(), "skip")), true
				}
			}
		}
		if u, ok := v.(*ssa.UnOp); ok && u.Op == token.MUL && row.af >= 0 {
			if fa, ok := u.X.(*ssa.FieldAddr); ok && an.TypeIs(fa.X.Type(), "pkg/task", "Task") && an.AccessPath(fa).LastField() == "AllowFailure" {
				return an.ABool(row.af == 1), true
			}
		}
		return an.AVal{}, false
	}
	ex.Effect = func(in ssa.Instruction, st *an.State) string {
		return runEvent(in, st)
	}
	outs := ex.Run(run, run.Blocks[0], nil, nil)
	var paths []runPath
	for _, o := range outs {
		rp := runPath{events: o.Effects, end: o.End}
		if o.End == "return" && len(o.Ret) > 0 {
			rp.ret = o.Ret[len(o.Ret)-1]
		}
		paths = append(paths, rp)
	}
	c.Sites["run-trace"] = append(c.Sites["run-trace"], fmt.Sprintf("row %q: %d distinct paths", row.name, len(paths)))
	return paths
}

func has(events []string, e string) bool {
	for _, x := range events {
		if x == e {
			return true
		}
	}
	return false
}

func count(events []string, e string) int {
	n := 0
	for _, x := range events {
		if x == e {
			n++
		}
	}
	return n
}

func rankOf(e string) (float64, bool) {
	if strings.HasPrefix(e, "exitcode:=") && e != "exitcode:=0" {
		return 7, true
	}
	r, ok := runRank[e]
	return r, ok
}

// monotone reports the first pair of events that are out of phase order;
// only events whose rank lies in [lo, hi) are considered.
func monotone(events []string, lo, hi float64) string {
	last, lastE := -1.0, ""
	for _, e := range events {
		r, ok := rankOf(e)
		if !ok {
			return "unclassified event " + e
		}
		if r < lo || r >= hi {
			continue
		}
		if r < last {
			return fmt.Sprintf("%s runs after %s", e, lastE)
		}
		last, lastE = r, e
	}
	return ""
}

// runRows is the table shared by C06.1, C11.2, C12.1d, C14.2–4.
func runRows() []runRow {
	return []runRow{
		{"all succeed", "", -1, -1},
		{"runner cancelled", "gate", -1, -1},
		{"context up fails", "ctx.Up", -1, -1},
		{"context before fails", "ctx.Before", -1, -1},
		{"condition exits non-zero", "exec(condition)", 1, -1},
		{"condition cannot be evaluated", "exec(condition)", 0, -1},
		{"before command fails", "exec(before)", -1, -1},
		{"task does not compile", "compile(task)", -1, -1},
		{"command fails, not allowed", "exec(command)", 1, 0},
		{"command fails, allowed", "exec(command)", 1, 1},
		{"command interrupted", "exec(command)", 0, -1},
		{"after command fails", "exec(after)", -1, -1},
		// finishing the output is presentation: its failure is logged and changes nothing else
		{"output finish fails", "output.finish", -1, -1},
	}
}

type runTable struct {
	rows  []runRow
	paths map[string][]runPath
}

var runTableCache = map[*an.Ctx]*runTable{}

func getRunTable(c *an.Ctx) *runTable {
	if t, ok := runTableCache[c]; ok {
		return t
	}
	run := c.P.Func("pkg/runner", "TaskRunner", "Run")
	if run == nil {
		return nil
	}
	var task *ssa.Parameter
	for _, prm := range run.Params {
		if an.TypeIs(prm.Type(), "pkg/task", "Task") {
			task = prm
		}
	}
	t := &runTable{rows: runRows(), paths: map[string][]runPath{}}
	var lines []string
	for _, row := range t.rows {
		ps := traceRun(c, run, task, row)
		t.paths[row.name] = ps
		seen := map[string]bool{}
		var keys []string
		for _, pth := range ps {
			k := strings.Join(pth.events, ",") + "→" + pth.end + "(" + pth.ret.String() + ")"
			if !seen[k] {
				seen[k] = true
				keys = append(keys, k)
			}
		}
		sort.Strings(keys)
		if len(keys) > 4 {
			keys = append(keys[:4], fmt.Sprintf("… %d more", len(keys)-4))
		}
		lines = append(lines, fmt.Sprintf("%-32s -> %s", row.name, strings.Join(keys, " | ")))
	}
	c.Tables["run-trace"] = lines
	runTableCache[c] = t
	return t
}

// checkRunTable emits the obligations selected by `want` (a set of clause
// names) under rule.
func checkRunTable(c *an.Ctx, rule string, want map[string]bool) {
	t := getRunTable(c)
	run := c.P.Func("pkg/runner", "TaskRunner", "Run")
	if t == nil || run == nil {
		c.Und(rule, "runner.(*TaskRunner).Run", token.NoPos, "TaskRunner.Run not found")
		return
	}
	key := func(s string) string { return an.Short(run) + ":" + s }
	for _, row := range t.rows {
		if onlyHooks := want["hooks"] && len(want) == 1; onlyHooks && row.name != "before command fails" && row.name != "after command fails" {
			continue
		}
		paths := t.paths[row.name]
		if len(paths) == 0 {
			c.Und(rule, key("row "+row.name), run.Pos(), "no feasible path for row %q", row.name)
			continue
		}
		failRank := -1.0
		if row.fail != "" {
			failRank, _ = rankOf(row.fail)
		}
		var problems []string
		note := func(format string, a ...interface{}) { problems = append(problems, fmt.Sprintf(format, a...)) }
		sawFail := false
		for _, pth := range paths {
			ev := pth.events
			if pth.end == "bound" {
				// truncated by the loop bound: its prefix is covered by shorter paths; only order is checked
				if m := orderProblem(ev, want); m != "" {
					note("phase order violated: %s (events %v)", m, ev)
				}
				if row.fail != "" && has(ev, row.fail) {
					sawFail = true
				}
				continue
			}
			if pth.end != "return" {
				note("a path ends with %s after %v", pth.end, ev)
				continue
			}
			reachedFail := row.fail == "" || has(ev, row.fail)
			if row.fail != "" && reachedFail {
				sawFail = true
			}
			if m := orderProblem(ev, want); m != "" {
				note("phase order violated: %s (events %v)", m, ev)
			}
			// what may follow the failing event
			stops := row.fail != "" && reachedFail && row.name != "command fails, allowed" && row.name != "after command fails" && row.name != "output finish fails"
			if want["stop-on-failure"] && stops {
				after := false
				for _, e := range ev {
					if e == row.fail {
						after = true
						continue
					}
					if !after {
						continue
					}
					r, _ := rankOf(e)
					if r > failRank && r < 10 && e != "skip" && e != "errored" && !strings.HasPrefix(e, "exitcode") {
						note("after %s failed, %s still runs", row.fail, e)
					}
				}
				if row.name == "condition exits non-zero" {
					if !has(ev, "skip") {
						note("a condition that exits non-zero does not mark the task skipped")
					}
					if pth.ret.K != an.ANil {
						note("a skipped task reports an error")
					}
					if has(ev, "errored") {
						note("a skipped task is marked errored")
					}
				} else if pth.ret.K != an.ANonNil {
					note("Run does not return a non-nil error when %s fails (returns %s)", row.fail, pth.ret)
				}
			}
			// (a path that returns an error in a row where no event fails failed for a reason that is
			// not an event — an unknown context name, an unknown output format — and is not a success)
			if want["complete-on-success"] && (row.fail == "" || row.name == "command fails, allowed") && reachedFail && pth.ret.K == an.ANil {
				for _, need := range []string{"ctx.Up", "ctx.Before", "compile(task)", "output.start", "store"} {
					if !has(ev, need) {
						note("a successful run skips %s (events %v)", need, ev)
					}
				}
			}
			if want["hooks"] && reachedFail {
				switch row.name {
				case "before command fails":
					after := false
					for _, e := range ev {
						if e == row.fail && !after {
							after = true
							continue
						}
						if r, _ := rankOf(e); after && r >= 4 && r < 10 {
							note("after a before command failed, %s still runs", e)
						}
						if after && e == row.fail {
							note("after a before command failed, a further before command is executed")
						}
					}
					if pth.ret.K != an.ANonNil {
						note("a failing before command does not make Run return its error")
					}
				case "after command fails":
					if pth.ret.K == an.ANonNil {
						note("a failing after command makes Run return an error")
					}
				}
			}
			if want["context-failure"] && reachedFail && (row.name == "context up fails" || row.name == "context before fails") {
				after := false
				for _, e := range ev {
					if e == row.fail {
						after = true
						continue
					}
					if r, _ := rankOf(e); after && r > failRank && r < 11 {
						note("after %s failed, %s still runs", row.fail, e)
					}
				}
				if pth.ret.K != an.ANonNil {
					note("Run does not return a non-nil error when %s fails", row.fail)
				}
			}
			if want["reset"] {
				failedOrSkipped := has(ev, "errored") || has(ev, "skip")
				created := has(ev, "output.new") && row.fail != "output.new"
				if created {
					if has(ev, "exitcode:=0") == failedOrSkipped {
						if failedOrSkipped {
							note("ExitCode is reset to 0 although the task was marked errored or skipped (events %v)", ev)
						} else {
							note("ExitCode is not reset to 0 for a task that is neither errored nor skipped (events %v)", ev)
						}
					}
				}
				for i, e := range ev {
					if e == "exitcode:=0" {
						for _, later := range ev[i+1:] {
							if r, _ := rankOf(later); r < 10 {
								note("ExitCode is reset before %s ran", later)
							}
						}
					}
				}
			}
			if want["store"] {
				failed := row.fail != "" && reachedFail && row.name != "command fails, allowed" && row.name != "after command fails" && row.name != "output finish fails"
				if failed && has(ev, "store") {
					note("the task's output is stored although %s failed", row.fail)
				}
				if has(ev, "store") {
					// stored after the last command and before any after hook
					si := -1
					for i, e := range ev {
						if e == "store" {
							si = i
						}
					}
					for i, e := range ev {
						if e == "exec(command)" && i > si {
							note("the output is stored before the last command ran")
						}
					}
				}
			}
			if want["gate"] {
				if row.name == "runner cancelled" {
					for _, e := range ev {
						if e != "gate" {
							note("a cancelled runner's Run still performs %s", e)
						}
					}
				} else if len(ev) > 0 && ev[0] != "gate" {
					note("Run performs %s before testing whether the runner is cancelled", ev[0])
				} else if len(ev) > 1 && ev[1] != "register" {
					note("after passing the cancelled test Run performs %s before registering itself as in flight", ev[1])
				}
			}
			if want["before-once"] {
				n := count(ev, "ctx.Before")
				reachesTask := false
				for _, e := range ev {
					if r, _ := rankOf(e); r >= 3 && r < 10 {
						reachesTask = true
					}
				}
				if n > 1 {
					note("the context's before hook runs %d times in one task execution (events %v)", n, ev)
				}
				if reachesTask && n != 1 {
					note("the task's own phases run with the context's before hook executed %d times", n)
				}
				if has(ev, "ctx.Before") && !has(ev, "ctx.Up") {
					note("the context's before hook runs without Up")
				}
			}
			if want["after-once"] {
				created := false
				for i, e := range ev {
					if e == "output.new" && !(row.fail == "output.new") {
						created = true
						_ = i
					}
				}
				if created {
					if n := count(ev, "ctx.After"); n != 1 {
						note("with the context resolved and the output created, the context's after hook runs %d times on an exit of Run (events %v)", n, ev)
					}
					if n := count(ev, "output.finish"); n != 1 {
						note("the task output is finished %d times (events %v)", n, ev)
					}
				} else if has(ev, "ctx.After") {
					note("the context's after hook runs although the task never got its output (events %v)", ev)
				}
			}
			if want["cleanup-registration"] {
				if has(ev, "cleanup.register") && has(ev, "ctx.Up") {
					ci, ui := -1, -1
					for i, e := range ev {
						if e == "cleanup.register" && ci < 0 {
							ci = i
						}
						if e == "ctx.Up" && ui < 0 {
							ui = i
						}
					}
					if ci > ui {
						note("a named context is registered for cleanup only after Up was attempted")
					}
				}
			}
		}
		if row.fail != "" && !sawFail && row.name != "runner cancelled" {
			// the failing event was never reached on any path
			if want["stop-on-failure"] || want["order-task"] || want["order-context"] || want["hooks"] || want["context-failure"] {
				c.Und(rule, key("row "+row.name), run.Pos(), "no path of Run reaches %s: the row cannot be exercised", row.fail)
				continue
			}
		}
		problems = dedup(problems)
		if len(problems) > 0 {
			c.Bad(rule, key("row "+row.name), run.Pos(), "%s: %s", row.name, strings.Join(problems, "; "))
		} else {
			c.OK(rule, key("row "+row.name), run.Pos(), "%d paths satisfy the selected clauses", len(paths))
		}
	}
}

func orderProblem(ev []string, want map[string]bool) string {
	if want["order-task"] {
		if m := monotone(ev, 3, 10); m != "" {
			return m
		}
	}
	if want["order-context"] {
		// context events relative to everything else: Up < Before < task phases < After
		var ctx []string
		for _, e := range ev {
			r, _ := rankOf(e)
			if strings.HasPrefix(e, "ctx.") || e == "cleanup.register" || (r >= 3 && r < 10) {
				ctx = append(ctx, e)
			}
		}
		last, lastE := -1.0, ""
		for _, e := range ctx {
			r, _ := rankOf(e)
			if r >= 3 && r < 10 {
				r = 5 // all task phases are one block here
			}
			if r < last {
				return e + " runs after " + lastE
			}
			last, lastE = r, e
		}
	}
	return ""
}

// ccCommandKind classifies the command a call of the command compiler is
// given (the positional argument or the options struct's field).
func ccCommandKind(call *ssa.Call, st *an.State) string {
	cc := resolveCmdCompiler(an.CurrentProg)
	kinds := map[string]bool{}
	for _, v := range cc.arg(call, "command") {
		kinds[commandKind(v, st)] = true
	}
	if len(kinds) == 1 {
		for k := range kinds {
			return k
		}
	}
	return "?"
}

// freshRun: what a run does is decided by this run alone. A task object can be run more than once (named twice on
// the command line, run directly after a pipeline, fired again by a watcher) and its result flags are never
// reset, so the table's first row is explored a second time from a task whose Skipped and Errored flags are still
// set from an earlier run: the sequence of phases must be the same.
func freshRun(c *an.Ctx, rule string) {
	run := c.P.Func("pkg/runner", "TaskRunner", "Run")
	if run == nil {
		c.Und(rule, "runner.(*TaskRunner).Run", token.NoPos, "TaskRunner.Run not found")
		return
	}
	var task *ssa.Parameter
	for _, prm := range run.Params {
		if an.TypeIs(prm.Type(), "pkg/task", "Task") {
			task = prm
		}
	}
	row := runRows()[0]
	phases := func(ps []runPath) []string {
		seen := map[string]bool{}
		var out []string
		for _, pth := range ps {
			if pth.end == "bound" {
				continue
			}
			var ev []string
			for _, e := range pth.events {
				if r, ok := rankOf(e); ok && r >= 1 && r < 10 && !strings.HasPrefix(e, "exitcode:=") && e != "errored" && e != "skip" {
					ev = append(ev, e)
				}
			}
			k := strings.Join(ev, ",") + "→" + pth.ret.String()
			if !seen[k] {
				seen[k] = true
				out = append(out, k)
			}
		}
		sort.Strings(out)
		return out
	}
	staleWorld = false
	clean := phases(traceRun(c, run, task, row))
	staleWorld = true
	dirty := phases(traceRun(c, run, task, row))
	staleWorld = false
	same := len(clean) == len(dirty) && len(clean) > 0
	for i := range clean {
		if i < len(dirty) && clean[i] != dirty[i] {
			same = false
		}
	}
	c.Check(same, rule, an.Short(run)+":fresh-run", run.Pos(), fmt.Sprintf("the phases of a run do not depend on result flags an earlier run left in the task (%d paths either way)", len(clean)), fmt.Sprintf("Run behaves differently for a task whose Skipped/Errored flags are still set from an earlier run (phases %v instead of %v): a task that was skipped or failed once does nothing, or something else, when it is run again", dirty, clean))
}
