package rules

import (
	"fmt"
	"go/token"
	"go/types"
	"strings"

	"golang.org/x/tools/go/ssa"

	"taskverif/an"
)

func init() { register("C14", checkC14) }

func checkC14(c *an.Ctx) {
	c.Rule("C14.1", "once (E8): the loops over ExecutionContext.up and .down exist only inside functions handed to sync.Once.Do on a Once field of the context; a failing up command stores its error in startupError; Up returns that field after Do on every call")
	c.Rule("C14.2", "up before anything, failure blocks the task (E3): in Run the context resolution dominates every phase and its failure returns a non-nil error without any phase; inside it Up precedes Before and Up's failure returns first")
	c.Rule("C14.3", "before exactly once per task execution (E10): ExecutionContext.Before has one call site, in the context-resolution function, outside any loop, and that function has one call site, in Run, outside any loop")
	c.Rule("C14.4", "after on all exits (E3): once the context is resolved and the output created, every exit of Run runs exactly one ExecutionContext.After on that context (deferred), after the task's own after hooks")
	c.Rule("C14.5", "down (E3/E4): a named context is registered for cleanup before Up is attempted; Finish calls Down on every registered entry; every cmd/taskctl function that runs a task or a pipeline calls Finish on all its exits")
	c.Rule("C14.7", "run to completion (E4 call graph): every call of the shell interpreter (interp.Runner.Run) in pkg/executor is reached from DefaultExecutor.Execute by synchronous calls only and is itself a plain call — when Execute returns the command is over, so after/down (C14.4, C14.5) cannot overlap a command of the task")
	c.Rule("C14.6", "hooks outlive cancellation (E5 provenance): the context handed to the executor by the functions under ExecutionContext.Up/Down/Before/After does not derive from the runner's cancellable context (TaskRunner.ctx, context.WithCancel) — otherwise a cancelled run skips after and down, which C14.4/C14.5 promise on every exit")
	c.NotDecided = append(c.NotDecided, "'immediately before' in time; ordering between different contexts", "down relative to later CLI targets (Finish is per target)", "watch mode never calls Finish (outside the statement's CLI clause: observation)")
	p := c.P
	r := resolveRunner(c, "C14.0")
	if !r.ok {
		return
	}
	c.OK("C14.0", "runner roles", r.run.Pos(), "context resolution=%s", an.Short(r.ctxFn))

	onceGuards(c, "C14.1")
	hookContexts(c, "C14.6")
	runToCompletion(c, "C14.7")

	// C14.2–C14.4 on the Run trace (every helper of pkg/runner inlined)
	checkRunTable(c, "C14.2", map[string]bool{"order-context": true, "context-failure": true})
	checkRunTable(c, "C14.3", map[string]bool{"before-once": true})
	checkRunTable(c, "C14.4", map[string]bool{"after-once": true})
	// Up, Before and After act on one context object
	var upRecv, beforeRecv, afterRecv []ssa.Value
	for _, fn := range r.scope {
		for _, f2 := range an.WithAnon(fn) {
			an.EachInstr(f2, func(in ssa.Instruction) {
				if cc, ok := an.IsCallTo(in, fnCtxUp); ok && an.Short(f2) != fnCtxBefore {
					upRecv = append(upRecv, cc.Args[0])
				}
				if cc, ok := an.IsCallTo(in, fnCtxBefore); ok {
					beforeRecv = append(beforeRecv, cc.Args[0])
				}
				if cc, ok := an.IsCallTo(in, fnCtxAfter); ok {
					afterRecv = append(afterRecv, cc.Args[0])
				}
			})
		}
	}
	overlap := func(as, bs []ssa.Value) bool {
		for _, a := range as {
			for _, b := range bs {
				sa := p.DeepSources(a, 3, true)
				sb := p.DeepSources(b, 3, true)
				for _, x := range sa {
					for _, y := range sb {
						if x == y {
							return true
						}
					}
				}
			}
		}
		return false
	}
	if len(upRecv) == 0 || len(beforeRecv) == 0 || len(afterRecv) == 0 {
		c.Bad("C14.2", an.Short(r.run)+":context-hooks", r.run.Pos(), "Run's closure does not call all of Up, Before and After on the task's context (%d/%d/%d call sites)", len(upRecv), len(beforeRecv), len(afterRecv))
	} else {
		c.Check(overlap(upRecv, beforeRecv), "C14.2", an.Short(r.ctxFn)+":same-context", r.ctxFn.Pos(), "Up and Before act on the same context", "Up and Before act on different contexts")
		c.Check(overlap(upRecv, afterRecv), "C14.4", an.Short(r.run)+":After(context)", r.run.Pos(), "After runs on the context that was brought up", "After does not run on the context that was brought up for the task")
	}
	// a failing context before fails the task: its error is not dropped where it is called
	for _, fn := range r.scope {
		for _, ci := range an.CallsIn(fn, fnCtxBefore) {
			fate := p.ErrFate(ci, noReturn)
			c.Check(fate.Kind == "propagated" || fate.Kind == "converted", "C14.2", an.Short(fn)+":err(Before)", ci.Pos(), "a failing context before fails the task", "a failing context before is dropped: "+fate.Detail)
		}
	}

	downRules(c, r, "C14.5")

	// C14.8: a context's hook lists are what the configuration declares, once. Imported documents are merged
	// with mergo.WithAppendSlice, so a file that is loaded twice (a visited mark under another name than the one
	// looked up, an import resolved against the wrong directory) contributes its up/down/before/after commands
	// twice — each then runs twice per use, behind the very Once guards that are supposed to prevent it. The
	// clauses that make every file count once are C17.1 and C17.3; they are obligations of C14 too.
	c.Rule("C14.8", "hook lists are declared once (= C17.1 + C17.3): every configuration file reachable through imports is loaded at most once per load and from the location the import names, so the append-merge of imported documents cannot repeat a context's up/down/before/after commands")
	sub := an.NewCtx("C17", c.P)
	checkC17(sub)
	nSub := 0
	for _, o := range sub.Obs {
		if o.Rule != "C17.1" && o.Rule != "C17.3" && o.Rule != "C17.0" {
			continue
		}
		nSub++
		o.Rule = "C14.8"
		o.Construct = "[" + "imports" + "] " + o.Construct
		c.Obs = append(c.Obs, o)
	}
	if nSub == 0 {
		c.Und("C14.8", "loader:imports", token.NoPos, "the import clauses of the loader produced no obligation")
	}
}

func onceGuards(c *an.Ctx, rule string) {
	p := c.P
	for _, f := range []struct{ field, method string }{{"up", "Up"}, {"down", "Down"}} {
		n := 0
		for _, fn := range p.Funcs {
			if !inPkgs("pkg/runner")(fn) {
				continue
			}
			for _, l := range an.Loops(fn) {
				op := l.RangeOperand()
				if op == nil || !has(hookRoles(p, op), f.field) {
					continue
				}
				n++
				key := an.Short(fn) + ":loop(" + f.field + ")"
				// fn must be a closure passed to (*sync.Once).Do on a field of the context, and called nowhere else
				okOnce := false
				other := false
				// every place the function is used as a value: closures made from it and bound method values
				for _, par := range p.Funcs {
					an.EachInstr(par, func(in ssa.Instruction) {
						mc, ok := in.(*ssa.MakeClosure)
						if !ok || p.Unwrap(mc.Fn.(*ssa.Function)) != fn || mc.Referrers() == nil {
							return
						}
						for _, use := range *mc.Referrers() {
							if cc, ok := an.IsCallTo(use, "(*sync.Once).Do"); ok && strings.HasPrefix(an.FieldKey(cc.Args[0]), "ExecutionContext.") && cc.Args[1] == ssa.Value(mc) {
								okOnce = true
							} else if _, dbg := use.(*ssa.DebugRef); !dbg {
								other = true
							}
						}
					})
				}
				// and it is not called directly from anywhere
				for _, site := range p.CallSitesOf(fn) {
					if _, isDo := an.IsCallTo(site, "(*sync.Once).Do"); !isDo {
						other = true
					}
				}
				c.Check(okOnce && !other, rule, key, fn.Pos(), "runs only inside sync.Once.Do on the context", "the "+f.field+" commands are not confined to a sync.Once.Do on the context: overlapping tasks can run them twice or get past them before they finished")
				if f.field == "up" {
					// failing command → startupError := err
					var svc *ssa.Call
					for b := range l.Blocks {
						for _, in := range b.Instrs {
							if call, ok := in.(*ssa.Call); ok && an.ErrResultIndex(call.Call.Signature()) >= 0 {
								svc = call
							}
						}
					}
					if svc == nil {
						c.Und(rule, key+":command", fn.Pos(), "no command is run in the up loop")
						continue
					}
					// (a setter method of the context that stores its argument is inlined)
					ex := &an.Explorer{P: p, NoReturn: noReturn, MaxDepth: 2, Inline: func(g *ssa.Function) bool {
						if an.Outer(g).Pkg != fn.Pkg || g == fn {
							return false
						}
						stores := false
						an.EachInstr(g, func(in2 ssa.Instruction) {
							if sto, ok := in2.(*ssa.Store); ok {
								if fa, ok := sto.Addr.(*ssa.FieldAddr); ok && an.TypeField(fa) == "ExecutionContext.startupError" {
									stores = true
								}
							}
						})
						return stores
					}}
					l.Bound(ex)
					ex.Atom = func(v ssa.Value) (an.AVal, bool) {
						if v == ssa.Value(svc) {
							return an.AVal{K: an.ANonNil}, true
						}
						return an.AVal{}, false
					}
					ex.Effect = func(in ssa.Instruction, st *an.State) string {
						if sto, ok := in.(*ssa.Store); ok {
							if fa, ok := sto.Addr.(*ssa.FieldAddr); ok && an.TypeField(fa) == "ExecutionContext.startupError" && (an.SameValue(sto.Val, svc) || st.SameRoot(sto.Val, svc)) {
								return "startupError:=err"
							}
						}
						return ""
					}
					outs := ex.RunFrom(fn, svc, nil)
					good := len(outs) > 0
					for _, o := range outs {
						has := false
						for _, e := range o.Effects {
							if e == "startupError:=err" {
								has = true
							}
						}
						if !has {
							good = false
						}
					}
					c.Check(good, rule, key+":remember-error", svc.Pos(), "a failing up command is remembered in startupError", "a failing up command is not stored in startupError: later callers see a context that looks healthy")
				}
			}
		}
		if n == 0 {
			c.Bad(rule, "ExecutionContext."+f.field+":loop", token.NoPos, "the context's %s commands are never run", f.field)
		}
	}
	up := p.Func("pkg/runner", "ExecutionContext", "Up")
	if up != nil {
		var do ssa.Instruction
		for _, ci := range an.CallsIn(up, "(*sync.Once).Do") {
			do = ci
		}
		good := do != nil
		for _, ret := range an.Returns(up) {
			if (an.FieldProv(an.RetVal(ret, 0)) != "ExecutionContext.startupError" && p.DeepFieldProv(an.RetVal(ret, 0)) != "ExecutionContext.startupError") || do == nil || !an.Dominates(do, ret) {
				good = false
			}
		}
		c.Check(good, rule, an.Short(up)+":returns-startupError", up.Pos(), "Up returns the remembered startup error after Do, on every call", "Up does not return ExecutionContext.startupError after Once.Do: a later caller does not learn that up failed (or returns before up completed)")
	}
}

func downRules(c *an.Ctx, r *runnerRoles, rule string) {
	p := c.P
	// registration before Up: on the Run trace
	checkRunTable(c, rule, map[string]bool{"cleanup-registration": true})
	f := r.ctxFn
	var store ssa.Instruction
	for _, fn := range r.scope {
		for _, ci := range an.CallsIn(fn, "(*sync.Map).Store") {
			if an.FieldKey(ci.Common().Args[0]) == "TaskRunner.cleanupList" {
				store, f = ci, fn
			}
		}
	}
	// … or a plain map in the same field (guarded by a mutex of its own)
	var mapStore *ssa.MapUpdate
	if store == nil {
		for _, fn := range r.scope {
			an.EachInstr(fn, func(in ssa.Instruction) {
				if mu, ok := in.(*ssa.MapUpdate); ok && an.FieldProv(mu.Map) == "TaskRunner.cleanupList" {
					mapStore, store, f = mu, in, fn
				}
			})
		}
	}
	if store == nil {
		c.Bad(rule, an.Short(f)+":register", f.Pos(), "a resolved context is never registered for cleanup")
	} else {
		var val ssa.Value
		if mapStore != nil {
			val = mapStore.Value
		} else {
			val = store.(ssa.CallInstruction).Common().Args[2]
		}
		okVal := false
		for _, src := range p.DeepSources(val, 2, false) {
			if strings.Contains(an.FieldProv(src), "TaskRunner.contexts[") {
				if in, ok := src.(ssa.Instruction); ok && in.Parent() == store.Parent() && an.Dominates(in, store) {
					okVal = true
				}
			}
		}
		c.Check(okVal, rule, an.Short(f)+":register(value)", store.Pos(), "the registered value is the context looked up", "the registered value is not the context looked up in TaskRunner.contexts: "+an.FieldProv(val))
	}
	// Finish → Range callback → Down, returns true
	fin := r.finish
	good := false
	for _, ci := range an.CallsIn(fin, "(*sync.Map).Range") {
		if an.FieldKey(ci.Common().Args[0]) != "TaskRunner.cleanupList" {
			continue
		}
		for _, src := range an.Sources(ci.Common().Args[1]) {
			var cb *ssa.Function
			switch x := src.(type) {
			case *ssa.MakeClosure:
				cb = x.Fn.(*ssa.Function)
			case *ssa.Function:
				cb = x
			}
			if cb == nil {
				continue
			}
			downs := an.CallsIn(cb, fnCtxDown)
			allTrue := true
			for _, ret := range an.Returns(cb) {
				k, ok := an.RetVal(ret, 0).(*ssa.Const)
				if !ok || k.Value == nil || k.Value.ExactString() != "true" {
					allTrue = false
				}
			}
			onAll := false
			if len(downs) > 0 {
				onAll, _ = an.OnAllPathsToExit(cb.Blocks[0].Instrs[0], func(in ssa.Instruction) bool { return in == downs[0].(ssa.Instruction) }, an.IsPanicExit)
			}
			if len(downs) > 0 && !onAll {
				// a comma-ok assertion of the stored value to the one type every Store on the list puts there
				// always succeeds: explore the callback with that knowledge
				stored := map[string]bool{}
				for _, g := range c.P.Funcs {
					for _, sc := range an.CallsIn(g, "(*sync.Map).Store") {
						if an.FieldKey(sc.Common().Args[0]) == "TaskRunner.cleanupList" {
							v := sc.Common().Args[2]
							if mi, ok := v.(*ssa.MakeInterface); ok {
								stored[mi.X.Type().String()] = true
							} else {
								stored["?"] = true
							}
						}
					}
				}
				ex := &an.Explorer{P: c.P, NoReturn: noReturn}
				ex.Atom = func(v ssa.Value) (an.AVal, bool) {
					e, ok := v.(*ssa.Extract)
					if !ok || e.Index != 1 {
						return an.AVal{}, false
					}
					ta, ok := e.Tuple.(*ssa.TypeAssert)
					if !ok || !ta.CommaOk || len(cb.Params) < 2 || !an.SameValue(ta.X, cb.Params[len(cb.Params)-1]) {
						return an.AVal{}, false
					}
					if len(stored) == 1 && stored[ta.AssertedType.String()] {
						return an.ABool(true), true
					}
					return an.AVal{}, false
				}
				ex.Effect = func(in ssa.Instruction, st *an.State) string {
					if in == downs[0].(ssa.Instruction) {
						return "down"
					}
					return ""
				}
				outs := ex.Run(cb, cb.Blocks[0], nil, nil)
				onAll = len(outs) > 0
				for _, o := range outs {
					if o.End == "return" && !has(o.Effects, "down") {
						onAll = false
					}
				}
			}
			good = len(downs) > 0 && allTrue && onAll
			if !good && allTrue && len(downs) == 0 {
				// second idiom: the callback only collects every entry into a list (no command runs inside Range),
				// and Finish then calls Down on every element of that list
				var cell *ssa.Alloc
				collects, _ := an.OnAllPathsToExit(cb.Blocks[0].Instrs[0], func(in ssa.Instruction) bool {
					st, ok := in.(*ssa.Store)
					if !ok {
						return false
					}
					call, ok := st.Val.(*ssa.Call)
					if !ok {
						return false
					}
					if b, ok := call.Call.Value.(*ssa.Builtin); !ok || b.Name() != "append" {
						return false
					}
					fv, ok := st.Addr.(*ssa.FreeVar)
					if !ok {
						return false
					}
					// the appended element is the entry's value
					fromValue := false
					for _, e := range an.VariadicElems(call.Call.Args[1]) {
						for _, src := range an.Sources(e) {
							if ta, ok := src.(*ssa.TypeAssert); ok {
								src = ta.X
							}
							if src == ssa.Value(cb.Params[len(cb.Params)-1]) {
								fromValue = true
							}
						}
					}
					if !fromValue {
						return false
					}
					if mc, ok := src.(*ssa.MakeClosure); ok {
						for i, b := range mc.Bindings {
							if i < len(cb.FreeVars) && cb.FreeVars[i] == fv {
								cell, _ = b.(*ssa.Alloc)
							}
						}
					}
					return true
				}, an.IsPanicExit)
				if collects && cell != nil {
					for _, l := range an.Loops(fin) {
						op := l.RangeOperand()
						u, ok := op.(*ssa.UnOp)
						if op == nil || !ok || u.X != ssa.Value(cell) || !an.Dominates(ci.(ssa.Instruction), l.Header.Instrs[0]) {
							continue
						}
						_, elems := l.RangeKeyValue()
						ex := &an.Explorer{P: c.P, NoReturn: noReturn}
						l.Bound(ex)
						ex.Effect = func(in ssa.Instruction, st *an.State) string {
							if cc, ok := an.IsCallTo(in, fnCtxDown); ok {
								for _, e := range elems {
									if an.SameValue(cc.Args[0], e) {
										return "down"
									}
								}
							}
							return ""
						}
						outs := ex.Run(fin, l.BodyEntry(), l.Header, nil)
						every := len(outs) > 0
						for _, o := range outs {
							if !(o.End == "stop" && o.StopBlock == l.Header && count(o.Effects, "down") == 1) {
								every = false
							}
						}
						if every {
							good = true
						}
					}
				}
			}
		}
	}
	if !good && mapStore != nil {
		good = downOverMap(c, fin)
	}
	c.Check(good, rule, an.Short(fin)+":down-all", fin.Pos(), "Finish runs Down on every registered context (the Range callback always continues)", "Finish does not run Down on every registered context")
	// CLI: Finish on all exits
	sched := p.Func("pkg/scheduler", "Scheduler", "Schedule")
	schedFinish := p.Func("pkg/scheduler", "Scheduler", "Finish")
	n := 0
	for _, fn := range p.Funcs {
		if !inPkgs("cmd/taskctl")(fn) {
			continue
		}
		an.EachInstr(fn, func(in ssa.Instruction) {
			call, ok := in.(*ssa.Call)
			if !ok {
				return
			}
			runs := false
			for _, callee := range p.Callees(&call.Call) {
				if callee == r.run || callee == sched {
					runs = true
				}
			}
			if !runs {
				return
			}
			n++
			isFinish := func(x ssa.Instruction) bool {
				ci, ok := x.(ssa.CallInstruction)
				if !ok {
					return false
				}
				for _, callee := range p.Callees(ci.Common()) {
					if callee == r.finish || callee == schedFinish {
						return true
					}
					if _, isDefer := x.(*ssa.Defer); isDefer && len(an.CallsIn(callee, "(pkg/runner.TaskRunner).Finish", "(pkg/scheduler.Scheduler).Finish")) > 0 {
						return true
					}
				}
				return false
			}
			var w *ssa.BasicBlock
			var finishAfter func(at ssa.Instruction, depth int) bool
			finishAfter = func(at ssa.Instruction, depth int) bool {
				f := at.Parent()
				ok, ww := an.OnAllPathsToExit(at, isFinish, nil)
				// or a Finish deferred before the call
				an.EachInstr(f, func(x ssa.Instruction) {
					if d, isD := x.(*ssa.Defer); isD && isFinish(d) && an.Dominates(d, at) {
						ok = true
					}
				})
				if ok {
					return true
				}
				if depth == 0 {
					w = ww
				}
				// the function leaves it to its callers: every call of it is followed by Finish in the same way
				if depth >= 2 || f.Parent() != nil {
					return false
				}
				sites := p.CallSitesOf(f)
				if len(sites) == 0 {
					return false
				}
				for _, s2 := range sites {
					in2, isIn := s2.(ssa.Instruction)
					if _, isCall := s2.(*ssa.Call); !isCall || !isIn || !finishAfter(in2, depth+1) {
						return false
					}
				}
				return true
			}
			all := finishAfter(call, 0)
			where := ""
			if w != nil {
				where = p.Pos(w.Instrs[len(w.Instrs)-1].Pos())
			}
			c.Check(all, rule, an.Short(fn)+":Finish-on-all-exits", call.Pos(), "every exit after the run passes through Finish", fmt.Sprintf("%s can return (at %s) after running the target without calling Finish: the contexts' down commands are skipped exactly when the target failed", an.Short(fn), where))
		})
	}
	if n == 0 {
		c.Und(rule, "cmd/taskctl:run-sites", token.NoPos, "no CLI function runs a task or a pipeline")
	}
	// Scheduler.Finish forwards to the runner
	if schedFinish != nil {
		c.Check(len(an.CallsIn(schedFinish, fnRunnerFinish)) > 0, rule, an.Short(schedFinish)+":forwards", schedFinish.Pos(), "Scheduler.Finish finishes its runner", "Scheduler.Finish does not finish its runner")
	}
}

// hookContexts checks C14.6.
func hookContexts(c *an.Ctx, rule string) {
	p := c.P
	var roots []*ssa.Function
	for _, name := range []string{"Up", "Down", "Before", "After"} {
		if f := p.Func("pkg/runner", "ExecutionContext", name); f != nil {
			roots = append(roots, f)
		}
	}
	if len(roots) < 4 {
		c.Und(rule, "runner.(*ExecutionContext):hooks", token.NoPos, "Up/Down/Before/After not all found")
		return
	}
	scope := p.Reach(roots, func(e an.CallEdge) bool { return an.Outer(e.Callee).Pkg == roots[0].Pkg })
	n := 0
	for fn := range scope {
		for _, ci := range an.CallsIn(fn, fnExecIface, fnExecDefault) {
			n++
			args := ci.Common().Args
			ctxArg := args[0]
			if !ci.Common().IsInvoke() {
				ctxArg = args[1]
			}
			bad := ""
			for _, src := range p.DeepSourcesFields(ctxArg, 3) {
				switch x := src.(type) {
				case *ssa.Call:
					switch an.ShortCallee(&x.Call) {
					case "context.Background", "context.TODO":
						continue
					}
					bad = "the result of " + an.ShortCallee(&x.Call)
				case *ssa.Extract:
					if call, ok := x.Tuple.(*ssa.Call); ok {
						name := an.ShortCallee(&call.Call)
						if name == "context.WithTimeout" || name == "context.WithDeadline" {
							// its own deadline; the parent decides
							ok2 := true
							for _, ps := range p.DeepSourcesFields(call.Call.Args[0], 3) {
								if pc, isCall := ps.(*ssa.Call); !isCall || (an.ShortCallee(&pc.Call) != "context.Background" && an.ShortCallee(&pc.Call) != "context.TODO") {
									ok2 = false
								}
							}
							if ok2 {
								continue
							}
						}
						bad = "derived by " + name
					}
				case *ssa.UnOp:
					bad = an.FieldProv(x)
				default:
					bad = an.FieldProv(src)
				}
			}
			key := an.Short(fn) + ":Execute(ctx)"
			if bad != "" {
				c.Bad(rule, key, ci.Pos(), "a context hook command runs on a context that can be %s: when the run is cancelled the after and down commands are killed (or never start), so a cancelled run leaves before without after and up without down", bad)
			} else {
				c.OK(rule, key, ci.Pos(), "context hook commands run on context.Background()")
			}
		}
	}
	if n == 0 {
		c.Und(rule, "runner.(*ExecutionContext):Execute", token.NoPos, "no executor call under the context hooks")
	}
}

// runToCompletion checks C14.7.
func runToCompletion(c *an.Ctx, rule string) {
	p := c.P
	er := resolveExec(p)
	if er.ex == nil {
		c.Und(rule, "executor.(*DefaultExecutor).Execute", token.NoPos, "Execute not found")
		return
	}
	n := 0
	for _, fn := range p.Funcs {
		if an.Outer(fn).Pkg != er.ex.Pkg {
			continue
		}
		for _, ci := range an.CallsIn(fn, fnInterpRun) {
			n++
			key := an.Short(fn) + ":interp.Run"
			_, plain := ci.(*ssa.Call)
			switch {
			case !plain:
				c.Bad(rule, key, ci.Pos(), "the interpreter is started with go/defer in %s: Execute can return while the command is still running, so the task's after hook and the context's down can run during the command", an.Short(fn))
			case !er.in[fn] && waitedGoroutine(p, er, fn, ci.(*ssa.Call)):
				c.OK(rule, key, ci.Pos(), "the interpreter runs in a goroutine whose completion Execute's side receives on every path before it returns")
			case !er.in[fn]:
				c.Bad(rule, key, ci.Pos(), "the interpreter runs in %s, which Execute does not reach by synchronous calls (a goroutine is started in between): Execute can return while the command is still running, so the task's after hook and the context's down can run during the command", an.Short(fn))
			default:
				c.OK(rule, key, ci.Pos(), "the interpreter runs on Execute's own goroutine")
			}
		}
	}
	if n == 0 {
		c.Und(rule, an.Short(er.ex)+":interp.Run", er.ex.Pos(), "pkg/executor never runs the interpreter")
	}
}

// waitedGoroutine recognises `done := make(chan T, n); go func() { …; done <-
// run() }(); … <-done` with the receive on every path: fn (the function
// containing the interpreter call) is started by exactly one go statement in
// a function Execute reaches synchronously, sends on a channel after the call
// on all its paths, and the starter receives from that channel — directly or
// in the select case it then takes — on every path from the go statement to
// its exits.
func waitedGoroutine(p *an.Prog, er *execRoles, fn *ssa.Function, run *ssa.Call) bool {
	sites := p.CallSitesOf(fn)
	if len(sites) != 1 {
		return false
	}
	g, ok := sites[0].(*ssa.Go)
	if !ok || !er.in[g.Parent()] {
		return false
	}
	// the channel the goroutine signals on after the interpreter returned
	var ch ssa.Value
	okSend, _ := an.OnAllPathsToExit(run, func(x ssa.Instruction) bool {
		if snd, ok := x.(*ssa.Send); ok {
			r := an.Resolve(snd.Chan)
			if ch == nil || ch == r {
				ch = r
				return true
			}
		}
		return false
	}, nil)
	if !okSend || ch == nil {
		return false
	}
	if _, isMake := ch.(*ssa.MakeChan); !isMake {
		return false
	}
	isRecv := func(x ssa.Instruction) bool {
		if u, ok := x.(*ssa.UnOp); ok && u.Op == token.ARROW && an.Resolve(u.X) == ch {
			return true
		}
		// the first instruction of a block entered only when a select took its receive from ch
		b := x.Block()
		if len(b.Instrs) == 0 || b.Instrs[0] != x {
			return false
		}
		// the compiler's "blocking select matched no case" panic is unreachable
		if mi, ok := x.(*ssa.MakeInterface); ok && len(b.Instrs) == 2 {
			if _, isPanic := b.Instrs[1].(*ssa.Panic); isPanic {
				if k, ok := an.ConstString(mi.X); ok && strings.HasPrefix(k, "blocking select matched no case") {
					return true
				}
			}
		}
		for _, gd := range an.Guards(b) {
			bo, ok := gd.Cond.(*ssa.BinOp)
			if !ok || bo.Op != token.EQL || !gd.Outcome {
				continue
			}
			ex, ok := bo.X.(*ssa.Extract)
			if !ok || ex.Index != 0 {
				continue
			}
			sel, ok := ex.Tuple.(*ssa.Select)
			if !ok {
				continue
			}
			k, ok := an.ConstInt(bo.Y)
			if !ok || int(k) >= len(sel.States) {
				continue
			}
			stt := sel.States[k]
			if stt.Dir == types.RecvOnly && an.Resolve(stt.Chan) == ch {
				return true
			}
		}
		return false
	}
	okWait, _ := an.OnAllPathsToExit(g, isRecv, nil)
	return okWait
}

// hookRoles names the service-command list(s) of an execution context that v may be: "up", "down", "before",
// "after". The lists are what the context's constructor stores from its parameters of those names — in a field of
// its own each, or in one slot each of an array field; a slot selected by a parameter of the enclosing function is
// resolved at that function's call sites.
func hookRoles(p *an.Prog, v ssa.Value) []string {
	if fp := an.FieldProv(v); strings.HasPrefix(fp, "ExecutionContext.") {
		switch name := strings.TrimPrefix(fp, "ExecutionContext."); name {
		case "up", "down", "before", "after":
			return []string{name}
		}
	}
	ctor := p.Func("pkg/runner", "", "NewExecutionContext")
	if ctor == nil {
		return nil
	}
	// slots[field][index] = parameter name
	slots := map[string]map[int64]string{}
	an.EachInstr(ctor, func(in ssa.Instruction) {
		st, ok := in.(*ssa.Store)
		if !ok {
			return
		}
		ia, ok := st.Addr.(*ssa.IndexAddr)
		if !ok {
			return
		}
		k, isC := an.ConstInt(ia.Index)
		prm, isP := an.Resolve(st.Val).(*ssa.Parameter)
		if !isC || !isP {
			return
		}
		field := ""
		switch b := ia.X.(type) {
		case *ssa.FieldAddr:
			field = an.TypeField(b)
		case *ssa.Alloc:
			// a local array literal stored whole into the field
			if b.Referrers() != nil {
				for _, r := range *b.Referrers() {
					if u, ok := r.(*ssa.UnOp); ok && u.Op == token.MUL && u.Referrers() != nil {
						for _, r2 := range *u.Referrers() {
							if s2, ok := r2.(*ssa.Store); ok && s2.Val == ssa.Value(u) {
								if fa, ok := s2.Addr.(*ssa.FieldAddr); ok {
									field = an.TypeField(fa)
								}
							}
						}
					}
				}
			}
		}
		if field == "" {
			return
		}
		if slots[field] == nil {
			slots[field] = map[int64]string{}
		}
		slots[field][k] = prm.Name()
	})
	var out []string
	for _, src := range an.Sources(v) {
		u, ok := src.(*ssa.UnOp)
		if !ok || u.Op != token.MUL {
			continue
		}
		ia, ok := u.X.(*ssa.IndexAddr)
		if !ok {
			continue
		}
		fa, ok := ia.X.(*ssa.FieldAddr)
		if !ok || slots[an.TypeField(fa)] == nil {
			continue
		}
		tab := slots[an.TypeField(fa)]
		if k, isC := an.ConstInt(ia.Index); isC {
			if n, ok := tab[k]; ok {
				out = append(out, n)
			}
			continue
		}
		if prm, isP := an.Resolve(ia.Index).(*ssa.Parameter); isP && prm.Parent() != nil {
			fn := prm.Parent()
			idx := -1
			for i, q := range fn.Params {
				if q == prm {
					idx = i
				}
			}
			for _, site := range p.CallSitesOf(fn) {
				if idx < 0 || idx >= len(site.Common().Args) {
					continue
				}
				if k, isC := an.ConstInt(site.Common().Args[idx]); isC {
					if n, ok := tab[k]; ok {
						out = append(out, n)
					}
				}
			}
		}
	}
	return dedup(out)
}

// downOverMap: Finish, with the cleanup registry kept as a plain map: a range over the map (or over a slice that a
// range over the map fills with every value) calls Down on the element exactly once on every pass.
func downOverMap(c *an.Ctx, fin *ssa.Function) bool {
	everyPass := func(l *an.Loop, effect func(in ssa.Instruction, st *an.State) string, tag string) bool {
		ex := &an.Explorer{P: c.P, NoReturn: noReturn}
		l.Bound(ex)
		ex.Effect = effect
		entry := l.BodyEntry()
		if entry == nil {
			return false
		}
		outs := ex.Run(fin, entry, l.Header, nil)
		if len(outs) == 0 || ex.Exhausted {
			return false
		}
		for _, o := range outs {
			if !(o.End == "stop" && o.StopBlock == l.Header && count(o.Effects, tag) == 1) {
				return false
			}
		}
		return true
	}
	downOn := func(elems []ssa.Value) func(in ssa.Instruction, st *an.State) string {
		return func(in ssa.Instruction, st *an.State) string {
			if cc, ok := an.IsCallTo(in, fnCtxDown); ok {
				for _, e := range elems {
					if an.SameValue(cc.Args[0], e) || (st != nil && st.SameRoot(cc.Args[0], e)) {
						return "down"
					}
				}
			}
			return ""
		}
	}
	loops := an.Loops(fin)
	for _, l := range loops {
		op := l.RangeOperand()
		if op == nil || an.FieldProv(op) != "TaskRunner.cleanupList" {
			continue
		}
		_, elems := l.RangeKeyValue()
		if everyPass(l, downOn(elems), "down") {
			return true
		}
		// collected first
		var cell ssa.Value
		collects := everyPass(l, func(in ssa.Instruction, st *an.State) string {
			call, ok := in.(*ssa.Call)
			if !ok {
				return ""
			}
			if b, ok := call.Call.Value.(*ssa.Builtin); !ok || b.Name() != "append" {
				return ""
			}
			for _, e := range an.VariadicElems(call.Call.Args[1]) {
				for _, v := range elems {
					if an.SameValue(e, v) {
						cell = call
						return "collect"
					}
				}
			}
			return ""
		}, "collect")
		if !collects || cell == nil {
			continue
		}
		for _, l2 := range loops {
			op2 := l2.RangeOperand()
			if l2 == l || op2 == nil || len(l2.Header.Instrs) == 0 || len(l.Header.Instrs) == 0 || !an.Dominates(l.Header.Instrs[0], l2.Header.Instrs[0]) {
				continue
			}
			fed := false
			for _, src := range an.Sources(op2) {
				if src == cell {
					fed = true
				}
			}
			if !fed {
				continue
			}
			_, e2 := l2.RangeKeyValue()
			if everyPass(l2, downOn(e2), "down") {
				return true
			}
		}
	}
	return false
}
