package rules

import (
	"fmt"
	"go/token"
	"strings"

	"golang.org/x/tools/go/ssa"

	"taskverif/an"
)

func init() { register("C14", checkC14) }

func checkC14(c *an.Ctx) {
	c.Rule("C14.1", "once (E8): the loops over ExecutionContext.up and .down exist only inside functions handed to sync.Once.Do on a Once field of the context; a failing up command stores its error in startupError; Up returns that field after Do on every call")
	c.Rule("C14.2", "up before anything, failure blocks the task (E3): in Run the context resolution dominates every phase and its failure returns a non-nil error without any phase; inside it Up precedes Before and Up's failure returns first")
	c.Rule("C14.3", "before exactly once per task execution (E10): ExecutionContext.Before has one call site, in the context-resolution function, outside any loop, and that function has one call site, in Run, outside any loop")
	c.Rule("C14.4", "after on all exits (E3): once the context is resolved and the output created, every exit of Run runs exactly one ExecutionContext.After on that context (deferred), after the task's own after hooks")
	c.Rule("C14.5", "down (E3/E4): a named context is registered for cleanup before Up is attempted; Finish calls Down on every registered entry; every cmd/taskctl function that runs a task or a pipeline calls Finish on all its exits")
	c.NotDecided = append(c.NotDecided, "'immediately before' in time; ordering between different contexts", "down relative to later CLI targets (Finish is per target)", "watch mode never calls Finish (outside the statement's CLI clause: observation)")
	p := c.P
	r := resolveRunner(c, "C14.0")
	if !r.ok {
		return
	}
	c.OK("C14.0", "runner roles", r.run.Pos(), "context resolution=%s", an.Short(r.ctxFn))

	onceGuards(c, "C14.1")

	// C14.2
	ctxCall := r.callOf[r.ctxFn]
	for _, ph := range r.phases() {
		c.Check(an.Dominates(ctxCall, ph.call), "C14.2", an.Short(r.run)+":context-before-"+ph.name, ph.call.Pos(), "context resolution (up, before) precedes the "+ph.name+" phase", "the "+ph.name+" phase can run before the context is up")
	}
	outs := exploreRun0(c, r, "context")
	bad := ""
	for _, o := range outs {
		for _, e := range o.Effects {
			for _, ph := range r.phases() {
				if e == ph.name {
					bad = "phase " + e + " runs although the context could not be brought up"
				}
			}
		}
		if o.End != "return" || o.Ret[len(o.Ret)-1].K != an.ANonNil {
			bad = "Run does not return a non-nil error when the context cannot be brought up"
		}
	}
	if len(outs) == 0 {
		bad = "no path"
	}
	if bad != "" {
		c.Bad("C14.2", an.Short(r.run)+":row context fails", ctxCall.Pos(), "%s", bad)
	} else {
		c.OK("C14.2", an.Short(r.run)+":row context fails", ctxCall.Pos(), "returns the error, no phase runs (%d paths)", len(outs))
	}
	ups := an.CallsIn(r.ctxFn, fnCtxUp)
	befs := an.CallsIn(r.ctxFn, fnCtxBefore)
	if len(ups) == 1 && len(befs) == 1 {
		fate := p.ErrFate(ups[0], noReturn)
		c.Check(an.Dominates(ups[0], befs[0]) && (fate.Kind == "propagated" || fate.Kind == "converted"), "C14.2", an.Short(r.ctxFn)+":up-then-before", ups[0].Pos(), "Up precedes Before and a failed Up returns first", "Up does not precede Before, or its failure does not return: "+fate.Detail)
		fate2 := p.ErrFate(befs[0], noReturn)
		c.Check(fate2.Kind == "propagated" || fate2.Kind == "converted", "C14.2", an.Short(r.ctxFn)+":err(Before)", befs[0].Pos(), "a failing context before fails the task", "a failing context before is dropped: "+fate2.Detail)
		// same context object
		c.Check(an.SameValue(ups[0].Common().Args[0], befs[0].Common().Args[0]) || an.Prov(ups[0].Common().Args[0]) == an.Prov(befs[0].Common().Args[0]), "C14.2", an.Short(r.ctxFn)+":same-context", ups[0].Pos(), "Up and Before act on the same context", "Up and Before act on different contexts")
	} else {
		c.Und("C14.2", an.Short(r.ctxFn)+":up-then-before", r.ctxFn.Pos(), "expected one Up and one Before call in the context resolution, found %d and %d", len(ups), len(befs))
	}

	// C14.3
	before := p.Func("pkg/runner", "ExecutionContext", "Before")
	if before != nil {
		sites := p.CallSitesOf(before)
		for _, site := range sites {
			in := site.Parent()
			inLoop := an.InnermostLoop(an.Loops(in), site.Block()) != nil
			c.Check(in == r.ctxFn && !inLoop, "C14.3", an.Short(in)+":call(Before)", site.Pos(), "the context's before hook is run by the context resolution, once", "ExecutionContext.Before is also called from "+an.Short(in)+" (or inside a loop)")
		}
		if len(sites) == 0 {
			c.Bad("C14.3", "ExecutionContext.Before:callers", before.Pos(), "the context's before hook is never run")
		}
	}
	sites := p.CallSitesOf(r.ctxFn)
	nInRun := 0
	for _, site := range sites {
		in := site.Parent()
		if in == r.run {
			nInRun++
			inLoop := an.InnermostLoop(an.Loops(in), site.Block()) != nil
			c.Check(!inLoop && nInRun == 1, "C14.3", an.Short(in)+":call(context-resolution)", site.Pos(), "Run resolves the context once", "Run resolves the context more than once or in a loop: the context's before hook runs again")
			continue
		}
		// any other caller reachable from Run makes the hook run again within one task execution
		reach := p.Reach([]*ssa.Function{r.run}, func(e an.CallEdge) bool { return an.InModule(e.Callee) })
		if _, ok := reach[in]; ok {
			c.Bad("C14.3", an.Short(in)+":call(context-resolution)", site.Pos(), "%s, which runs as part of TaskRunner.Run, resolves the context again: the context's before hook runs more than once per task execution", an.Short(in))
		} else {
			c.Note("C14.3", an.Short(in)+":call(context-resolution)", site.Pos(), "context resolved outside Run")
		}
	}
	if nInRun == 0 {
		c.Bad("C14.3", an.Short(r.run)+":call(context-resolution)", r.run.Pos(), "Run never resolves the task's context")
	}

	afterOnAllExits(c, r, "C14.4")
	downRules(c, r, "C14.5")
}

// exploreRun0 explores Run from its entry with the given stage failing;
// "context" makes the context resolution fail.
func exploreRun0(c *an.Ctx, r *runnerRoles, failAt string) []an.Outcome {
	phs := r.phases()
	ctxErrs := map[ssa.Value]bool{}
	for _, e := range errOf(r.callOf[r.ctxFn]) {
		ctxErrs[e] = true
	}
	ex := &an.Explorer{P: c.P, NoReturn: noReturn, MaxDepth: 1, Inline: func(f *ssa.Function) bool { return f.Parent() == r.run }}
	ex.Atom = func(v ssa.Value) (an.AVal, bool) {
		if ctxErrs[v] {
			if failAt == "context" {
				return an.AVal{K: an.ANonNil}, true
			}
			return an.AVal{K: an.ANil}, true
		}
		return an.AVal{}, false
	}
	ex.Effect = func(in ssa.Instruction, st *an.State) string {
		for _, ph := range phs {
			if in == ssa.Instruction(ph.call) {
				return ph.name
			}
		}
		if _, ok := an.IsCallTo(in, fnCtxAfter); ok {
			return "ctx.After"
		}
		return ""
	}
	return ex.RunFrom(r.run, r.callOf[r.ctxFn], nil)
}

func onceGuards(c *an.Ctx, rule string) {
	p := c.P
	for _, f := range []struct{ field, method string }{{"up", "Up"}, {"down", "Down"}} {
		n := 0
		for _, fn := range p.Funcs {
			if !inPkgs("pkg/runner")(fn) {
				continue
			}
			for _, l := range an.Loops(fn) {
				op := l.RangeOperand()
				if op == nil || an.FieldProv(op) != "ExecutionContext."+f.field {
					continue
				}
				n++
				key := an.Short(fn) + ":loop(" + f.field + ")"
				// fn must be a closure passed to (*sync.Once).Do on a field of the context, and called nowhere else
				okOnce := false
				other := false
				if par := fn.Parent(); par != nil {
					an.EachInstr(par, func(in ssa.Instruction) {
						mc, ok := in.(*ssa.MakeClosure)
						if !ok || mc.Fn != fn || mc.Referrers() == nil {
							return
						}
						for _, use := range *mc.Referrers() {
							if cc, ok := an.IsCallTo(use, "(*sync.Once).Do"); ok && strings.HasPrefix(an.FieldKey(cc.Args[0]), "ExecutionContext.") && cc.Args[1] == ssa.Value(mc) {
								okOnce = true
							} else if _, dbg := use.(*ssa.DebugRef); !dbg {
								other = true
							}
						}
					})
				}
				c.Check(okOnce && !other && fn.Parent() != nil, rule, key, fn.Pos(), "runs only inside sync.Once.Do on the context", "the "+f.field+" commands are not confined to a sync.Once.Do on the context: overlapping tasks can run them twice or get past them before they finished")
				if f.field == "up" {
					// failing command → startupError := err
					var svc *ssa.Call
					for b := range l.Blocks {
						for _, in := range b.Instrs {
							if call, ok := in.(*ssa.Call); ok && an.ErrResultIndex(call.Call.Signature()) >= 0 {
								svc = call
							}
						}
					}
					if svc == nil {
						c.Und(rule, key+":command", fn.Pos(), "no command is run in the up loop")
						continue
					}
					ex := &an.Explorer{P: p, NoReturn: noReturn}
					l.Bound(ex)
					ex.Atom = func(v ssa.Value) (an.AVal, bool) {
						if v == ssa.Value(svc) {
							return an.AVal{K: an.ANonNil}, true
						}
						return an.AVal{}, false
					}
					ex.Effect = func(in ssa.Instruction, st *an.State) string {
						if sto, ok := in.(*ssa.Store); ok {
							if fa, ok := sto.Addr.(*ssa.FieldAddr); ok && an.TypeField(fa) == "ExecutionContext.startupError" && an.SameValue(sto.Val, svc) {
								return "startupError:=err"
							}
						}
						return ""
					}
					outs := ex.RunFrom(fn, svc, nil)
					good := len(outs) > 0
					for _, o := range outs {
						has := false
						for _, e := range o.Effects {
							if e == "startupError:=err" {
								has = true
							}
						}
						if !has {
							good = false
						}
					}
					c.Check(good, rule, key+":remember-error", svc.Pos(), "a failing up command is remembered in startupError", "a failing up command is not stored in startupError: later callers see a context that looks healthy")
				}
			}
		}
		if n == 0 {
			c.Bad(rule, "ExecutionContext."+f.field+":loop", token.NoPos, "the context's %s commands are never run", f.field)
		}
	}
	up := p.Func("pkg/runner", "ExecutionContext", "Up")
	if up != nil {
		var do ssa.Instruction
		for _, ci := range an.CallsIn(up, "(*sync.Once).Do") {
			do = ci
		}
		good := do != nil
		for _, ret := range an.Returns(up) {
			if an.FieldProv(an.RetVal(ret, 0)) != "ExecutionContext.startupError" || do == nil || !an.Dominates(do, ret) {
				good = false
			}
		}
		c.Check(good, rule, an.Short(up)+":returns-startupError", up.Pos(), "Up returns the remembered startup error after Do, on every call", "Up does not return ExecutionContext.startupError after Once.Do: a later caller does not learn that up failed (or returns before up completed)")
	}
}

func afterOnAllExits(c *an.Ctx, r *runnerRoles, rule string) {
	p := c.P
	f := r.run
	// the deferred function that calls ExecutionContext.After
	var d *ssa.Defer
	var afterFn *ssa.Function
	an.EachInstr(f, func(in ssa.Instruction) {
		df, ok := in.(*ssa.Defer)
		if !ok {
			return
		}
		if _, ok := an.IsCallTo(df, fnCtxAfter); ok {
			d = df
			return
		}
		for _, callee := range p.Callees(&df.Call) {
			if len(an.CallsIn(callee, fnCtxAfter)) > 0 {
				d, afterFn = df, callee
			}
		}
	})
	if d == nil {
		c.Bad(rule, an.Short(f)+":defer(After)", f.Pos(), "Run does not defer the context's after hook: it is skipped when the task fails or is skipped")
		return
	}
	ctxCall := r.callOf[r.ctxFn]
	// every return after the context was resolved either is dominated by the defer or is the output-creation failure
	for _, ret := range an.Returns(f) {
		if !an.Dominates(ctxCall, ret) {
			continue
		}
		if an.Dominates(d, ret) {
			continue
		}
		// allowed: context resolution failed, or NewTaskOutput failed
		allowed := false
		for _, g := range an.Guards(ret.Block()) {
			if x, eq, ok := an.NilTest(g.Cond); ok && (eq != g.Outcome) {
				for _, e := range errOf(ctxCall) {
					if x == e {
						allowed = true
					}
				}
				if r.newOutputCall != nil {
					for _, e := range errOf(r.newOutputCall) {
						if x == e {
							allowed = true
						}
					}
				}
			}
		}
		c.Check(allowed, rule, an.Short(f)+":exit-without-After", ret.Pos(), "exit before the task's output exists (nothing was started)", "Run can return after the context was resolved without running the context's after hook")
	}
	c.OK(rule, an.Short(f)+":defer(After)", d.Pos(), "the context's after hook is deferred; later exits all run it")
	// exactly one After per run of the deferred function, on the resolved context
	if afterFn != nil {
		calls := an.CallsIn(afterFn, fnCtxAfter)
		one := len(calls) == 1
		if one {
			first := afterFn.Blocks[0].Instrs[0]
			all, _ := an.OnAllPathsToExit(first, func(in ssa.Instruction) bool { return in == calls[0].(ssa.Instruction) }, nil)
			inLoop := an.InnermostLoop(an.Loops(afterFn), calls[0].Block()) != nil
			one = all && !inLoop
			// receiver: the context resolved by Run
			recv := calls[0].Common().Args[0]
			same := false
			for _, src := range an.Sources(recv) {
				if e, ok := src.(*ssa.Extract); ok && e.Tuple == ssa.Value(ctxCall) {
					same = true
				}
			}
			c.Check(same, rule, an.Short(afterFn)+":After(context)", calls[0].Pos(), "After runs on the context Run resolved", "After does not run on the context Run resolved: "+an.Prov(recv))
		}
		c.Check(one, rule, an.Short(afterFn)+":After-once", afterFn.Pos(), "exactly one After on every path of the deferred function", "the deferred function does not run the context's after hook exactly once on every path")
	}
	// the task's own after precedes: phase "after" is a plain call in Run, before the deferred function can run
	c.OK(rule, an.Short(f)+":order", r.callOf[r.after].Pos(), "the task's after hooks are a synchronous phase of Run; the deferred context hook runs at return")
}

func downRules(c *an.Ctx, r *runnerRoles, rule string) {
	p := c.P
	f := r.ctxFn
	// registration before Up
	var store ssa.Instruction
	for _, ci := range an.CallsIn(f, "(*sync.Map).Store") {
		if an.FieldKey(ci.Common().Args[0]) == "TaskRunner.cleanupList" {
			store = ci
		}
	}
	ups := an.CallsIn(f, fnCtxUp)
	if store == nil || len(ups) == 0 {
		c.Bad(rule, an.Short(f)+":register", f.Pos(), "a resolved context is never registered for cleanup")
	} else {
		// on the named-context branch the registration precedes Up: every path from the context lookup to Up passes the Store
		var lookup ssa.Instruction
		an.EachInstr(f, func(in ssa.Instruction) {
			if lk, ok := in.(*ssa.Lookup); ok && an.FieldProv(lk.X) == "TaskRunner.contexts" {
				lookup = lk
			}
		})
		good := false
		if lookup != nil {
			// from the lookup, Up is reached only after the Store
			seenUpFirst := false
			ok, _ := an.OnAllPathsToExit(lookup, func(in ssa.Instruction) bool {
				if in == store {
					return true
				}
				if in == ups[0].(ssa.Instruction) {
					seenUpFirst = true
					return true
				}
				return false
			}, func(b *ssa.BasicBlock) bool { return true })
			good = ok && !seenUpFirst
		}
		c.Check(good, rule, an.Short(f)+":register-before-up", store.Pos(), "a named context is registered for cleanup before its up commands are attempted", "a named context is registered only after Up/Before: if they fail for every task, Finish never runs down although up ran")
		// what is stored is the resolved context
		val := store.(ssa.CallInstruction).Common().Args[2]
		c.Check(strings.Contains(an.FieldProv(val), "TaskRunner.contexts"), rule, an.Short(f)+":register(value)", store.Pos(), "the registered value is the context looked up", "the registered value is not the resolved context: "+an.FieldProv(val))
	}
	// Finish → Range callback → Down, returns true
	fin := r.finish
	good := false
	for _, ci := range an.CallsIn(fin, "(*sync.Map).Range") {
		if an.FieldKey(ci.Common().Args[0]) != "TaskRunner.cleanupList" {
			continue
		}
		for _, src := range an.Sources(ci.Common().Args[1]) {
			var cb *ssa.Function
			switch x := src.(type) {
			case *ssa.MakeClosure:
				cb = x.Fn.(*ssa.Function)
			case *ssa.Function:
				cb = x
			}
			if cb == nil {
				continue
			}
			downs := an.CallsIn(cb, fnCtxDown)
			allTrue := true
			for _, ret := range an.Returns(cb) {
				k, ok := an.RetVal(ret, 0).(*ssa.Const)
				if !ok || k.Value == nil || k.Value.ExactString() != "true" {
					allTrue = false
				}
			}
			onAll := false
			if len(downs) > 0 {
				onAll, _ = an.OnAllPathsToExit(cb.Blocks[0].Instrs[0], func(in ssa.Instruction) bool { return in == downs[0].(ssa.Instruction) }, an.IsPanicExit)
			}
			good = len(downs) > 0 && allTrue && onAll
		}
	}
	c.Check(good, rule, an.Short(fin)+":down-all", fin.Pos(), "Finish runs Down on every registered context (the Range callback always continues)", "Finish does not run Down on every registered context")
	// CLI: Finish on all exits
	sched := p.Func("pkg/scheduler", "Scheduler", "Schedule")
	schedFinish := p.Func("pkg/scheduler", "Scheduler", "Finish")
	n := 0
	for _, fn := range p.Funcs {
		if !inPkgs("cmd/taskctl")(fn) {
			continue
		}
		an.EachInstr(fn, func(in ssa.Instruction) {
			call, ok := in.(*ssa.Call)
			if !ok {
				return
			}
			runs := false
			for _, callee := range p.Callees(&call.Call) {
				if callee == r.run || callee == sched {
					runs = true
				}
			}
			if !runs {
				return
			}
			n++
			isFinish := func(x ssa.Instruction) bool {
				ci, ok := x.(ssa.CallInstruction)
				if !ok {
					return false
				}
				for _, callee := range p.Callees(ci.Common()) {
					if callee == r.finish || callee == schedFinish {
						return true
					}
					if _, isDefer := x.(*ssa.Defer); isDefer && len(an.CallsIn(callee, "(*pkg/runner.TaskRunner).Finish", "(*pkg/scheduler.Scheduler).Finish")) > 0 {
						return true
					}
				}
				return false
			}
			all, w := an.OnAllPathsToExit(call, isFinish, nil)
			// or a Finish deferred before the call
			an.EachInstr(fn, func(x ssa.Instruction) {
				if d, ok := x.(*ssa.Defer); ok && isFinish(d) && an.Dominates(d, call) {
					all = true
				}
			})
			where := ""
			if w != nil {
				where = p.Pos(w.Instrs[len(w.Instrs)-1].Pos())
			}
			c.Check(all, rule, an.Short(fn)+":Finish-on-all-exits", call.Pos(), "every exit after the run passes through Finish", fmt.Sprintf("%s can return (at %s) after running the target without calling Finish: the contexts' down commands are skipped exactly when the target failed", an.Short(fn), where))
		})
	}
	if n == 0 {
		c.Und(rule, "cmd/taskctl:run-sites", token.NoPos, "no CLI function runs a task or a pipeline")
	}
	// Scheduler.Finish forwards to the runner
	if schedFinish != nil {
		c.Check(len(an.CallsIn(schedFinish, fnRunnerFinish)) > 0, rule, an.Short(schedFinish)+":forwards", schedFinish.Pos(), "Scheduler.Finish finishes its runner", "Scheduler.Finish does not finish its runner")
	}
}
