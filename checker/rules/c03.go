package rules

import (
	"fmt"
	"go/token"
	"go/types"
	"sort"
	"strings"

	"golang.org/x/tools/go/ssa"

	"taskverif/an"
)

func init() { register("C03", checkC03) }

func checkC03(c *an.Ctx) {
	c.Rule("C03.1", "exactly once (E3/E4): one launch site; Waiting→Running is written by the scheduling loop, on the launched stage, before the go statement and under status==Waiting; nothing writes Waiting")
	c.Rule("C03.2", "WaitGroup pairing (E8): wg.Add dominates the launch; the stage goroutine registers wg.Done first thing; wg.Wait is outside the loop and dominates every return of Schedule")
	c.Rule("C03.3", "loop exits (E2/E3): the scheduling loop ends only through the done test or the cancelled flag, which is loaded on every pass before any launch")
	c.Rule("C03.4", "progress premises (E2): a Waiting stage is left untouched by the gate only on rows where a dependency is Waiting or Running; every other row contributes to readiness or cancels it; the gate starts from true")
	c.Rule("C03.5", "no unbounded wait in the scheduling goroutine (E8): every blocking operation synchronously reachable from Schedule is a sleep, a WaitGroup wait with Add/Done pairing on all paths, or a short critical section; the only loop under Schedule that sleeps and goes round (a polling wait) is the scheduling loop itself")
	c.Rule("C03.6", "no unbounded wait under a task run (E8): every channel operation, Cond.Wait and polling loop synchronously reachable from TaskRunner.Run in the module (context set-up, hooks, output) has an unconditional waker — a stage goroutine that waits for something only a failed or absent peer would have done never finishes, and neither does the run")
	c.NotDecided = append(c.NotDecided,
		"liveness under every schedule (fairness of the Go scheduler, tasks that never terminate)",
		"re-running an already finished graph",
		"the progress induction itself is on paper (DESIGN.md §5 C03); the rule checks its premises")
	s := resolveSched(c, "C03.0")
	if !s.ok {
		return
	}
	c.OK("C03.0", "scheduler roles", s.schedule.Pos(), "launch=%s gate=%s", c.P.Pos(s.launch.Pos()), an.Short(s.gate))
	monotoneStatus(c, s, "C03.1")
	launchGuard(c, s, "C03.1")
	wgPairing(c, s, "C03.2")
	loopExits(c, s, "C03.3")
	progressPremises(c, s, "C03.4")
	boundedWaitsOpt(c, "C03.5", []*ssa.Function{s.schedule}, "Scheduler.Schedule", waitOpts{polls: true, allowedPoll: []*an.Loop{s.outer}, accepted: func(in ssa.Instruction) string {
		if lt := s.chanLatchOf(); lt != nil && lt.doneOK {
			for _, r := range lt.recvs {
				if r == in {
					return "a receive of the " + lt.kind + " latch's drain loop: every registered goroutine signals exactly once"
				}
			}
		}
		return ""
	}})
	if run := c.P.Func("pkg/runner", "TaskRunner", "Run"); run != nil {
		boundedWaitsOpt(c, "C03.6", []*ssa.Function{run}, "TaskRunner.Run", waitOpts{polls: true, onlyChans: true, accepted: func(in ssa.Instruction) string { return locallyWoken(c.P, in) }})
		lockLeaks(c, "C03.6", run)
		n6 := 0
		for _, o := range c.Obs {
			if o.Rule == "C03.6" {
				n6++
			}
		}
		if n6 == 0 {
			c.OK("C03.6", an.Short(run)+":channel-waits", run.Pos(), "no channel operation, Cond.Wait or polling loop is synchronously reachable from TaskRunner.Run in the module")
		}
	} else {
		c.Und("C03.6", "runner.(*TaskRunner).Run", token.NoPos, "TaskRunner.Run not found")
	}
}

// wgPairing checks C03.2.
func wgPairing(c *an.Ctx, s *sched, rule string) {
	f := s.launchFn
	// the Add that dominates the launch
	var add ssa.Instruction
	for _, ci := range an.CallsIn(f, fnWgAdd) {
		if an.Dominates(ci, s.launch) && (s.launchFn != s.loopFn || s.inner.Blocks[ci.Block()]) {
			add = ci
		}
	}
	if add == nil {
		// a hand-made latch in the WaitGroup's place (latch.go): registration before the launch, one signal
		// per goroutine on every path, a drain loop after the scheduling loop that dominates every return
		if lt := s.chanLatchOf(); lt != nil {
			if !lt.doneOK {
				c.Bad(rule, an.Short(f)+":latch", s.launch.Pos(), "the stages are tracked by a %s latch instead of a WaitGroup, but %s", lt.kind, lt.why)
				return
			}
			c.Anchor("stage latch", lt.kind)
			c.OK(rule, an.Short(f)+":Add", lt.reg.Pos(), "each launch is registered with the %s latch before the go statement", lt.kind)
			c.OK(rule, an.Short(s.body)+":Done", s.body.Pos(), "the stage goroutine signals its completion exactly once, deferred first thing")
			for _, r := range an.Returns(lt.drainFn) {
				dom := lt.waitExit.Dominates(r.Block())
				if !dom && !an.CanReach(lt.reg.Block(), r.Block()) && lt.drainFn == f {
					dom = true
				}
				c.Check(dom, rule, an.Short(lt.drainFn)+":return-after-Wait", r.Pos(), "return comes after every completion signal was received", "Schedule can return without waiting for launched stages")
			}
			return
		}
		c.Bad(rule, an.Short(f)+":Add", s.launch.Pos(), "no WaitGroup.Add inside the per-stage loop dominates the launch: Schedule cannot wait for the stage")
		return
	}
	key := groupKey(add.(ssa.CallInstruction).Common().Args[0])
	c.Anchor("stage wait group", key)
	n, ok := an.ConstInt(add.(ssa.CallInstruction).Common().Args[1])
	c.Check(ok && n == 1, rule, an.Short(f)+":Add", add.Pos(), "Add(1) per launched stage dominates the go statement", "the launch is not preceded by Add(1)")
	addDonePairing(c, rule, key)
	// Wait: outside the scheduling loop, dominates every return (of the function that holds the scheduling loop)
	wf := f
	if s.outerFn != nil {
		wf = s.outerFn
	}
	var waits []ssa.CallInstruction
	for _, ci := range an.CallsIn(wf, fnWgWait) {
		if groupKey(ci.Common().Args[0]) == key {
			waits = append(waits, ci)
		}
	}
	if len(waits) == 0 {
		c.Bad(rule, an.Short(wf)+":Wait", wf.Pos(), "Schedule never waits for the stages it launched")
		return
	}
	for _, w := range waits {
		inLoop := s.outer != nil && s.outer.Blocks[w.Block()] || (wf == s.loopFn && s.inner.Blocks[w.Block()])
		c.Check(!inLoop, rule, an.Short(wf)+":Wait", w.Pos(), "Wait is outside the scheduling loop", "Wait is inside the scheduling loop")
	}
	f = wf
	var adds []ssa.CallInstruction
	for _, ci := range an.CallsIn(f, fnWgAdd) {
		if groupKey(ci.Common().Args[0]) == key {
			adds = append(adds, ci)
		}
	}
	for _, r := range an.Returns(f) {
		dom := false
		for _, w := range waits {
			if an.Dominates(w, r) {
				dom = true
			}
		}
		// a return that no registration can reach (an early exit before the scheduling loop) has nothing to wait for
		if !dom && len(adds) > 0 && (s.outerFn == nil || s.outerFn == f) && s.launchFn == f {
			reachable := false
			for _, a := range adds {
				if an.CanReach(a.Block(), r.Block()) {
					reachable = true
				}
			}
			if !reachable {
				dom = true
			}
		}
		c.Check(dom, rule, an.Short(f)+":return-after-Wait", r.Pos(), "return is dominated by Wait", "Schedule can return without waiting for launched stages")
	}
}

// loopExits checks C03.3.
func loopExits(c *an.Ctx, s *sched, rule string) {
	f := s.launchFn
	if s.outerFn != nil {
		f = s.outerFn
	}
	if s.outer == nil {
		c.Und(rule, an.Short(f)+":outer-loop", f.Pos(), "no scheduling loop around the per-stage loop")
		return
	}
	// cancelled test: an If in the outer loop whose condition loads Scheduler.cancelled
	var cancelBranch *ssa.BasicBlock
	for b := range s.outer.Blocks {
		br, ok := an.BranchOf(b)
		if !ok {
			continue
		}
		uses := false
		var walk func(v ssa.Value)
		walk = func(v ssa.Value) {
			switch x := v.(type) {
			case *ssa.BinOp:
				walk(x.X)
				walk(x.Y)
			case *ssa.UnOp:
				walk(x.X)
			case *ssa.Call:
				if cc, ok := an.IsCallTo(x, "sync/atomic.LoadInt32"); ok && an.FieldKey(cc.Args[0]) == "Scheduler.cancelled" {
					uses = true
				}
				// a bool helper of the package that returns a test of the flag (isCancelled)
				if _, ok := cancelHelperValue(c.P, x, 1); ok {
					uses = true
				}
			}
		}
		walk(br.If.Cond)
		if uses {
			cancelBranch = b
		}
	}
	if cancelBranch == nil {
		c.Bad(rule, an.Short(f)+":cancel-test", f.Pos(), "the scheduling loop never loads the cancelled flag: a cancelled run keeps scheduling")
	} else {
		okDom := cancelBranch.Dominates(s.innerAnchor) && !(s.outerFn == s.loopFn && s.inner.Blocks[cancelBranch])
		c.Check(okDom, rule, an.Short(f)+":cancel-test", cancelBranch.Instrs[len(cancelBranch.Instrs)-1].Pos(),
			"the cancelled flag is tested on every pass before the per-stage loop", "the cancelled flag is not tested on every pass before stages are launched")
		// cancelled==1 must leave the loop
		br, _ := an.BranchOf(cancelBranch)
		leavesOn := func(b *ssa.BasicBlock) bool { return !s.outer.Blocks[b] }
		var atom ssa.Value
		var walk func(v ssa.Value)
		walk = func(v ssa.Value) {
			switch x := v.(type) {
			case *ssa.BinOp:
				walk(x.X)
				walk(x.Y)
			case *ssa.UnOp:
				walk(x.X)
			case *ssa.Call:
				atom = x
			}
		}
		walk(br.If.Cond)
		a1, a0 := an.AInt(1), an.AInt(0)
		if ac, ok := atom.(*ssa.Call); ok {
			if h1, ok := cancelHelperValue(c.P, ac, 1); ok {
				h0, _ := cancelHelperValue(c.P, ac, 0)
				a1, a0 = h1, h0
			}
		}
		v1 := evalWith(c.P, br.If.Cond, map[ssa.Value]an.AVal{atom: a1})
		v0 := evalWith(c.P, br.If.Cond, map[ssa.Value]an.AVal{atom: a0})
		b1, ok1 := v1.IsBool()
		b0, ok0 := v0.IsBool()
		good := ok1 && ok0 && b1 != b0
		if good {
			t1 := br.False
			if b1 {
				t1 = br.True
			}
			t0 := br.False
			if b0 {
				t0 = br.True
			}
			good = leavesOn(t1) && !leavesOn(t0)
		}
		c.Check(good, rule, an.Short(f)+":cancel-exit", br.If.Pos(), "cancelled==1 leaves the loop, cancelled==0 stays", "the cancelled flag does not make the scheduling loop end")
	}
	// exits: header normal exit + the cancel branch only
	for _, x := range exitEdges(s.outer) {
		from := x[0]
		switch {
		case from == s.outer.Header:
			c.OK(rule, an.Short(f)+":exit(done-test)", from.Instrs[len(from.Instrs)-1].Pos(), "exit through the loop condition")
		case from == cancelBranch:
			c.OK(rule, an.Short(f)+":exit(cancelled)", from.Instrs[len(from.Instrs)-1].Pos(), "exit through the cancelled flag")
		default:
			c.Bad(rule, an.Short(f)+":exit(other)", from.Instrs[len(from.Instrs)-1].Pos(), "the scheduling loop can be left from a third place (break/return/panic): stages may be left Waiting or Running")
		}
	}
	doneTest(c, s, rule)
}

func exitEdges(l *an.Loop) [][2]*ssa.BasicBlock {
	var out [][2]*ssa.BasicBlock
	for b := range l.Blocks {
		for _, sx := range b.Succs {
			if !l.Blocks[sx] {
				out = append(out, [2]*ssa.BasicBlock{b, sx})
			}
		}
		if len(b.Succs) == 0 {
			out = append(out, [2]*ssa.BasicBlock{b, nil})
		}
	}
	return out
}

// progressPremises checks C03.4.
func progressPremises(c *an.Ctx, s *sched, rule string) {
	rows, ok := exploreGate(c, s, rule)
	if !ok {
		return
	}
	g := s.gate
	W, R := s.status["Waiting"], s.status["Running"]
	for _, r := range rows {
		key := an.Short(g) + ":row " + r.name
		if _, declared := s.statusOf[r.status]; !declared {
			continue
		}
		unfinished := r.status == W || r.status == R
		bad := ""
		for i, v := range r.verdict {
			if v == "exit" {
				continue
			}
			wrote := false
			for _, w := range r.writes[i] {
				if strings.HasPrefix(w, "write(stage,") {
					wrote = true
				}
			}
			if !unfinished && v == "false" && !wrote {
				bad = "holds the stage back without cancelling it although the dependency has finished: the stage stays Waiting for ever"
			}
		}
		if bad != "" {
			c.Bad(rule, key, g.Pos(), "dependency status %s: the gate %s", r.name, bad)
		} else {
			c.OK(rule, key, g.Pos(), "verdicts %v", dedup(r.verdict))
		}
	}
	// the gate's result starts from true
	res := resultPhis(g)
	l := s.gateLoop
	found := false
	for _, in := range l.Header.Instrs {
		phi, ok := in.(*ssa.Phi)
		if !ok {
			break
		}
		if !res[phi] {
			continue
		}
		for i, pred := range l.Header.Preds {
			if l.Blocks[pred] {
				continue
			}
			found = true
			k, isConst := phi.Edges[i].(*ssa.Const)
			c.Check(isConst && k.Value != nil && k.Value.ExactString() == "true", rule, an.Short(g)+":initial", phi.Pos(),
				"a stage without dependencies is ready", "the gate does not start from true: "+an.Prov(phi.Edges[i]))
		}
	}
	if !found {
		// shape without φ: the post-loop return must be true
		okRet := false
		for _, r := range an.Returns(g) {
			if x := l.NormalExit(); x != nil && x.Dominates(r.Block()) {
				if k, isConst := an.RetVal(r, 0).(*ssa.Const); isConst && k.Value != nil && k.Value.ExactString() == "true" {
					okRet = true
				}
			}
		}
		c.Check(okRet, rule, an.Short(g)+":initial", g.Pos(), "a stage whose dependencies all passed is ready", "cannot establish that the gate yields true when every dependency passed")
	}
	_ = fmt.Sprint
}

// cancelHelperValue evaluates a call of a bool helper of the scheduler
// package whose single return is an expression over one load of
// Scheduler.cancelled, for the given value of the flag.
func cancelHelperValue(p *an.Prog, call *ssa.Call, flag int64) (an.AVal, bool) {
	g := call.Call.StaticCallee()
	if g == nil || g.Blocks == nil || !an.InModule(g) || g.Signature.Results().Len() != 1 {
		return an.AVal{}, false
	}
	if b, ok := g.Signature.Results().At(0).Type().Underlying().(*types.Basic); !ok || b.Kind() != types.Bool {
		return an.AVal{}, false
	}
	rets := an.Returns(g)
	if len(rets) != 1 || len(g.Blocks) != 1 {
		return an.AVal{}, false
	}
	var load *ssa.Call
	n := 0
	an.EachInstr(g, func(in ssa.Instruction) {
		if c2, ok := in.(*ssa.Call); ok {
			n++
			if cc, ok := an.IsCallTo(c2, "sync/atomic.LoadInt32"); ok && an.FieldKey(cc.Args[0]) == "Scheduler.cancelled" {
				load = c2
			}
		}
	})
	if load == nil || n != 1 {
		return an.AVal{}, false
	}
	v := evalWith(p, an.RetVal(rets[0], 0), map[ssa.Value]an.AVal{load: an.AInt(flag)})
	if _, ok := v.IsBool(); !ok {
		return an.AVal{}, false
	}
	return v, true
}

// lockLeaks: a mutex taken under a task run is given back by the function that took it, on every path to its exit
// (directly or by a deferred unlock). A lock taken in one function and released in another (an Acquire/Release pair
// around a phase of the run) is held on every path that forgets the release — an early return on an error — and the
// next task that needs it never gets it.
func lockLeaks(c *an.Ctx, rule string, run *ssa.Function) {
	p := c.P
	reach := p.Reach([]*ssa.Function{run}, func(e an.CallEdge) bool { return e.Kind != an.EdgeGo && an.InModule(e.Callee) })
	var fns []*ssa.Function
	for f := range reach {
		if f.Blocks != nil {
			fns = append(fns, f)
		}
	}
	sort.Slice(fns, func(i, j int) bool { return fns[i].String() < fns[j].String() })
	n := 0
	for _, fn := range fns {
		for _, op := range an.BlockingOps(fn) {
			if op.Kind != "lock" && op.Kind != "rlock" {
				continue
			}
			if _, isDefer := op.Instr.(*ssa.Defer); isDefer {
				continue
			}
			n++
			op := op
			released, at := an.OnAllPathsToExit(op.Instr, func(x ssa.Instruction) bool { return an.IsUnlockOf(x, op) }, an.IsPanicExit)
			if released {
				continue
			}
			where := ""
			if at != nil && len(at.Instrs) > 0 {
				where = p.Pos(at.Instrs[len(at.Instrs)-1].Pos())
			}
			c.Bad(rule, an.Short(fn)+":"+op.Kind+"("+groupKey(op.OnVal)+"):leaves-locked", op.Instr.Pos(), "%s, reached from TaskRunner.Run (%s), can return (at %s) with %s still held: whoever is to release it must be reached on every later path of the run, including the early returns — otherwise the next task that takes it waits for ever", an.Short(fn), p.PathString(reach[fn]), where, groupKey(op.OnVal))
		}
	}
	c.Sites[rule] = append(c.Sites[rule], fmt.Sprintf("%d mutex acquisitions under TaskRunner.Run checked for release in the acquiring function", n))
}
