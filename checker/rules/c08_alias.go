package rules

import (
	"go/token"
	"go/types"
	"sort"

	"golang.org/x/tools/go/ssa"

	"taskverif/an"
)

// sharedStorageWrites extends C08.2 to containers that keep their values in a
// slice or map field: a combinator's result must not share backing storage
// with an operand and then be grown or written. A value is *shared-backed*
// when it is a slice or map loaded from a field of an object the function did
// not allocate, a re-slice of such a value without a capacity limit, the
// result of append on such a value, or what a field of a fresh object holds
// after any store of such a value (flow-insensitive on purpose: one aliasing
// store is enough to make later writes suspect). append(x, …), x[i] = … and
// m[k] = … on a shared-backed x are writes into storage another container
// reads (append writes into spare capacity).
func sharedStorageWrites(c *an.Ctx, rule string, roots []*ssa.Function) {
	p := c.P
	scope := p.Reach(roots, func(e an.CallEdge) bool {
		if an.Outer(e.Callee).Pkg != roots[0].Pkg {
			return false
		}
		// the mutating API itself is not a combinator
		switch e.Callee.Name() {
		case "Set":
			return false
		}
		return true
	})
	var fns []*ssa.Function
	for f := range scope {
		if f.Blocks != nil {
			fns = append(fns, f)
		}
	}
	sort.Slice(fns, func(i, j int) bool { return fns[i].String() < fns[j].String() })
	isRefStore := func(t types.Type) bool {
		switch t.Underlying().(type) {
		case *types.Slice, *types.Map:
			return true
		}
		return false
	}
	n, nBad := 0, 0
	inScope := map[*ssa.Function]bool{}
	for _, f := range fns {
		inScope[f] = true
	}
	// interprocedural part: a helper's parameter is shared-backed when some caller passes a shared-backed
	// value, a helper's result when one of its returns is
	sharedParam := map[*ssa.Parameter]bool{}
	sharedRet := map[*ssa.Function]bool{}
	tainted := map[string]bool{} // fields of fresh objects that ever receive a shared-backed value
	var shared func(v ssa.Value, depth int) bool
	shared = func(v ssa.Value, depth int) bool {
		if depth > 6 || v == nil || !isRefStore(v.Type()) {
			return false
		}
		for _, s := range an.Sources(v) {
			switch x := s.(type) {
			case *ssa.Parameter:
				if sharedParam[x] {
					return true
				}
			case *ssa.UnOp:
				if x.Op != token.MUL {
					continue
				}
				fa, ok := x.X.(*ssa.FieldAddr)
				if !ok {
					continue
				}
				if fresh, _ := an.FreshBase(fa.X); fresh {
					if tainted[an.TypeField(fa)] {
						return true
					}
					continue
				}
				return true
			case *ssa.Slice:
				if x.Max == nil && shared(x.X, depth+1) {
					return true
				}
			case *ssa.Call:
				if b, ok := x.Call.Value.(*ssa.Builtin); ok && b.Name() == "append" && shared(x.Call.Args[0], depth+1) {
					return true
				}
				if callee := x.Call.StaticCallee(); callee != nil && sharedRet[callee] {
					return true
				}
			case *ssa.Extract:
				if call, ok := x.Tuple.(*ssa.Call); ok {
					if callee := call.Call.StaticCallee(); callee != nil && sharedRet[callee] {
						return true
					}
				}
			}
		}
		return false
	}
	for changed := true; changed; {
		changed = false
		for _, fn := range fns {
			an.EachInstr(fn, func(in ssa.Instruction) {
				switch x := in.(type) {
				case *ssa.Store:
					if fa, ok := x.Addr.(*ssa.FieldAddr); ok && !tainted[an.TypeField(fa)] {
						if fresh, _ := an.FreshBase(fa.X); fresh && shared(x.Val, 0) {
							tainted[an.TypeField(fa)] = true
							changed = true
						}
					}
				case *ssa.Return:
					if !sharedRet[fn] {
						for _, r := range x.Results {
							if shared(r, 0) {
								sharedRet[fn] = true
								changed = true
							}
						}
					}
				case *ssa.Call:
					callee := x.Call.StaticCallee()
					if callee == nil || !inScope[callee] {
						return
					}
					for i, a := range x.Call.Args {
						if i < len(callee.Params) && !sharedParam[callee.Params[i]] && shared(a, 0) {
							sharedParam[callee.Params[i]] = true
							changed = true
						}
					}
				}
			})
		}
	}
	for _, fn := range fns {
		fn := fn
		an.EachInstr(fn, func(in ssa.Instruction) {
			switch x := in.(type) {
			case *ssa.Call:
				if b, ok := x.Call.Value.(*ssa.Builtin); ok && b.Name() == "append" {
					n++
					if shared(x.Call.Args[0], 0) {
						nBad++
						c.Bad(rule, an.Short(fn)+":append(shared)", x.Pos(), "%s appends to %s, whose backing array can belong to an operand: with spare capacity the append writes into storage that other containers derived from the same operand read", an.Short(fn), an.FieldProv(x.Call.Args[0]))
					}
				}
			case *ssa.Store:
				if ia, ok := x.Addr.(*ssa.IndexAddr); ok {
					n++
					if shared(ia.X, 0) {
						nBad++
						c.Bad(rule, an.Short(fn)+":index-write(shared)", x.Pos(), "%s writes an element of %s, whose backing array can belong to an operand", an.Short(fn), an.FieldProv(ia.X))
					}
				}
			case *ssa.MapUpdate:
				n++
				if shared(x.Map, 0) {
					nBad++
					c.Bad(rule, an.Short(fn)+":map-write(shared)", x.Pos(), "%s writes into %s, a map that can belong to an operand", an.Short(fn), an.FieldProv(x.Map))
				}
			}
		})
	}
	if nBad > 0 {
		return
	}
	c.OK(rule, "pkg/variables:combinators:storage", token.NoPos, "%d functions under Merge/With, %d append/element/map writes: none on storage shared with an operand", len(fns), n)
}
