package rules

import (
	"fmt"
	"go/token"
	"go/types"
	"sort"
	"strings"

	"golang.org/x/tools/go/ssa"

	"taskverif/an"
)

func init() { register("C19", checkC19) }

func checkC19(c *an.Ctx) {
	c.Rule("C19.1", "raw (E5/E10): rawOutputDecorator.Write calls the underlying writer exactly once with its argument itself and returns that call's results; no Write in pkg/output modifies or retains the caller's buffer")
	c.Rule("C19.2", "one write per line (E10): every path of lineWriter.Write makes exactly one call writing to its destination, carrying the task name, \": \", the stripped payload and the terminator; the prefixed and raw decorators share no mutable package-level state")
	c.Rule("C19.3", "all bytes are forwarded (E3): in the prefixed Write every consumed line is written to the line buffer before the input advances by exactly what the scanner consumed, the remainder is written after the loop, a nil-error return reports len(p), and WriteFooter flushes the buffer; the scanner is bufio.ScanLines (library contract) or a (line, rest) cutter of the module recognised by shape")
	c.Rule("C19.4", "Finish without Start (E8/E9): NewTaskOutput covers every exported Format constant; for every decorator, a field assigned only under WriteHeader and dereferenced under WriteFooter — or under any other exported entry point of pkg/output that does not itself start the output (output.Close, reached from Finish) — is nil-tested first (Run always finishes the output but starts it only before the commands); an index or slice bound taken from sort.Search on a list of started tasks is tested against the length first (the result is the length when the task was never added)")
	c.Rule("C19.5", "presentation only (E4): pkg/output never writes the task's result fields and never reaches a function that reads the captured log destructively (a bytes.Buffer handed to a reader is drained); in Run the output format is consumed only by NewTaskOutput; Finish's error is logged, never returned")
	c.Rule("C19.6", "lock order (E8): no function of pkg/output calls a lock-taking method of a shared spinner while holding a mutex that one of the spinner's callbacks (run under the spinner's lock) acquires")
	c.Summaries = append(c.Summaries, "github.com/briandowns/spinner: Start/Stop/Restart/Reverse/UpdateSpeed/UpdateCharSet/Active take the spinner's lock; the spinner goroutine calls PreUpdate/PostUpdate while holding it (read in spinner.go)")
	c.NotDecided = append(c.NotDecided, "byte-level losslessness for all chunkings (C19.3 is its skeleton)", "ANSI stripping", "terminal behaviour of the spinner; a lock leak inside the spinner library itself (its goroutine returns without unlocking when stopped at the wrong moment — third-party, observation)", "stdout and stderr of one task sharing an unsynchronised bufio.Writer (observation)")
	p := c.P

	// C19.1
	raw := p.Func("pkg/output", "rawOutputDecorator", "Write")
	if raw == nil {
		c.Und("C19.1", "output.(*rawOutputDecorator).Write", token.NoPos, "not found")
	} else {
		ex := &an.Explorer{P: p, NoReturn: noReturn}
		var wcall *ssa.Call
		ex.Effect = func(in ssa.Instruction, st *an.State) string {
			call, ok := in.(*ssa.Call)
			if !ok {
				return ""
			}
			if call.Call.IsInvoke() && call.Call.Method.Name() == "Write" {
				wcall = call
				arg := "other"
				if an.SameValue(call.Call.Args[0], raw.Params[1]) {
					arg = "b"
				}
				return "Write(" + an.FieldProv(call.Call.Value) + "," + arg + ")"
			}
			if _, isB := call.Call.Value.(*ssa.Builtin); isB {
				return ""
			}
			return "call:" + an.ShortCallee(&call.Call)
		}
		outs := ex.Run(raw, raw.Blocks[0], nil, nil)
		good := len(outs) > 0
		for _, o := range outs {
			if len(o.Effects) != 1 || o.Effects[0] != "Write(rawOutputDecorator.w,b)" {
				good = false
			}
		}
		c.Check(good, "C19.1", an.Short(raw)+":forward", raw.Pos(), "one Write of the argument itself to the underlying writer", fmt.Sprintf("raw Write does not forward its argument unchanged in one call: %v", func() []string {
			var ks []string
			for _, o := range outs {
				ks = append(ks, strings.Join(o.Effects, ","))
			}
			return ks
		}()))
		if wcall != nil {
			okRet := true
			for _, ret := range an.Returns(raw) {
				for i := range ret.Results {
					e, ok := an.RetVal(ret, i).(*ssa.Extract)
					if !ok || e.Tuple != ssa.Value(wcall) || e.Index != i {
						okRet = false
					}
				}
			}
			c.Check(okRet, "C19.1", an.Short(raw)+":results", raw.Pos(), "returns the underlying writer's results", "raw Write does not return the underlying writer's (n, err)")
		}
	}
	nW := 0
	for _, fn := range p.Funcs {
		if fn.Name() != "Write" || fn.Signature.Recv() == nil || !inPkgs("pkg/output")(fn) {
			continue
		}
		nW++
		muts := writerMutatesArgument(p, fn)
		c.Check(len(muts) == 0, "C19.1", an.Short(fn)+":buffer", fn.Pos(), "leaves the caller's buffer alone", "Write "+strings.Join(muts, "; ")+": bytes of the task's output are lost, duplicated or corrupted")
	}

	writerContract(c, "C19.1")

	lineWriterRule(c, "C19.2")
	prefixedForwarding(c, "C19.3")
	finishWithoutStart(c, "C19.4")
	searchBounds(c, "C19.4", "pkg/output")
	presentationOnly(c, "C19.5")
	lockOrder(c, "C19.6")
}

func lineWriterRule(c *an.Ctx, rule string) {
	p := c.P
	lw := p.Func("pkg/output", "lineWriter", "Write")
	if lw == nil {
		c.Und(rule, "output.(lineWriter).Write", token.NoPos, "not found")
		return
	}
	// the destination: the lineWriter's field of type io.Writer (whatever its name)
	isDst := func(v ssa.Value) bool {
		fp := an.FieldProv(v)
		return strings.HasPrefix(fp, "lineWriter.") && types.TypeString(v.Type(), nil) == "io.Writer"
	}
	var nameArgs []ssa.Value
	ex := &an.Explorer{P: p, NoReturn: noReturn}
	ex.Effect = func(in ssa.Instruction, st *an.State) string {
		call, ok := in.(*ssa.Call)
		if !ok {
			return ""
		}
		name := an.ShortCallee(&call.Call)
		if call.Call.IsInvoke() && call.Call.Method.Name() == "Write" && isDst(call.Call.Value) {
			return "dst.Write(" + an.FieldProv(call.Call.Args[0]) + ")"
		}
		if strings.HasPrefix(name, "fmt.Fprint") && isDst(call.Call.Args[0]) {
			var args []string
			for _, a := range call.Call.Args[1:] {
				args = append(args, an.FieldProv(a))
				nameArgs = append(nameArgs, a)
			}
			return name + "(dst," + strings.Join(args, ",") + ")"
		}
		if strings.HasPrefix(name, "io.WriteString") && isDst(call.Call.Args[0]) {
			return "io.WriteString(dst)"
		}
		return ""
	}
	outs := ex.Run(lw, lw.Blocks[0], nil, nil)
	good := len(outs) > 0
	var seen []string
	for _, o := range outs {
		seen = append(seen, strings.Join(o.Effects, " ; "))
		if len(o.Effects) != 1 {
			good = false
		}
	}
	c.Check(good, rule, an.Short(lw)+":one-write", lw.Pos(), "every path writes the destination exactly once", fmt.Sprintf("a line can reach the shared destination in %v: with another task writing in between, the output shows a line with one task's prefix and another task's bytes", dedup(seen)))
	// content: name, ": ", payload, terminator
	okContent := false
	for _, s := range seen {
		carriesName := strings.Contains(s, "lineWriter.t") || strings.Contains(s, "Task.Name")
		for _, a := range nameArgs {
			if reachesField(p, a, "Task.Name", 5) {
				carriesName = true
			}
		}
		if carriesName {
			if strings.Contains(s, `%s: %s\r\n`) || strings.Contains(s, `%s: %s\n`) {
				okContent = true
			}
		}
	}
	c.Check(okContent, rule, an.Short(lw)+":content", lw.Pos(), "the write carries <task name>: <payload><terminator>", "the single write does not carry the task's name, \": \", the payload and a line terminator: "+strings.Join(dedup(seen), " | "))
	// payload derives from the argument
	// mutable package-level state
	globalsOf := func(fns []*ssa.Function) map[string]bool {
		m := map[string]bool{}
		for _, fn := range fns {
			for _, f := range an.WithAnon(fn) {
				an.EachInstr(f, func(in ssa.Instruction) {
					for _, op := range in.Operands(nil) {
						if g, ok := (*op).(*ssa.Global); ok && g.Pkg == fn.Pkg {
							m[g.Name()] = true
						}
					}
				})
			}
		}
		return m
	}
	var fns []*ssa.Function
	for _, fn := range p.Funcs {
		if !inPkgs("pkg/output")(fn) || fn.Parent() != nil {
			continue
		}
		recv := ""
		if fn.Signature.Recv() != nil {
			recv = types.TypeString(an.Deref(fn.Signature.Recv().Type()), func(*types.Package) string { return "" })
		}
		switch recv {
		case "prefixedOutputDecorator", "lineWriter", "rawOutputDecorator":
			fns = append(fns, fn)
		}
		if fn.Name() == "newPrefixedOutputWriter" || fn.Name() == "newRawOutputWriter" {
			fns = append(fns, fn)
		}
	}
	gl := globalsOf(fns)
	// which of them are ever written after initialisation?
	written := map[string]bool{}
	for _, fn := range p.Funcs {
		if !inPkgs("pkg/output")(fn) {
			continue
		}
		an.EachInstr(fn, func(in ssa.Instruction) {
			if st, ok := in.(*ssa.Store); ok {
				if g, ok := st.Addr.(*ssa.Global); ok {
					written[g.Name()] = true
				}
			}
		})
	}
	var shared []string
	for g := range gl {
		if written[g] {
			shared = append(shared, g)
		}
	}
	sort.Strings(shared)
	c.Check(len(shared) == 0, rule, "pkg/output:prefixed+raw:globals", lw.Pos(), fmt.Sprintf("the prefixed and raw decorators touch only read-only package state %v", keys(gl)), fmt.Sprintf("the prefixed/raw decorators use package-level variables that are written at run time (%v): tasks writing concurrently share that state", shared))
}

func keys(m map[string]bool) []string {
	var ks []string
	for k := range m {
		ks = append(ks, k)
	}
	sort.Strings(ks)
	return ks
}

func prefixedForwarding(c *an.Ctx, rule string) {
	p := c.P
	w := p.Func("pkg/output", "prefixedOutputDecorator", "Write")
	wf := p.Func("pkg/output", "prefixedOutputDecorator", "WriteFooter")
	if w == nil || wf == nil {
		c.Und(rule, "output.(*prefixedOutputDecorator).Write", token.NoPos, "not found")
		return
	}
	param := w.Params[1]
	// the scanner and the loop that drives it: in Write itself or in a helper of the package that Write calls
	// from its loop (a cursor type, an extracted step)
	inScope := map[*ssa.Function]bool{}
	for f := range p.Reach([]*ssa.Function{w}, func(e an.CallEdge) bool { return e.Kind == an.EdgeCall && an.Outer(e.Callee).Pkg == w.Pkg }) {
		inScope[f] = true
	}
	var scan *ssa.Call
	for f := range inScope {
		for _, ci := range an.CallsIn(f, "bufio.ScanLines") {
			scan, _ = ci.(*ssa.Call)
		}
	}
	// … or a hand-written cutter: a function of the module that takes the remaining input and returns
	// (line, rest), both sub-slices of it, rest starting right behind the line's end-of-line marker
	cutter := false
	if scan == nil {
		an.EachInstr(w, func(in ssa.Instruction) {
			call, ok := in.(*ssa.Call)
			if !ok || scan != nil {
				return
			}
			if callee := call.Call.StaticCallee(); callee != nil && an.InModule(callee) && isLineCutter(callee) {
				scan, cutter = call, true
			}
		})
	}
	if scan == nil {
		c.Und(rule, an.Short(w)+":scanner", w.Pos(), "the prefixed Write does not split its input with bufio.ScanLines (or a cutter of the module with the same contract): line forwarding cannot be established by this rule")
		return
	}
	var site ssa.Instruction = scan
	if scan.Parent() != w {
		site = nil
		an.EachInstr(w, func(in ssa.Instruction) {
			call, ok := in.(*ssa.Call)
			if !ok || site != nil {
				return
			}
			for _, callee := range p.Callees(&call.Call) {
				if !inScope[callee] {
					continue
				}
				if _, ok := p.Reach([]*ssa.Function{callee}, func(e an.CallEdge) bool { return inScope[e.Callee] })[scan.Parent()]; ok {
					site = call
				}
			}
		})
	}
	if site == nil {
		c.Und(rule, an.Short(w)+":scanner", w.Pos(), "the call chain from Write to the scanner was not found")
		return
	}
	loop := an.InnermostLoop(an.Loops(w), site.Block())
	// lf is the function holding the scanning loop: Write itself, or a helper of the package that Write
	// hands its whole argument and its line buffer to (one call site, in Write)
	lf, lparam := w, param
	var lfCall *ssa.Call
	if loop == nil && scan.Parent() != w {
		g := scan.Parent()
		if l2 := an.InnermostLoop(an.Loops(g), scan.Block()); l2 != nil {
			if sites := p.CallSitesOf(g); len(sites) == 1 && sites[0].Parent() == w {
				if call, ok := sites[0].(*ssa.Call); ok && !call.Call.IsInvoke() {
					for i, a := range call.Call.Args {
						if i < len(g.Params) && an.SameValue(a, param) {
							lf, lparam, lfCall, loop = g, g.Params[i], call, l2
						}
					}
				}
			}
		}
	}
	if loop == nil {
		c.Und(rule, an.Short(w)+":loop", scan.Pos(), "ScanLines is not called in a loop")
		return
	}
	isBuf := func(v ssa.Value) bool {
		if an.FieldProv(v) == "prefixedOutputDecorator.w" {
			return true
		}
		if lfCall != nil {
			if i := paramIndexOf(lf, v); i >= 0 && i < len(lfCall.Call.Args) {
				return an.FieldProv(lfCall.Call.Args[i]) == "prefixedOutputDecorator.w"
			}
		}
		return false
	}
	adv := extractOf(scan, 0)
	line := extractOf(scan, 1)
	var rest []ssa.Value
	if cutter {
		adv, line, rest = nil, extractOf(scan, 0), extractOf(scan, 1)
	}
	isOneOf := func(v ssa.Value, set []ssa.Value) bool {
		for _, s := range set {
			if v == s {
				return true
			}
		}
		return false
	}
	// the scanned input is the remainder of p, carried from one iteration to the next either in a loop
	// variable (φ) or in a field of a local cursor object
	var rem *ssa.Phi
	var remField string                   // type-qualified field holding the remainder
	var remObj *ssa.Alloc                 // the cursor object, a local of Write
	isRemLoad := func(v ssa.Value) bool { // a load of the cursor's remainder field
		u, ok := v.(*ssa.UnOp)
		if !ok || u.Op != token.MUL {
			return false
		}
		fa, ok := u.X.(*ssa.FieldAddr)
		if !ok || an.TypeField(fa) != remField {
			return false
		}
		for _, src := range p.DeepSources(fa.X, 3, true) {
			if src != ssa.Value(remObj) {
				return false
			}
		}
		return true
	}
	if phi, ok := scan.Call.Args[0].(*ssa.Phi); ok && scan.Parent() == lf && phi.Block() == loop.Header {
		rem = phi
	} else if u, ok := scan.Call.Args[0].(*ssa.UnOp); ok && u.Op == token.MUL {
		if fa, ok := u.X.(*ssa.FieldAddr); ok {
			srcs := p.DeepSources(fa.X, 3, true)
			if len(srcs) == 1 {
				if a, ok := srcs[0].(*ssa.Alloc); ok && a.Parent() == lf {
					remField, remObj = an.TypeField(fa), a
				}
			}
		}
	}
	switch {
	case rem != nil:
		for i, pred := range loop.Header.Preds {
			e := rem.Edges[i]
			if !loop.Blocks[pred] {
				c.Check(an.SameValue(e, lparam), rule, an.Short(w)+":remainder-initial", rem.Pos(), "scanning starts with the whole argument", "scanning does not start with the whole argument")
				continue
			}
			sl, ok := e.(*ssa.Slice)
			good := ok && sl.X == ssa.Value(rem) && sl.High == nil && sl.Low != nil && isOneOf(sl.Low, adv)
			if cutter {
				// the next pass scans exactly what the cutter left
				good = isOneOf(e, rest)
			}
			c.Check(good, rule, an.Short(w)+":advance", rem.Pos(), "the input advances by exactly what the scanner consumed", "after a line the input does not advance by the scanner's advance: "+an.Prov(e))
		}
	case remObj != nil && cutter:
		c.Und(rule, an.Short(w)+":remainder", scan.Pos(), "a hand-written cutter driven through a cursor object is not covered by this rule")
		return
	case remObj != nil:
		// every store to the cursor's field: the one before the loop puts the whole argument there, the others
		// advance it by exactly what the scanner consumed
		nInit, nAdv, bad := 0, 0, ""
		for f := range inScope {
			an.EachInstr(f, func(in ssa.Instruction) {
				st, ok := in.(*ssa.Store)
				if !ok {
					return
				}
				fa, ok := st.Addr.(*ssa.FieldAddr)
				if !ok || an.TypeField(fa) != remField {
					return
				}
				if f == lf && !loop.Blocks[st.Block()] && an.Dominates(st, loop.Header.Instrs[0]) && an.SameValue(st.Val, lparam) {
					nInit++
					return
				}
				sl, isSl := st.Val.(*ssa.Slice)
				if isSl && isRemLoad(sl.X) && sl.High == nil && sl.Low != nil && isOneOf(sl.Low, adv) && an.Dominates(scan, st) {
					nAdv++
					return
				}
				bad = an.Prov(st.Val)
			})
		}
		c.Check(nInit == 1 && bad == "", rule, an.Short(w)+":remainder-initial", remObj.Pos(), "scanning starts with the whole argument", "the cursor does not start with the whole argument")
		c.Check(nAdv >= 1 && bad == "", rule, an.Short(w)+":advance", scan.Pos(), "the input advances by exactly what the scanner consumed", "after a line the input does not advance by the scanner's advance: "+bad)
	default:
		c.Bad(rule, an.Short(w)+":remainder", scan.Pos(), "the scanner is not applied to the loop-carried remainder of the input: %s", an.Prov(scan.Call.Args[0]))
		return
	}
	// per iteration: advance ≠ 0, no error → write(line) before going round
	// (helpers of pkg/output such as an extracted emitLine are inlined; the line is followed into them by identity)
	inlinable := func(f *ssa.Function) bool {
		return f != nil && f.Blocks != nil && an.Outer(f).Pkg == w.Pkg && f != w && f != lf
	}
	ex := &an.Explorer{P: p, NoReturn: noReturn, MaxDepth: 2, Inline: inlinable}
	loop.Bound(ex)
	ex.Atom = func(v ssa.Value) (an.AVal, bool) {
		if call, ok := v.(*ssa.Call); ok && inlinable(call.Call.StaticCallee()) {
			return an.AVal{}, false
		}
		if c2, ok := v.(*ssa.Extract); ok {
			if call, ok := c2.Tuple.(*ssa.Call); ok && inlinable(call.Call.StaticCallee()) {
				return an.AVal{}, false
			}
		}
		for _, e := range errOf(scan) {
			if v == e {
				return an.AVal{K: an.ANil}, true
			}
		}
		if bo, ok := v.(*ssa.BinOp); ok && (bo.Op == token.EQL || bo.Op == token.NEQ) && isOneOf(bo.X, adv) {
			if k, ok := an.ConstInt(bo.Y); ok && k == 0 {
				return an.ABool(bo.Op == token.NEQ), true
			}
		}
		// writes succeed
		if c2, ok := v.(*ssa.Extract); ok {
			if call, ok := c2.Tuple.(*ssa.Call); ok && an.IsErrorType(c2.Type()) && call != scan {
				return an.AVal{K: an.ANil}, true
			}
		}
		if call, ok := v.(*ssa.Call); ok && an.IsErrorType(call.Type()) {
			return an.AVal{K: an.ANil}, true
		}
		return an.AVal{}, false
	}
	ex.Effect = func(in ssa.Instruction, st *an.State) string {
		call, ok := in.(*ssa.Call)
		if !ok {
			return ""
		}
		if bw, isW := an.IsCallTo(call, "(*bufio.Writer).Write"); isW && (isBuf(bw.Args[0]) || isBuf(st.Root(bw.Args[0]))) {
			if isOneOf(bw.Args[1], line) || isOneOf(st.Root(bw.Args[1]), line) {
				return "write(line)"
			}
			for _, src := range an.Sources(st.Root(bw.Args[1])) {
				if isOneOf(st.Root(src), line) {
					return "write(line)"
				}
			}
			return "write(" + an.Prov(bw.Args[1]) + ")"
		}
		return ""
	}
	var outs []an.Outcome
	if scan.Parent() == lf {
		outs = ex.RunFrom(lf, scan, nil)
	} else {
		outs = ex.Run(lf, loop.BodyEntry(), loop.Header, nil)
	}
	good := len(outs) > 0
	for _, o := range outs {
		if o.End == "stop" && o.StopBlock == loop.Header {
			n := 0
			for _, e := range o.Effects {
				if e == "write(line)" {
					n++
				}
			}
			if n != 1 {
				good = false
			}
		}
	}
	c.Check(good, rule, an.Short(w)+":line-forwarded", scan.Pos(), "each scanned line is written to the line buffer exactly once before the input advances", "a scanned line can be skipped (or written twice) before the input advances")
	// after the loop: the remainder is written, and the nil-error return reports len(p)
	tailOK := false
	if lfCall != nil {
		// the loop's function returns what the scanner left over (every return without an error gives the
		// loop-carried remainder), and Write writes that result to the line buffer
		idx := -1
		res := lf.Signature.Results()
		for i := 0; i < res.Len(); i++ {
			if types.Identical(res.At(i).Type(), param.Type()) {
				idx = i
			}
		}
		retOK := idx >= 0
		for _, ret := range an.Returns(lf) {
			if idx < 0 {
				break
			}
			errIdx := res.Len() - 1
			if an.IsErrorType(res.At(errIdx).Type()) && !an.IsNilConst(an.RetVal(ret, errIdx)) {
				continue
			}
			for _, src := range an.ResolveAll(an.RetVal(ret, idx)) {
				if !((rem != nil && src == ssa.Value(rem)) || src == ssa.Value(lparam) || (remObj != nil && isRemLoad(src))) {
					retOK = false
				}
			}
		}
		if retOK {
			for _, ci := range an.CallsIn(w, "(*bufio.Writer).Write") {
				bw, _ := an.IsCallTo(ci, "(*bufio.Writer).Write")
				if !isBuf(bw.Args[0]) || !an.Dominates(lfCall, ci.(ssa.Instruction)) {
					continue
				}
				for _, src := range an.Sources(bw.Args[1]) {
					if e, ok := src.(*ssa.Extract); ok && e.Tuple == ssa.Value(lfCall) && e.Index == idx {
						tailOK = true
					}
					if src == ssa.Value(lfCall) && res.Len() == 1 {
						tailOK = true
					}
				}
			}
		}
	}
	for _, ci := range an.CallsIn(w, "(*bufio.Writer).Write") {
		if lfCall != nil {
			break
		}
		bw, _ := an.IsCallTo(ci, "(*bufio.Writer).Write")
		if !loop.Blocks[ci.Block()] && isBuf(bw.Args[0]) {
			for _, src := range an.Sources(bw.Args[1]) {
				if (rem != nil && src == ssa.Value(rem)) || src == ssa.Value(param) {
					tailOK = true
				}
				if remObj != nil && isRemLoad(src) {
					tailOK = true
				}
			}
		}
	}
	c.Check(tailOK, rule, an.Short(w)+":tail", w.Pos(), "what the scanner left over is written after the loop", "the remainder left by the scanner is dropped")
	for _, ret := range an.Returns(w) {
		if !an.IsNilConst(an.RetVal(ret, 1)) {
			continue
		}
		okN := false
		for _, src := range an.Sources(an.RetVal(ret, 0)) {
			if call, ok := src.(*ssa.Call); ok {
				if b, ok := call.Call.Value.(*ssa.Builtin); ok && b.Name() == "len" && an.SameValue(call.Call.Args[0], param) {
					okN = true
				}
			}
		}
		c.Check(okN, rule, an.Short(w)+":count", ret.Pos(), "a successful Write reports len(p)", "a successful Write does not report len(p): io.MultiWriter treats a short count as an error and the task log loses the chunk")
	}
	// WriteFooter flushes
	// (a helper of the package that flushes the decorator's buffer on every path counts as the flush)
	var flushesAlways func(fn *ssa.Function, depth int) bool
	flushesAlways = func(fn *ssa.Function, depth int) bool {
		if fn == nil || len(fn.Blocks) == 0 {
			return false
		}
		isFlush := func(in ssa.Instruction) bool {
			call, ok := in.(*ssa.Call)
			if !ok {
				return false
			}
			if bf, isF := an.IsCallTo(call, "(*bufio.Writer).Flush"); isF {
				return an.FieldProv(bf.Args[0]) == "prefixedOutputDecorator.w"
			}
			callee := call.Call.StaticCallee()
			return depth > 0 && callee != nil && callee.Pkg == wf.Pkg && flushesAlways(callee, depth-1)
		}
		first := fn.Blocks[0].Instrs[0]
		if isFlush(first) {
			return true
		}
		ok, _ := an.OnAllPathsToExit(first, isFlush, nil)
		return ok
	}
	okFlush := flushesAlways(wf, 2)
	c.Check(okFlush, rule, an.Short(wf)+":flush", wf.Pos(), "the footer flushes the line buffer on every path", "WriteFooter does not flush the line buffer: an unterminated tail is lost")
}

func finishWithoutStart(c *an.Ctx, rule string) {
	p := c.P
	// registry
	nto := p.Func("pkg/output", "", "NewTaskOutput")
	if nto != nil {
		sp := p.Pkg("pkg/output")
		want := map[string]bool{}
		for name, m := range sp.Members {
			if k, ok := m.(*ssa.NamedConst); ok && strings.HasPrefix(name, "Format") {
				if s, ok := an.ConstString(k.Value); ok {
					want[s] = true
				}
			}
		}
		got := map[string]bool{}
		// (the dispatch may live in a helper of the package that NewTaskOutput calls)
		for f := range p.Reach([]*ssa.Function{nto}, func(e an.CallEdge) bool { return e.Kind == an.EdgeCall && an.Outer(e.Callee).Pkg == nto.Pkg }) {
			an.EachInstr(f, func(in ssa.Instruction) {
				if bo, ok := in.(*ssa.BinOp); ok && bo.Op == token.EQL {
					if s, ok := an.ConstString(bo.Y); ok {
						got[s] = true
					}
				}
				// or a lookup in a constant registry of the package: its keys are the cases
				if lk, ok := in.(*ssa.Lookup); ok {
					if g := globalOfLookup(lk); g != nil {
						if reg, ok := constRegistry(p, g); ok {
							for k := range reg {
								got[k] = true
							}
						}
					}
				}
			})
		}
		var missing []string
		for w := range want {
			if !got[w] {
				missing = append(missing, w)
			}
		}
		sort.Strings(missing)
		c.Check(len(missing) == 0 && len(want) > 0, rule, an.Short(nto)+":formats", nto.Pos(), fmt.Sprintf("every exported Format constant has a case %v", keys(want)), fmt.Sprintf("NewTaskOutput has no case for %v", missing))
	}
	// decorators
	sp := p.Pkg("pkg/output")
	iface, _ := sp.Type("DecoratedOutputWriter").Type().Underlying().(*types.Interface)
	n := 0
	for _, m := range sp.Members {
		tm, ok := m.(*ssa.Type)
		if !ok || types.IsInterface(tm.Type()) {
			continue
		}
		pt := types.NewPointer(tm.Type())
		if iface == nil || !types.Implements(pt, iface) {
			continue
		}
		name := tm.Name()
		hdr := p.Func("pkg/output", name, "WriteHeader")
		ftr := p.Func("pkg/output", name, "WriteFooter")
		if hdr == nil || ftr == nil {
			continue
		}
		n++
		follow := func(e an.CallEdge) bool { return an.InModule(e.Callee) && inPkgs("pkg/output")(e.Callee) }
		H := p.Reach([]*ssa.Function{hdr}, follow)
		F := p.Reach([]*ssa.Function{ftr}, follow)
		// every other exported entry point of the package that does not itself start the output
		// (output.Close, reached from TaskRunner.Finish) can run in state 'created' as well
		for _, fn := range p.Funcs {
			if !inPkgs("pkg/output")(fn) || fn.Parent() != nil || fn.Object() == nil || !fn.Object().Exported() {
				continue
			}
			R := p.Reach([]*ssa.Function{fn}, follow)
			if _, starts := R[hdr]; starts {
				continue
			}
			for f := range R {
				F[f] = R[f]
			}
		}
		// pointer fields stored only under H
		type fieldInfo struct{ inH, elsewhere bool }
		fields := map[string]*fieldInfo{}
		for _, fn := range p.Funcs {
			if !inPkgs("pkg/output")(fn) {
				continue
			}
			an.EachInstr(fn, func(in ssa.Instruction) {
				st, ok := in.(*ssa.Store)
				if !ok {
					return
				}
				fa, ok := st.Addr.(*ssa.FieldAddr)
				if !ok {
					return
				}
				if _, isPtr := st.Val.Type().Underlying().(*types.Pointer); !isPtr {
					return
				}
				key := an.TypeField(fa)
				fi := fields[key]
				if fi == nil {
					fi = &fieldInfo{}
					fields[key] = fi
				}
				if fresh, _ := an.FreshBase(fa.X); fresh {
					if !an.IsNilConst(st.Val) {
						fi.elsewhere = true // set by a constructor: always present
					}
					return
				}
				if _, ok := H[an.Outer(fn)]; ok || func() bool { _, ok := H[fn]; return ok }() {
					fi.inH = true
				} else {
					fi.elsewhere = true
				}
			})
		}
		bad := false
		for fn := range F {
			for _, f2 := range an.WithAnon(fn) {
				an.EachInstr(f2, func(in ssa.Instruction) {
					// dereference of a value loaded from such a field
					var base ssa.Value
					switch x := in.(type) {
					case *ssa.FieldAddr:
						base = x.X
					case *ssa.Call:
						if !x.Call.IsInvoke() && len(x.Call.Args) > 0 {
							if _, isPtr := x.Call.Args[0].Type().Underlying().(*types.Pointer); isPtr && x.Call.Signature().Recv() != nil {
								base = x.Call.Args[0]
							}
						}
					}
					if base == nil {
						return
					}
					ld, ok := an.Resolve(base).(*ssa.UnOp)
					if !ok || ld.Op != token.MUL {
						return
					}
					fa, ok := ld.X.(*ssa.FieldAddr)
					if !ok {
						return
					}
					key := an.TypeField(fa)
					fi := fields[key]
					if fi == nil || !fi.inH || fi.elsewhere {
						return
					}
					// guarded by a nil test of this very value (or of another load of the same field)
					guarded := false
					for _, g := range an.Guards(in.Block()) {
						x, eq, isNil := an.NilTest(g.Cond)
						if !isNil || eq == g.Outcome {
							continue
						}
						if an.Resolve(x) == ssa.Value(ld) {
							guarded = true
						}
						if l2, ok := an.Resolve(x).(*ssa.UnOp); ok {
							if fa2, ok := l2.X.(*ssa.FieldAddr); ok && an.TypeField(fa2) == key && an.Prov(fa2.X) == an.Prov(fa.X) {
								guarded = true
							}
						}
					}
					okey := fmt.Sprintf("%s:deref(%s)", an.Short(f2), key)
					if guarded {
						c.OK(rule, okey, in.Pos(), "nil-tested before use")
					} else {
						bad = true
						c.Bad(rule, okey, in.Pos(), "%s dereferences %s, which is assigned only under %s.WriteHeader, without a nil test; TaskRunner.Run finishes the output of a task that was skipped or whose before hook failed without ever starting it", an.Short(f2), key, name)
					}
				})
			}
		}
		if !bad {
			c.OK(rule, "output."+name+":footer-without-header", ftr.Pos(), "WriteFooter is safe in state 'created' (%d functions under WriteHeader, %d under WriteFooter)", len(H), len(F))
		}
	}
	if n == 0 {
		c.Und(rule, "output:decorators", token.NoPos, "no DecoratedOutputWriter implementation found")
	}
	// the premise: Run defers Finish right after creating the output and calls Start later
	r := resolveRunner(c, rule)
	if r.ok && r.newOutputCall != nil && r.startCall != nil {
		var dfin *ssa.Defer
		an.EachInstr(r.run, func(in ssa.Instruction) {
			if d, ok := in.(*ssa.Defer); ok {
				for _, callee := range p.Callees(&d.Call) {
					if len(an.CallsIn(callee, fnOutFinish)) > 0 {
						dfin = d
					}
				}
			}
		})
		if dfin != nil && an.Dominates(dfin, r.startCall) {
			c.OK(rule, an.Short(r.run)+":finish-before-start", dfin.Pos(), "premise: Finish is registered before Start is reached, so the footer can run without the header")
		} else {
			c.Note(rule, an.Short(r.run)+":finish-before-start", r.run.Pos(), "Run no longer finishes an output it has not started")
		}
	}
}

func presentationOnly(c *an.Ctx, rule string) {
	p := c.P
	bad := false
	for _, fn := range p.Funcs {
		if !inPkgs("pkg/output")(fn) {
			continue
		}
		an.EachInstr(fn, func(in ssa.Instruction) {
			st, ok := in.(*ssa.Store)
			if !ok {
				return
			}
			fa, ok := st.Addr.(*ssa.FieldAddr)
			if !ok || !an.TypeIs(fa.X.Type(), "pkg/task", "Task") {
				return
			}
			switch an.AccessPath(fa).LastField() {
			case "ExitCode", "Errored", "Error", "Skipped":
				bad = true
				c.Bad(rule, an.Short(fn)+":write("+an.TypeField(fa)+")", st.Pos(), "the output layer writes the task's result field %s: the recorded result depends on the format", an.TypeField(fa))
			}
		})
	}
	if !bad {
		c.OK(rule, "pkg/output:task-results", token.NoPos, "no function of pkg/output writes Task.ExitCode/Errored/Error/Skipped")
	}
	// nor does it consume the captured log: a bytes.Buffer handed to a reader (or Read/Next/Reset/Truncate on it)
	// is drained, so a "getter" that reads the log through a Scanner changes the recorded output
	isLogAddr := func(v ssa.Value) bool {
		for _, s := range an.Sources(v) {
			fa, ok := s.(*ssa.FieldAddr)
			if !ok {
				continue
			}
			ap := an.AccessPath(fa)
			if len(ap.Fields) >= 2 && ap.Fields[len(ap.Fields)-2] == "Log" && an.TypeIs(ap.Base.Type(), "pkg/task", "Task") {
				return true
			}
		}
		return false
	}
	consumers := map[*ssa.Function]string{}
	for _, fn := range p.Funcs {
		an.EachInstr(fn, func(in ssa.Instruction) {
			ci, ok := in.(ssa.CallInstruction)
			if !ok {
				return
			}
			cc := ci.Common()
			name := an.ShortCallee(cc)
			for i, a := range cc.Args {
				if !isLogAddr(a) {
					continue
				}
				if i == 0 && strings.HasPrefix(name, "(*bytes.Buffer).") {
					switch strings.TrimPrefix(name, "(*bytes.Buffer).") {
					case "Read", "ReadByte", "ReadBytes", "ReadRune", "ReadString", "Next", "Reset", "Truncate", "WriteTo", "ReadFrom", "UnreadByte", "UnreadRune":
						consumers[fn] = name
					}
					continue
				}
				// handed on as a value (an io.Reader, usually): whoever receives it may drain it
				if !strings.HasPrefix(name, "(*bytes.Buffer).") && !strings.HasPrefix(name, "io.MultiWriter") {
					consumers[fn] = "passes the log buffer to " + name
				}
			}
		})
	}
	drains := false
	for _, fn := range p.Funcs {
		if !inPkgs("pkg/output")(fn) {
			continue
		}
		for g, path := range p.Reach([]*ssa.Function{fn}, func(e an.CallEdge) bool { return an.InModule(e.Callee) }) {
			if why, ok := consumers[g]; ok && inPkgs("pkg/output")(fn) && fn.Parent() == nil {
				drains = true
				c.Bad(rule, an.Short(fn)+":consumes(Task.Log)", fn.Pos(), "%s reaches %s, which %s: reading the captured log through a reader drains it, so the task's recorded output depends on the output format (%s)", an.Short(fn), an.Short(g), why, p.PathString(path))
			}
		}
	}
	if !drains {
		c.OK(rule, "pkg/output:task-log", token.NoPos, "no function of pkg/output reaches a function that reads the captured log destructively (%d such functions in the module)", len(consumers))
	}
	r := resolveRunner(c, rule)
	if !r.ok {
		return
	}
	// consumers of the format: wherever TaskRunner.OutputFormat is read in Run's closure, the value
	// may only flow (through locals, φ, helper results) into NewTaskOutput's format argument
	var loads []ssa.Value
	for _, fn := range r.scope {
		an.EachInstr(fn, func(in ssa.Instruction) {
			if u, ok := in.(*ssa.UnOp); ok && u.Op == token.MUL && an.FieldProv(u) == "TaskRunner.OutputFormat" {
				loads = append(loads, u)
			}
		})
	}
	if len(loads) == 0 {
		c.Und(rule, an.Short(r.run)+":format", r.run.Pos(), "TaskRunner.Run's closure does not read TaskRunner.OutputFormat")
		return
	}
	okUse := true
	badUse := ""
	seen := map[ssa.Value]bool{}
	var walk func(v ssa.Value, depth int)
	walk = func(v ssa.Value, depth int) {
		if seen[v] || v.Referrers() == nil || depth > 12 {
			return
		}
		seen[v] = true
		for _, ref := range *v.Referrers() {
			switch x := ref.(type) {
			case *ssa.Phi:
				walk(x, depth+1)
			case *ssa.Call:
				if _, ok := an.IsCallTo(x, fnNewTaskOutput); ok {
					continue
				}
				okUse = false
				badUse = an.ShortCallee(&x.Call)
			case *ssa.DebugRef:
			case *ssa.Store:
				if a, ok := x.Addr.(*ssa.Alloc); ok {
					walk(a, depth+1)
				} else if fa, ok := x.Addr.(*ssa.FieldAddr); ok && len(an.MethodObjectLoads(fa)) > 0 {
					// parked in a field of the run's own method object: followed to where it is picked up again
					for _, ld := range an.MethodObjectLoads(fa) {
						walk(ld, depth+1)
					}
				} else {
					okUse = false
					badUse = "store to " + an.Prov(x.Addr)
				}
			case *ssa.UnOp:
				walk(x, depth+1)
			case *ssa.Return:
				// a helper hands the value back: follow it at the helper's call sites
				fn := x.Parent()
				idx := -1
				for i, rv := range x.Results {
					if rv == v {
						idx = i
					}
				}
				for _, site := range p.CallSitesOf(fn) {
					val := site.Value()
					if val == nil {
						continue
					}
					if fn.Signature.Results().Len() == 1 {
						walk(val, depth+1)
						continue
					}
					if refs := val.Referrers(); refs != nil {
						for _, rr := range *refs {
							if ex, ok := rr.(*ssa.Extract); ok && ex.Index == idx {
								walk(ex, depth+1)
							}
						}
					}
				}
			default:
				okUse = false
				badUse = fmt.Sprintf("%T", ref)
			}
		}
	}
	for _, l := range loads {
		walk(l, 0)
	}
	c.Check(okUse, rule, an.Short(r.run)+":format-consumers", loads[0].Pos(), "the format reaches NewTaskOutput and nothing else", "the output format influences something besides the choice of decorator: "+badUse)
	// Finish's error is not returned
	for _, fn := range an.WithAnon(r.run) {
		for _, ci := range an.CallsIn(fn, fnOutFinish) {
			call, ok := ci.(*ssa.Call)
			if !ok {
				continue
			}
			leaks := false
			if refs := call.Referrers(); refs != nil {
				for _, ref := range *refs {
					if st, ok := ref.(*ssa.Store); ok {
						if _, isFV := st.Addr.(*ssa.FreeVar); isFV {
							leaks = true
						}
					}
					if _, ok := ref.(*ssa.Return); ok && fn == r.run {
						leaks = true
					}
				}
			}
			// … nor wrapped into one that is (a named result assigned in the deferred function)
			if fate := c.P.ErrFate(call, noReturn); fate.Kind == "propagated" || fate.Kind == "converted" {
				leaks = true
			}
			if !leaks {
				// a value derived from the footer's error stored into a variable of the enclosing function
				for _, u := range c.P.FlowsFrom(fn, []ssa.Value{call}, 1) {
					if st, ok := u.In.(*ssa.Store); ok {
						if _, isFV := st.Addr.(*ssa.FreeVar); isFV {
							leaks = true
						}
					}
				}
			}
			c.Check(!leaks, rule, an.Short(fn)+":err(Finish)", call.Pos(), "a footer error is logged, it does not change the task's result", "an error of the output footer becomes the task's error")
		}
	}
}

// spinnerLockMethods take the spinner's lock (library summary).
var spinnerLockMethods = map[string]bool{"Start": true, "Stop": true, "Restart": true, "Reverse": true, "UpdateSpeed": true, "UpdateCharSet": true, "Active": true, "Color": true, "Lock": true}

func lockOrder(c *an.Ctx, rule string) {
	p := c.P
	// callbacks: closures stored into Spinner.PreUpdate / PostUpdate
	cbLocks := map[string]bool{}
	nCB := 0
	for _, fn := range p.Funcs {
		if !inPkgs("pkg/output")(fn) {
			continue
		}
		an.EachInstr(fn, func(in ssa.Instruction) {
			st, ok := in.(*ssa.Store)
			if !ok {
				return
			}
			fa, ok := st.Addr.(*ssa.FieldAddr)
			if !ok {
				return
			}
			tf := an.TypeField(fa)
			if tf != "Spinner.PreUpdate" && tf != "Spinner.PostUpdate" {
				return
			}
			for _, src := range an.Sources(st.Val) {
				mc, ok := src.(*ssa.MakeClosure)
				if !ok {
					continue
				}
				nCB++
				cb := mc.Fn.(*ssa.Function)
				reach := p.Reach([]*ssa.Function{cb}, func(e an.CallEdge) bool { return an.InModule(e.Callee) })
				for g := range reach {
					for _, op := range an.BlockingOps(g) {
						if op.Kind == "lock" || op.Kind == "rlock" {
							cbLocks[groupKey(op.OnVal)] = true
						}
					}
				}
			}
		})
	}
	if nCB == 0 {
		c.OK(rule, "pkg/output:spinner-callbacks", token.NoPos, "no callback is installed on a spinner: no lock-order obligation")
		return
	}
	c.Sites[rule] = append(c.Sites[rule], fmt.Sprintf("mutexes taken by spinner callbacks (under the spinner's lock): %v", keys(cbLocks)))
	// functions that call lock-taking spinner methods on a shared spinner, directly or through module calls
	var takesSpinnerLock func(fn *ssa.Function, depth int) (bool, string)
	memo := map[*ssa.Function]string{}
	takesSpinnerLock = func(fn *ssa.Function, depth int) (bool, string) {
		if w, ok := memo[fn]; ok {
			return w != "", w
		}
		memo[fn] = ""
		if depth > 4 || fn.Blocks == nil {
			return false, ""
		}
		res := ""
		an.EachInstr(fn, func(in ssa.Instruction) {
			ci, ok := in.(ssa.CallInstruction)
			if !ok || res != "" {
				return
			}
			if _, isGo := in.(*ssa.Go); isGo {
				return
			}
			name := an.ShortCallee(ci.Common())
			if strings.HasPrefix(name, "(*github.com/briandowns/spinner.Spinner).") {
				m := strings.TrimPrefix(name, "(*github.com/briandowns/spinner.Spinner).")
				if spinnerLockMethods[m] {
					// fresh spinner (created here by spinner.New, not yet shared)?
					fresh := true
					for _, src := range an.Sources(ci.Common().Args[0]) {
						call, ok := src.(*ssa.Call)
						if !ok || an.ShortCallee(&call.Call) != "github.com/briandowns/spinner.New" || call.Parent() != fn {
							fresh = false
						}
					}
					if !fresh {
						res = "Spinner." + m + "@" + p.Pos(in.Pos())
					}
				}
				return
			}
			for _, callee := range p.Callees(ci.Common()) {
				if an.InModule(callee) && inPkgs("pkg/output")(callee) {
					if ok, w := takesSpinnerLock(callee, depth+1); ok && res == "" {
						res = an.Short(callee) + "→" + w
					}
				}
			}
		})
		memo[fn] = res
		return res != "", res
	}
	n := 0
	for _, fn := range p.Funcs {
		if !inPkgs("pkg/output")(fn) {
			continue
		}
		ops := an.BlockingOps(fn)
		for _, op := range ops {
			if (op.Kind != "lock" && op.Kind != "rlock") || !cbLocks[groupKey(op.OnVal)] {
				continue
			}
			n++
			// instructions executed while the mutex is held
			held := func(in ssa.Instruction) bool {
				if !an.Dominates(op.Instr, in) {
					return false
				}
				released := false
				an.EachInstr(fn, func(x ssa.Instruction) {
					if an.IsUnlockOf(x, op) {
						if _, isDefer := x.(*ssa.Defer); !isDefer && an.Dominates(x, in) {
							released = true
						}
					}
				})
				return !released
			}
			bad := ""
			an.EachInstr(fn, func(in ssa.Instruction) {
				ci, ok := in.(ssa.CallInstruction)
				if !ok || bad != "" || !held(in) {
					return
				}
				if _, isGo := in.(*ssa.Go); isGo {
					return
				}
				if _, isDefer := in.(*ssa.Defer); isDefer {
					return
				}
				name := an.ShortCallee(ci.Common())
				if strings.HasPrefix(name, "(*github.com/briandowns/spinner.Spinner).") {
					m := strings.TrimPrefix(name, "(*github.com/briandowns/spinner.Spinner).")
					if spinnerLockMethods[m] {
						fresh := true
						for _, src := range an.Sources(ci.Common().Args[0]) {
							call, ok := src.(*ssa.Call)
							if !ok || an.ShortCallee(&call.Call) != "github.com/briandowns/spinner.New" {
								fresh = false
							}
						}
						if !fresh {
							bad = "Spinner." + m + " at " + p.Pos(in.Pos())
						}
					}
					return
				}
				for _, callee := range p.Callees(ci.Common()) {
					if an.InModule(callee) && inPkgs("pkg/output")(callee) {
						if ok, w := takesSpinnerLock(callee, 0); ok {
							bad = an.Short(callee) + "→" + w
						}
					}
				}
			})
			key := an.Short(fn) + ":holds(" + groupKey(op.OnVal) + ")"
			if bad != "" {
				c.Bad(rule, key, op.Instr.Pos(), "%s calls %s while holding %s; the spinner's goroutine calls the PreUpdate callback, which locks %s, while holding the spinner's lock: lock-order inversion, a task finishing at the moment of a spinner frame hangs the process", an.Short(fn), bad, groupKey(op.OnVal), groupKey(op.OnVal))
			} else {
				c.OK(rule, key, op.Instr.Pos(), "no lock-taking call into a shared spinner while the mutex is held")
			}
		}
	}
	if n == 0 {
		c.OK(rule, "pkg/output:critical-sections", token.NoPos, "no function holds a mutex that a spinner callback takes")
	}
}

// reachesField reports whether a load of the type-qualified field flows into
// v: through conversions, the elements of argument lists, the arguments of
// library calls and the results of module functions (interface calls are
// resolved to the module's implementations).
func reachesField(p *an.Prog, v ssa.Value, field string, depth int) bool {
	if v == nil || depth == 0 {
		return false
	}
	for _, src := range an.Sources(v) {
		switch x := src.(type) {
		case *ssa.UnOp:
			if fa, ok := x.X.(*ssa.FieldAddr); ok && x.Op == token.MUL && an.TypeField(fa) == field {
				return true
			}
		case *ssa.Field:
			if an.FieldProv(x) == field {
				return true
			}
		case *ssa.MakeInterface:
			if reachesField(p, x.X, field, depth) {
				return true
			}
		case *ssa.ChangeType:
			if reachesField(p, x.X, field, depth) {
				return true
			}
		case *ssa.Convert:
			if reachesField(p, x.X, field, depth) {
				return true
			}
		case *ssa.Slice:
			for _, e := range an.VariadicElems(x) {
				if reachesField(p, e, field, depth) {
					return true
				}
			}
		case *ssa.Call:
			inModule := false
			for _, callee := range p.Callees(&x.Call) {
				if callee.Blocks == nil || !an.InModule(callee) {
					continue
				}
				inModule = true
				for _, ret := range an.Returns(callee) {
					for i := range ret.Results {
						if reachesField(p, an.RetVal(ret, i), field, depth-1) {
							return true
						}
					}
				}
			}
			if !inModule {
				for _, a := range x.Call.Args {
					if reachesField(p, a, field, depth-1) {
						return true
					}
				}
			}
		}
	}
	return false
}

// writerContract checks the io.Writer contract for every Write method of the
// module (a task's bytes pass through several of them — decorators, the
// executor's capture buffer — and io.MultiWriter stops at the first writer
// that reports a short count): a return without an error reports len(p), and
// a return that hands on the (n, err) of an inner write does so for a write
// of the whole argument, not of a part of it.
func writerContract(c *an.Ctx, rule string) {
	p := c.P
	n := 0
	for _, fn := range p.Funcs {
		if fn.Name() != "Write" || fn.Signature.Recv() == nil || fn.Parent() != nil || !an.InModule(fn) {
			continue
		}
		sig := fn.Signature
		if sig.Params().Len() != 1 || sig.Results().Len() != 2 || !an.IsErrorType(sig.Results().At(1).Type()) {
			continue
		}
		if sl, ok := sig.Params().At(0).Type().Underlying().(*types.Slice); !ok || sl.Elem().String() != "byte" {
			continue
		}
		n++
		param := fn.Params[len(fn.Params)-1]
		isLenP := func(v ssa.Value) bool {
			srcs := an.Sources(v)
			if len(srcs) == 0 {
				return false
			}
			for _, src := range srcs {
				call, ok := src.(*ssa.Call)
				if !ok {
					return false
				}
				b, ok := call.Call.Value.(*ssa.Builtin)
				if !ok || b.Name() != "len" || call.Call.Args[0] != ssa.Value(param) {
					return false
				}
			}
			return true
		}
		bad := ""
		for _, ret := range an.Returns(fn) {
			cnt, errv := an.RetVal(ret, 0), an.RetVal(ret, 1)
			if isLenP(cnt) {
				continue
			}
			// the length of something else (a filtered copy of the argument) is not the number of bytes consumed
			lenOther := false
			for _, src := range an.Sources(cnt) {
				if call, ok := src.(*ssa.Call); ok {
					if b, ok := call.Call.Value.(*ssa.Builtin); ok && b.Name() == "len" && call.Call.Args[0] != ssa.Value(param) {
						lenOther = true
					}
				}
			}
			if lenOther {
				bad = fmt.Sprintf("reports the length of %s instead of len(p) at %s: a writer that consumed all of p must say so, or bufio/io.MultiWriter treat the write as short and stop", an.Prov(cnt), p.Pos(ret.Pos()))
				continue
			}
			if an.IsNilConst(errv) {
				bad = fmt.Sprintf("returns a count other than len(p) (%s) with a nil error at %s", an.Prov(cnt), p.Pos(ret.Pos()))
				continue
			}
			ce, ok1 := cnt.(*ssa.Extract)
			ee, ok2 := errv.(*ssa.Extract)
			if ok1 && ok2 && ce.Tuple == ee.Tuple && ce.Index == 0 {
				if call, ok := ce.Tuple.(*ssa.Call); ok {
					whole := false
					for _, a := range call.Call.Args {
						if a.Type() == param.Type() || types.Identical(a.Type(), param.Type()) {
							whole = true
							for _, src := range an.Sources(a) {
								if src != ssa.Value(param) {
									whole = false
								}
							}
						}
					}
					if !whole {
						bad = fmt.Sprintf("hands on the count of an inner write of something other than its whole argument (%s) at %s: a short count without an error stops io.MultiWriter before the writers that follow", an.ShortCallee(&call.Call), p.Pos(ret.Pos()))
					}
				}
			}
		}
		c.Check(bad == "", rule, an.Short(fn)+":io.Writer-contract", fn.Pos(), "every error-free return reports len(p); forwarded counts are those of a write of the whole argument", an.Short(fn)+" "+bad)
	}
	if n == 0 {
		c.Und(rule, "module:Write-methods", token.NoPos, "no Write method found in the module")
	}
}

// isLineCutter recognises a hand-written replacement of bufio.ScanLines by its shape: one []byte parameter
// data, results (line, rest []byte), i = bytes.IndexByte(data, '\n'), and
//
//	line ∈ { data[:i], data, one of those without its last byte }      rest ∈ { data[i+1:], data[len(data):] }
//
// so that line and rest are sub-slices of data, nothing of data but the end-of-line marker lies between
// them, and rest is empty when there is no marker (which is what ends the caller's loop).
func isLineCutter(fn *ssa.Function) bool {
	if fn.Blocks == nil || len(fn.Params) != 1 || fn.Signature.Results().Len() != 2 {
		return false
	}
	isBytes := func(t types.Type) bool {
		sl, ok := t.Underlying().(*types.Slice)
		if !ok {
			return false
		}
		b, ok := sl.Elem().Underlying().(*types.Basic)
		return ok && b.Kind() == types.Byte
	}
	data := fn.Params[0]
	if !isBytes(data.Type()) || !isBytes(fn.Signature.Results().At(0).Type()) || !isBytes(fn.Signature.Results().At(1).Type()) {
		return false
	}
	var idx ssa.Value
	for _, ci := range an.CallsIn(fn, "bytes.IndexByte") {
		call, ok := ci.(*ssa.Call)
		if !ok || !an.SameValue(call.Call.Args[0], data) {
			continue
		}
		if k, ok := an.ConstInt(call.Call.Args[1]); ok && k == '\n' {
			idx = call
		}
	}
	if idx == nil {
		return false
	}
	isZeroOrNil := func(v ssa.Value) bool {
		if v == nil {
			return true
		}
		k, ok := an.ConstInt(v)
		return ok && k == 0
	}
	isLenOf := func(v ssa.Value, of func(ssa.Value) bool) bool {
		call, ok := v.(*ssa.Call)
		if !ok {
			return false
		}
		b, ok := call.Call.Value.(*ssa.Builtin)
		return ok && b.Name() == "len" && of(call.Call.Args[0])
	}
	isData := func(v ssa.Value) bool { return v == ssa.Value(data) }
	// the whole line (before an optional trailing byte is dropped)
	var wholeLine func(v ssa.Value, depth int) bool
	wholeLine = func(v ssa.Value, depth int) bool {
		if depth > 4 {
			return false
		}
		switch x := v.(type) {
		case *ssa.Parameter:
			return isData(x)
		case *ssa.Slice:
			return isData(x.X) && isZeroOrNil(x.Low) && x.High == idx && x.Max == nil
		case *ssa.Phi:
			for _, e := range x.Edges {
				if !wholeLine(e, depth+1) {
					return false
				}
			}
			return len(x.Edges) > 0
		}
		return false
	}
	var lineOK func(v ssa.Value, depth int) bool
	lineOK = func(v ssa.Value, depth int) bool {
		if depth > 4 {
			return false
		}
		if wholeLine(v, depth) {
			return true
		}
		switch x := v.(type) {
		case *ssa.Slice:
			// line[:len(line)-1]: the carriage return dropped
			if !isZeroOrNil(x.Low) || x.Max != nil || !wholeLine(x.X, depth+1) {
				return false
			}
			bo, ok := x.High.(*ssa.BinOp)
			if !ok || bo.Op != token.SUB {
				return false
			}
			if k, ok := an.ConstInt(bo.Y); !ok || k != 1 {
				return false
			}
			return isLenOf(bo.X, func(a ssa.Value) bool { return a == x.X })
		case *ssa.Phi:
			for _, e := range x.Edges {
				if !lineOK(e, depth+1) {
					return false
				}
			}
			return len(x.Edges) > 0
		}
		return false
	}
	var restOK func(v ssa.Value, depth int) bool
	restOK = func(v ssa.Value, depth int) bool {
		if depth > 4 {
			return false
		}
		switch x := v.(type) {
		case *ssa.Slice:
			if !isData(x.X) || x.High != nil || x.Max != nil || x.Low == nil {
				return false
			}
			if isLenOf(x.Low, isData) {
				return true
			}
			bo, ok := x.Low.(*ssa.BinOp)
			if !ok || bo.Op != token.ADD || bo.X != idx {
				return false
			}
			k, ok := an.ConstInt(bo.Y)
			return ok && k == 1
		case *ssa.Phi:
			for _, e := range x.Edges {
				if !restOK(e, depth+1) {
					return false
				}
			}
			return len(x.Edges) > 0
		}
		return false
	}
	// line and rest belong together: data[:i] goes with data[i+1:], the whole of data with the empty rest
	// (two φ-nodes of one block are matched edge by edge)
	kindOf := func(v ssa.Value) string {
		switch x := v.(type) {
		case *ssa.Parameter:
			return "all"
		case *ssa.Slice:
			if x.High == idx {
				return "cut" // data[:i]
			}
			if x.Low != nil && isLenOf(x.Low, isData) {
				return "all" // data[len(data):]
			}
			if x.Low != nil {
				return "cut" // data[i+1:]
			}
		}
		return "?"
	}
	var paired func(l, r ssa.Value, depth int) bool
	paired = func(l, r ssa.Value, depth int) bool {
		if depth > 4 {
			return false
		}
		pl, lphi := l.(*ssa.Phi)
		pr, rphi := r.(*ssa.Phi)
		switch {
		case lphi && rphi && pl.Block() == pr.Block():
			for i := range pl.Edges {
				if !paired(pl.Edges[i], pr.Edges[i], depth+1) {
					return false
				}
			}
			return true
		case lphi || rphi:
			return false
		}
		return kindOf(l) != "?" && kindOf(l) == kindOf(r)
	}
	// the whole-line values a returned line is made of (the carriage-return step undone)
	var roots func(v ssa.Value, depth int, out *[]ssa.Value)
	roots = func(v ssa.Value, depth int, out *[]ssa.Value) {
		if depth > 4 {
			return
		}
		if wholeLine(v, 0) {
			*out = append(*out, v)
			return
		}
		switch x := v.(type) {
		case *ssa.Slice:
			roots(x.X, depth+1, out)
		case *ssa.Phi:
			for _, e := range x.Edges {
				roots(e, depth+1, out)
			}
		}
	}
	rets := an.Returns(fn)
	if len(rets) == 0 {
		return false
	}
	for _, ret := range rets {
		l, r := an.RetVal(ret, 0), an.RetVal(ret, 1)
		if !lineOK(l, 0) || !restOK(r, 0) {
			return false
		}
		var ls []ssa.Value
		roots(l, 0, &ls)
		if len(ls) == 0 {
			return false
		}
		for _, lw := range ls {
			if !paired(lw, r, 0) {
				return false
			}
		}
	}
	return true
}
