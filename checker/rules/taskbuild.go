package rules

import (
	"go/types"
	"sort"
	"strings"

	"golang.org/x/tools/go/ssa"

	"taskverif/an"
)

// taskBuild describes where the config package turns a taskDefinition into a
// task.Task: the entry function (found by what it does — it is handed a
// *taskDefinition and returns a *task.Task, and no other such function calls
// it) and the functions of the same package it calls while doing so. Rules
// about "what buildTask puts into Task.F" look at the stores to Task.F made
// anywhere in this set, so that moving the literal into a helper changes
// nothing.
type taskBuild struct {
	root *ssa.Function
	fns  []*ssa.Function
}

func resultHas(fn *ssa.Function, pkg, name string) bool {
	res := fn.Signature.Results()
	for i := 0; i < res.Len(); i++ {
		if an.TypeIs(res.At(i).Type(), pkg, name) {
			return true
		}
	}
	return false
}

func takes(fn *ssa.Function, pkg, name string) bool {
	for _, prm := range fn.Params {
		if an.TypeIs(prm.Type(), pkg, name) {
			return true
		}
	}
	return false
}

func resolveTaskBuild(p *an.Prog) *taskBuild {
	var cands []*ssa.Function
	for _, f := range p.Funcs {
		if f.Pkg == nil || !strings.HasSuffix(f.Pkg.Pkg.Path(), "internal/config") || f.Parent() != nil {
			continue
		}
		if resultHas(f, "pkg/task", "Task") && takes(f, "internal/config", "taskDefinition") {
			cands = append(cands, f)
		}
	}
	isCand := map[*ssa.Function]bool{}
	for _, f := range cands {
		isCand[f] = true
	}
	var roots []*ssa.Function
	for _, f := range cands {
		called := false
		for _, site := range p.CallSitesOf(f) {
			if isCand[an.Outer(site.Parent())] && an.Outer(site.Parent()) != f {
				called = true
			}
		}
		if !called {
			roots = append(roots, f)
		}
	}
	if len(roots) != 1 {
		return nil
	}
	root := roots[0]
	reach := p.Reach([]*ssa.Function{root}, func(e an.CallEdge) bool {
		return e.Kind != an.EdgeGo && e.Callee.Pkg != nil && an.Outer(e.Callee).Pkg == root.Pkg
	})
	tb := &taskBuild{root: root}
	for f := range reach {
		if f.Blocks != nil {
			tb.fns = append(tb.fns, f)
		}
	}
	sort.Slice(tb.fns, func(i, j int) bool { return tb.fns[i].String() < tb.fns[j].String() })
	return tb
}

// storesTo lists the stores the build makes to field `field` of a task.Task.
func (tb *taskBuild) storesTo(field string) []*ssa.Store {
	var out []*ssa.Store
	for _, f := range tb.fns {
		an.EachInstr(f, func(in ssa.Instruction) {
			st, ok := in.(*ssa.Store)
			if !ok {
				return
			}
			fa, ok := st.Addr.(*ssa.FieldAddr)
			if !ok || an.TypeField(fa) != "Task."+field {
				return
			}
			if named, ok := an.Deref(fa.X.Type()).(*types.Named); !ok || named.Obj().Pkg() == nil || !strings.HasSuffix(named.Obj().Pkg().Path(), "pkg/task") {
				return
			}
			out = append(out, st)
		})
	}
	return out
}

// taskCopier is a function that builds a task.Task by copying fields of
// another task.Task one by one (a Clone): at least three stores X.F = Y.F
// with X a task the function allocated (or got from a constructor helper) and
// Y another task.
type taskCopier struct {
	fn     *ssa.Function
	copied map[string]bool // fields copied from the source
}

func taskCopiers(p *an.Prog) []taskCopier {
	var out []taskCopier
	for _, fn := range p.Funcs {
		if fn.Parent() != nil {
			continue
		}
		copied := map[string]bool{}
		an.EachInstr(fn, func(in ssa.Instruction) {
			st, ok := in.(*ssa.Store)
			if !ok {
				return
			}
			fa, ok := st.Addr.(*ssa.FieldAddr)
			if !ok || !an.TypeIs(fa.X.Type(), "pkg/task", "Task") {
				return
			}
			fresh, _ := an.FreshBase(fa.X)
			if !fresh {
				if call, _, _ := an.ConstructorCall(fa.X); call == nil {
					return
				}
			}
			field := strings.TrimPrefix(an.TypeField(fa), "Task.")
			// the value: a load of the same field of another task (possibly converted / re-sliced / deep-copied by a helper)
			var fromField func(v ssa.Value, depth int) bool
			fromField = func(v ssa.Value, depth int) bool {
				if depth == 0 {
					return false
				}
				for _, src := range p.DeepSources(v, 2, false) {
					switch x := src.(type) {
					case *ssa.UnOp:
						if sfa, ok := x.X.(*ssa.FieldAddr); ok && an.TypeIs(sfa.X.Type(), "pkg/task", "Task") && !an.SameValue(sfa.X, fa.X) {
							if strings.TrimPrefix(an.TypeField(sfa), "Task.") == field {
								return true
							}
						}
						// *(y.F): the pointed-to value of the source's field
						if fromField(x.X, depth-1) {
							return true
						}
					case *ssa.Alloc:
						// a private copy of what the source's field points to
						if refs := x.Referrers(); refs != nil {
							for _, r := range *refs {
								if st2, ok := r.(*ssa.Store); ok && st2.Addr == ssa.Value(x) && fromField(st2.Val, depth-1) {
									return true
								}
							}
						}
					}
				}
				return false
			}
			if fromField(st.Val, 3) {
				copied[field] = true
			}
		})
		if len(copied) >= 3 {
			out = append(out, taskCopier{fn, copied})
		}
	}
	return out
}
