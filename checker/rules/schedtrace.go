package rules

import (
	"fmt"
	"go/token"
	"sort"
	"strings"

	"golang.org/x/tools/go/ssa"

	"taskverif/an"
)

// The scheduling trace: one iteration of the per-stage loop is explored with
// every helper of pkg/scheduler inlined, for each row of
//   status(stage) × condition(absent / holds / exits non-zero / cannot be evaluated) × gate(true/false).
// Events are recognised by what an instruction does.

type schedRow struct {
	name    string
	waiting bool
	cond    string // absent, ok, exit, error
	gate    bool
}

type schedPath struct {
	events []string
	end    string
}

func schedRows() []schedRow {
	var rows []schedRow
	rows = append(rows, schedRow{"stage not waiting", false, "absent", true})
	for _, cond := range []string{"absent", "ok"} {
		for _, g := range []bool{true, false} {
			rows = append(rows, schedRow{fmt.Sprintf("waiting, condition %s, gate=%v", cond, g), true, cond, g})
		}
	}
	rows = append(rows, schedRow{"waiting, condition exits non-zero", true, "exit", true})
	rows = append(rows, schedRow{"waiting, condition cannot be evaluated", true, "error", true})
	return rows
}

// isConditionOf reports whether v is <stage>.Condition for the loop's stage.
func isStageField(v ssa.Value, field string, st *an.State, stage ssa.Value) bool {
	cands := []ssa.Value{v}
	if st != nil {
		// a helper's parameter stands for what the caller passed on this path
		cands = append(cands, st.RootChain(v)...)
	}
	for _, cv := range cands {
		ap := an.AccessPath(cv)
		if ap.LastField() != field || len(ap.Fields) != 1 {
			continue
		}
		if st != nil {
			if st.SameRoot(ap.Base, stage) {
				return true
			}
			continue
		}
		if an.SameValue(ap.Base, stage) {
			return true
		}
	}
	return false
}

func traceSchedule(c *an.Ctx, s *sched, row schedRow) []schedPath {
	p := c.P
	W := s.status["Waiting"]
	other := s.status["Done"]
	ex := &an.Explorer{P: p, NoReturn: noReturn, MaxDepth: 3, MaxVisits: 2,
		Inline: func(f *ssa.Function) bool {
			// (the condition evaluator may have moved to another package of the module: a function that runs an os/exec command)
			if an.Outer(f).Pkg != s.schedule.Pkg && an.InModule(f) && f.Blocks != nil && len(an.CallsIn(f, "(*os/exec.Cmd).Run")) > 0 {
				return true
			}
			return an.Outer(f).Pkg == s.schedule.Pkg && f != s.schedule && f != s.gate && f != s.cancel &&
				an.Short(f) != fnReadStatus && an.Short(f) != fnUpdateStatus && f != s.body && f.Parent() != s.body
		}}
	s.inner.Bound(ex)
	isStage := func(v ssa.Value, st *an.State) bool { return st.SameRoot(v, s.loopStage) }
	ex.AtomSt = func(v ssa.Value, st *an.State) (an.AVal, bool) {
		switch x := v.(type) {
		case *ssa.Call:
			name := an.ShortCallee(&x.Call)
			if name == fnReadStatus && isStage(x.Call.Args[0], st) {
				if row.waiting {
					return an.AInt(W), true
				}
				return an.AInt(other), true
			}
			for _, callee := range p.Callees(&x.Call) {
				if callee == s.gate {
					return an.ABool(row.gate), true
				}
			}
			if name == "(*os/exec.Cmd).Run" {
				if row.cond == "ok" {
					return an.AVal{K: an.ANil}, true
				}
				return an.AVal{K: an.ANonNil}, true
			}
			if name == "pkg/utils.IsExitError" {
				return an.ABool(row.cond == "exit"), true
			}
		case *ssa.BinOp:
			if (x.Op == token.EQL || x.Op == token.NEQ) && isStageField(x.X, "Condition", st, s.loopStage) {
				if k, ok := an.ConstString(x.Y); ok && k == "" {
					absent := row.cond == "absent"
					return an.ABool((x.Op == token.EQL) == absent), true
				}
			}
		}
		return an.AVal{}, false
	}
	ex.Effect = func(in ssa.Instruction, st *an.State) string {
		// the registration of a hand-made latch counts as the Add
		if lt := s.chanLatchOf(); lt != nil && lt.doneOK && in == lt.reg {
			return "Add"
		}
		switch x := in.(type) {
		case *ssa.Go:
			if x == s.launch {
				arg := "other"
				for _, a := range x.Call.Args {
					if an.TypeIs(a.Type(), "pkg/scheduler", "Stage") && isStage(a, st) {
						arg = "stage"
					}
				}
				// … or carried in the stage field of an object built for this launch
				if s.carrier != nil {
					for _, a := range x.Call.Args {
						al, ok := an.Resolve(a).(*ssa.Alloc)
						if !ok || al.Referrers() == nil {
							continue
						}
						for _, r := range *al.Referrers() {
							fa, ok := r.(*ssa.FieldAddr)
							if !ok || fa.Field != s.carrierField || fa.Referrers() == nil {
								continue
							}
							for _, rr := range *fa.Referrers() {
								if sto, ok := rr.(*ssa.Store); ok && sto.Addr == ssa.Value(fa) && isStage(sto.Val, st) {
									arg = "stage"
								}
							}
						}
					}
				}
				// … or captured: a variable of this launch (a helper's parameter, a per-iteration local) that holds the stage
				for _, src := range an.Sources(x.Call.Value) {
					mc, ok := src.(*ssa.MakeClosure)
					if !ok {
						continue
					}
					for _, b := range mc.Bindings {
						if !an.TypeIs(an.Deref(b.Type()), "pkg/scheduler", "Stage") {
							continue
						}
						// the cell's content on this path
						for _, held := range an.ResolveAll(b) {
							if isStage(held, st) {
								arg = "stage"
							}
						}
						if al, ok := b.(*ssa.Alloc); ok && al.Referrers() != nil {
							for _, r := range *al.Referrers() {
								if sto, ok := r.(*ssa.Store); ok && sto.Addr == ssa.Value(al) && isStage(sto.Val, st) {
									arg = "stage"
								}
							}
						}
					}
				}
				return "launch(" + arg + ")"
			}
			return "go"
		case ssa.CallInstruction:
			cc := x.Common()
			name := an.ShortCallee(cc)
			switch name {
			case fnUpdateStatus:
				who := "other"
				if isStage(cc.Args[0], st) {
					who = "stage"
				}
				val := "?"
				if k, ok := an.ConstInt(cc.Args[1]); ok {
					val = statusLabel(s, k)
				}
				return "write(" + who + "," + val + ")"
			case fnWgAdd:
				return "Add"
			case "(*os/exec.Cmd).Run":
				return "cond.eval"
			}
			for _, callee := range p.Callees(cc) {
				if callee == s.gate {
					who := "other"
					for _, a := range cc.Args {
						if an.TypeIs(a.Type(), "pkg/scheduler", "Stage") && isStage(a, st) {
							who = "stage"
						}
					}
					return "gate(" + who + ")"
				}
				if callee == s.cancel {
					return "Cancel()"
				}
			}
		}
		return ""
	}
	outs := ex.Run(s.loopFn, s.inner.BodyEntry(), s.inner.Header, nil)
	var paths []schedPath
	for _, o := range outs {
		paths = append(paths, schedPath{o.Effects, o.End})
	}
	return paths
}

type schedTable struct {
	rows  []schedRow
	paths map[string][]schedPath
}

var schedTableCache = map[*an.Ctx]*schedTable{}

func getSchedTable(c *an.Ctx, s *sched) *schedTable {
	if t, ok := schedTableCache[c]; ok {
		return t
	}
	t := &schedTable{rows: schedRows(), paths: map[string][]schedPath{}}
	var lines []string
	for _, row := range t.rows {
		ps := traceSchedule(c, s, row)
		t.paths[row.name] = ps
		var keys []string
		seen := map[string]bool{}
		for _, pth := range ps {
			k := strings.Join(pth.events, ",") + "→" + pth.end
			if !seen[k] {
				seen[k] = true
				keys = append(keys, k)
			}
		}
		sort.Strings(keys)
		lines = append(lines, fmt.Sprintf("%-44s -> %s", row.name, strings.Join(keys, " | ")))
	}
	c.Tables["schedule-trace"] = lines
	schedTableCache[c] = t
	return t
}

// checkSchedTable emits the clauses selected by want under rule.
//
//	launch:    a stage is launched only when waiting, its condition (if any) held and the gate said true;
//	           Add, then Waiting→Running on that stage, then the go statement with that stage bound
//	condition: the condition rows (C02.3)
//	writes:    no status write and no Cancel in rows where they do not belong (C02.5 / C02.6)
//	skip:      a stage whose condition is false is settled (Skipped) in the pass, before the dependency gate (C04.5)
func checkSchedTable(c *an.Ctx, s *sched, rule string, want map[string]bool) {
	t := getSchedTable(c, s)
	key := func(x string) string { return an.Short(s.loopFn) + ":" + x }
	for _, row := range t.rows {
		paths := t.paths[row.name]
		if len(paths) == 0 {
			c.Und(rule, key("row "+row.name), s.launch.Pos(), "no feasible path for row %q", row.name)
			continue
		}
		var problems []string
		note := func(format string, a ...interface{}) { problems = append(problems, fmt.Sprintf(format, a...)) }
		for _, pth := range paths {
			ev := pth.events
			if pth.end == "bound" {
				continue
			}
			launched := false
			for _, e := range ev {
				if strings.HasPrefix(e, "launch(") {
					launched = true
				}
			}
			shouldLaunch := row.waiting && (row.cond == "absent" || row.cond == "ok") && row.gate
			if want["launch"] {
				if launched && !shouldLaunch {
					note("the stage is launched although %s (events %v)", row.name, ev)
				}
				if shouldLaunch {
					if !launched {
						note("an eligible stage is not launched (events %v)", ev)
					} else {
						// order: gate(stage) … Add … write(stage,Running) … launch(stage), nothing after
						idx := func(e string) int {
							for i, x := range ev {
								if x == e {
									return i
								}
							}
							return -1
						}
						g, a, r, l := idx("gate(stage)"), idx("Add"), idx("write(stage,Running)"), idx("launch(stage)")
						switch {
						case g < 0:
							note("the gate is not consulted for the stage that is launched (events %v)", ev)
						case l < 0:
							note("the goroutine is not handed the loop's stage at go time (events %v)", ev)
						case a < 0 || a > l:
							note("WaitGroup.Add does not precede the launch (events %v)", ev)
						case r < 0 || r > l || r < g:
							note("Waiting→Running is not written on the launched stage between the gate and the go statement (events %v)", ev)
						case l != len(ev)-1:
							note("something follows the launch in the same iteration: %v", ev[l+1:])
						}
						if n := func() int {
							k := 0
							for _, e := range ev {
								if strings.HasPrefix(e, "launch(") {
									k++
								}
							}
							return k
						}(); n != 1 {
							note("the stage is launched %d times in one iteration", n)
						}
					}
				}
			}
			if want["condition"] && row.waiting {
				var eff []string
				for _, e := range ev {
					if e == "cond.eval" || strings.HasPrefix(e, "gate(") {
						if strings.HasPrefix(e, "gate(") {
							eff = append(eff, "gate")
							break // what follows the gate is the gate's and the launch's business
						}
						continue
					}
					eff = append(eff, e)
				}
				joined := strings.Join(eff, ";")
				switch row.cond {
				case "absent", "ok":
					if joined != "gate" {
						note("a stage whose condition holds (or has none) must go on to the dependency gate, got [%s]", joined)
					}
					if row.cond == "ok" && !has(ev, "cond.eval") {
						note("the condition is not evaluated")
					}
					if row.cond == "absent" && has(ev, "cond.eval") {
						note("a condition is evaluated for a stage that has none")
					}
				case "exit":
					if joined != "write(stage,Skipped)" {
						note("a stage whose condition is false must be marked Skipped and nothing else, got [%s]", joined)
					}
				case "error":
					if joined != "write(stage,Error);Cancel()" && joined != "Cancel();write(stage,Error)" {
						note("a condition that cannot be evaluated must mark the stage Error and cancel the run, got [%s]", joined)
					}
				}
			}
			if want["skip"] && row.waiting && row.cond == "exit" {
				// what the pass does with a stage whose condition is false, up to the dependency gate
				var eff []string
				for _, e := range ev {
					if e == "cond.eval" {
						continue
					}
					if strings.HasPrefix(e, "gate(") {
						eff = append(eff, "gate")
						break
					}
					eff = append(eff, e)
				}
				if joined := strings.Join(eff, ";"); joined != "write(stage,Skipped)" {
					note("a stage whose condition is false is not marked Skipped by the pass that looks at it, before and whatever its dependency gate says (got [%s]): its dependents, whose dependencies are then all satisfied, are held back until unrelated stages finish", joined)
				}
			}
			if want["writes"] {
				for _, e := range ev {
					if !row.waiting && (strings.HasPrefix(e, "write(") || e == "Cancel()" || strings.HasPrefix(e, "gate(") || e == "cond.eval") {
						note("the scheduling loop performs %s on a stage it did not see Waiting in this pass", e)
					}
					if strings.HasPrefix(e, "write(other,") {
						note("the scheduling loop writes the status of a stage other than the one it is looking at: %s", e)
					}
					if strings.HasPrefix(e, "write(stage,Waiting)") {
						note("a stage is put back to Waiting")
					}
					if e == "Cancel()" && row.cond != "error" {
						note("the scheduler cancels the whole run although no condition failed to evaluate (%s)", row.name)
					}
					if e == "write(stage,Skipped)" && row.cond != "exit" {
						note("Skipped is written although the condition did not evaluate to false (%s)", row.name)
					}
					if e == "write(stage,Running)" && !launched {
						note("a stage is marked Running without being launched")
					}
				}
			}
		}
		problems = dedup(problems)
		if len(problems) > 0 {
			c.Bad(rule, key("row "+row.name), s.launch.Pos(), "%s: %s", row.name, strings.Join(problems, "; "))
		} else {
			c.OK(rule, key("row "+row.name), s.launch.Pos(), "%d paths", len(paths))
		}
	}
}
