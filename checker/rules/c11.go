package rules

import (
	"fmt"
	"go/token"
	"go/types"
	"strings"

	"golang.org/x/tools/go/ssa"

	"taskverif/an"
)

func init() { register("C11", checkC11) }

// writerMutatesArgument reports constructs in an io.Writer's Write that
// modify or retain the caller's buffer, following the buffer into module
// functions it is passed to.
func writerMutatesArgument(p *an.Prog, fn *ssa.Function) []string {
	if len(fn.Params) < 2 {
		return nil
	}
	idx := len(fn.Params) - 1
	if _, ok := fn.Params[idx].Type().Underlying().(*types.Slice); !ok {
		return nil
	}
	muts, _ := sliceParamEffects(p, fn, idx, 0)
	return dedup(muts)
}

// sliceParamEffects analyses what fn does with the backing array of its
// slice parameter idx: mutations/retention, and whether a result may alias it.
func sliceParamEffects(p *an.Prog, fn *ssa.Function, idx int, depth int) (muts []string, returnsAlias bool) {
	if fn.Blocks == nil || depth > 3 || idx >= len(fn.Params) {
		return nil, false
	}
	derived := map[ssa.Value]bool{fn.Params[idx]: true}
	changed := true
	for changed {
		changed = false
		an.EachInstr(fn, func(in ssa.Instruction) {
			mark := func(v ssa.Value) {
				if !derived[v] {
					derived[v] = true
					changed = true
				}
			}
			switch x := in.(type) {
			case *ssa.Slice:
				if derived[x.X] {
					mark(x)
				}
			case *ssa.UnOp:
				// a load from a field of a local object that holds (a slice of) the argument
				if fa, ok := x.X.(*ssa.FieldAddr); ok && x.Op == token.MUL {
					if a := localObject(p, fa.X); a != nil {
						for _, r := range *a.Referrers() {
							if f2, ok := r.(*ssa.FieldAddr); ok && f2.Field == fa.Field && f2.Referrers() != nil {
								for _, rr := range *f2.Referrers() {
									if st, ok := rr.(*ssa.Store); ok && st.Addr == ssa.Value(f2) && derived[st.Val] {
										mark(x)
									}
								}
							}
						}
					}
				}
			case *ssa.Phi:
				for _, e := range x.Edges {
					if derived[e] {
						mark(x)
					}
				}
			case *ssa.Call:
				if b, ok := x.Call.Value.(*ssa.Builtin); ok && b.Name() == "append" && derived[x.Call.Args[0]] {
					mark(x) // the result shares the argument's backing array
				}
				for i, a := range x.Call.Args {
					if !derived[a] {
						continue
					}
					for _, callee := range staticOnly(p, &x.Call) {
						if !an.InModule(callee) {
							continue
						}
						pi := i
						if x.Call.IsInvoke() {
							pi = i + 1
						}
						if _, alias := sliceParamEffects(p, callee, pi, depth+1); alias {
							mark(x)
						}
					}
				}
			}
		})
	}
	an.EachInstr(fn, func(in ssa.Instruction) {
		switch x := in.(type) {
		case *ssa.Store:
			if ia, ok := x.Addr.(*ssa.IndexAddr); ok && derived[ia.X] {
				muts = append(muts, "writes an element of its argument")
			}
			if fa, ok := x.Addr.(*ssa.FieldAddr); ok && derived[x.Val] {
				// a local object that does not outlive the call (a cursor over the argument) retains nothing
				if localObject(p, fa.X) == nil {
					muts = append(muts, "retains (a slice of) its argument in a field")
				}
			}
		case *ssa.Return:
			for _, r := range x.Results {
				if derived[r] {
					returnsAlias = true
				}
			}
		case *ssa.Call:
			if b, ok := x.Call.Value.(*ssa.Builtin); ok {
				switch b.Name() {
				case "copy":
					if derived[x.Call.Args[0]] {
						muts = append(muts, "copies into its argument")
					}
				case "append":
					if derived[x.Call.Args[0]] {
						muts = append(muts, "appends to (a slice of) its argument, overwriting the caller's buffer ("+an.Short(fn)+")")
					}
				}
				return
			}
			for i, a := range x.Call.Args {
				if !derived[a] {
					continue
				}
				for _, callee := range staticOnly(p, &x.Call) {
					if !an.InModule(callee) {
						continue
					}
					pi := i
					if x.Call.IsInvoke() {
						pi = i + 1
					}
					sub, _ := sliceParamEffects(p, callee, pi, depth+1)
					muts = append(muts, sub...)
				}
			}
		}
	})
	return muts, returnsAlias
}

func checkC11(c *an.Ctx) {
	c.Rule("C11.1", "tee (E5): TaskOutput.Stdout() is a MultiWriter over the decorator and &Task.Log.Stdout (Stderr: &Task.Log.Stderr); Run hands exactly these to CompileTask; no writer on the way modifies or retains the caller's buffer")
	c.Rule("C11.2", "store after success (E3): the output store is executed only when every command ran (err==nil of the job walk) and before Run returns")
	c.Rule("C11.3", "visibility (E5): Run builds every task's env starting from TaskRunner.env, the container the store writes; nothing is deleted from a command's environment map before the interpreter gets it")
	c.Rule("C11.4", "name (E5): with an empty ExportAs the key is ReplaceAllString([^a-zA-Z0-9_] → _) of ToUpper(Task.Name)+\"_OUTPUT\"; otherwise it is Task.ExportAs unchanged; the value is Task.Log.Stdout; outside pkg/task and internal/config nothing rewrites ExportAs or Name of a configured task or of its per-stage copy (the names the output is published under are the configured ones)")
	c.Rule("C11.5", ".Output (E3/E5): before each Execute the variable Output is set from a loop-carried value that every back edge refreshes with that iteration's Execute result; Execute returns the buffer suffix starting at the length recorded before the interpreter ran")
	c.Rule("C11.6", "the capture is only appended to and read whole (who-may-touch, module-wide + E2): apart from the tee, every use of &Task.Log.Stdout is a non-consuming read (String, Len, Bytes, Cap); anything that consumes, truncates, resets or writes it (Read*, Next, WriteTo, Reset, Truncate, Write*, handing it out as an io.Reader or a *bytes.Buffer) is unreachable while Task.Errored is false")
	c.Rule("C11.7", "every run captures into buffers of its own (type shape + E4): a stage runs a value copy of its task, so the capture buffers must be part of the task value — Task.Log and its Stdout are reached without a pointer, map, slice or interface on the way — or else every whole-value copy of a task made in the module is given a newly allocated log before it is used; otherwise two stages (or two firings of a watcher) that share a task write into one buffer and each sees the other's output")
	c.NotDecided = append(c.NotDecided, "byte-exactness, buffering inside the interpreter", "the exact sanitising alphabet beyond the regexp constant", "accumulation of Log across repeated runs of one task object")
	p := c.P
	r := resolveRunner(c, "C11.0")
	if !r.ok {
		return
	}
	c.OK("C11.0", "runner roles", r.run.Pos(), "store=%s", an.Short(r.store))

	hooksNotCaptured(c, "C11.1")
	noEnvRemoval(c, "C11.3")
	taskPolicyUntouched(c, "C11.4", "ExportAs", "Name")
	// C11.1
	for _, w := range []struct{ method, field string }{{"Stdout", "Stdout"}, {"Stderr", "Stderr"}} {
		fn := p.Func("pkg/output", "TaskOutput", w.method)
		if fn == nil {
			c.Und("C11.1", "output.(*TaskOutput)."+w.method, token.NoPos, "not found")
			continue
		}
		good := false
		why := ""
		for _, ret := range an.Returns(fn) {
			tees, opaque := teeElems(an.RetVal(ret, 0), nil, 3)
			if opaque != "" {
				why = opaque
			}
			for _, elems := range tees {
				hasDec, hasLog := false, false
				for _, e := range elems {
					if an.FieldProv(e) == "TaskOutput.decorator" {
						hasDec = true
					}
					ap := an.AccessPath(e)
					if len(ap.Fields) >= 3 && strings.Join(ap.Fields[len(ap.Fields)-3:], ".") == "t.Log."+w.field {
						hasLog = true
					}
				}
				good = hasDec && hasLog && len(elems) == 2 && opaque == ""
				if !good {
					var ps []string
					for _, e := range elems {
						ps = append(ps, an.Prov(e))
					}
					why = "MultiWriter(" + strings.Join(ps, ", ") + ")"
				}
			}
		}
		c.Check(good, "C11.1", an.Short(fn)+":tee", fn.Pos(), w.method+"() tees into the decorator and Task.Log."+w.field, w.method+"() is not MultiWriter(decorator, &Task.Log."+w.field+"): "+why)
	}
	ct := p.Func("pkg/runner", "TaskCompiler", "CompileTask")
	if ct != nil {
		for _, w := range []struct{ param, method string }{{"stdout", "Stdout"}, {"stderr", "Stderr"}} {
			arg := argOf(r.compileCall, ct, w.param)
			good := false
			for _, src := range an.Sources(arg) {
				if call, ok := src.(*ssa.Call); ok && an.ShortCallee(&call.Call) == "(pkg/output.TaskOutput)."+w.method {
					good = true
				}
			}
			c.Check(good, "C11.1", an.Short(r.run)+":CompileTask("+w.param+")", r.compileCall.Pos(), "the jobs' "+w.param+" is taskOutput."+w.method+"()", "the jobs' "+w.param+" is not the task output's "+w.method+"() tee: "+an.Prov(arg))
		}
	}
	// the executor that runs the task's commands takes its writers from the job the walk starts with: that job
	// must be the one CompileTask returned (compiled with the tee), not a job compiled with other writers
	// put in front of it
	if r.execute != nil && r.compileCall != nil {
		nSites := 0
		for _, site := range p.CallSitesOf(r.execute) {
			if !inPkgs("pkg/runner")(site.Parent()) {
				continue
			}
			for i, prm := range r.execute.Params {
				if !an.TypeIs(prm.Type(), "pkg/executor", "Job") || i >= len(site.Common().Args) {
					continue
				}
				nSites++
				stop := func(v ssa.Value) bool {
					e, ok := v.(*ssa.Extract)
					return ok && e.Tuple == ssa.Value(r.compileCall)
				}
				good, why := true, ""
				srcs := p.DeepSourcesStop(site.Common().Args[i], 3, true, stop)
				for _, src := range srcs {
					if e, ok := src.(*ssa.Extract); ok && e.Tuple == ssa.Value(r.compileCall) && e.Index == 0 {
						continue
					}
					good, why = false, an.FieldProv(src)
				}
				c.Check(good && len(srcs) > 0, "C11.1", an.Short(site.Parent())+":walk-starts-at(CompileTask)", site.Pos(), "the job walk starts at the job CompileTask compiled with the tee writers", "the job walk can start at a job that is not CompileTask's result ("+why+"): the executor takes its output writer from the first job, so the task's output bypasses the capture")
			}
		}
		if nSites == 0 {
			c.Und("C11.1", an.Short(r.execute)+":callers", r.execute.Pos(), "no call of the job walk with a job argument found")
		}
	}
	// writers must not touch the caller's buffer
	nW := 0
	for _, fn := range p.Funcs {
		if fn.Name() != "Write" || fn.Signature.Recv() == nil || !inPkgs("pkg/output")(fn) {
			continue
		}
		nW++
		muts := writerMutatesArgument(p, fn)
		c.Check(len(muts) == 0, "C11.1", an.Short(fn)+":buffer", fn.Pos(), "leaves the caller's buffer alone (io.Writer contract)", "Write "+strings.Join(muts, "; ")+": the MultiWriter hands the same slice to the task log next, so the captured output is corrupted")
	}
	if nW == 0 {
		c.Und("C11.1", "output:Write methods", token.NoPos, "no Write method found in pkg/output")
	}

	// … and must report the full length: the decorator stands before the task log in the MultiWriter, which
	// stops at the first writer that reports a short count (io.Writer contract, the rule of C19.1)
	writerContract(c, "C11.1")

	// C11.2 via the Run trace
	checkRunTable(c, "C11.2", map[string]bool{"store": true})
	// the store is reached only when the job walk returns nil — also after an allowed failure of the last
	// command (the execute table of C06.3 with its final-return row)
	executeTable(c, r, "C11.2", false)
	// the store is handed Run's task
	sameTask := false
	an.EachInstr(r.store, func(in ssa.Instruction) {
		call, ok := in.(*ssa.Call)
		if !ok {
			return
		}
		if cc, ok := an.IsCallTo(call, fnSet); ok && an.FieldProv(cc.Value) == "TaskRunner.env" {
			for _, src := range c.P.DeepSources(cc.Args[1], 2, true) {
				if sc, ok := src.(*ssa.Call); ok && an.ShortCallee(&sc.Call) == "(*bytes.Buffer).String" {
					ap := an.AccessPath(sc.Call.Args[0])
					for _, b := range c.P.DeepSourcesStop(ap.Base, 3, true, func(v ssa.Value) bool { return v == ssa.Value(r.task) }) {
						if b == ssa.Value(r.task) {
							sameTask = true
						}
					}
				}
			}
		}
	})
	c.Check(sameTask, "C11.2", an.Short(r.store)+":store(task)", r.store.Pos(), "what is stored is the output of the task that just ran", "the stored output is not read from Run's task")

	// C11.3
	cfg := chainCfg(p)
	cfg.ParamDepth = 3
	if ct != nil {
		envArg := argOf(r.compileCall, ct, "env")
		okStart := false
		for _, ch := range cfg.Chains(envArg) {
			if len(ch) > 0 && ch[0].Label == "TaskRunner.env" {
				okStart = true
			}
		}
		c.Check(okStart, "C11.3", an.Short(r.run)+":env-base", r.compileCall.Pos(), "every task's env is built on top of TaskRunner.env", "Run does not build the task's env on top of TaskRunner.env, where stored outputs live")
	}

	// C11.4
	storeName(c, r, "C11.4")

	// C11.5
	outputVariable(c, r, "C11.5")

	// C11.6
	captureBufferUses(c, "C11.6")

	// C11.7
	captureOwnership(c, "C11.7")
}

// captureOwnership checks C11.7.
func captureOwnership(c *an.Ctx, rule string) {
	p := c.P
	var taskT *types.Named
	for _, fn := range p.Funcs {
		for _, prm := range fn.Params {
			if an.TypeIs(prm.Type(), "pkg/task", "Task") {
				if n, ok := an.Deref(prm.Type()).(*types.Named); ok {
					taskT = n
				}
			}
		}
		if taskT != nil {
			break
		}
	}
	if taskT == nil {
		c.Und(rule, "task.Task", token.NoPos, "type Task not found")
		return
	}
	byValue, where := true, ""
	var t types.Type = taskT
	for _, f := range []string{"Log", "Stdout"} {
		stt, ok := t.Underlying().(*types.Struct)
		if !ok {
			byValue, where = false, "the holder of "+f+" is a "+types.TypeString(t, func(pk *types.Package) string { return pk.Name() })
			break
		}
		var ft types.Type
		for i := 0; i < stt.NumFields(); i++ {
			if stt.Field(i).Name() == f {
				ft = stt.Field(i).Type()
			}
		}
		if ft == nil {
			c.Und(rule, "task.Task."+f, token.NoPos, "field %s not found on the way to the capture buffer", f)
			return
		}
		t = ft
	}
	if byValue && !an.TypeIs(t, "bytes", "Buffer") {
		byValue, where = false, "the capture is a "+types.TypeString(t, func(pk *types.Package) string { return pk.Name() })
	}
	if _, isPtr := t.(*types.Pointer); isPtr {
		byValue = false
	}
	if byValue {
		c.OK(rule, "task.Task:Log.Stdout", token.NoPos, "the capture buffers are part of the task value: a value copy of a task has buffers of its own")
		return
	}
	// reached through a reference: every whole-value copy must get a log of its own
	n := 0
	for _, fn := range p.Funcs {
		if !an.InModule(fn) {
			continue
		}
		an.EachInstr(fn, func(in ssa.Instruction) {
			st, ok := in.(*ssa.Store)
			if !ok {
				return
			}
			al, ok := st.Addr.(*ssa.Alloc)
			if !ok || !an.TypeIs(al.Type(), "pkg/task", "Task") {
				return
			}
			if _, isStruct := st.Val.Type().Underlying().(*types.Struct); !isStruct {
				return
			}
			n++
			own := false
			for _, s2 := range an.StoresToField(fn, al, "Log") {
				if fresh, _ := an.FreshBase(s2.Val); fresh {
					own = true
				}
			}
			c.Check(own, rule, an.Short(fn)+":copy(Task)", st.Pos(), "the copy is given a log of its own", "a value copy of a task is made here but the capture is reached through a reference ("+where+"): the copy writes into the same buffers as the original and as every other copy — a stage that shares its task with another stage captures, exports and hands on the other stage's output as well")
		})
	}
	if n == 0 {
		c.OK(rule, "task.Task:copies", token.NoPos, "no whole-value copy of a task is made in the module")
	}
}

// captureBufferUses checks C11.6.
func captureBufferUses(c *an.Ctx, rule string) {
	p := c.P
	readOnly := map[string]bool{"String": true, "Len": true, "Bytes": true, "Cap": true, "Available": true}
	nUses, nTee := 0, 0
	for _, fn := range p.Funcs {
		if !an.InModule(fn) {
			continue
		}
		an.EachInstr(fn, func(in ssa.Instruction) {
			fa, ok := in.(*ssa.FieldAddr)
			if !ok || fa.Referrers() == nil {
				return
			}
			ap := an.AccessPath(fa)
			if len(ap.Fields) < 2 || strings.Join(ap.Fields[len(ap.Fields)-2:], ".") != "Log.Stdout" {
				return
			}
			if pt, ok := fa.Type().(*types.Pointer); !ok || !an.TypeIs(pt.Elem(), "bytes", "Buffer") {
				return
			}
			for _, ref := range *fa.Referrers() {
				what := ""
				switch x := ref.(type) {
				case ssa.CallInstruction:
					cc := x.Common()
					if cc.IsInvoke() || len(cc.Args) == 0 || cc.Args[0] != ssa.Value(fa) {
						what = "is handed to " + an.ShortCallee(cc)
						break
					}
					callee := cc.StaticCallee()
					if callee == nil || callee.Signature.Recv() == nil || !an.TypeIs(callee.Signature.Recv().Type(), "bytes", "Buffer") {
						what = "is handed to " + an.ShortCallee(cc)
						break
					}
					if readOnly[callee.Name()] {
						nUses++
						continue
					}
					what = "has " + callee.Name() + " called on it"
				case *ssa.MakeInterface:
					// the tee: an io.Writer that ends in the MultiWriter of TaskOutput.Stdout (C11.1 decides what that is)
					if inPkgs("pkg/output")(fn) && fn.Name() == "Stdout" {
						nTee++
						continue
					}
					what = "is converted to " + types.TypeString(x.Type(), func(pk *types.Package) string { return pk.Name() })
				case *ssa.DebugRef:
					continue
				default:
					what = "is used by " + ref.String()
				}
				nUses++
				// reachable while the task has not failed?
				use := ref
				ex := &an.Explorer{P: p, NoReturn: noReturn, MaxVisits: 1}
				ex.Atom = func(v ssa.Value) (an.AVal, bool) {
					u, ok := v.(*ssa.UnOp)
					if !ok || u.Op != token.MUL {
						return an.AVal{}, false
					}
					if f2, ok := u.X.(*ssa.FieldAddr); ok && an.TypeField(f2) == "Task.Errored" {
						return an.ABool(false), true
					}
					return an.AVal{}, false
				}
				ex.Effect = func(i2 ssa.Instruction, st *an.State) string {
					if i2 == use {
						return "touch"
					}
					return ""
				}
				reached := false
				f := fn
				for f.Parent() != nil {
					f = f.Parent()
				}
				if f != fn {
					reached = true // inside a closure: not explored
				}
				for _, o := range ex.Run(fn, fn.Blocks[0], nil, nil) {
					if has(o.Effects, "touch") {
						reached = true
					}
				}
				if ex.Exhausted {
					c.Und(rule, an.Short(fn)+":"+what, ref.Pos(), "path budget exhausted")
					continue
				}
				c.Check(!reached, rule, an.Short(fn)+": Log.Stdout "+what, ref.Pos(), "only reachable once the task is marked errored", "the captured output "+what+" on a path where the task is not marked errored: the capture of a task that succeeds (or fails with allow_failure) is consumed or altered before it is stored and handed to the dependent stages")
			}
		})
	}
	if nTee == 0 || nUses == 0 {
		c.Und(rule, "Task.Log.Stdout:uses", token.NoPos, "uses of the capture buffer not found (tee=%d, others=%d)", nTee, nUses)
	}
}

func storeName(c *an.Ctx, r *runnerRoles, rule string) {
	f := r.store
	var task *ssa.Parameter
	for _, prm := range f.Params {
		if an.TypeIs(prm.Type(), "pkg/task", "Task") {
			task = prm
		}
	}
	var envSet *ssa.Call
	for _, ci := range an.CallsIn(f, fnSet) {
		if an.FieldProv(ci.Common().Value) == "TaskRunner.env" {
			envSet = ci.(*ssa.Call)
		}
	}
	if envSet == nil || task == nil {
		c.Und(rule, an.Short(f)+":Set(env)", f.Pos(), "the store does not Set on TaskRunner.env")
		return
	}
	key, val := envSet.Call.Args[0], envSet.Call.Args[1]
	// value: t.Log.Stdout.String()
	okVal := false
	for _, src := range an.Sources(val) {
		if call, ok := src.(*ssa.Call); ok && an.ShortCallee(&call.Call) == "(*bytes.Buffer).String" {
			ap := an.AccessPath(call.Call.Args[0])
			if strings.Join(ap.Fields, ".") == "Log.Stdout" && an.SameValue(ap.Base, task) {
				okVal = true
			}
		}
	}
	c.Check(okVal, rule, an.Short(f)+":value", envSet.Pos(), "the stored value is Task.Log.Stdout", "the stored value is not the task's captured stdout: "+an.Prov(val))
	// key per row
	isExportTest := func(v ssa.Value) (eq bool, ok bool) {
		bo, isb := v.(*ssa.BinOp)
		if !isb || (bo.Op != token.EQL && bo.Op != token.NEQ) {
			return false, false
		}
		if s, isS := an.ConstString(bo.Y); !isS || s != "" {
			return false, false
		}
		// (the store works on one task: inside a helper of the package the task is the helper's parameter)
		ap := an.AccessPath(bo.X)
		if ap.LastField() != "ExportAs" || len(ap.Fields) != 1 || !an.TypeIs(ap.Base.Type(), "pkg/task", "Task") {
			return false, false
		}
		return bo.Op == token.EQL, true
	}
	for _, empty := range []bool{true, false} {
		empty := empty
		// the key on this row: explore the store with the package's helpers inlined, take what the key
		// denotes where env.Set is reached, and resolve the remaining φs by the row's truth assignment
		// (only the helpers the key is computed by are inlined: the store may be part of a much larger function)
		keyFns := map[*ssa.Function]bool{}
		var collect func(v ssa.Value, depth int)
		collect = func(v ssa.Value, depth int) {
			if depth == 0 {
				return
			}
			for _, src := range an.Sources(v) {
				call, ok := src.(*ssa.Call)
				if e, isE := src.(*ssa.Extract); isE {
					call, ok = e.Tuple.(*ssa.Call)
				}
				if !ok {
					continue
				}
				// (the name may be computed by a function of another package of the module: a method of the task)
				if g := call.Call.StaticCallee(); g != nil && g.Blocks != nil && an.InModule(g) && !keyFns[g] {
					keyFns[g] = true
					for _, ret := range an.Returns(g) {
						for i := range ret.Results {
							collect(an.RetVal(ret, i), depth-1)
						}
					}
				}
			}
		}
		collect(key, 3)
		ex := &an.Explorer{P: c.P, NoReturn: noReturn, MaxDepth: 2, Inline: func(g *ssa.Function) bool { return keyFns[g] && g != f }}
		ex.Atom = func(v ssa.Value) (an.AVal, bool) {
			if eq, ok := isExportTest(v); ok {
				return an.ABool(eq == empty), true
			}
			return an.AVal{}, false
		}
		truth := func(cond ssa.Value) (bool, bool) {
			if eq, ok := isExportTest(cond); ok {
				return eq == empty, true
			}
			return false, false
		}
		var keySrc []ssa.Value
		addKey := func(v ssa.Value) {
			for _, k := range keySrc {
				if k == v {
					return
				}
			}
			keySrc = append(keySrc, v)
		}
		ex.Effect = func(in ssa.Instruction, st *an.State) string {
			if in == ssa.Instruction(envSet) {
				for _, src := range phiSourcesUnder(st.Root(key), truth) {
					addKey(st.Root(src))
				}
				return "set"
			}
			return ""
		}
		ex.Run(f, f.Blocks[0], nil, nil)
		rowKey := fmt.Sprintf("%s:key row ExportAs %s", an.Short(f), map[bool]string{true: "empty", false: "set"}[empty])
		if len(keySrc) != 1 {
			c.Und(rule, rowKey, envSet.Pos(), "cannot determine the key on this row (%d candidates)", len(keySrc))
			continue
		}
		src := keySrc[0]
		if !empty {
			ap := an.AccessPath(src)
			c.Check(ap.LastField() == "ExportAs" && len(ap.Fields) == 1 && an.TypeIs(ap.Base.Type(), "pkg/task", "Task") && isPlainLoad(src), rule, rowKey, envSet.Pos(), "the key is Task.ExportAs unchanged", "with ExportAs set the key is not ExportAs itself: "+an.Prov(src))
			continue
		}
		// sanitised name
		call, ok := src.(*ssa.Call)
		good := false
		why := an.Prov(src)
		if ok && an.ShortCallee(&call.Call) == "(*regexp.Regexp).ReplaceAllString" {
			pat := ""
			for _, s2 := range an.Sources(call.Call.Args[0]) {
				if mc, ok := s2.(*ssa.Call); ok && strings.HasPrefix(an.ShortCallee(&mc.Call), "regexp.MustCompile") {
					pat, _ = an.ConstString(mc.Call.Args[0])
				}
				// a pattern compiled once into a package-level variable nothing else assigns
				if u, ok := s2.(*ssa.UnOp); ok && u.Op == token.MUL {
					if g, ok := u.X.(*ssa.Global); ok {
						if iv := globalInitValue(c.P, g); iv != nil {
							if mc, ok := iv.(*ssa.Call); ok && strings.HasPrefix(an.ShortCallee(&mc.Call), "regexp.MustCompile") {
								pat, _ = an.ConstString(mc.Call.Args[0])
							}
						}
					}
				}
			}
			repl, _ := an.ConstString(call.Call.Args[2])
			inner := an.FieldProv(call.Call.Args[1])
			upper := (strings.Contains(inner, "strings.ToUpper(Task.Name)") && strings.Contains(inner, "_OUTPUT")) || isUpperNameOutput(call.Call.Args[1])
			good = pat == "[^a-zA-Z0-9_]" && repl == "_" && upper
			why = fmt.Sprintf("pattern %q, replacement %q, input %s", pat, repl, inner)
		}
		if ok && an.ShortCallee(&call.Call) == "strings.Map" {
			// the same substitution written as a per-rune map: the mapping function is evaluated on every rune
			// its comparisons can tell apart
			inner := an.FieldProv(call.Call.Args[1])
			upper := (strings.Contains(inner, "strings.ToUpper(Task.Name)") && strings.Contains(inner, "_OUTPUT")) || isUpperNameOutput(call.Call.Args[1])
			okMap, whyMap := false, "the mapping function is not a function of the module"
			for _, fsrc := range an.Sources(call.Call.Args[0]) {
				if mf, isF := fsrc.(*ssa.Function); isF && mf.Blocks != nil && len(mf.Params) == 1 {
					okMap, whyMap = runeMapIsSanitiser(c.P, mf)
				}
			}
			good = upper && okMap
			why = fmt.Sprintf("strings.Map: %s, input %s", whyMap, inner)
		}
		c.Check(good, rule, rowKey, envSet.Pos(), "the key is the sanitised upper-cased task name + _OUTPUT", "with ExportAs empty the key is not ReplaceAllString([^a-zA-Z0-9_]→_)(ToUpper(Task.Name)+_OUTPUT): "+why)
	}
}

// runeMapIsSanitiser decides whether f: rune → rune keeps [a-zA-Z0-9_] and maps every other rune to '_'. f may use
// its parameter only in comparisons with constants and as a result; it is then evaluated at every constant it
// compares with and at both neighbours, which covers every interval its comparisons distinguish.
func runeMapIsSanitiser(p *an.Prog, f *ssa.Function) (bool, string) {
	prm := f.Params[0]
	points := map[int64]bool{0: true, 0x10FFFF: true, 0xFFFD: true, 0x80: true}
	for r := int64(0); r < 128; r++ {
		points[r] = true
	}
	okShape := true
	if prm.Referrers() != nil {
		for _, ref := range *prm.Referrers() {
			switch x := ref.(type) {
			case *ssa.BinOp:
				other := x.Y
				if other == ssa.Value(prm) {
					other = x.X
				}
				k, isC := an.ConstInt(other)
				switch x.Op {
				case token.EQL, token.NEQ, token.LSS, token.LEQ, token.GTR, token.GEQ:
				default:
					okShape = false
				}
				if !isC {
					okShape = false
				}
				points[k], points[k-1], points[k+1] = true, true, true
			case *ssa.Return, *ssa.Phi, *ssa.DebugRef:
			default:
				okShape = false
			}
		}
	}
	if !okShape {
		return false, an.Short(f) + " does more with the rune than compare it with constants"
	}
	keep := func(r int64) bool {
		return r == '_' || (r >= 'a' && r <= 'z') || (r >= 'A' && r <= 'Z') || (r >= '0' && r <= '9')
	}
	for r := range points {
		if r < 0 || r > 0x10FFFF {
			continue
		}
		ex := &an.Explorer{P: p, NoReturn: noReturn}
		outs := ex.Run(f, f.Blocks[0], nil, map[ssa.Value]an.AVal{prm: an.AInt(r)})
		if len(outs) != 1 || outs[0].End != "return" || len(outs[0].Ret) != 1 {
			return false, fmt.Sprintf("%s is not a function of the rune alone (at %#x)", an.Short(f), r)
		}
		got, isC := an.ConstIntOf(outs[0].Ret[0])
		want := int64('_')
		if keep(r) {
			want = r
		}
		if !isC || got != want {
			return false, fmt.Sprintf("%s maps %q to %q, expected %q", an.Short(f), rune(r), rune(got), rune(want))
		}
	}
	return true, an.Short(f) + " keeps [a-zA-Z0-9_] and maps every other rune to _"
}

func isPlainLoad(v ssa.Value) bool {
	u, ok := v.(*ssa.UnOp)
	return ok && u.Op == token.MUL
}

// phiSourcesUnder returns the values that can flow into v on paths
// consistent with the given truth assignment of branch conditions.
func phiSourcesUnder(v ssa.Value, truth func(cond ssa.Value) (val bool, known bool)) []ssa.Value {
	var out []ssa.Value
	seen := map[ssa.Value]bool{}
	var walk func(v ssa.Value)
	walk = func(v ssa.Value) {
		if seen[v] {
			return
		}
		seen[v] = true
		for _, r := range an.ResolveAll(v) {
			phi, ok := r.(*ssa.Phi)
			if !ok {
				out = append(out, r)
				continue
			}
			for i, e := range phi.Edges {
				pred := phi.Block().Preds[i]
				feasible := true
				for _, g := range an.Guards(pred) {
					if val, known := truth(g.Cond); known && val != g.Outcome {
						feasible = false
					}
				}
				// the predecessor itself may end in the deciding branch
				if br, ok := an.BranchOf(pred); ok {
					if val, known := truth(br.If.Cond); known {
						taken := br.False
						if val {
							taken = br.True
						}
						if taken != phi.Block() && (br.True == phi.Block() || br.False == phi.Block()) {
							feasible = false
						}
					}
				}
				if feasible {
					walk(e)
				}
			}
		}
	}
	walk(v)
	return out
}

func outputVariable(c *an.Ctx, r *runnerRoles, rule string) {
	f, l := r.execute, r.jobLoop
	var execCall *ssa.Call
	for b := range l.Blocks {
		for _, in := range b.Instrs {
			if _, ok := isExecCall(in); ok {
				if call, ok := in.(*ssa.Call); ok {
					execCall = call
				}
			}
		}
	}
	if execCall == nil {
		c.Und(rule, an.Short(f)+":Execute", f.Pos(), "no Execute call in the job loop")
		return
	}
	// the Set("Output", …) before Execute
	var setCall *ssa.Call
	for b := range l.Blocks {
		for _, in := range b.Instrs {
			if call, ok := in.(*ssa.Call); ok {
				if cc, ok := an.IsCallTo(call, fnSet); ok {
					if k, _ := an.ConstString(cc.Args[0]); k == "Output" {
						setCall = call
					}
				}
			}
		}
	}
	if setCall == nil {
		c.Bad(rule, an.Short(f)+":Set(Output)", f.Pos(), "the job walk never sets the Output variable")
		return
	}
	c.Check(an.Dominates(setCall, execCall), rule, an.Short(f)+":Set(Output)-before-Execute", setCall.Pos(), "Output is set before the command is executed", "Output is set after the command was executed")
	recvOK := an.FieldProv(setCall.Call.Value) == "Job.Vars"
	c.Check(recvOK, rule, an.Short(f)+":Set(Output):receiver", setCall.Pos(), "Output is set in the current job's variables", "Output is not set on the job's Vars")
	// value: string(φ) with φ loop-carried
	var phi *ssa.Phi
	for _, src := range an.Sources(setCall.Call.Args[1]) {
		_ = src
	}
	v := setCall.Call.Args[1]
	for {
		switch x := v.(type) {
		case *ssa.MakeInterface:
			v = x.X
			continue
		case *ssa.Convert:
			v = x.X
			continue
		case *ssa.ChangeType:
			v = x.X
			continue
		}
		break
	}
	phi, _ = v.(*ssa.Phi)
	if phi == nil || phi.Block() != l.Header {
		c.Bad(rule, an.Short(f)+":Output-value", setCall.Pos(), "the value of Output is not carried from the previous iteration: %s", an.Prov(setCall.Call.Args[1]))
		return
	}
	outVals := extractOf(execCall, 0)
	for i, pred := range l.Header.Preds {
		e := phi.Edges[i]
		if !l.Blocks[pred] {
			// entry: empty
			c.Check(an.IsNilConst(e), rule, an.Short(f)+":Output-initial", phi.Pos(), "the first command sees an empty Output", "the first command's Output is not empty: "+an.Prov(e))
			continue
		}
		good := false
		for _, o := range outVals {
			if e == o {
				good = true
			}
		}
		// a φ merging only this iteration's result is fine too
		if !good {
			all := true
			for _, src := range an.Sources(e) {
				isOut := false
				for _, o := range outVals {
					if src == o {
						isOut = true
					}
				}
				if !isOut {
					all = false
				}
			}
			good = all && len(an.Sources(e)) > 0 && e != ssa.Value(phi)
		}
		c.Check(good, rule, fmt.Sprintf("%s:Output-carried(edge from block %s)", an.Short(f), pred.Comment), phi.Pos(), "the next command's Output is this command's result", "on a way round the loop the carried output is not refreshed with the result of the command just executed ("+an.Prov(e)+"): the next command reads a stale Output")
	}
	// executor: suffix from the recorded offset
	er := resolveExec(c.P)
	ex := er.ex
	if ex == nil {
		return
	}
	// on every path of Execute (helpers inlined) that ran the interpreter: what is returned is
	// buf.Bytes()[offset:] with offset = buf.Len() taken before the interpreter ran
	good := er.run != nil
	n := 0
	if er.run != nil {
		exp := er.explorer()
		exp.Effect = func(in ssa.Instruction, st *an.State) string {
			if in == ssa.Instruction(er.run) {
				return "run"
			}
			if call, ok := in.(*ssa.Call); ok && an.ShortCallee(&call.Call) == "(*bytes.Buffer).Len" && an.FieldProv(call.Call.Args[0]) == "DefaultExecutor.buf" {
				return fmt.Sprintf("len@%d", call.Pos())
			}
			return ""
		}
		for _, o := range exp.Run(ex, ex.Blocks[0], nil, nil) {
			if o.End != "return" || !has(o.Effects, "run") || len(o.RetVals) == 0 {
				continue
			}
			n++
			sl, ok := o.Root(o.RetVals[0]).(*ssa.Slice)
			if !ok {
				good = false
				continue
			}
			isBytes := false
			for _, src := range an.Sources(sl.X) {
				if call, ok := src.(*ssa.Call); ok && an.ShortCallee(&call.Call) == "(*bytes.Buffer).Bytes" && an.FieldProv(call.Call.Args[0]) == "DefaultExecutor.buf" {
					isBytes = true
				}
			}
			offOK := false
			if sl.Low != nil && sl.High == nil {
				for _, src := range an.Sources(o.Root(sl.Low)) {
					if call, ok := src.(*ssa.Call); ok && an.ShortCallee(&call.Call) == "(*bytes.Buffer).Len" {
						// taken before the interpreter ran on this path
						tag := fmt.Sprintf("len@%d", call.Pos())
						for _, e := range o.Effects {
							if e == tag {
								offOK = true
							}
							if e == "run" {
								break
							}
						}
					}
				}
			}
			if !isBytes || !offOK {
				good = false
			}
		}
	}
	c.Check(good && n > 0, rule, an.Short(ex)+":output-suffix", ex.Pos(), "Execute returns the buffer contents written since just before the interpreter ran", "Execute does not return buf.Bytes()[offset:] with the offset taken before the interpreter ran")
}

// staticOnly resolves statically dispatched calls only (a dynamic io.Writer
// behind an interface is somebody else's obligation).
func staticOnly(p *an.Prog, c *ssa.CallCommon) []*ssa.Function {
	if c.IsInvoke() {
		return nil
	}
	return p.Callees(c)
}

// localObject returns the allocation v points to when it is a local of its
// function that does not outlive the call: its address is only used for field
// access, loads, and as an argument of module functions of the same package
// that do not store it (checked one level down); nil otherwise.
func localObject(p *an.Prog, v ssa.Value) *ssa.Alloc {
	all := an.ResolveAll(v)
	if len(all) != 1 {
		return nil
	}
	a, ok := all[0].(*ssa.Alloc)
	if !ok || a.Referrers() == nil {
		// a pointer parameter bound by every caller to such a local
		if prm, isP := all[0].(*ssa.Parameter); isP && prm.Parent() != nil {
			fn := prm.Parent()
			idx := -1
			for i, q := range fn.Params {
				if q == prm {
					idx = i
				}
			}
			sites := p.CallSitesOf(fn)
			if idx < 0 || len(sites) == 0 || (fn.Object() != nil && fn.Object().Exported()) {
				return nil
			}
			var found *ssa.Alloc
			for _, s := range sites {
				if idx >= len(s.Common().Args) {
					return nil
				}
				la := localObject(p, s.Common().Args[idx])
				if la == nil {
					return nil
				}
				found = la
			}
			return found
		}
		return nil
	}
	if escapes(p, a, 1) {
		return nil
	}
	return a
}

func escapes(p *an.Prog, a *ssa.Alloc, depth int) bool {
	for _, r := range *a.Referrers() {
		switch x := r.(type) {
		case *ssa.FieldAddr, *ssa.DebugRef:
		case *ssa.UnOp:
		case *ssa.Store:
			if x.Val == ssa.Value(a) {
				return true
			}
		case *ssa.Call:
			callee := x.Call.StaticCallee()
			if callee == nil || callee.Blocks == nil || an.Outer(callee).Pkg != an.Outer(a.Parent()).Pkg {
				return true
			}
			for i, arg := range x.Call.Args {
				if arg != ssa.Value(a) || i >= len(callee.Params) {
					continue
				}
				prm := callee.Params[i]
				if prm.Referrers() == nil {
					continue
				}
				for _, pr := range *prm.Referrers() {
					switch y := pr.(type) {
					case *ssa.FieldAddr, *ssa.DebugRef, *ssa.UnOp:
					case *ssa.Store:
						if y.Val == ssa.Value(prm) {
							return true
						}
					default:
						return true
					}
				}
			}
		default:
			return true
		}
	}
	return false
}

// teeElems resolves a writer value to the element lists of the io.MultiWriter
// calls it may come from, looking through helper functions of the module:
// a helper's parameters are replaced by the arguments of the call site it was
// reached through. opaque names a source that is not a MultiWriter.
func teeElems(v ssa.Value, bind map[*ssa.Parameter]ssa.Value, depth int) (tees [][]ssa.Value, opaque string) {
	subst := func(e ssa.Value) ssa.Value {
		for i := 0; i < 4; i++ {
			srcs := an.Sources(e)
			if len(srcs) != 1 {
				return e
			}
			prm, ok := srcs[0].(*ssa.Parameter)
			if !ok {
				return e
			}
			b, ok := bind[prm]
			if !ok {
				return e
			}
			e = b
		}
		return e
	}
	for _, src := range an.Sources(subst(v)) {
		if mi, ok := src.(*ssa.MakeInterface); ok {
			src = mi.X
		}
		// a hand-written tee: a struct of writers whose Write hands its whole argument to each of them
		if al, ok := src.(*ssa.Alloc); ok {
			if fields, ok := teeStruct(al); ok {
				var elems []ssa.Value
				for _, fv := range fields {
					elems = append(elems, subst(fv))
				}
				tees = append(tees, elems)
				continue
			}
		}
		call, ok := src.(*ssa.Call)
		if !ok {
			opaque = an.Prov(src)
			continue
		}
		if an.ShortCallee(&call.Call) == "io.MultiWriter" {
			var elems []ssa.Value
			for _, e := range an.VariadicElems(call.Call.Args[0]) {
				elems = append(elems, subst(e))
			}
			tees = append(tees, elems)
			continue
		}
		callee := call.Call.StaticCallee()
		if callee == nil || callee.Blocks == nil || !an.InModule(callee) || depth == 0 {
			opaque = an.Prov(src)
			continue
		}
		nb := map[*ssa.Parameter]ssa.Value{}
		for i, prm := range callee.Params {
			if i < len(call.Call.Args) {
				nb[prm] = subst(call.Call.Args[i])
			}
		}
		for _, ret := range an.Returns(callee) {
			t, o := teeElems(an.RetVal(ret, 0), nb, depth-1)
			tees = append(tees, t...)
			if o != "" {
				opaque = o
			}
		}
	}
	return tees, opaque
}

// isUpperNameOutput: v is strings.ToUpper(<task>.Name) + "_OUTPUT" (concatenation or Sprintf("%s_OUTPUT", …)).
func isUpperNameOutput(v ssa.Value) bool {
	isUpperName := func(u ssa.Value) bool {
		for _, src := range an.Sources(u) {
			call, ok := src.(*ssa.Call)
			if !ok || an.ShortCallee(&call.Call) != "strings.ToUpper" {
				return false
			}
			ap := an.AccessPath(call.Call.Args[0])
			if len(ap.Fields) != 1 || ap.Fields[0] != "Name" || !an.TypeIs(ap.Base.Type(), "pkg/task", "Task") {
				return false
			}
		}
		return true
	}
	srcs := an.Sources(v)
	if len(srcs) == 0 {
		return false
	}
	for _, src := range srcs {
		switch x := src.(type) {
		case *ssa.BinOp:
			suffix, isS := an.ConstString(x.Y)
			if x.Op != token.ADD || !isS || suffix != "_OUTPUT" || !isUpperName(x.X) {
				return false
			}
		case *ssa.Call:
			if an.ShortCallee(&x.Call) != "fmt.Sprintf" {
				return false
			}
			format, isS := an.ConstString(x.Call.Args[0])
			el := an.VariadicElems(x.Call.Args[1])
			if !isS || format != "%s_OUTPUT" || len(el) != 1 || el[0] == nil {
				return false
			}
			arg := el[0]
			if mi, ok := arg.(*ssa.MakeInterface); ok {
				arg = mi.X
			}
			if !isUpperName(arg) {
				return false
			}
		default:
			return false
		}
	}
	return true
}

// teeStruct recognises a hand-written io.MultiWriter: al is a fresh struct of the module all of whose fields are
// io.Writers, and the Write method of its type calls Write on every field with its own argument, unchanged, before
// any return with a nil error (so a successful Write has offered all of p to each of them, in field order). It
// returns what was stored into the fields, in that order.
func teeStruct(al *ssa.Alloc) ([]ssa.Value, bool) {
	p := an.CurrentProg
	if p == nil {
		return nil, false
	}
	named, ok := an.Deref(al.Type()).(*types.Named)
	if !ok || named.Obj().Pkg() == nil {
		return nil, false
	}
	st, ok := named.Underlying().(*types.Struct)
	if !ok || st.NumFields() == 0 {
		return nil, false
	}
	isWriter := func(t types.Type) bool {
		n, ok := t.(*types.Named)
		return ok && n.Obj().Pkg() != nil && n.Obj().Pkg().Path() == "io" && n.Obj().Name() == "Writer"
	}
	for i := 0; i < st.NumFields(); i++ {
		if !isWriter(st.Field(i).Type()) {
			return nil, false
		}
	}
	var write *ssa.Function
	for _, fn := range p.Funcs {
		if fn.Name() == "Write" && fn.Signature.Recv() != nil && an.Deref(fn.Signature.Recv().Type()) == types.Type(named) && fn.Blocks != nil {
			write = fn
		}
	}
	if write == nil || len(write.Params) != 2 {
		return nil, false
	}
	calls := make([]ssa.Instruction, st.NumFields())
	an.EachInstr(write, func(in ssa.Instruction) {
		call, ok := in.(*ssa.Call)
		if !ok || !call.Call.IsInvoke() || call.Call.Method.Name() != "Write" || len(call.Call.Args) != 1 || call.Call.Args[0] != ssa.Value(write.Params[1]) {
			return
		}
		u, ok := call.Call.Value.(*ssa.UnOp)
		if !ok || u.Op != token.MUL {
			return
		}
		fa, ok := u.X.(*ssa.FieldAddr)
		if !ok || fa.X != ssa.Value(write.Params[0]) {
			return
		}
		if calls[fa.Field] == nil {
			calls[fa.Field] = call
		}
	})
	for i, cl := range calls {
		if cl == nil {
			return nil, false
		}
		if i > 0 && !an.Dominates(calls[i-1], cl) {
			return nil, false
		}
	}
	for _, ret := range an.Returns(write) {
		if !an.IsNilConst(an.RetVal(ret, 1)) {
			continue
		}
		for _, cl := range calls {
			if !an.Dominates(cl, ret) {
				return nil, false
			}
		}
	}
	// nothing else writes the fields after construction
	vals := make([]ssa.Value, st.NumFields())
	for _, ref := range *al.Referrers() {
		fa, ok := ref.(*ssa.FieldAddr)
		if !ok {
			continue
		}
		for _, r2 := range *fa.Referrers() {
			if sto, ok := r2.(*ssa.Store); ok && sto.Addr == ssa.Value(fa) {
				if vals[fa.Field] != nil {
					return nil, false
				}
				vals[fa.Field] = sto.Val
			}
		}
	}
	for _, v := range vals {
		if v == nil {
			return nil, false
		}
	}
	return vals, true
}

// hooksNotCaptured: the capture holds what the task's own commands print. A before or after command compiled with
// the tee (TaskOutput.Stdout/Stderr) as its output writes into Task.Log as well, and what it prints is published
// under the task's output name in front of (or behind) the task's own output.
func hooksNotCaptured(c *an.Ctx, rule string) {
	p := c.P
	ccr := resolveCmdCompiler(p)
	n, bad := 0, 0
	for _, fn := range p.Funcs {
		if !inPkgs("pkg/runner")(fn) || fn.Blocks == nil {
			continue
		}
		an.EachInstr(fn, func(in ssa.Instruction) {
			call, ok := ccr.asCall(in)
			if !ok || len(call.Call.Args) < 2 {
				return
			}
			kind := ""
			for _, a := range call.Call.Args {
				if k := commandKind(a, nil); k == "before" || k == "after" {
					kind = k
				}
			}
			if kind == "" {
				return
			}
			n++
			for _, a := range call.Call.Args {
				if !an.TypeIs(a.Type(), "io", "Writer") {
					continue
				}
				for _, src := range p.DeepSources(a, 3, true) {
					if oc, ok := src.(*ssa.Call); ok {
						name := an.ShortCallee(&oc.Call)
						if name == "(pkg/output.TaskOutput).Stdout" || name == "(pkg/output.TaskOutput).Stderr" {
							bad++
							c.Bad(rule, an.Short(fn)+":"+kind+"-hook-output", call.Pos(), "the %s commands of a task are compiled with %s, the tee into Task.Log, as their output: what a hook prints becomes part of the task's captured output and of what is published under its name", kind, name)
						}
					}
				}
			}
		})
	}
	if bad == 0 {
		c.OK(rule, "runner:hook-output", token.NoPos, "no before/after command is compiled with the capture tee as its output (%d hook compilations)", n)
	}
}
