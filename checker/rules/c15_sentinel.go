package rules

import (
	"fmt"
	"go/token"
	"sort"
	"strings"

	"golang.org/x/tools/go/ssa"

	"taskverif/an"
)

// toleratedSentinels implements C15.6.
//
// A caller of Loader.Load in cmd/taskctl that tests the returned error with
// errors.Is(err, S) for a sentinel S of internal/config and — on some path
// where the error is non-nil and matches S — goes on to dereference the
// returned configuration without a nil test relies on this: an error matching
// S comes with a usable configuration. Load honours it for the one origin it
// returns together with the destination configuration; the other origin is the
// absence of the very file a load function was asked for. The rule keeps that
// meaning local: S may not travel across a recursive call of the loading
// functions (an imported file's absence must not be reported as the importing
// file's), because that value reaches the tolerant caller with a nil
// configuration.
func toleratedSentinels(c *an.Ctx, rule string, strict bool) {
	p := c.P
	load := p.Func("internal/config", "Loader", "Load")
	if load == nil {
		c.Und(rule, "config.(*Loader).Load", token.NoPos, "Load not found")
		return
	}
	inCfg := inPkgs("internal/config")
	// 1. tolerant callers
	type site struct {
		fn   *ssa.Function
		call *ssa.Call
		is   *ssa.Call
		s    *ssa.Global
	}
	var sites []site
	for _, fn := range p.Funcs {
		if !inPkgs("cmd/taskctl")(fn) {
			continue
		}
		for _, ci := range an.CallsIn(fn, "errors.Is") {
			is, ok := ci.(*ssa.Call)
			if !ok {
				continue
			}
			var s *ssa.Global
			for _, src := range an.Sources(is.Call.Args[1]) {
				if u, ok := src.(*ssa.UnOp); ok && u.Op == token.MUL {
					if g, ok := u.X.(*ssa.Global); ok && g.Pkg != nil && g.Pkg.Pkg.Path() == an.ModulePath+"/internal/config" {
						s = g
					}
				}
			}
			if s == nil {
				continue
			}
			for _, src := range an.Sources(is.Call.Args[0]) {
				e, ok := src.(*ssa.Extract)
				if !ok {
					continue
				}
				call, ok := e.Tuple.(*ssa.Call)
				if !ok {
					continue
				}
				for _, callee := range p.Callees(&call.Call) {
					if callee == load {
						dup := false
						for _, st := range sites {
							if st.call == call && st.s == s {
								dup = true
							}
						}
						if !dup {
							sites = append(sites, site{fn, call, is, s})
						}
					}
				}
			}
		}
	}
	if len(sites) == 0 {
		c.OK(rule, "cmd/taskctl:tolerant-callers", token.NoPos, "no caller of Load compares its error with a sentinel of internal/config")
		return
	}
	relied := map[*ssa.Global]bool{}
	for _, st := range sites {
		st := st
		cfgVals := extractOf(st.call, 0)
		errVals := errOf(st.call)
		isCfg := func(v ssa.Value) bool {
			for _, r := range an.Sources(v) {
				for _, cv := range cfgVals {
					if r == cv {
						return true
					}
				}
				// the result is parked in a package-level variable
				if u, ok := r.(*ssa.UnOp); ok && u.Op == token.MUL {
					if g, ok := u.X.(*ssa.Global); ok {
						for _, cv := range cfgVals {
							if refs := cv.Referrers(); refs != nil {
								for _, ref := range *refs {
									if sto, ok := ref.(*ssa.Store); ok && sto.Addr == ssa.Value(g) {
										return true
									}
								}
							}
						}
					}
				}
			}
			return false
		}
		ex := &an.Explorer{P: p, NoReturn: noReturn, MaxVisits: 1}
		ex.Atom = func(v ssa.Value) (an.AVal, bool) {
			for _, e := range errVals {
				if v == e {
					return an.AVal{K: an.ANonNil}, true
				}
			}
			if call, ok := v.(*ssa.Call); ok {
				switch {
				case an.ShortCallee(&call.Call) == "errors.Is":
					for _, src := range an.Sources(call.Call.Args[1]) {
						if u, ok := src.(*ssa.UnOp); ok && u.X == ssa.Value(st.s) {
							return an.ABool(true), true
						}
					}
				}
			}
			return an.AVal{}, false
		}
		ex.Effect = func(in ssa.Instruction, s *an.State) string {
			switch x := in.(type) {
			case *ssa.FieldAddr:
				if isCfg(x.X) {
					return "deref"
				}
			case *ssa.BinOp:
				if (x.Op == token.EQL || x.Op == token.NEQ) && (an.IsNilConst(x.Y) && isCfg(x.X) || an.IsNilConst(x.X) && isCfg(x.Y)) {
					return "niltest"
				}
			}
			return ""
		}
		outs := ex.RunFrom(st.fn, st.call, nil)
		tolerant, relies := false, false
		for _, o := range outs {
			if o.End == "exit" {
				continue
			}
			if o.End == "return" && len(o.Ret) > 0 && o.Ret[len(o.Ret)-1].K == an.ANonNil {
				continue
			}
			tolerant = true
			tested := false
			for _, e := range o.Effects {
				if e == "niltest" {
					tested = true
				}
				if e == "deref" && !tested {
					relies = true
				}
			}
		}
		key := fmt.Sprintf("%s:tolerates(%s)", an.Short(st.fn), st.s.Name())
		switch {
		case !tolerant:
			c.OK(rule, key, st.is.Pos(), "an error matching %s always ends the action with an error", st.s.Name())
		case !relies && strict:
			// (C17: whether or not the configuration is tested, going on means the failure is not reported —
			// so nothing but the absence of the requested file itself may match the sentinel)
			relied[st.s] = true
			c.OK(rule, key, st.is.Pos(), "an error matching %s is tolerated (the action goes on): errors matching it must not come from a broken import (obligations below)", st.s.Name())
		case !relies:
			c.OK(rule, key, st.is.Pos(), "an error matching %s is tolerated, and the configuration is tested before use", st.s.Name())
		default:
			relied[st.s] = true
			c.OK(rule, key, st.is.Pos(), "an error matching %s is tolerated and the returned configuration is used unconditionally: errors matching it must come with a configuration (obligations below)", st.s.Name())
		}
	}
	if len(relied) == 0 {
		return
	}
	// 2. which error values may match S
	var cfgFns []*ssa.Function
	for _, fn := range p.Funcs {
		if inCfg(fn) && fn.Blocks != nil {
			cfgFns = append(cfgFns, fn)
		}
	}
	sort.Slice(cfgFns, func(i, j int) bool { return cfgFns[i].String() < cfgFns[j].String() })
	reachOf := map[*ssa.Function]map[*ssa.Function][]an.CallEdge{}
	reaches := func(a, b *ssa.Function) bool {
		if reachOf[a] == nil {
			reachOf[a] = p.Reach([]*ssa.Function{a}, func(e an.CallEdge) bool { return inCfg(e.Callee) })
		}
		if a == b {
			// a reaches itself only through a cycle
			for _, e := range p.OutEdges(a) {
				if inCfg(e.Callee) {
					if e.Callee == a {
						return true
					}
					if reachOf[e.Callee] == nil {
						reachOf[e.Callee] = p.Reach([]*ssa.Function{e.Callee}, func(e an.CallEdge) bool { return inCfg(e.Callee) })
					}
					if _, ok := reachOf[e.Callee][a]; ok {
						return true
					}
				}
			}
			return false
		}
		_, ok := reachOf[a][b]
		return ok
	}
	for s := range relied {
		carries := map[*ssa.Function]bool{}
		// via(v): the ways v may match S — nil for the sentinel itself, else the callee it comes through
		var via func(v ssa.Value, seen map[ssa.Value]bool) []*ssa.Function
		via = func(v ssa.Value, seen map[ssa.Value]bool) []*ssa.Function {
			if v == nil || seen[v] {
				return nil
			}
			seen[v] = true
			var out []*ssa.Function
			for _, r := range an.Sources(v) {
				switch x := r.(type) {
				case *ssa.UnOp:
					if x.Op == token.MUL && x.X == ssa.Value(s) {
						out = append(out, nil)
					}
				case *ssa.MakeInterface:
					out = append(out, via(x.X, seen)...)
				case *ssa.ChangeInterface:
					out = append(out, via(x.X, seen)...)
				case *ssa.Extract:
					if call, ok := x.Tuple.(*ssa.Call); ok {
						for _, callee := range p.Callees(&call.Call) {
							if carries[callee] {
								out = append(out, callee)
							}
						}
					}
				case *ssa.Call:
					if an.ShortCallee(&x.Call) == "fmt.Errorf" {
						if f, ok := an.ConstString(x.Call.Args[0]); ok && strings.Contains(f, "%w") && len(x.Call.Args) > 1 {
							for _, a := range an.VariadicElems(x.Call.Args[1]) {
								out = append(out, via(a, seen)...)
							}
						}
						continue
					}
					for _, callee := range p.Callees(&x.Call) {
						if carries[callee] {
							out = append(out, callee)
						}
					}
				}
			}
			return out
		}
		for changed := true; changed; {
			changed = false
			for _, fn := range cfgFns {
				if carries[fn] {
					continue
				}
				idx := an.ErrResultIndex(fn.Signature)
				if idx < 0 {
					continue
				}
				for _, ret := range an.Returns(fn) {
					if len(via(an.RetVal(ret, idx), map[ssa.Value]bool{})) > 0 {
						carries[fn] = true
						changed = true
					}
				}
			}
		}
		var carriers []string
		for _, fn := range cfgFns {
			if carries[fn] {
				carriers = append(carriers, an.Short(fn))
			}
		}
		c.Sites[rule] = append(c.Sites[rule], fmt.Sprintf("%s may be matched by the errors of %v", s.Name(), carriers))
		// 3. S does not cross a recursive call
		n := 0
		for _, fn := range cfgFns {
			if !carries[fn] {
				continue
			}
			idx := an.ErrResultIndex(fn.Signature)
			// only a function that reports the sentinel for its own file can confuse "my file is missing"
			// with "a file I import is missing"; helpers in between merely carry the value
			origin := false
			for _, ret := range an.Returns(fn) {
				for _, g := range via(an.RetVal(ret, idx), map[ssa.Value]bool{}) {
					if g == nil {
						origin = true
					}
				}
			}
			if !origin {
				continue
			}
			for _, ret := range an.Returns(fn) {
				for _, g := range via(an.RetVal(ret, idx), map[ssa.Value]bool{}) {
					if g == nil {
						continue
					}
					n++
					if reaches(g, fn) {
						c.Bad(rule, fmt.Sprintf("%s:passes-on(%s via %s)", an.Short(fn), s.Name(), an.Short(g)), ret.Pos(), "%s returns the error of its recursive call to %s still matching %s: a missing file that is only imported is reported as the absence of the importing file, which the CLI tolerates — it then continues with the nil configuration Load returned", an.Short(fn), an.Short(g), s.Name())
					}
				}
			}
		}
		bad := false
		for _, o := range c.Obs {
			if o.Rule == rule && o.Status == an.StViolated {
				bad = true
			}
		}
		if !bad {
			c.OK(rule, "internal/config:"+s.Name()+":stays-local", token.NoPos, "no recursive call of the loading functions passes %s on (%d pass-through returns checked; carriers: %v)", s.Name(), n, carriers)
		}
		// 4. Load's own returns: with the sentinel's first origin the destination configuration is returned
		idx := an.ErrResultIndex(load.Signature)
		for _, ret := range an.Returns(load) {
			for _, g := range via(an.RetVal(ret, idx), map[ssa.Value]bool{}) {
				if g == nil || reaches(g, g) || func() bool {
					// the callee is one of the (recursive) file loaders: the top-level file's own absence, decided by the caller's flag test
					for h := range reachOf[g] {
						if h != g && reaches(h, h) {
							return true
						}
					}
					return false
				}() {
					continue
				}
				cfgv := an.RetVal(ret, 0)
				c.Check(!an.IsNilConst(cfgv) && an.FieldProv(cfgv) == "Loader.dst", rule, fmt.Sprintf("%s:with(%s via %s)", an.Short(load), s.Name(), an.Short(g)), ret.Pos(), "the error of "+an.Short(g)+" is returned together with the destination configuration", "Load returns the error of "+an.Short(g)+", which may match "+s.Name()+", without the destination configuration: the CLI tolerates that error and dereferences the nil result")
			}
		}
	}
}
