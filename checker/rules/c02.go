package rules

import (
	"fmt"
	"go/token"
	"go/types"
	"strings"

	"golang.org/x/tools/go/ssa"

	"taskverif/an"
)

func init() { register("C02", checkC02) }

func checkC02(c *an.Ctx) {
	c.Rule("C02.1", "gate table, cancel column (E2): rows Canceled and (Error∧¬allow_failure) write Canceled on the waiting stage; every other row writes nothing; the gate looks at all dependencies on every call")
	c.Rule("C02.2", "stage-body table (E2): err=nil → final Done, graph error untouched; err≠nil∧allow_failure → final Done, graph error untouched; err≠nil∧¬allow_failure → final Error, graph error := err, no Done")
	c.Rule("C02.3", "condition table (E2) in the scheduling loop: condition error → Error + Scheduler.Cancel; condition false → Skipped only; nothing else writes Skipped")
	c.Rule("C02.4", "error report (E4/E7): ExecutionGraph.error has one writer; LastError returns it; Schedule returns LastError() on every exit, read after a synchronous wait for the stage goroutines; the runner caller returns the nested Schedule's result unchanged")
	c.Rule("C02.5", "monotone status (E3/E4): every status write of the scheduling goroutine is dominated by status==Waiting on that stage; Waiting is never written; Running is written at one site")
	c.Rule("C02.6", "a failure does not stop the others (E4): Scheduler.cancelled is written only by Scheduler.Cancel; its only in-package caller is the condition-error row; the stage goroutine cannot reach Cancel")
	c.Rule("C02.8", "failures travel along the declared edges (= C01.5): what the gate reads for a stage is exactly its depends_on list — an edge the graph drops (as a duplicate, as \"implied\") is a failed dependency that no longer cancels the stage")
	c.Rule("C02.7", "done test (E2): isDone is false iff some stage is Waiting or Running")
	c.NotDecided = append(c.NotDecided,
		"confluence over all completion orders is argued from C02.5 (terminal statuses are stable), not proved over schedules",
		"which of several errors Schedule returns",
		"dependants of a skipped stage whose own dependency later fails")
	s := resolveSched(c, "C02.0")
	if !s.ok {
		return
	}
	c.OK("C02.0", "scheduler roles", s.schedule.Pos(), "launch=%s gate=%s", c.P.Pos(s.launch.Pos()), an.Short(s.gate))
	gateTable(c, s, "C02.1", true)
	stageBodyTable(c, s, "C02.2")
	conditionTable(c, s, "C02.3")
	errorReport(c, s, "C02.4")
	monotoneStatus(c, s, "C02.5")
	failureIsLocal(c, s, "C02.6")
	doneTest(c, s, "C02.7")
	edgeWiring(c, s, "C02.8")
}

// isGraphErrorAddr reports whether v is &graph.error.
func isGraphErrorAddr(v ssa.Value) bool {
	fa, ok := v.(*ssa.FieldAddr)
	if !ok || !an.TypeIs(fa.X.Type(), "pkg/scheduler", "ExecutionGraph") {
		return false
	}
	return an.AccessPath(fa).LastField() == "error"
}

// stageBodyTable checks C02.2.
func stageBodyTable(c *an.Ctx, s *sched, rule string) {
	body := s.body
	if len(s.runnerCalls) == 0 {
		c.Und(rule, an.Short(body)+":runner-call", body.Pos(), "no runner call in the stage goroutine")
		return
	}
	// one table per runner call (a task stage and a nested-pipeline stage may be run by different calls)
	for i, rci := range s.runnerCalls {
		rc, ok := rci.(*ssa.Call)
		if !ok {
			c.Und(rule, an.Short(body)+":runner-call", rci.Pos(), "the runner is not called synchronously in the stage goroutine")
			continue
		}
		suffix := ""
		if len(s.runnerCalls) > 1 {
			suffix = fmt.Sprintf("#%d", i+1)
		}
		stageBodyTableFor(c, s, rule, rc, suffix)
	}
}

func stageBodyTableFor(c *an.Ctx, s *sched, rule string, rc *ssa.Call, suffix string) {
	body := s.body
	var cur *an.State // the path state of the callback in progress (identity through inlined helpers)
	who := func(v ssa.Value) string {
		if s.bodyStage != nil && (an.SameValue(v, s.bodyStage) || (cur != nil && cur.SameRoot(v, s.bodyStage)) || s.isBodyStage(v, cur)) {
			return "stage"
		}
		return "other:" + an.Prov(v)
	}
	var table []string
	for _, errNil := range []bool{true, false} {
		for _, af := range []bool{false, true} {
			errNil, af := errNil, af
			if errNil && af {
				// same row as err=nil/af=false as far as the oracle goes, still explored
			}
			ex := &an.Explorer{P: c.P, NoReturn: noReturn, MaxDepth: 3,
				Inline: func(f *ssa.Function) bool {
					return f.Parent() == body || (an.Outer(f).Pkg == s.schedule.Pkg && f != s.schedule && f != s.runStage && an.Outer(f) != an.Outer(body))
				},
			}
			ex.AtomSt = func(v ssa.Value, st *an.State) (an.AVal, bool) {
				cur = st
				if v == ssa.Value(rc) {
					if errNil {
						return an.AVal{K: an.ANil}, true
					}
					return an.AVal{K: an.ANonNil}, true
				}
				if u, ok := v.(*ssa.UnOp); ok && u.Op == token.MUL {
					if fa, ok := u.X.(*ssa.FieldAddr); ok && an.AccessPath(fa).LastField() == "AllowFailure" && an.TypeIs(fa.X.Type(), "pkg/scheduler", "Stage") && who(fa.X) == "stage" {
						return an.ABool(af), true
					}
				}
				return an.AVal{}, false
			}
			ex.Effect = func(in ssa.Instruction, st *an.State) string {
				cur = st
				if e := s.updateStatusEffect(in, st, who); e != "" {
					return e
				}
				if sto, ok := in.(*ssa.Store); ok && isGraphErrorAddr(sto.Addr) {
					if an.SameValue(sto.Val, rc) || st.Root(sto.Val) == ssa.Value(rc) {
						return "grapherror:=err"
					}
					for _, src := range an.Sources(sto.Val) {
						if src == ssa.Value(rc) {
							return "grapherror:=err"
						}
					}
					return "grapherror:=" + an.Prov(sto.Val)
				}
				if call, ok := in.(*ssa.Call); ok {
					for _, callee := range c.P.Callees(&call.Call) {
						if callee == s.cancel {
							return "Cancel()"
						}
					}
				}
				return ""
			}
			// start right after the runner call
			outs := ex.RunFrom(body, rc, nil)
			name := fmt.Sprintf("err=%s/af=%v", map[bool]string{true: "nil", false: "non-nil"}[errNil], af)
			key := an.Short(body) + ":row " + name + suffix
			var cells []string
			bad := ""
			for _, o := range outs {
				cells = append(cells, strings.Join(o.Effects, ";")+" →"+o.End)
				var writes []string
				graphErr := false
				for _, e := range o.Effects {
					switch {
					case strings.HasPrefix(e, "write(stage,"):
						writes = append(writes, strings.TrimSuffix(strings.TrimPrefix(e, "write(stage,"), ")"))
					case e == "grapherror:=err":
						graphErr = true
					case strings.HasPrefix(e, "grapherror:="):
						bad = "stores something other than the task's error as the run's error: " + e
					default:
						bad = "unexpected effect " + e
					}
				}
				final := ""
				if len(writes) > 0 {
					final = writes[len(writes)-1]
				}
				if o.End != "return" {
					bad = "path ends with " + o.End
				}
				for _, u := range o.Unknown {
					bad = "forks on a condition outside the table: " + u
				}
				hasDone := false
				for _, w := range writes {
					if w == "Done" {
						hasDone = true
					}
				}
				switch {
				case errNil || af:
					if final != "Done" {
						bad = fmt.Sprintf("final status is %q, want Done", final)
					}
					if graphErr {
						bad = "records a run error although the stage did not fail fatally"
					}
				default:
					if final != "Error" || hasDone {
						bad = fmt.Sprintf("status writes %v, want final Error and no Done", writes)
					}
					if !graphErr {
						bad = "does not record the task's error as the run's error"
					}
				}
			}
			if len(outs) == 0 {
				bad = "no feasible path"
			}
			table = append(table, fmt.Sprintf("%-22s -> %s", name, strings.Join(cells, " | ")))
			if bad != "" {
				c.Bad(rule, key, rc.Pos(), "stage goroutine after the task returned with %s: %s", name, bad)
			} else {
				c.OK(rule, key, rc.Pos(), "%s", strings.Join(cells, " | "))
			}
		}
	}
	c.Tables["stage-body("+an.Short(body)+")"+suffix] = table
}

// conditionTable checks C02.3 on the scheduling trace.
func conditionTable(c *an.Ctx, s *sched, rule string) {
	checkSchedTable(c, s, rule, map[string]bool{"condition": true})
}

// errorReport checks C02.4.
func errorReport(c *an.Ctx, s *sched, rule string) {
	n := 0
	for _, fn := range c.P.Funcs {
		an.EachInstr(fn, func(in ssa.Instruction) {
			sto, ok := in.(*ssa.Store)
			if !ok || !isGraphErrorAddr(sto.Addr) {
				return
			}
			// (an explicit zero value in the literal that builds the graph is initialisation, not a report)
			if fa, ok := sto.Addr.(*ssa.FieldAddr); ok && an.IsNilConst(sto.Val) {
				if fresh, copied := an.FreshBase(fa.X); fresh && !copied {
					return
				}
			}
			n++
			inBody := false
			for _, b := range an.WithAnon(s.body) {
				if b == fn {
					inBody = true
				}
			}
			if !inBody {
				// a helper that only the stage goroutine calls
				loopSide, bodySide := schedSides(c, s)
				inBody = bodySide[fn] && !loopSide[fn]
			}
			c.Check(inBody, rule, an.Short(fn)+":write(graph.error)", sto.Pos(), "the run's error is written by the stage goroutine", "the run's error is written outside the stage goroutine")
		})
	}
	if n == 0 {
		c.Bad(rule, "ExecutionGraph.error:writers", s.body.Pos(), "no function records a stage's error as the run's error")
	}
	last := c.P.Func("pkg/scheduler", "ExecutionGraph", "LastError")
	if last == nil {
		c.Und(rule, "scheduler.(*ExecutionGraph).LastError", token.NoPos, "LastError not found")
		return
	}
	okLast := true
	for _, r := range an.Returns(last) {
		ap := an.AccessPath(an.RetVal(r, 0))
		if ap.LastField() != "error" || !an.SameValue(ap.Base, last.Params[0]) {
			okLast = false
		}
	}
	c.Check(okLast, rule, an.Short(last)+":returns", last.Pos(), "LastError returns the recorded error", "LastError does not return ExecutionGraph.error")
	// Schedule returns LastError(g) of its own graph on every exit
	okSched := true
	nret := 0
	for _, r := range an.Returns(s.schedule) {
		nret++
		good := false
		for _, v := range an.Sources(an.RetVal(r, 0)) {
			if call, ok := v.(*ssa.Call); ok {
				for _, callee := range c.P.Callees(&call.Call) {
					if callee == last && an.SameValue(call.Call.Args[0], s.graph) {
						good = true
					}
				}
			}
			ap := an.AccessPath(v)
			if ap.LastField() == "error" && an.SameValue(ap.Base, s.graph) {
				good = true
			}
		}
		if !good {
			okSched = false
			c.Bad(rule, an.Short(s.schedule)+":return", r.Pos(), "Schedule returns %s instead of the graph's recorded error", an.Prov(an.RetVal(r, 0)))
		}
	}
	if okSched && nret > 0 {
		c.OK(rule, an.Short(s.schedule)+":return", s.schedule.Pos(), "all %d exits return the graph's recorded error", nret)
	}
	// … and reads it after the stage goroutines were waited for: the operand of `return g.LastError()` is
	// evaluated before any deferred call runs, so a wait moved into a defer lets Schedule return nil while a
	// stage that is about to fail is still running
	if s.launch != nil {
		waits := func(call *ssa.Call) bool {
			isWait := func(f *ssa.Function) bool {
				for _, op := range an.BlockingOps(f) {
					if _, isDefer := op.Instr.(*ssa.Defer); isDefer {
						continue
					}
					if op.Kind == "wg.Wait" || op.Kind == "recv" || op.Kind == "cond.Wait" {
						return true
					}
				}
				return false
			}
			if an.ShortCallee(&call.Call) == "(*sync.WaitGroup).Wait" {
				return true
			}
			var roots []*ssa.Function
			for _, callee := range c.P.Callees(&call.Call) {
				if an.InModule(callee) && callee.Blocks != nil && callee != s.schedule {
					roots = append(roots, callee)
				}
			}
			for f := range c.P.Reach(roots, func(e an.CallEdge) bool {
				return e.Kind == an.EdgeCall && an.InModule(e.Callee) && e.Callee != s.schedule
			}) {
				if f.Blocks != nil && isWait(f) {
					return true
				}
			}
			return false
		}
		for _, r := range an.Returns(s.schedule) {
			for _, v := range an.Sources(an.RetVal(r, 0)) {
				read, ok := v.(ssa.Instruction)
				if !ok || read.Parent() != s.schedule {
					continue
				}
				isRead := false
				if call, ok := v.(*ssa.Call); ok {
					for _, callee := range c.P.Callees(&call.Call) {
						if callee == last {
							isRead = true
						}
					}
				}
				if ap := an.AccessPath(v); ap.LastField() == "error" {
					isRead = true
				}
				if !isRead {
					continue
				}
				// (a return taken before anything was started has nothing to wait for)
				started := false
				an.EachInstr(s.schedule, func(in ssa.Instruction) {
					if started {
						return
					}
					launches := in == ssa.Instruction(s.launch)
					if ci, ok := in.(ssa.CallInstruction); ok && !launches && s.launchFn != s.schedule {
						for _, callee := range c.P.Callees(ci.Common()) {
							if callee == s.launchFn {
								launches = true
							} else if an.InModule(callee) && callee.Blocks != nil {
								if _, ok := c.P.Reach([]*ssa.Function{callee}, func(e an.CallEdge) bool { return e.Kind == an.EdgeCall && an.InModule(e.Callee) })[s.launchFn]; ok {
									launches = true
								}
							}
						}
					}
					if !launches {
						return
					}
					if in.Block() == read.Block() {
						started = an.InstrIndex(in) < an.InstrIndex(read) || an.CanReach(in.Block(), read.Block()) && inLoop(in.Block())
					} else {
						started = an.CanReach(in.Block(), read.Block())
					}
				})
				if !started {
					continue
				}
				waited := false
				an.EachInstr(s.schedule, func(in ssa.Instruction) {
					if call, ok := in.(*ssa.Call); ok && !waited && in != read && an.Dominates(in, read) && waits(call) {
						waited = true
					}
				})
				if !waited {
					// a drain loop: receives (one per started stage) in a loop behind the scheduling loop, through
					// whose header every path to the read goes
					for _, l := range an.Loops(s.schedule) {
						if l == s.outer || (s.outer != nil && s.outer.Blocks[l.Header]) || len(l.Header.Instrs) == 0 || !an.Dominates(l.Header.Instrs[0], read) || l.Blocks[read.Block()] {
							continue
						}
						for b := range l.Blocks {
							for _, in := range b.Instrs {
								if u, ok := in.(*ssa.UnOp); ok && u.Op == token.ARROW {
									waited = true
								}
								if call, ok := in.(*ssa.Call); ok && waits(call) {
									waited = true
								}
							}
						}
					}
				}
				c.Check(waited, rule, an.Short(s.schedule)+":result-after-wait", read.Pos(), "the run's error is read after the stage goroutines were waited for", "Schedule reads the run's error before waiting for the stages it started (a deferred wait runs after the operand of return was evaluated): a stage still running when the loop is left can fail after the result was taken, and the run reports success")
			}
		}
	}
	// what is recorded as the run's error is the result of Runner.Run / of the nested Schedule, unchanged
	// (looked through the runner caller when it is a function of its own)
	var recorded []ssa.Value
	for _, rec := range findErrorRecorders(c.P) {
		an.EachInstr(rec, func(in ssa.Instruction) {
			if st, ok := in.(*ssa.Store); ok && isGraphErrorAddr(st.Addr) {
				stop := func(v ssa.Value) bool {
					call, ok := v.(*ssa.Call)
					if !ok {
						return false
					}
					if _, isRun := an.IsCallTo(call, fnRunnerRun); isRun {
						return true
					}
					for _, callee := range c.P.Callees(&call.Call) {
						if s.isSchedule(callee) {
							return true
						}
					}
					return false
				}
				recorded = append(recorded, c.P.DeepSourcesStop(st.Val, 3, true, stop)...)
			}
		})
	}
	flows := func(call *ssa.Call) bool {
		for _, v := range recorded {
			if v == ssa.Value(call) {
				return true
			}
		}
		return false
	}
	for _, ci := range s.scheduleCallsIn(s.runStage) {
		if call, ok := ci.(*ssa.Call); ok {
			c.Check(flows(call), rule, an.Short(s.runStage)+":nested-result", call.Pos(), "the nested pipeline's error is what gets recorded, unchanged", "the nested pipeline's error is not what the stage records as the run's error")
		}
	}
	for _, ci := range an.CallsIn(s.runStage, fnRunnerRun) {
		if call, ok := ci.(*ssa.Call); ok {
			c.Check(flows(call), rule, an.Short(s.runStage)+":run-result", call.Pos(), "Runner.Run's error is what gets recorded, unchanged", "Runner.Run's error is not what the stage records as the run's error")
		}
	}
}

// schedSides partitions pkg/scheduler: functions that run on the scheduling
// goroutine for one stage (reachable from the per-stage loop without go) and
// functions that run in a stage's goroutine.
func schedSides(c *an.Ctx, s *sched) (loopSide, bodySide map[*ssa.Function]bool) {
	p := c.P
	loopSide, bodySide = map[*ssa.Function]bool{}, map[*ssa.Function]bool{}
	inPkg := func(f *ssa.Function) bool { return an.Outer(f).Pkg == s.schedule.Pkg }
	var roots []*ssa.Function
	for b := range s.inner.Blocks {
		for _, in := range b.Instrs {
			if ci, ok := in.(*ssa.Call); ok {
				for _, callee := range p.Callees(&ci.Call) {
					if inPkg(callee) && callee != s.schedule {
						roots = append(roots, callee)
					}
				}
			}
		}
	}
	for f := range p.Reach(roots, func(e an.CallEdge) bool { return e.Kind != an.EdgeGo && inPkg(e.Callee) && e.Callee != s.schedule }) {
		loopSide[f] = true
	}
	loopSide[s.loopFn] = true
	for f := range p.Reach([]*ssa.Function{s.body}, func(e an.CallEdge) bool { return inPkg(e.Callee) && e.Callee != s.schedule }) {
		bodySide[f] = true
		for _, a := range an.WithAnon(f) {
			bodySide[a] = true
		}
	}
	return
}

// monotoneStatus checks C02.5: on the scheduling trace nothing is written on a
// stage that was not seen Waiting in this pass; module-wide, statuses are
// constants, Waiting is never written, Running only by the scheduling side,
// and every write sits on the scheduling side, in the gate, or in the stage
// goroutine (which writes its own stage only).
func monotoneStatus(c *an.Ctx, s *sched, rule string) {
	checkSchedTable(c, s, rule, map[string]bool{"writes": true})
	W, R := s.status["Waiting"], s.status["Running"]
	loopSide, bodySide := schedSides(c, s)
	nRunning := 0
	for _, fn := range c.P.Funcs {
		an.EachInstr(fn, func(in ssa.Instruction) {
			cc, ok := an.IsCallTo(in, fnUpdateStatus)
			if !ok {
				return
			}
			v, isConst := an.ConstInt(cc.Args[1])
			key := an.Short(fn) + ":write(" + statusLabel(s, v) + ")"
			if !isConst {
				c.Bad(rule, an.Short(fn)+":write(?)", in.Pos(), "a status that is not a constant is written: %s", an.Prov(cc.Args[1]))
				return
			}
			if v == W {
				c.Bad(rule, key, in.Pos(), "a stage is put back to Waiting")
				return
			}
			if _, known := s.statusOf[v]; !known {
				c.Bad(rule, key, in.Pos(), "an undeclared status value is written")
				return
			}
			if v == R {
				nRunning++
				c.Check(loopSide[fn] && !bodySide[fn], rule, key, in.Pos(), "Running is written on the scheduling goroutine (the trace shows: right before the launch, on the launched stage)",
					"Running is written outside the scheduling goroutine: the loop's next pass can see the stage still Waiting and launch it again")
				return
			}
			switch {
			case bodySide[fn] && !loopSide[fn]:
				// the goroutine writes the stage it was given
				okOwn := false
				if s.bodyStage != nil {
					for _, src := range c.P.DeepSources(cc.Args[0], 3, true) {
						if src == s.bodyStage || an.SameValue(src, s.loopStage) {
							okOwn = true
						}
					}
				}
				c.Check(okOwn, rule, key, in.Pos(), "stage goroutine writes the status of its own stage (which the loop set to Running)", "stage goroutine writes the status of a stage that is not its own")
			case fn == s.gate:
				var sp *ssa.Parameter
				for _, prm := range s.gate.Params {
					if an.TypeIs(prm.Type(), "pkg/scheduler", "Stage") {
						sp = prm
					}
				}
				c.Check(sp != nil && an.SameValue(cc.Args[0], sp), rule, key, in.Pos(), "gate writes only the gated stage (the trace shows it is consulted only for a Waiting stage)", "gate writes a status on a stage other than the gated (Waiting) one")
			case loopSide[fn]:
				c.OK(rule, key, in.Pos(), "written on the scheduling goroutine; the trace shows it happens only for a stage seen Waiting in this pass")
			default:
				c.Bad(rule, key, in.Pos(), "status is written by %s, which is neither part of the scheduling loop, nor the gate, nor a stage's goroutine", an.Short(fn))
			}
		})
	}
	if nRunning < 1 {
		c.Bad(rule, "write(Running):sites", s.launch.Pos(), "Running is never written")
	}
}

// failureIsLocal checks C02.6.
func failureIsLocal(c *an.Ctx, s *sched, rule string) {
	// writers of Scheduler.cancelled
	n := 0
	for _, fn := range c.P.Funcs {
		an.EachInstr(fn, func(in ssa.Instruction) {
			fa, ok := in.(*ssa.FieldAddr)
			if !ok || !an.TypeIs(fa.X.Type(), "pkg/scheduler", "Scheduler") || an.AccessPath(fa).LastField() != "cancelled" {
				return
			}
			for _, r := range *fa.Referrers() {
				switch x := r.(type) {
				case *ssa.Call:
					name := an.ShortCallee(&x.Call)
					if name == "sync/atomic.LoadInt32" {
						continue
					}
					n++
					c.Check(fn == s.cancel && name == "sync/atomic.StoreInt32", rule, an.Short(fn)+":write(cancelled)", x.Pos(), "cancel flag stored atomically by Scheduler.Cancel", "cancel flag written by "+name+" in "+an.Short(fn))
				case *ssa.Store:
					// (a constant in the literal that builds the scheduler: nobody else can see the object yet)
					if _, isConst := x.Val.(*ssa.Const); isConst {
						if fresh, copied := an.FreshBase(fa.X); fresh && !copied {
							continue
						}
					}
					n++
					c.Bad(rule, an.Short(fn)+":write(cancelled)", x.Pos(), "cancel flag written non-atomically")
				}
			}
		})
	}
	if n == 0 {
		c.Und(rule, "Scheduler.cancelled:writers", s.cancel.Pos(), "no writer of the cancel flag found")
	}
	// in-package callers of Cancel: on the scheduling side only (the trace's "writes" clause shows
	// that there it happens only in the condition-error row)
	loopSide, bodySide := schedSides(c, s)
	checkSchedTable(c, s, rule, map[string]bool{"writes": true})
	for _, fn := range c.P.Funcs {
		if an.Outer(fn).Pkg != s.schedule.Pkg {
			continue
		}
		for _, site := range c.P.CallSitesOf(s.cancel) {
			if site.Parent() != fn {
				continue
			}
			c.Check(loopSide[fn] && !bodySide[fn], rule, an.Short(fn)+":call(Cancel)", site.Pos(), "the scheduler cancels itself from the scheduling goroutine only", "the whole run is cancelled from "+an.Short(fn)+", which is not the scheduling loop's condition handling")
		}
	}
	// stage body cannot reach Cancel or the runner's Cancel
	reach := c.P.Reach([]*ssa.Function{s.body}, func(e an.CallEdge) bool { return an.InModule(e.Callee) && e.Callee != s.schedule })
	bad := false
	for fn, path := range reach {
		if fn == s.cancel {
			bad = true
			c.Bad(rule, an.Short(s.body)+":reaches(Cancel)", s.body.Pos(), "a stage's goroutine can cancel the whole run: %s", c.P.PathString(path))
		}
		if fn.Pkg == s.schedule.Pkg || (fn.Parent() != nil && an.Outer(fn).Pkg == s.schedule.Pkg) {
			for _, ci := range an.CallsIn(fn, fnRunnerCancel) {
				if fn != s.cancel {
					bad = true
					c.Bad(rule, an.Short(fn)+":call(Runner.Cancel)", ci.Pos(), "a stage's goroutine cancels the shared runner")
				}
			}
		}
	}
	if !bad {
		c.OK(rule, an.Short(s.body)+":reaches(Cancel)", s.body.Pos(), "no path from the stage goroutine to Scheduler.Cancel or Runner.Cancel (%d functions)", len(reach))
	}
}

// doneTest checks C02.7.
func doneTest(c *an.Ctx, s *sched, rule string) {
	// isDone: the bool function called to compute the outer loop's condition
	if s.outer == nil {
		c.Und(rule, an.Short(s.launchFn)+":outer-loop", s.launchFn.Pos(), "the per-stage loop is not nested in a scheduling loop")
		return
	}
	of := s.outerFn
	var call *ssa.Call
	br, ok := an.BranchOf(s.outer.Header)
	if ok {
		var walk func(v ssa.Value)
		walk = func(v ssa.Value) {
			switch x := v.(type) {
			case *ssa.UnOp:
				walk(x.X)
			case *ssa.Call:
				call = x
			}
		}
		walk(br.If.Cond)
	}
	if call == nil {
		c.Und(rule, an.Short(of)+":loop-condition", s.outer.Header.Instrs[0].Pos(), "the scheduling loop's condition is not a call of a done test")
		return
	}
	cs := c.P.Callees(&call.Call)
	if len(cs) != 1 || cs[0].Blocks == nil {
		c.Und(rule, an.Short(of)+":loop-condition", call.Pos(), "done test is not a single module function")
		return
	}
	d := cs[0]
	s.isDone = d
	c.Anchor("done test", an.Short(d))
	// the loop continues iff the done test is false
	tv := evalWith(c.P, br.If.Cond, map[ssa.Value]an.AVal{call: an.ABool(true)})
	tb, ok1 := tv.IsBool()
	contOnTrue := br.True != nil && s.outer.Blocks[br.True]
	// done==true must leave the loop
	leaves := ok1 && ((tb && !contOnTrue) || (!tb && contOnTrue))
	c.Check(leaves, rule, an.Short(of)+":loop-exit", call.Pos(), "the scheduling loop ends when the done test is true and continues otherwise", "the scheduling loop does not end exactly when the done test is true")
	// Schedule returns only through that loop — or, before it, because the done test holds vacuously (a graph
	// without stages) or was evaluated: a return for any other reason (the graph "has been scheduled already")
	// reports a pipeline as over while its stages are still waiting or running
	for _, ret := range an.Returns(of) {
		if s.outer.Header.Dominates(ret.Block()) {
			continue
		}
		vacuous := false
		for _, g := range an.Guards(ret.Block()) {
			// len(<nodes of the graph>) == 0
			if bo, ok := g.Cond.(*ssa.BinOp); ok {
				for _, side := range []ssa.Value{bo.X, bo.Y} {
					lc, ok := side.(*ssa.Call)
					if !ok {
						continue
					}
					if b, isB := lc.Call.Value.(*ssa.Builtin); !isB || b.Name() != "len" {
						continue
					}
					if _, ok := allNodesOf(c.P, lc.Call.Args[0], 2); !ok {
						continue
					}
					other := bo.Y
					if side == bo.Y {
						other = bo.X
					}
					k, isC := an.ConstInt(other)
					if !isC {
						continue
					}
					switch {
					case bo.Op == token.EQL && k == 0 && g.Outcome, bo.Op == token.NEQ && k == 0 && !g.Outcome,
						bo.Op == token.LSS && k == 1 && g.Outcome && side == bo.X, bo.Op == token.GTR && k == 0 && !g.Outcome && side == bo.X:
						vacuous = true
					}
				}
			}
			// the done test itself
			if dc, ok := g.Cond.(*ssa.Call); ok && g.Outcome {
				for _, callee := range c.P.Callees(&dc.Call) {
					if callee == d {
						vacuous = true
					}
				}
			}
		}
		c.Check(vacuous, rule, an.Short(of)+":return-when-done", ret.Pos(), "an early return is taken only when the graph has no stage left to run", "Schedule can return without having gone through the scheduling loop and without the done test holding: the pipeline is reported as over (and its including stage as Done) while stages of it are still waiting or running")
	}
	// table of the done test over one stage
	var loop *an.Loop
	for _, l := range an.Loops(d) {
		loop = l
	}
	if loop == nil {
		c.Und(rule, an.Short(d)+":loop", d.Pos(), "done test has no loop over the stages")
		return
	}
	_, vals := loop.RangeKeyValue()
	W, R := s.status["Waiting"], s.status["Running"]
	var table []string
	for _, stv := range s.statusDomain() {
		stv := stv
		// (a predicate on the status — stage.ReadStatus().pending() — is explored in place)
		ex := &an.Explorer{P: c.P, NoReturn: noReturn, MaxDepth: 2, Inline: func(g *ssa.Function) bool {
			return an.Outer(g).Pkg == d.Pkg && g != d && an.Short(g) != fnReadStatus && an.Short(g) != fnUpdateStatus && len(g.Blocks) <= 6
		}}
		loop.Bound(ex)
		ex.Atom = func(v ssa.Value) (an.AVal, bool) {
			if call, ok := v.(*ssa.Call); ok {
				if cc, ok := an.IsCallTo(call, fnReadStatus); ok {
					for _, e := range vals {
						if an.SameValue(cc.Args[0], e) {
							return an.AInt(stv), true
						}
					}
				}
			}
			return an.AVal{}, false
		}
		outs := ex.Run(d, loop.BodyEntry(), loop.Header, nil)
		var vs []string
		for _, o := range outs {
			vs = append(vs, gateVerdict(d, loop, o))
		}
		vs = dedup(vs)
		table = append(table, fmt.Sprintf("%-10s -> %v", statusLabel(s, stv), vs))
		key := an.Short(d) + ":row " + statusLabel(s, stv)
		unfinished := stv == W || stv == R
		good := len(vs) == 1 && ((unfinished && vs[0] == "false") || (!unfinished && vs[0] == "keep"))
		if unfinished {
			c.Check(good, rule, key, d.Pos(), "an unfinished stage makes the done test false", fmt.Sprintf("an unfinished stage does not make the done test false: %v", vs))
		} else {
			c.Check(good, rule, key, d.Pos(), "a finished stage does not affect the done test", fmt.Sprintf("a finished stage decides the done test: %v", vs))
		}
	}
	c.Tables["done("+an.Short(d)+")"] = table
	// after the loop the done test returns true; it ranges over all nodes of its graph parameter
	for _, r := range an.Returns(d) {
		if x := loop.NormalExit(); x != nil && x.Dominates(r.Block()) {
			if k, ok := an.RetVal(r, 0).(*ssa.Const); !ok || k.Value == nil || k.Value.ExactString() != "true" {
				c.Bad(rule, an.Short(d)+":final", r.Pos(), "done test does not return true when no stage is unfinished")
			} else {
				c.OK(rule, an.Short(d)+":final", r.Pos(), "returns true when the loop found no unfinished stage")
			}
		}
	}
	op := loop.RangeOperand()
	okRange := false
	// (the done test may be handed the graph, or the graph's node map itself)
	nodesParam := -1
	for i, prm := range d.Params {
		if _, isMap := prm.Type().Underlying().(*types.Map); isMap && op != nil && an.SameValue(op, prm) {
			nodesParam = i
			okRange = true
		}
	}
	if graphs, ok := allNodesOf(c.P, op, 2); ok && nodesParam < 0 {
		okRange = true
		for _, g := range graphs {
			isParam := false
			for _, prm := range d.Params {
				if an.SameValue(g, prm) {
					isParam = true
				}
			}
			if !isParam {
				okRange = false
			}
		}
	}
	c.Check(okRange, rule, an.Short(d)+":range", d.Pos(), "done test ranges over Nodes() of its graph", "done test does not range over Nodes() of the graph it is given")
	if len(call.Call.Args) > 0 {
		same := false
		for _, a := range call.Call.Args {
			if an.SameValue(a, s.graph) {
				same = true
			}
		}
		if nodesParam >= 0 && nodesParam < len(call.Call.Args) {
			if graphs, ok := allNodesOf(c.P, call.Call.Args[nodesParam], 2); ok && len(graphs) > 0 {
				same = true
				for _, g := range graphs {
					if !an.SameValue(g, s.graph) {
						same = false
					}
				}
			}
		}
		c.Check(same, rule, an.Short(s.launchFn)+":done-graph", call.Pos(), "done test is applied to the graph being scheduled", "done test is applied to a different graph")
	}
}

// inLoop reports whether b lies on a cycle of its function's control-flow graph.
func inLoop(b *ssa.BasicBlock) bool {
	for _, sc := range b.Succs {
		if sc == b || an.CanReach(sc, b) {
			return true
		}
	}
	return false
}
