package rules

import (
	"go/token"
	"go/types"
	"sort"
	"strings"

	"golang.org/x/tools/go/ssa"

	"taskverif/an"
)

func init() { register("C04", checkC04) }

func checkC04(c *an.Ctx) {
	c.Rule("C04.1", "every call path from Schedule to Runner.Run crosses the go statement of the per-stage loop (E3 + call graph): no synchronous route runs a task on the scheduling goroutine")
	c.Rule("C04.2", "inside the scheduling loop nothing waits for launched work: no WaitGroup.Wait, channel operation, lock or Cond.Wait on the loop's blocks or in functions called synchronously from them (the condition-error cancel path is covered by C03.5)")
	c.Rule("C04.3", "in the stage goroutine no synchronisation operation (lock, channel operation, wait) is executed before or around the runner call")
	c.Rule("C04.4", "one pass visits every node: the launch sits in a range over Nodes() of the scheduled graph and the per-stage loop has no exit other than exhaustion")
	c.Rule("C04.5", "eligibility is acted on in the pass that sees it (E2 scheduling table): every waiting stage whose condition holds (or is absent) and whose gate says yes is launched on every path of the iteration, and a stage whose condition is false is marked Skipped there and then, before the dependency gate is consulted, so that its dependents become eligible without waiting for unrelated stages")
	c.Rule("C04.6", "runs do not queue inside the runner (E8): nothing synchronously reachable from TaskRunner.Run takes an exclusive resource held in a field of the runner — a slot of a channel, a mutex — and keeps it until the run is over (a deferred release in Run, or a release behind the job walk): two independent stages would run one after the other although both are Running")
	c.NotDecided = append(c.NotDecided, "actual overlap in time (OS scheduling)", "the 50 ms pass period")
	runsDoNotQueue(c, "C04.6")
	p := c.P
	_, schedule, _ := scheduleImpl(p)
	if schedule == nil {
		c.Und("C04.0", "scheduler.(*Scheduler).Schedule", 0, "Schedule not found")
		return
	}
	// C04.1 needs no role discovery
	syncReach := p.Reach([]*ssa.Function{schedule}, func(e an.CallEdge) bool { return e.Kind != an.EdgeGo && an.InModule(e.Callee) })
	bad := false
	var fns []*ssa.Function
	for f := range syncReach {
		fns = append(fns, f)
	}
	sort.Slice(fns, func(i, j int) bool { return fns[i].String() < fns[j].String() })
	for _, f := range fns {
		for _, ci := range an.CallsIn(f, fnRunnerRun) {
			if _, isGo := ci.(*ssa.Go); isGo {
				continue
			}
			bad = true
			c.Bad("C04.1", an.Short(f)+":call(Runner.Run)", ci.Pos(), "a task can be run synchronously on the scheduling goroutine: %s", p.PathString(syncReach[f]))
		}
	}
	if !bad {
		c.OK("C04.1", an.Short(schedule)+":sync-closure", schedule.Pos(), "none of the %d functions reachable from Schedule without a go statement calls Runner.Run", len(fns))
	}
	s := resolveSched(c, "C04.0")
	if !s.ok {
		return
	}
	c.OK("C04.0", "scheduler roles", s.schedule.Pos(), "launch=%s body=%s", c.P.Pos(s.launch.Pos()), an.Short(s.body))
	inLoop := s.launchFn != s.loopFn || s.inner.Blocks[s.launch.Block()] // (a helper called from the loop is inside it)
	c.Check(inLoop, "C04.1", an.Short(s.launchFn)+":launch-in-loop", s.launch.Pos(), "the go statement is inside the per-stage loop", "the go statement is outside the per-stage loop")

	// C04.5
	checkSchedTable(c, s, "C04.5", map[string]bool{"launch": true, "skip": true})

	// C04.2
	loop := s.outer
	if loop == nil {
		loop = s.inner
	}
	n := 0
	badWait := false
	report := func(fn *ssa.Function, op an.BlockOp, via string) {
		n++
		if op.Kind == "sleep" {
			return
		}
		if (op.Kind == "lock" || op.Kind == "rlock") && leafMutex(p, groupKey(op.OnVal)) {
			return // a leaf lock around a few loads and stores: nothing is waited for while it is held
		}
		if snd, ok := op.Instr.(*ssa.Send); ok && slotPerStage(c, s, snd) {
			return // a buffered channel with one slot per stage of the graph, one slot taken per launch: the send cannot block
		}
		badWait = true
		c.Bad("C04.2", an.Short(fn)+":"+op.Kind+"("+groupKey(op.OnVal)+")", op.Instr.Pos(), "the scheduling loop can block on %s %s%s before the next pass: stages that became eligible meanwhile are not started", op.Kind, op.On, via)
	}
	lf := s.launchFn
	if s.outer != nil && s.outerFn != nil {
		lf = s.outerFn
	} else if s.outer == nil {
		lf = s.loopFn
	}
	for _, op := range an.BlockingOps(lf) {
		if loop.Blocks[op.Instr.Block()] {
			report(lf, op, "")
		}
	}
	// callees of call sites inside the loop (not through Cancel, which is C03.5's business)
	var roots []*ssa.Function
	for b := range loop.Blocks {
		for _, in := range b.Instrs {
			call, ok := in.(*ssa.Call)
			if !ok {
				continue
			}
			for _, callee := range p.Callees(&call.Call) {
				if an.InModule(callee) && callee != s.cancel && callee.Blocks != nil {
					roots = append(roots, callee)
				}
			}
		}
	}
	inner := p.Reach(roots, func(e an.CallEdge) bool {
		return e.Kind != an.EdgeGo && an.InModule(e.Callee) && e.Callee != s.cancel && e.Callee != s.schedule
	})
	var ifns []*ssa.Function
	for f := range inner {
		ifns = append(ifns, f)
	}
	sort.Slice(ifns, func(i, j int) bool { return ifns[i].String() < ifns[j].String() })
	for _, f := range ifns {
		for _, op := range an.BlockingOps(f) {
			report(f, op, " (via "+p.PathString(inner[f])+")")
		}
	}
	if !badWait {
		c.OK("C04.2", an.Short(s.launchFn)+":loop", s.launch.Pos(), "no wait on launched work in the scheduling loop (%d loop blocks, %d callee functions, %d blocking operations seen, all sleeps)", len(loop.Blocks), len(ifns), n)
	}

	// C04.3
	bodyReach := p.Reach([]*ssa.Function{s.body}, func(e an.CallEdge) bool {
		return e.Kind != an.EdgeGo && an.InModule(e.Callee) && e.Callee.Pkg == s.schedule.Pkg && e.Callee != s.schedule
	})
	badSync := false
	var bfns []*ssa.Function
	for f := range bodyReach {
		bfns = append(bfns, f)
	}
	sort.Slice(bfns, func(i, j int) bool { return bfns[i].String() < bfns[j].String() })
	for _, f := range bfns {
		// only functions on the way to the runner call matter
		onWay := f == s.body || f == s.runStage
		if !onWay {
			r := p.Reach([]*ssa.Function{f}, func(e an.CallEdge) bool { return e.Kind != an.EdgeGo && an.InModule(e.Callee) })
			for g := range r {
				if g == s.runStage {
					onWay = true
				}
			}
		}
		if !onWay {
			continue
		}
		for _, op := range an.BlockingOps(f) {
			if op.Kind == "sleep" {
				continue
			}
			if (op.Kind == "lock" || op.Kind == "rlock") && leafMutex(p, groupKey(op.OnVal)) {
				continue
			}
			// after the runner call has returned it no longer serialises the tasks
			after := false
			if f == s.body {
				for _, rc := range s.runnerCalls {
					if an.Dominates(rc, op.Instr) {
						after = true
					}
				}
			}
			if f == s.runStage {
				for _, rc := range an.CallsIn(f, fnRunnerRun) {
					if an.Dominates(rc, op.Instr) {
						after = true
					}
				}
			}
			if after {
				continue
			}
			badSync = true
			c.Bad("C04.3", an.Short(f)+":"+op.Kind+"("+groupKey(op.OnVal)+")", op.Instr.Pos(), "the stage goroutine synchronises on %s %s before its task runs: eligible stages can be serialised", op.Kind, op.On)
		}
	}
	// helpers called before the runner call that are not themselves on the way to it: a wait inside them, or a
	// lock they still hold when they return (taken for the duration of the run), serialises the stages as well
	onWaySet := map[*ssa.Function]bool{}
	for _, f := range bfns {
		if f == s.body || f == s.runStage {
			onWaySet[f] = true
			continue
		}
		for g := range p.Reach([]*ssa.Function{f}, func(e an.CallEdge) bool { return e.Kind != an.EdgeGo && an.InModule(e.Callee) }) {
			if g == s.runStage {
				onWaySet[f] = true
			}
		}
	}
	for _, f := range bfns {
		if !onWaySet[f] {
			continue
		}
		var rcs []ssa.CallInstruction
		if f == s.body {
			rcs = s.runnerCalls
		} else {
			rcs = an.CallsIn(f, fnRunnerRun)
		}
		an.EachInstr(f, func(in ssa.Instruction) {
			call, ok := in.(*ssa.Call)
			if !ok {
				return
			}
			for _, rc := range rcs {
				if an.Dominates(rc, call) {
					return
				}
			}
			for _, callee := range p.Callees(&call.Call) {
				if onWaySet[callee] || callee.Pkg != s.schedule.Pkg || callee == s.schedule {
					continue
				}
				for g := range p.Reach([]*ssa.Function{callee}, func(e an.CallEdge) bool {
					return e.Kind == an.EdgeCall && an.InModule(e.Callee) && e.Callee.Pkg == s.schedule.Pkg && !onWaySet[e.Callee] && e.Callee != s.schedule
				}) {
					for _, op := range an.BlockingOps(g) {
						switch op.Kind {
						case "sleep":
							continue
						case "lock", "rlock":
							released := false
							for _, ci := range an.CallsIn(g, "(*sync.Mutex).Unlock", "(*sync.RWMutex).Unlock", "(*sync.RWMutex).RUnlock") {
								if _, isCall := ci.(*ssa.Call); !isCall {
									if _, isDefer := ci.(*ssa.Defer); !isDefer {
										continue
									}
								}
								if an.SameValue(ci.Common().Args[0], op.OnVal) || (an.FieldKey(op.OnVal) != "" && an.FieldKey(ci.Common().Args[0]) == an.FieldKey(op.OnVal)) {
									released = true
								}
							}
							if released {
								continue
							}
						}
						badSync = true
						c.Bad("C04.3", an.Short(g)+":"+op.Kind+"("+groupKey(op.OnVal)+")", op.Instr.Pos(), "%s, called by the stage goroutine before its task runs, %s on %s %s: eligible stages can be serialised", an.Short(g), map[bool]string{true: "returns holding the lock", false: "waits"}[op.Kind == "lock" || op.Kind == "rlock"], op.Kind, op.On)
					}
				}
			}
		})
	}
	if !badSync {
		c.OK("C04.3", an.Short(s.body)+":pre-run", s.body.Pos(), "no lock, channel operation or wait between the start of the stage goroutine and Runner.Run (%d functions)", len(bfns))
	}

	// C04.4
	op := s.inner.RangeOperand()
	okRange := false
	isScheduled := func(v ssa.Value) bool {
		if an.SameValue(v, s.graph) {
			return true
		}
		stop := func(x ssa.Value) bool { return x == ssa.Value(s.graph) }
		for _, src := range p.DeepSourcesStop(v, 3, true, stop) {
			if src != ssa.Value(s.graph) {
				return false
			}
		}
		return true
	}
	if graphs, ok := allNodesOf(p, op, 2); ok {
		okRange = true
		for _, g := range graphs {
			if !isScheduled(g) {
				okRange = false
			}
		}
	}
	c.Check(okRange, "C04.4", an.Short(s.launchFn)+":range", s.launch.Pos(), "the per-stage loop ranges over Nodes() of the scheduled graph", "the per-stage loop does not range over all nodes of the scheduled graph")
	// every pass of the scheduling loop makes the pass over the stages: no way round the loop skips it
	// (a pass that is made only "when something changed" misses eligibility created without that event)
	if s.outer != nil && s.innerAnchor != nil {
		seen := map[*ssa.BasicBlock]bool{s.innerAnchor: true}
		var skip func(b *ssa.BasicBlock) bool // can the header be reached again from b without the stage pass?
		skip = func(b *ssa.BasicBlock) bool {
			if seen[b] || !s.outer.Blocks[b] {
				return false
			}
			seen[b] = true
			for _, sx := range b.Succs {
				if sx == s.outer.Header {
					return true
				}
				if skip(sx) {
					return true
				}
			}
			return false
		}
		skips := false
		for _, sx := range s.outer.Header.Succs {
			if s.outer.Blocks[sx] && sx != s.innerAnchor && skip(sx) {
				skips = true
			}
		}
		if s.outer.Header == s.innerAnchor {
			skips = false
		}
		c.Check(!skips, "C04.4", an.Short(s.outerFn)+":pass-every-iteration", s.outer.Header.Instrs[0].Pos(), "every iteration of the scheduling loop makes the pass over the stages", "an iteration of the scheduling loop can go round without making the pass over the stages: a stage that became eligible without the event the loop waits for (a dependency skipped by its condition, for instance) is not started")
	}
	okExits := true
	for _, x := range exitEdges(s.inner) {
		if x[0] != s.inner.Header {
			okExits = false
			c.Bad("C04.4", an.Short(s.launchFn)+":inner-exit", x[0].Instrs[len(x[0].Instrs)-1].Pos(), "a pass over the stages can end early (break/return inside the per-stage loop): later eligible stages are not started in this pass")
		}
	}
	if okExits {
		c.OK("C04.4", an.Short(s.launchFn)+":inner-exit", s.launch.Pos(), "the per-stage loop ends only by exhausting the nodes")
	}
}

// slotPerStage: snd puts one element, per launch, into a channel this Schedule call made with room for as many
// elements as the scheduled graph has stages. A stage is launched at most once (C03.1), so the channel never
// fills up and the send never blocks.
func slotPerStage(c *an.Ctx, s *sched, snd *ssa.Send) bool {
	p := c.P
	mk, ok := an.Resolve(snd.Chan).(*ssa.MakeChan)
	if !ok || mk.Parent() != s.schedule {
		return false
	}
	// capacity = len(<all nodes of the scheduled graph>)
	capOK := false
	for _, src := range an.Sources(mk.Size) {
		call, ok := src.(*ssa.Call)
		if !ok {
			continue
		}
		if b, ok := call.Call.Value.(*ssa.Builtin); !ok || b.Name() != "len" {
			continue
		}
		if graphs, ok := allNodesOf(p, call.Call.Args[0], 2); ok && len(graphs) > 0 {
			capOK = true
			for _, g := range graphs {
				if !an.SameValue(g, s.graph) {
					capOK = false
				}
			}
		}
	}
	if !capOK {
		return false
	}
	// the only send on that channel, and it is on the way to the launch (one per launched stage)
	n := 0
	for _, f := range an.WithAnon(s.schedule) {
		an.EachInstr(f, func(in ssa.Instruction) {
			if x, ok := in.(*ssa.Send); ok && an.Resolve(x.Chan) == ssa.Value(mk) {
				n++
			}
		})
	}
	return n == 1 && snd.Parent() == s.launchFn && an.Dominates(snd, s.launch)
}

// runsDoNotQueue: see C04.6.
func runsDoNotQueue(c *an.Ctx, rule string) {
	p := c.P
	run := p.Func("pkg/runner", "TaskRunner", "Run")
	if run == nil {
		c.Und(rule, "runner.(*TaskRunner).Run", token.NoPos, "TaskRunner.Run not found")
		return
	}
	reach := p.Reach([]*ssa.Function{run}, func(e an.CallEdge) bool { return e.Kind == an.EdgeCall && inPkgs("pkg/runner")(e.Callee) })
	isRunnerField := func(v ssa.Value) string {
		k := groupKey(v)
		if strings.HasPrefix(k, "TaskRunner.") {
			return k
		}
		return ""
	}
	// acquisitions: sends (plain or as a select case) on a channel field of the runner, exclusive locks of a mutex field
	type acq struct {
		key string
		at  ssa.Instruction
		fn  *ssa.Function
	}
	var acqs []acq
	for fn := range reach {
		if fn.Blocks == nil {
			continue
		}
		an.EachInstr(fn, func(in ssa.Instruction) {
			switch x := in.(type) {
			case *ssa.Send:
				if k := isRunnerField(x.Chan); k != "" {
					acqs = append(acqs, acq{k, in, fn})
				}
			case *ssa.Select:
				for _, st := range x.States {
					if st.Dir == types.SendOnly {
						if k := isRunnerField(st.Chan); k != "" {
							acqs = append(acqs, acq{k, in, fn})
						}
					}
				}
			}
		})
		for _, op := range an.BlockingOps(fn) {
			if op.Kind == "lock" {
				if k := isRunnerField(op.OnVal); k != "" {
					// a lock released in its own function is a short section (C03/C12 look at those)
					op := op
					if rel, _ := an.OnAllPathsToExit(op.Instr, func(x ssa.Instruction) bool {
						if _, isDefer := x.(*ssa.Defer); isDefer {
							return false
						}
						return an.IsUnlockOf(x, op)
					}, an.IsPanicExit); !rel {
						acqs = append(acqs, acq{k, op.Instr, fn})
					}
				}
			}
		}
	}
	n := 0
	for _, a := range acqs {
		// released only when the run is over: a deferred function of Run (or of the acquiring function, when that is
		// Run itself) gives it back
		held := false
		an.EachInstr(run, func(in ssa.Instruction) {
			d, ok := in.(*ssa.Defer)
			if !ok {
				return
			}
			for _, callee := range p.Callees(&d.Call) {
				for g := range p.Reach([]*ssa.Function{callee}, func(e an.CallEdge) bool { return e.Kind == an.EdgeCall && inPkgs("pkg/runner")(e.Callee) }) {
					if g.Blocks == nil {
						continue
					}
					an.EachInstr(g, func(x ssa.Instruction) {
						if u, ok := x.(*ssa.UnOp); ok && u.Op == token.ARROW && isRunnerField(u.X) == a.key {
							held = true
						}
						if ci, ok := x.(ssa.CallInstruction); ok {
							name := an.ShortCallee(ci.Common())
							if (name == "(*sync.Mutex).Unlock" || name == "(*sync.RWMutex).Unlock") && len(ci.Common().Args) > 0 && isRunnerField(ci.Common().Args[0]) == a.key {
								held = true
							}
						}
					})
				}
			}
		})
		if held {
			n++
			c.Bad(rule, an.Short(a.fn)+":holds("+a.key+")", a.at.Pos(), "%s takes %s on the way through TaskRunner.Run and gives it back only in a deferred function of Run: every other run that needs it waits until this task's commands are over", an.Short(a.fn), a.key)
		}
	}
	if n == 0 {
		c.OK(rule, an.Short(run)+":no-queue", run.Pos(), "no exclusive resource of the runner is held from the start of a run to its end (%d acquisitions looked at)", len(acqs))
	}
}
