package rules

import (
	"fmt"
	"go/token"
	"go/types"
	"sort"
	"strings"

	"golang.org/x/tools/go/ssa"

	"taskverif/an"
)

// guardedDocumentMerges implements C15.7.
//
// Library summary (mergo v0.3.8, merge.go deepMerge, confirmed by running it):
// merging a map whose key type is not assignable to the destination's key type
// panics in reflect.Value.MapIndex. Raw documents are exactly that case: yaml.v2
// decodes nested sections as map[interface{}]interface{}, encoding/json and
// go-toml as map[string]interface{}, so a JSON or TOML file that imports a YAML
// file crashes the loader. Every mergo call of the load scope whose operands are
// raw documents (map[string]interface{}) must therefore run under a deferred
// recover that turns the panic into the function's error result.
func guardedDocumentMerges(c *an.Ctx, fns []*ssa.Function, rule string) {
	p := c.P
	isRawDoc := func(t types.Type) bool {
		m, ok := an.Deref(t).Underlying().(*types.Map)
		if !ok {
			return false
		}
		_, isIface := m.Elem().Underlying().(*types.Interface)
		return isIface
	}
	n := 0
	for _, fn := range fns {
		for _, ci := range an.CallsIn(fn, "github.com/imdario/mergo.Merge", "github.com/imdario/mergo.Map", "github.com/imdario/mergo.MergeWithOverwrite", "github.com/imdario/mergo.MapWithOverwrite") {
			args := ci.Common().Args
			raw := false
			for _, a := range args[:2] {
				for _, s := range an.Sources(a) {
					t := s.Type()
					if mi, ok := s.(*ssa.MakeInterface); ok {
						t = mi.X.Type()
					}
					if isRawDoc(t) {
						raw = true
					}
				}
			}
			if !raw {
				continue
			}
			n++
			key := an.Short(fn) + ":" + an.ShortCallee(ci.Common()) + "(raw documents)"
			if why, ok := recoversIntoError(p, fn, ci); ok {
				c.OK(rule, key, ci.Pos(), "the merge runs under a deferred recover that becomes the error result (%s)", why)
			} else {
				c.Bad(rule, key, ci.Pos(), "%s merges raw documents with mergo outside any recover (%s): mergo panics when the imported document's map type differs from the importing one's (a JSON or TOML file importing a YAML file), which crashes the process instead of failing the load", an.Short(fn), why)
			}
		}
	}
	if n == 0 {
		c.OK(rule, "load-scope:document-merges", token.NoPos, "no mergo call on raw documents in the load scope")
	}
}

// recoversIntoError reports whether the call runs under a deferred closure of
// fn that calls recover() and stores a non-nil error into fn's error result.
func recoversIntoError(p *an.Prog, fn *ssa.Function, call ssa.CallInstruction) (string, bool) {
	idx := an.ErrResultIndex(fn.Signature)
	if idx < 0 {
		return "the function has no error result", false
	}
	found := "no deferred recover"
	for _, b := range fn.Blocks {
		for _, in := range b.Instrs {
			d, ok := in.(*ssa.Defer)
			if !ok || !an.Dominates(d, call) {
				continue
			}
			for _, callee := range p.Callees(&d.Call) {
				recovers := false
				an.EachInstr(callee, func(in2 ssa.Instruction) {
					if c2, ok := in2.(*ssa.Call); ok {
						if bi, ok := c2.Call.Value.(*ssa.Builtin); ok && bi.Name() == "recover" {
							recovers = true
						}
					}
				})
				if !recovers {
					continue
				}
				found = "the deferred recover does not set the error result"
				// the deferred function stores a non-nil error into fn's error result: through a captured
				// variable (closure) or through a pointer parameter bound to the result's address at the defer
				isResultCell := func(a *ssa.Alloc) bool {
					for _, ret := range an.Returns(fn) {
						if u, ok := ret.Results[idx].(*ssa.UnOp); ok && u.X == ssa.Value(a) {
							return true
						}
					}
					return false
				}
				setsErr := false
				an.EachInstr(callee, func(in2 ssa.Instruction) {
					st, ok := in2.(*ssa.Store)
					if !ok || !an.IsErrorType(an.Deref(st.Addr.Type())) || an.IsNilConst(st.Val) {
						return
					}
					for _, r := range an.ResolveAll(st.Addr) {
						switch x := r.(type) {
						case *ssa.Alloc:
							if x.Parent() == fn && isResultCell(x) {
								setsErr = true
							}
						case *ssa.Parameter:
							for i, prm := range callee.Params {
								if prm != x || i >= len(d.Call.Args) {
									continue
								}
								for _, a := range an.ResolveAll(d.Call.Args[i]) {
									if al, ok := a.(*ssa.Alloc); ok && al.Parent() == fn && isResultCell(al) {
										setsErr = true
									}
								}
							}
						}
					}
				})
				if setsErr {
					return "deferred in " + an.Short(fn), true
				}
			}
		}
	}
	return found, false
}

// decodeHooks implements C15.8.
//
// Library summary (mapstructure v1.1.2, Decoder.decode → decodeInt & co.): the
// value a DecodeHook returns replaces the input; a nil value with a nil error
// reaches reflect.Value.Type on the zero Value and panics for every
// non-interface target. A hook written in the module must therefore never
// return (nil, nil).
func decodeHooks(c *an.Ctx, rule string) {
	p := c.P
	isHook := func(sig *types.Signature) bool {
		if sig.Params().Len() != 3 || sig.Results().Len() != 2 {
			return false
		}
		if _, ok := sig.Params().At(2).Type().Underlying().(*types.Interface); !ok {
			return false
		}
		if _, ok := sig.Results().At(0).Type().Underlying().(*types.Interface); !ok {
			return false
		}
		if !an.IsErrorType(sig.Results().At(1).Type()) {
			return false
		}
		for i := 0; i < 2; i++ {
			t := sig.Params().At(i).Type().String()
			if t != "reflect.Type" && t != "reflect.Kind" {
				return false
			}
		}
		return true
	}
	n := 0
	for _, fn := range p.Funcs {
		for _, f := range []*ssa.Function{fn} {
			if !isHook(f.Signature) || f.Blocks == nil {
				continue
			}
			n++
			good := true
			for _, ret := range an.Returns(f) {
				if !an.IsNilConst(an.RetVal(ret, 1)) {
					continue
				}
				for _, s := range an.Sources(an.RetVal(ret, 0)) {
					if an.IsNilConst(s) {
						good = false
						c.Bad(rule, an.Short(f)+":return(nil, nil)", ret.Pos(), "the decode hook %s can return a nil value with a nil error: mapstructure then calls reflect.Value.Type on the zero Value and the loader panics for every input that takes this path", an.Short(f))
					}
				}
			}
			if good {
				c.OK(rule, an.Short(f)+":returns", f.Pos(), "the decode hook never returns (nil, nil)")
			}
		}
	}
	if n == 0 {
		c.OK(rule, "module:decode-hooks", token.NoPos, "no decode hook is defined in the module (the decoder uses mapstructure's own StringToTimeDurationHookFunc)")
	}
}

// decoderOptions implements C15.9.
func decoderOptions(c *an.Ctx, rule string, scope map[*ssa.Function][]an.CallEdge) {
	p := c.P
	ctors := map[string]bool{"encoding/json.NewDecoder": true, "gopkg.in/yaml.v2.NewDecoder": true, "github.com/pelletier/go-toml.NewDecoder": true}
	allowed := map[string]bool{"Decode": true, "More": true, "Buffered": true, "InputOffset": true, "Token": true}
	n := 0
	var fns []*ssa.Function
	for f := range scope {
		if f.Blocks != nil {
			fns = append(fns, f)
		}
	}
	sort.Slice(fns, func(i, j int) bool { return fns[i].String() < fns[j].String() })
	for _, fn := range fns {
		an.EachInstr(fn, func(in ssa.Instruction) {
			call, ok := in.(*ssa.Call)
			if !ok || call.Call.IsInvoke() || call.Call.StaticCallee() == nil {
				return
			}
			callee := call.Call.StaticCallee()
			if callee.Pkg == nil || !ctors[callee.Pkg.Pkg.Path()+"."+callee.Name()] {
				return
			}
			n++
			// every use of the decoder (through locals and φs)
			var bad []string
			seen := map[ssa.Value]bool{}
			var follow func(v ssa.Value)
			follow = func(v ssa.Value) {
				if seen[v] || v.Referrers() == nil {
					return
				}
				seen[v] = true
				for _, ref := range *v.Referrers() {
					switch x := ref.(type) {
					case *ssa.Phi:
						follow(x)
					case *ssa.Store:
						if al, ok := x.Addr.(*ssa.Alloc); ok && x.Val == v && al.Referrers() != nil {
							for _, r2 := range *al.Referrers() {
								if u, ok := r2.(*ssa.UnOp); ok && u.Op == token.MUL {
									follow(u)
								}
							}
						}
					case ssa.CallInstruction:
						cc := x.Common()
						m := cc.StaticCallee()
						if m == nil || len(cc.Args) == 0 || cc.Args[0] != v || m.Signature.Recv() == nil {
							// handed to a helper of the module: its uses of the parameter are uses of the decoder
							for i, a := range cc.Args {
								if a != v {
									continue
								}
								for _, h := range p.Callees(cc) {
									pi := i
									if cc.IsInvoke() {
										pi = i + 1
									}
									if an.InModule(h) && h.Blocks != nil && pi < len(h.Params) {
										follow(h.Params[pi])
									}
								}
							}
							continue
						}
						switch {
						case allowed[m.Name()]:
						case m.Name() == "UseNumber":
							bad = append(bad, "UseNumber is set ("+p.Pos(x.Pos())+"): numbers of a JSON document arrive as json.Number, which has kind string but is not a string — the duration hook of the definition decoder asserts data.(string) and panics on a numeric timeout")
						default:
							// other configuring calls change which documents are accepted, not the dynamic types the
							// accepted ones arrive with: not a crash matter
							c.Note(rule, an.Short(fn)+":"+callee.Pkg.Pkg.Name()+".Decoder."+m.Name(), x.Pos(), "decoder option %s is set (changes which documents are accepted, not the types they arrive with)", m.Name())
						}
						// chained configuration: x := dec.Opt()
						if xv, ok := x.(ssa.Value); ok && types.Identical(xv.Type(), v.Type()) {
							follow(xv)
						}
					}
				}
			}
			follow(call)
			bad = dedup(bad)
			c.Check(len(bad) == 0, rule, an.Short(fn)+":"+callee.Pkg.Pkg.Name()+".NewDecoder", call.Pos(), "no configuring call on the decoder changes the types a document arrives with", strings.Join(bad, "; "))
		})
	}
	if n == 0 {
		c.OK(rule, "format decoders", token.NoPos, "no json/yaml/toml decoder object is built in the load scope (%d functions): nothing can be configured", len(fns))
	}
}

// hookKindBlind implements the decode-hook clause of C16.3: a decode hook of the module may ask whether its source
// is a string, nothing more — the numeric kinds differ between the decoders (yaml.v2 int, go-toml int64,
// encoding/json float64), so a hook that treats some of them and not others makes one document mean different
// things in different formats.
func hookKindBlind(c *an.Ctx, rule string) {
	p := c.P
	isHook := func(sig *types.Signature) bool {
		if sig.Params().Len() != 3 || sig.Results().Len() != 2 {
			return false
		}
		if _, ok := sig.Params().At(2).Type().Underlying().(*types.Interface); !ok {
			return false
		}
		for i := 0; i < 2; i++ {
			t := sig.Params().At(i).Type().String()
			if t != "reflect.Type" && t != "reflect.Kind" {
				return false
			}
		}
		return an.IsErrorType(sig.Results().At(1).Type())
	}
	const kindString = 24 // reflect.String
	n := 0
	for _, f := range p.Funcs {
		if !isHook(f.Signature) || f.Blocks == nil {
			continue
		}
		n++
		var bad []string
		// kinds of the source (parameter 0, or of reflect.ValueOf/TypeOf(data)) compared with constants
		isSrcKind := func(v ssa.Value) bool {
			call, ok := v.(*ssa.Call)
			if !ok {
				return false
			}
			recv := ssa.Value(nil)
			if call.Call.IsInvoke() && call.Call.Method.Name() == "Kind" {
				recv = call.Call.Value
			} else if sc := call.Call.StaticCallee(); sc != nil && sc.Name() == "Kind" && len(call.Call.Args) > 0 {
				recv = call.Call.Args[0]
			}
			if recv == nil {
				return false
			}
			for _, src := range an.Sources(recv) {
				if src == ssa.Value(f.Params[0]) {
					return true
				}
				if rc, ok := src.(*ssa.Call); ok && (an.ShortCallee(&rc.Call) == "reflect.ValueOf" || an.ShortCallee(&rc.Call) == "reflect.TypeOf") {
					return true
				}
			}
			return false
		}
		if sig := f.Signature.Params().At(0).Type().String(); sig == "reflect.Kind" {
			isSrcKind = func(v ssa.Value) bool { return v == ssa.Value(f.Params[0]) }
		}
		an.EachInstr(f, func(in ssa.Instruction) {
			bo, ok := in.(*ssa.BinOp)
			if !ok || (bo.Op != token.EQL && bo.Op != token.NEQ) {
				return
			}
			x, y := bo.X, bo.Y
			if !isSrcKind(x) {
				x, y = y, x
			}
			if !isSrcKind(x) {
				return
			}
			if k, isC := an.ConstInt(y); isC && k != kindString {
				bad = append(bad, fmt.Sprintf("reflect.Kind(%d) at %s", k, p.Pos(bo.Pos())))
			}
		})
		// … nor by its dynamic Go type: a type switch / assertion of the raw value to a numeric type picks out the
		// numbers of one decoder (int: YAML, int64: TOML, float64: JSON)
		an.EachInstr(f, func(in ssa.Instruction) {
			ta, ok := in.(*ssa.TypeAssert)
			if !ok {
				return
			}
			fromData := false
			for _, src := range an.Sources(ta.X) {
				if src == ssa.Value(f.Params[2]) {
					fromData = true
				}
			}
			if !fromData {
				return
			}
			if b, ok := ta.AssertedType.Underlying().(*types.Basic); ok && b.Info()&types.IsNumeric != 0 {
				bad = append(bad, fmt.Sprintf("dynamic type %s at %s", ta.AssertedType.String(), p.Pos(ta.Pos())))
			}
		})
		bad = dedup(bad)
		c.Check(len(bad) == 0, rule, an.Short(f)+":source-kinds", f.Pos(), "the decode hook asks at most whether its source is a string", "the decode hook "+an.Short(f)+" distinguishes source kinds other than string ("+strings.Join(bad, ", ")+"): integers arrive as int from YAML, int64 from TOML and float64 from JSON, so the same document is converted differently depending on its format")
	}
	if n == 0 {
		c.OK(rule, "module:decode-hooks", token.NoPos, "no decode hook is defined in the module")
	}
}
