package rules

import (
	"fmt"
	"go/token"
	"go/types"
	"sort"
	"strings"

	"golang.org/x/tools/go/ssa"

	"taskverif/an"
)

func init() { register("C07", checkC07) }

func checkC07(c *an.Ctx) {
	c.Rule("C07.1", "execute table (= C06.3) and hook rows of the Run trace (a failing after command does not make Run return an error; a failing before command does) plus: the value stored in Task.ExitCode is the first result of IsExitStatus on that very error, through width- and sign-preserving conversions only; Execute and IsExitStatus hand the interpreter's verdict through unchanged")
	c.Rule("C07.2", "deferred reset (E2/E4): ExitCode := 0 is executed iff the task is neither errored nor skipped; ExitCode, Errored and Skipped have no other writers than the job walk, the skip branch, the reset and constructors")
	c.Rule("C07.3", "error chain (E7): the error of the job walk reaches main through propagating call sites only (Run → runTask / runStage → graph error → Schedule → runPipeline → runTarget → actions → app.Run → run → main); main exits non-zero exactly on a non-nil error; Schedule reads the graph error after a synchronous wait for the stage goroutines; no error type of the module is a cli.ExitCoder whose code can be 0 (urfave/cli exits the process itself with that code)")
	c.Rule("C07.4", "sequential targets (E2/E3): every loop over the command-line arguments that runs targets does so by synchronous calls in slice order and returns on the first error")
	c.Rule("C07.5", "the output layer cannot fail a command (io.Writer contract, = C19.1): every Write of pkg/output reports the full length on success — a short count from a decorator travels up through the MultiWriters into os/exec's copy of the command's output and comes back from the interpreter as an error that is not an exit status, which marks a task errored although all its commands exited 0")
	c.Rule("C07.6", "a stage's failure is forgiven only by the stage (E5 provenance): what internal/config stores into Stage.AllowFailure is the stage definition's allow_failure as decoded (or a constant) — the scheduler drops every error of a stage that allows failure, interrupted and timed-out runs included, so a flag inherited from the task (which tolerates exit statuses only) turns those into a pipeline reported as successful")
	c.NotDecided = append(c.NotDecided, "the numeric status the shell library reports for a process", "what logrus.Fatal does (trusted: exits with status 1)", "urfave/cli returning an Action's error from App.Run (trusted summary)")
	r := resolveRunner(c, "C07.0")
	if !r.ok {
		return
	}
	c.OK("C07.0", "runner roles", r.run.Pos(), "execute=%s", an.Short(r.execute))
	executeTable(c, r, "C07.1", true)
	// Run reports an error exactly when the task failed: a failing before command fails the run, a failing
	// after command does not turn a task that succeeded into a failed target
	checkRunTable(c, "C07.1", map[string]bool{"hooks": true})
	exitCodeProvenance(c, r, "C07.1")
	deferredReset(c, r, "C07.2")
	errorChainToMain(c, r, "C07.3")
	// the link of the chain that is not a return: a failed stage's error is recorded as the run's error
	// (the stage-body table and the error report of C02.2 / C02.4, obligations of the chain here)
	if s := resolveSched(c, "C07.3"); s.ok {
		stageBodyTable(c, s, "C07.3")
		errorReport(c, s, "C07.3")
	}
	sequentialTargets(c, r, "C07.4")
	writerContract(c, "C07.5")
	// C07.6
	{
		p := c.P
		n := 0
		for _, fn := range p.Funcs {
			if !inPkgs("internal/config")(fn) {
				continue
			}
			an.EachInstr(fn, func(in ssa.Instruction) {
				st, ok := in.(*ssa.Store)
				if !ok {
					return
				}
				fa, ok := st.Addr.(*ssa.FieldAddr)
				if !ok || an.TypeField(fa) != "Stage.AllowFailure" {
					return
				}
				n++
				var bad []string
				var walk func(v ssa.Value, d int)
				seen := map[ssa.Value]bool{}
				walk = func(v ssa.Value, d int) {
					if v == nil || seen[v] || d > 6 {
						return
					}
					seen[v] = true
					srcs := p.DeepSources(v, 3, true)
					if len(srcs) == 0 {
						srcs = []ssa.Value{v}
					}
					for _, src := range srcs {
						switch x := src.(type) {
						case *ssa.Const:
						case *ssa.BinOp:
							walk(x.X, d+1)
							walk(x.Y, d+1)
						case *ssa.UnOp:
							if fp := an.FieldProv(x); strings.HasPrefix(fp, "stageDefinition.AllowFailure") {
								continue
							}
							if x.Op == token.MUL {
								if inner, ok := x.X.(*ssa.UnOp); ok && strings.HasPrefix(an.FieldProv(inner), "stageDefinition.AllowFailure") {
									continue // *def.AllowFailure
								}
							}
							if x.Op == token.NOT {
								walk(x.X, d+1)
								continue
							}
							bad = append(bad, an.FieldProv(x))
						case *ssa.Parameter:
							// a nil test of something else (t != nil) contributes no flag
							if _, isBool := x.Type().Underlying().(*types.Basic); isBool {
								bad = append(bad, an.FieldProv(x))
							}
						default:
							if _, isBool := src.Type().Underlying().(*types.Basic); isBool {
								bad = append(bad, an.FieldProv(src))
							}
						}
					}
				}
				walk(st.Val, 0)
				bad = dedup(bad)
				c.Check(len(bad) == 0, "C07.6", an.Short(fn)+":Stage.AllowFailure", st.Pos(), "the stage's allow_failure is the stage definition's own", "the stage's allow_failure also depends on "+strings.Join(bad, ", ")+": the scheduler forgives every error of such a stage — a timed-out or interrupted run, a failing before hook — and the pipeline is reported as successful")
			})
		}
		if n == 0 {
			c.Und("C07.6", "config:Stage.AllowFailure", token.NoPos, "internal/config never sets Stage.AllowFailure")
		}
	}
}

func intBits(t types.Type) (bits int, signed bool, ok bool) {
	b, isb := t.Underlying().(*types.Basic)
	if !isb {
		return 0, false, false
	}
	switch b.Kind() {
	case types.Int8:
		return 8, true, true
	case types.Int16:
		return 16, true, true
	case types.Int32:
		return 32, true, true
	case types.Int64, types.Int:
		return 64, true, true
	case types.Uint8:
		return 8, false, true
	case types.Uint16:
		return 16, false, true
	case types.Uint32:
		return 32, false, true
	case types.Uint64, types.Uint, types.Uintptr:
		return 64, false, true
	}
	return 0, false, false
}

func exitCodeProvenance(c *an.Ctx, r *runnerRoles, rule string) {
	n := 0
	for _, f := range r.scope {
		f := f
		an.EachInstr(f, func(in ssa.Instruction) {
			sto, ok := in.(*ssa.Store)
			if !ok {
				return
			}
			ap := an.AccessPath(sto.Addr)
			if ap.LastField() != "ExitCode" || !an.TypeIs(ap.Base.Type(), "pkg/task", "Task") {
				return
			}
			if k, isConst := an.ConstInt(sto.Val); isConst && k == 0 {
				return // the reset
			}
			n++
			key := an.Short(f) + ":ExitCode"
			bad := ""
			okProv := false
			var walk func(v ssa.Value, depth int)
			walk = func(v ssa.Value, depth int) {
				if depth > 6 {
					return
				}
				for _, src := range c.P.DeepSources(v, 3, true) {
					switch x := src.(type) {
					case *ssa.Convert:
						fb, fs, ok1 := intBits(x.X.Type())
						tb, ts, ok2 := intBits(x.Type())
						switch {
						case !ok1 || !ok2:
							bad = "conversion through a non-integer type"
						case fs == ts && tb < fb:
							bad = fmt.Sprintf("narrowing conversion %s → %s", x.X.Type(), x.Type())
						case !fs && ts && tb <= fb:
							bad = fmt.Sprintf("conversion %s → %s can change the sign of statuses ≥ %d", x.X.Type(), x.Type(), 1<<(uint(tb)-1))
						case fs && !ts:
							bad = fmt.Sprintf("signed → unsigned conversion %s → %s", x.X.Type(), x.Type())
						}
						walk(x.X, depth+1)
					case *ssa.Call:
						// a small accessor of the module that returns (a conversion of) its argument: status.Code()
						h := x.Call.StaticCallee()
						if h == nil || !an.InModule(h) || h.Blocks == nil || len(h.Blocks) != 1 {
							continue
						}
						for _, ret := range an.Returns(h) {
							rv := an.RetVal(ret, 0)
							for {
								cv, isCv := rv.(*ssa.Convert)
								if !isCv {
									break
								}
								fb, fs, ok1 := intBits(cv.X.Type())
								tb, ts, ok2 := intBits(cv.Type())
								switch {
								case !ok1 || !ok2:
									bad = "conversion through a non-integer type"
								case fs == ts && tb < fb:
									bad = fmt.Sprintf("narrowing conversion %s → %s", cv.X.Type(), cv.Type())
								case !fs && ts && tb <= fb:
									bad = fmt.Sprintf("conversion %s → %s can change the sign of statuses ≥ %d", cv.X.Type(), cv.Type(), 1<<(uint(tb)-1))
								case fs && !ts:
									bad = fmt.Sprintf("signed → unsigned conversion %s → %s", cv.X.Type(), cv.Type())
								}
								rv = cv.X
							}
							for j, prm := range h.Params {
								if rv == ssa.Value(prm) && j < len(x.Call.Args) {
									walk(x.Call.Args[j], depth+1)
								}
							}
						}
					case *ssa.Extract:
						if x.Index != 0 {
							continue
						}
						call, ok := x.Tuple.(*ssa.Call)
						if !ok {
							continue
						}
						if cc, ok := an.IsCallTo(call, fnIsExitStatus, "mvdan.cc/sh/v3/interp.IsExitStatus"); ok {
							for _, es := range c.P.DeepSources(cc.Args[0], 3, true) {
								if e, ok := es.(*ssa.Extract); ok {
									if ec, ok := e.Tuple.(*ssa.Call); ok {
										if _, ok := isExecCall(ec); ok {
											okProv = true
										}
									}
								}
							}
						}
					}
				}
			}
			walk(sto.Val, 0)
			if !okProv {
				bad = "the stored value is not the status reported by IsExitStatus for the failing command's error: " + an.Prov(sto.Val)
			}
			if bad != "" {
				c.Bad(rule, key, sto.Pos(), "Task.ExitCode: %s", bad)
			} else {
				c.OK(rule, key, sto.Pos(), "ExitCode := status of IsExitStatus(err) of the failing command, value-preserving conversions")
			}
		})
	}
	if n == 0 {
		c.Bad(rule, an.Short(r.execute)+":ExitCode", r.execute.Pos(), "the job walk never records the failing command's exit status")
	}
}

func deferredReset(c *an.Ctx, r *runnerRoles, rule string) {
	p := c.P
	// the reset table is read off the Run trace: on every exit of Run, ExitCode := 0 has been
	// executed iff neither the errored nor the skip event occurred (every helper inlined)
	checkRunTable(c, rule, map[string]bool{"reset": true})
	// writers of the result fields: only code that runs as part of TaskRunner.Run (the tables
	// above and C06.3 decide where in it), and constructors
	inScope := map[*ssa.Function]bool{}
	for _, f := range r.scope {
		for _, a := range an.WithAnon(f) {
			inScope[a] = true
		}
	}
	n := 0
	for _, fn := range p.Funcs {
		an.EachInstr(fn, func(in ssa.Instruction) {
			sto, ok := in.(*ssa.Store)
			if !ok {
				return
			}
			fa, ok := sto.Addr.(*ssa.FieldAddr)
			if !ok || !an.TypeIs(fa.X.Type(), "pkg/task", "Task") {
				return
			}
			name := an.AccessPath(fa).LastField()
			switch name {
			case "ExitCode", "Errored", "Error", "Skipped":
			default:
				return
			}
			n++
			key := an.Short(fn) + ":write(Task." + name + ")"
			if inScope[fn] {
				c.OK(rule, key, sto.Pos(), "written as part of TaskRunner.Run")
				c.Site(rule, key)
				return
			}
			if a, ok := fa.X.(*ssa.Alloc); ok && a.Heap && a.Parent() == fn {
				c.OK(rule, key, sto.Pos(), "initialisation of a freshly allocated task")
				return
			}
			c.Bad(rule, key, sto.Pos(), "Task.%s is written by %s, which is not part of TaskRunner.Run: the recorded result no longer reflects what the job walk saw", name, an.Short(fn))
		})
	}
	if n == 0 {
		c.Und(rule, "Task.{ExitCode,Errored,Error,Skipped}:writers", r.run.Pos(), "nothing writes the task's result fields")
	}
}

func errorChainToMain(c *an.Ctx, r *runnerRoles, rule string) {
	p := c.P
	runStage := findRunStage(p)
	_, schedule, graphParam := scheduleImpl(p)
	if runStage == nil || schedule == nil {
		c.Und(rule, "scheduler:runner-caller", token.NoPos, "cannot find Scheduler.Schedule and the function of pkg/scheduler that invokes Runner.Run")
		return
	}
	exitCoders(c, rule)
	signalExit(c, rule)
	exempt := map[string]string{}
	// watch mode is not a CLI target: inside internal/watch a failed run is logged and the watcher keeps
	// serving (C20.5); a watcher's own failure is logged by the goroutine the watch command starts for it
	watchMode := func(caller, callee *ssa.Function) string {
		if inPkgs("internal/watch")(caller) {
			return "watch mode: a failed run is logged and the watcher keeps serving (C20.5); not a CLI target"
		}
		if inPkgs("internal/watch")(callee) {
			return "watch mode: a watcher's failure is logged by its goroutine; not a CLI target"
		}
		return ""
	}
	// the function that records a stage's error as the run's error hands it to Schedule's caller (C02.2 / C02.4)
	for _, rec := range findErrorRecorders(p) {
		exempt[an.Short(rec)+":err("+an.Short(runStage)+")"] = "the stage's error is recorded as the run's error, which Schedule returns (decided by C02.2 / C02.4)"
	}
	// the same hand-over when the runner is called by the recording function itself
	recorders := map[*ssa.Function]bool{}
	for _, rec := range findErrorRecorders(p) {
		recorders[rec] = true
	}
	inner := watchMode
	watchMode = func(caller, callee *ssa.Function) string {
		reachesRecorder := recorders[caller]
		if !reachesRecorder && inPkgs("pkg/scheduler")(caller) {
			// the error is handed to the recording helper as an argument
			for g := range p.Reach([]*ssa.Function{caller}, func(e an.CallEdge) bool {
				return e.Kind == an.EdgeCall && inPkgs("pkg/scheduler")(e.Callee) && e.Callee != schedule
			}) {
				if recorders[g] {
					reachesRecorder = true
				}
			}
		}
		// (a wrapper of pkg/scheduler around the runner caller — runStage forwarding to a work item — hands on the same error)
		wraps := false
		if reachesRecorder && inPkgs("pkg/scheduler")(callee) && runStage != nil {
			if _, ok := p.Reach([]*ssa.Function{callee}, func(e an.CallEdge) bool { return e.Kind == an.EdgeCall && inPkgs("pkg/scheduler")(e.Callee) })[runStage]; ok {
				wraps = true
			}
		}
		if reachesRecorder && (wraps || callee == schedule || callee == runStage || callee.Name() == "Run" && inPkgs("pkg/runner")(callee)) {
			return "the stage's error is recorded as the run's error, which Schedule returns (decided by C02.2 / C02.4)"
		}
		return inner(caller, callee)
	}
	chain := errChainX(c, rule, []*ssa.Function{r.execute, schedule}, nil, exempt, watchMode)
	// two facts of C02.4 are premises of this chain: restated here
	if last := p.Func("pkg/scheduler", "ExecutionGraph", "LastError"); last != nil {
		okLast := true
		for _, ret := range an.Returns(last) {
			ap := an.AccessPath(an.RetVal(ret, 0))
			if ap.LastField() != "error" || !an.SameValue(ap.Base, last.Params[0]) {
				okLast = false
			}
		}
		c.Check(okLast, rule, an.Short(last)+":returns", last.Pos(), "LastError returns the recorded error", "LastError does not return ExecutionGraph.error")
		okSched := true
		for _, ret := range an.Returns(schedule) {
			good := false
			for _, v := range an.Sources(an.RetVal(ret, 0)) {
				if call, ok := v.(*ssa.Call); ok {
					for _, callee := range p.Callees(&call.Call) {
						if callee == last && an.SameValue(call.Call.Args[0], graphParam) {
							good = true
						}
					}
				}
				if ap := an.AccessPath(v); ap.LastField() == "error" && an.SameValue(ap.Base, graphParam) {
					good = true
				}
			}
			if !good {
				okSched = false
			}
		}
		c.Check(okSched, rule, an.Short(schedule)+":return", schedule.Pos(), "Schedule returns the graph's recorded error", "Schedule does not return the graph's recorded error on every exit")
	}
	if len(findErrorRecorders(p)) == 0 {
		c.Bad(rule, "ExecutionGraph.error:writers", schedule.Pos(), "nothing records a stage's error as the run's error")
	}
	// tops of the chain: functions with no module caller must be CLI actions or main
	var tops []string
	okTops := true
	var fns []*ssa.Function
	for f := range chain {
		fns = append(fns, f)
	}
	sort.Slice(fns, func(i, j int) bool { return fns[i].String() < fns[j].String() })
	for _, f := range fns {
		if len(p.CallSitesOf(f)) > 0 {
			continue
		}
		if an.Short(f) == "cmd/taskctl.main" {
			continue
		}
		if isCLIAction(p, f) {
			tops = append(tops, an.Short(f))
			continue
		}
		okTops = false
		c.Bad(rule, an.Short(f)+":top", f.Pos(), "the error chain ends in %s, which is neither a CLI action nor main: the failure does not reach the process exit status", an.Short(f))
	}
	if okTops && len(tops) > 0 {
		c.OK(rule, "cmd/taskctl:actions", token.NoPos, "the chain reaches the CLI actions %v (urfave/cli returns an action's error from App.Run — trusted summary)", tops)
		c.Summaries = append(c.Summaries, "urfave/cli v2: App.Run returns the error returned by the selected command's Before/Action function")
	} else if len(tops) == 0 {
		c.Bad(rule, "cmd/taskctl:actions", token.NoPos, "the error chain does not reach any CLI action")
	}
	// run() and main()
	runFn := p.Func("cmd/taskctl", "", "run")
	mainFn := p.Func("cmd/taskctl", "", "main")
	if runFn == nil || mainFn == nil {
		c.Und(rule, "cmd/taskctl.main", token.NoPos, "main / run not found")
		return
	}
	for _, ci := range an.CallsIn(runFn, "(*github.com/urfave/cli/v2.App).Run") {
		fate := p.ErrFate(ci, noReturn)
		c.Check(fate.Kind == "propagated", rule, an.Short(runFn)+":err(App.Run)", ci.Pos(), "run returns App.Run's error", "run does not return App.Run's error: "+fate.Detail)
	}
	for _, ci := range p.CallSitesOf(runFn) {
		if ci.Parent() != mainFn {
			continue
		}
		call, ok := ci.(*ssa.Call)
		if !ok {
			c.Bad(rule, an.Short(mainFn)+":call(run)", ci.Pos(), "run is not called synchronously by main")
			continue
		}
		for _, isErr := range []bool{true, false} {
			isErr := isErr
			ex := &an.Explorer{P: p, NoReturn: noReturn}
			ex.Atom = func(v ssa.Value) (an.AVal, bool) {
				if v == ssa.Value(call) {
					if isErr {
						return an.AVal{K: an.ANonNil}, true
					}
					return an.AVal{K: an.ANil}, true
				}
				return an.AVal{}, false
			}
			ex.Effect = func(in ssa.Instruction, st *an.State) string {
				if cc, ok := an.IsCallTo(in, "os.Exit"); ok {
					return "os.Exit(" + st.Eval(cc.Args[0]).String() + ")"
				}
				return ""
			}
			outs := ex.RunFrom(mainFn, call, nil)
			bad := ""
			for _, o := range outs {
				if isErr {
					if o.End != "exit" {
						bad = "main returns normally (exit status 0) although a target failed"
					}
					for _, e := range o.Effects {
						if e == "os.Exit(0)" {
							bad = "main exits with status 0 although a target failed"
						}
					}
				} else if o.End != "return" {
					bad = "main does not return normally although every target succeeded"
				}
			}
			key := fmt.Sprintf("%s:row err=%v", an.Short(mainFn), map[bool]string{true: "non-nil", false: "nil"}[isErr])
			if bad != "" {
				c.Bad(rule, key, call.Pos(), "%s", bad)
			} else {
				c.OK(rule, key, call.Pos(), "%d paths", len(outs))
			}
		}
	}
}

// isCLIAction reports whether fn is stored into an Action / Before field of
// a urfave/cli App or Command.
func isCLIAction(p *an.Prog, fn *ssa.Function) bool {
	found := false
	for _, g := range p.Funcs {
		an.EachInstr(g, func(in ssa.Instruction) {
			sto, ok := in.(*ssa.Store)
			if !ok {
				return
			}
			fa, ok := sto.Addr.(*ssa.FieldAddr)
			if !ok {
				return
			}
			name := an.AccessPath(fa).LastField()
			if name != "Action" && name != "Before" && name != "After" {
				return
			}
			if !an.TypeIs(fa.X.Type(), "github.com/urfave/cli/v2", "App") && !an.TypeIs(fa.X.Type(), "github.com/urfave/cli/v2", "Command") {
				return
			}
			for _, src := range an.Sources(sto.Val) {
				switch x := src.(type) {
				case *ssa.Function:
					if x == fn {
						found = true
					}
				case *ssa.MakeClosure:
					if x.Fn == fn {
						found = true
					}
				}
			}
		})
	}
	return found
}

func sequentialTargets(c *an.Ctx, r *runnerRoles, rule string) {
	p := c.P
	disp := dispatchers(p)
	n := 0
	for _, fn := range p.Funcs {
		if !inPkgs("cmd/taskctl")(fn) {
			continue
		}
		for _, l := range argLoops(p, fn) {
			for b := range l.Blocks {
				for _, in := range b.Instrs {
					ci, ok := in.(ssa.CallInstruction)
					if !ok {
						continue
					}
					runs := false
					for _, callee := range p.Callees(ci.Common()) {
						if disp[callee] {
							runs = true
						}
					}
					if !runs {
						continue
					}
					n++
					key := an.Short(fn) + ":target-loop"
					_, isCall := ci.(*ssa.Call)
					fate := p.ErrFate(ci, noReturn)
					good := isCall && (fate.Kind == "propagated" || fate.Kind == "converted")
					c.Check(good, rule, key, ci.Pos(), "targets run one after another by synchronous calls; the first failure returns",
						fmt.Sprintf("a target is started asynchronously or its failure does not end the loop (%s: %s)", fate.Kind, fate.Detail))
				}
			}
		}
	}
	if n == 0 {
		c.Und(rule, "cmd/taskctl:target-loops", token.NoPos, "no loop over the command-line arguments runs targets")
	}
}

// argLoops returns the loops of fn ranging over (cli.Args).Slice(), or over
// that list cut at the first `--` by a helper of the package (cutBy).
func argLoops(p *an.Prog, fn *ssa.Function) []*an.Loop {
	var out []*an.Loop
	for _, l := range an.Loops(fn) {
		if isArgLoop, _ := argLoopOf(p, l); isArgLoop {
			out = append(out, l)
		}
	}
	return out
}

func isArgsSlice(v ssa.Value) bool {
	for _, src := range an.Sources(v) {
		if call, ok := src.(*ssa.Call); ok {
			if strings.HasSuffix(an.ShortCallee(&call.Call), "cli/v2.Args).Slice") {
				return true
			}
			// the same words, one for one, as values of a named string type of the package
			if g := call.Call.StaticCallee(); g != nil && argsWordList(g) {
				return true
			}
		}
	}
	return false
}

// argsWordList: g returns the positional arguments word for word — a list as long as (cli.Args).Slice() whose
// element i is a conversion of argument i to a string type — and does nothing else.
func argsWordList(g *ssa.Function) bool {
	if g.Blocks == nil || !an.InModule(g) || len(g.Blocks) > 6 || g.Signature.Results().Len() != 1 {
		return false
	}
	var args ssa.Value
	an.EachInstr(g, func(in ssa.Instruction) {
		if call, ok := in.(*ssa.Call); ok && strings.HasSuffix(an.ShortCallee(&call.Call), "cli/v2.Args).Slice") {
			args = call
		}
	})
	if args == nil {
		return false
	}
	var loop *an.Loop
	for _, l := range an.Loops(g) {
		if op := l.RangeOperand(); op != nil && an.SameValue(op, args) {
			loop = l
		}
	}
	if loop == nil {
		return false
	}
	keys, elems := loop.RangeKeyValue()
	isIn := func(v ssa.Value, set []ssa.Value) bool {
		for _, x := range set {
			if an.SameValue(v, x) {
				return true
			}
		}
		return false
	}
	var list *ssa.MakeSlice
	nStores := 0
	okStores := true
	an.EachInstr(g, func(in ssa.Instruction) {
		switch x := in.(type) {
		case *ssa.Store:
			ia, ok := x.Addr.(*ssa.IndexAddr)
			if !ok {
				okStores = false
				return
			}
			mk, ok := an.Resolve(ia.X).(*ssa.MakeSlice)
			if !ok || !isIn(ia.Index, keys) {
				okStores = false
				return
			}
			v := x.Val
			if cv, isCv := v.(*ssa.Convert); isCv {
				v = cv.X
			} else if ct, isCt := v.(*ssa.ChangeType); isCt {
				v = ct.X
			}
			if !isIn(v, elems) {
				okStores = false
				return
			}
			list = mk
			nStores++
		case *ssa.MapUpdate, *ssa.Go, *ssa.Defer, *ssa.Send:
			okStores = false
		}
	})
	if !okStores || nStores != 1 || list == nil {
		return false
	}
	// as long as the arguments, and it is what is returned
	sized := false
	for _, src := range an.Sources(list.Len) {
		if call, ok := src.(*ssa.Call); ok {
			if b, ok := call.Call.Value.(*ssa.Builtin); ok && b.Name() == "len" && an.SameValue(call.Call.Args[0], args) {
				sized = true
			}
		}
	}
	for _, ret := range an.Returns(g) {
		if an.Resolve(an.RetVal(ret, 0)) != ssa.Value(list) {
			return false
		}
	}
	return sized
}

// dashTest: v compares x with the literal `--` — directly, or through a one-line predicate of the package
// (func (t target) isSeparator() bool { return t == "--" }); it returns the operand and whether the comparison is
// an equality (as opposed to !=).
func dashTest(v ssa.Value) (x ssa.Value, lit string, eq bool, ok bool) {
	switch b := v.(type) {
	case *ssa.BinOp:
		if b.Op != token.EQL && b.Op != token.NEQ {
			return nil, "", false, false
		}
		if s, isS := an.ConstString(b.Y); isS {
			return b.X, s, b.Op == token.EQL, true
		}
	case *ssa.Call:
		h := b.Call.StaticCallee()
		if h == nil || !an.InModule(h) || h.Blocks == nil || len(h.Blocks) != 1 || len(h.Params) != 1 || len(b.Call.Args) != 1 {
			return nil, "", false, false
		}
		rets := an.Returns(h)
		if len(rets) != 1 || len(rets[0].Results) != 1 {
			return nil, "", false, false
		}
		if inner, isBo := rets[0].Results[0].(*ssa.BinOp); isBo && (inner.Op == token.EQL || inner.Op == token.NEQ) && inner.X == ssa.Value(h.Params[0]) {
			if s, isS := an.ConstString(inner.Y); isS {
				return b.Call.Args[0], s, inner.Op == token.EQL, true
			}
		}
	}
	return nil, "", false, false
}

// argLoopOf tells whether l ranges over the command-line arguments and, when
// the list went through a helper that cuts it at the first `--`, that helper.
func argLoopOf(p *an.Prog, l *an.Loop) (bool, *ssa.Function) {
	op := l.RangeOperand()
	if op == nil {
		return false, nil
	}
	if isArgsSlice(op) {
		return true, nil
	}
	for _, src := range an.Sources(op) {
		call, ok := src.(*ssa.Call)
		if !ok {
			continue
		}
		g := call.Call.StaticCallee()
		if g == nil || g.Blocks == nil || !an.InModule(g) || len(g.Params) != 1 || len(call.Call.Args) != 1 {
			continue
		}
		if isArgsSlice(call.Call.Args[0]) && cutsAtDash(p, g) {
			return true, g
		}
	}
	return false, nil
}

// cutsAtDash verifies that g(args) returns the prefix of args before the
// first element equal to `--` (all of args when there is none): g ranges over
// its parameter; an element equal to `--` makes it return args[:index]; any
// other element takes the loop to its next pass without leaving; after the
// loop it returns args itself.
func cutsAtDash(p *an.Prog, g *ssa.Function) bool {
	prm := g.Params[0]
	var loop *an.Loop
	for _, l := range an.Loops(g) {
		if op := l.RangeOperand(); op != nil && an.SameValue(op, prm) {
			loop = l
		}
	}
	if loop == nil {
		return false
	}
	keys, elems := loop.RangeKeyValue()
	isOneOf := func(v ssa.Value, set []ssa.Value) bool {
		for _, s := range set {
			if an.SameValue(v, s) {
				return true
			}
		}
		return false
	}
	for _, dash := range []bool{true, false} {
		dash := dash
		ex := &an.Explorer{P: p, NoReturn: noReturn}
		loop.Bound(ex)
		tested := false
		ex.Atom = func(v ssa.Value) (an.AVal, bool) {
			x, lit, eq, ok := dashTest(v)
			if !ok || !isOneOf(x, elems) {
				return an.AVal{}, false
			}
			if lit == "--" {
				tested = true
				return an.ABool(eq == dash), true
			}
			return an.AVal{}, false
		}
		outs := ex.Run(g, loop.BodyEntry(), loop.Header, nil)
		if len(outs) == 0 || !tested {
			return false
		}
		for _, o := range outs {
			if dash {
				if o.End != "return" || len(o.RetVals) != 1 {
					return false
				}
				sl, ok := o.RetVals[0].(*ssa.Slice)
				if !ok || !an.SameValue(sl.X, prm) || sl.Low != nil || sl.High == nil || !isOneOf(sl.High, keys) {
					return false
				}
			} else if !(o.End == "stop" && o.StopBlock == loop.Header) {
				return false
			}
		}
	}
	// after the loop: the whole list
	exit := loop.NormalExit()
	if exit == nil {
		return false
	}
	n := 0
	for _, ret := range an.Returns(g) {
		if loop.Blocks[ret.Block()] || !an.CanReach(exit, ret.Block()) {
			continue
		}
		n++
		if !an.SameValue(an.RetVal(ret, 0), prm) {
			return false
		}
	}
	return n > 0
}

// dispatchers are the functions that run a target: TaskRunner.Run,
// Scheduler.Schedule and every function of cmd/taskctl that reaches one of
// them by synchronous calls (runTask, runTarget, runPipeline, …).
func dispatchers(p *an.Prog) map[*ssa.Function]bool {
	out := map[*ssa.Function]bool{}
	for _, f := range []*ssa.Function{p.Func("pkg/runner", "TaskRunner", "Run"), p.Func("pkg/scheduler", "Scheduler", "Schedule")} {
		if f != nil {
			out[f] = true
		}
	}
	for changed := true; changed; {
		changed = false
		for _, fn := range p.Funcs {
			if out[fn] || !inPkgs("cmd/taskctl")(fn) || fn.Parent() != nil {
				continue
			}
			for _, e := range p.OutEdges(fn) {
				if e.Kind == an.EdgeCall && e.Site.Parent() == fn && out[e.Callee] {
					out[fn] = true
					changed = true
				}
			}
		}
	}
	return out
}

// exitCoders (library summary, urfave/cli v2): an error that also has a method `ExitCode() int` is a cli.ExitCoder;
// App.Run / Command.Run hand such an error to HandleExitCoder, which prints it and calls os.Exit(err.ExitCode())
// itself — before main sees it. An error type of the module with that method therefore decides the process status
// on its own: where its ExitCode can be 0 (a failure that was not an exit status), a failed target exits 0.
func exitCoders(c *an.Ctx, rule string) {
	n := 0
	for _, fn := range c.P.Funcs {
		if !an.InModule(fn) || fn.Blocks == nil || fn.Name() != "ExitCode" || fn.Signature.Recv() == nil {
			continue
		}
		sig := fn.Signature
		if sig.Params().Len() != 0 || sig.Results().Len() != 1 {
			continue
		}
		if b, ok := sig.Results().At(0).Type().Underlying().(*types.Basic); !ok || b.Kind() != types.Int {
			continue
		}
		// the receiver type is an error
		recv := sig.Recv().Type()
		isErr := false
		for _, t := range []types.Type{recv, types.NewPointer(an.Deref(recv))} {
			ms := types.NewMethodSet(t)
			for i := 0; i < ms.Len(); i++ {
				m := ms.At(i).Obj()
				if m.Name() == "Error" {
					if msig, ok := m.Type().(*types.Signature); ok && msig.Params().Len() == 0 && msig.Results().Len() == 1 {
						isErr = true
					}
				}
			}
		}
		if !isErr {
			continue
		}
		n++
		nonZero := true
		for _, ret := range an.Returns(fn) {
			for _, src := range an.Sources(an.RetVal(ret, 0)) {
				k, ok := an.ConstInt(src)
				if !ok || k == 0 {
					nonZero = false
				}
			}
		}
		c.Check(nonZero, rule, an.Short(fn)+":exit-coder", fn.Pos(), "an ExitCoder of the module whose code is a non-zero constant", fmt.Sprintf("%s makes its receiver a cli.ExitCoder: urfave/cli exits the process itself with whatever it returns, and nothing shows that this is non-zero for every failure — a failed target can exit 0", an.Short(fn)))
	}
	if n == 0 {
		c.OK(rule, "module:exit-coders", token.NoPos, "no error type of the module implements cli.ExitCoder: the process status is decided in main")
	}
}

// signalExit: an interrupted run does not report success. The goroutine that receives SIGINT/SIGTERM ends the
// process itself, with a non-zero status, once it has told the run to stop: after a value was received from a
// channel registered with signal.Notify, every path reaches os.Exit before it blocks on the channel again. A handler
// that only aborts and lets the command unwind leaves the exit status to whatever the aborted run returns — nil when
// the stage that was running allows failure, or when the signal fell between two stages.
func signalExit(c *an.Ctx, rule string) {
	p := c.P
	n := 0
	for _, fn := range p.Funcs {
		if !inPkgs("cmd/taskctl")(fn) || fn.Blocks == nil {
			continue
		}
		for _, ci := range an.CallsIn(fn, "os/signal.Notify") {
			ch := ci.Common().Args[0]
			// the receiving code: fn itself or a closure of it that uses the same channel
			for _, g := range an.WithAnon(fn) {
				isSig := func(v ssa.Value) bool {
					for _, a := range an.Sources(v) {
						for _, b := range an.Sources(ch) {
							if a == b {
								return true
							}
						}
						if fv, ok := a.(*ssa.FreeVar); ok {
							// bound to the channel's cell
							if g.Parent() != nil {
								found := false
								an.EachInstr(g.Parent(), func(in ssa.Instruction) {
									if mc, ok := in.(*ssa.MakeClosure); ok && mc.Fn == ssa.Value(g) {
										for i, fv2 := range g.FreeVars {
											if fv2 == fv && i < len(mc.Bindings) {
												for _, b := range an.Sources(ch) {
													if mc.Bindings[i] == b {
														found = true
													}
													if u, ok := b.(*ssa.UnOp); ok && u.X == mc.Bindings[i] {
														found = true
													}
												}
											}
										}
									}
								})
								if found {
									return true
								}
							}
						}
					}
					return false
				}
				isRecv := func(in ssa.Instruction) bool {
					switch x := in.(type) {
					case *ssa.UnOp:
						return x.Op == token.ARROW && isSig(x.X)
					case *ssa.Next:
						if r, ok := x.Iter.(*ssa.Range); ok {
							return isSig(r.X)
						}
					}
					return false
				}
				an.EachInstr(g, func(in ssa.Instruction) {
					if !isRecv(in) {
						return
					}
					n++
					// from the receive (on the branch where a value was received): every path meets os.Exit with a
					// non-zero status before it meets another receive or the end of the goroutine
					type pos struct {
						b   *ssa.BasicBlock
						idx int
					}
					starts := []pos{{in.Block(), an.InstrIndex(in) + 1}}
					if u, ok := in.(*ssa.UnOp); ok && u.CommaOk {
						for _, x := range in.Block().Instrs {
							iff, isIf := x.(*ssa.If)
							if !isIf {
								continue
							}
							if e, isE := iff.Cond.(*ssa.Extract); isE && e.Tuple == ssa.Value(u) && e.Index == 1 {
								starts = []pos{{in.Block().Succs[0], 0}}
							}
						}
					}
					if _, isNext := in.(*ssa.Next); isNext {
						// range over the channel through an iterator: the body is the successor taken while it yields
						if len(in.Block().Succs) == 2 {
							starts = []pos{{in.Block().Succs[0], 0}}
						}
					}
					exits, again := true, false
					seen := map[*ssa.BasicBlock]bool{}
					var walk func(b *ssa.BasicBlock, idx int)
					walk = func(b *ssa.BasicBlock, idx int) {
						for i := idx; i < len(b.Instrs); i++ {
							x := b.Instrs[i]
							if call, ok := x.(*ssa.Call); ok && an.ShortCallee(&call.Call) == "os.Exit" {
								if k, isK := an.ConstInt(call.Call.Args[0]); isK && k == 0 {
									exits = false
								}
								return
							}
							if isRecv(x) {
								again = true
								return
							}
						}
						if len(b.Succs) == 0 {
							exits = false
							return
						}
						for _, sc := range b.Succs {
							if !seen[sc] {
								seen[sc] = true
								walk(sc, 0)
							}
						}
					}
					for _, st := range starts {
						walk(st.b, st.idx)
					}
					c.Check(exits && !again, rule, an.Short(g)+":signal-exit", in.Pos(), "after a signal the handler ends the process itself before it waits for another one", an.Short(g)+" receives a signal and can go back to waiting (or end) without calling os.Exit with a non-zero status: the process's exit status is then whatever the aborted command returns — 0 when the interrupted stage allows failure or the signal fell between two stages")
				})
			}
		}
	}
	if n == 0 {
		c.Note(rule, "cmd/taskctl:signals", token.NoPos, "no signal channel is received from in cmd/taskctl")
	}
}
