package rules

import (
	"fmt"
	"go/types"
	"sort"
	"strings"

	"golang.org/x/tools/go/ssa"

	"taskverif/an"
)

// Unexported functions are looked up by name first (the names of today's tree are what the reports use), and,
// when a name is gone, by what the function is: its signature and the one thing only it does. A consistent rename
// of an unexported function therefore does not leave a rule without its anchor. Each resolver must single out
// exactly one function; otherwise the lookup fails as before.

func init() {
	an.FuncFallback = roleFallback
	an.TypeAlias = typeAlias
	an.FieldAliasHook = fieldAliasHook
}

var fieldAliasCache = map[string]string{}

// fieldAliasHook tells the two variable containers of a TaskRunner apart when they were renamed: "env" is the one
// the constructor fills from a map literal that defines ARGS, "variables" the other one.
func fieldAliasHook(named *types.Named, st *types.Struct, i int) string {
	p := an.CurrentProg
	if p == nil || an.TypeName(named) != "TaskRunner" || named.Obj().Pkg() == nil || !strings.HasSuffix(named.Obj().Pkg().Path(), "pkg/runner") {
		return ""
	}
	isContainer := func(t types.Type) bool { return an.TypeIs(t, "pkg/variables", "Container") }
	if !isContainer(st.Field(i).Type()) {
		return ""
	}
	key := fmt.Sprintf("%p|%d", p, i)
	if a, ok := fieldAliasCache[key]; ok {
		return a
	}
	fieldAliasCache[key] = ""
	has := map[string]bool{}
	var containers []int
	for j := 0; j < st.NumFields(); j++ {
		has[st.Field(j).Name()] = true
		if isContainer(st.Field(j).Type()) {
			containers = append(containers, j)
		}
	}
	if len(containers) != 2 || (has["env"] && has["variables"]) {
		return ""
	}
	ctor := p.Func("pkg/runner", "", "NewTaskRunner")
	if ctor == nil {
		return ""
	}
	envIdx := -1
	an.EachInstr(ctor, func(in ssa.Instruction) {
		sto, ok := in.(*ssa.Store)
		if !ok {
			return
		}
		fa, ok := sto.Addr.(*ssa.FieldAddr)
		if !ok || an.Deref(fa.X.Type()) != types.Type(named) {
			return
		}
		call, ok := sto.Val.(*ssa.Call)
		if !ok || len(call.Call.Args) == 0 {
			return
		}
		// FromMap(map[string]string{"ARGS": …})
		definesArgs := false
		if mm, ok := call.Call.Args[0].(*ssa.MakeMap); ok && mm.Referrers() != nil {
			for _, r := range *mm.Referrers() {
				if mu, ok := r.(*ssa.MapUpdate); ok {
					if k, ok := an.ConstString(mu.Key); ok && k == "ARGS" {
						definesArgs = true
					}
				}
			}
		}
		if definesArgs {
			envIdx = fa.Field
		}
	})
	if envIdx < 0 {
		return ""
	}
	alias := ""
	switch {
	case i == envIdx && !has["env"]:
		alias = "env"
	case i != envIdx && !has["variables"]:
		alias = "variables"
	}
	if alias == st.Field(i).Name() {
		alias = ""
	}
	fieldAliasCache[key] = alias
	return alias
}

// typeAlias: the reference name of a module type that a tree has renamed (or un-exported), by shape. A name is
// given only when the tree has no type of that name and exactly one type of the package has the shape.
func typeAlias(n *types.Named) string {
	pkg := n.Obj().Pkg()
	if pkg == nil {
		return ""
	}
	rel := strings.TrimPrefix(strings.TrimPrefix(pkg.Path(), an.ModulePath), "/")
	for _, ta := range typeShapes {
		if ta.pkg != rel || pkg.Scope().Lookup(ta.name) != nil || !ta.is(n) {
			continue
		}
		// unique in its package
		cnt := 0
		for _, nm := range pkg.Scope().Names() {
			if tn, ok := pkg.Scope().Lookup(nm).(*types.TypeName); ok {
				if other, ok := tn.Type().(*types.Named); ok && ta.is(other) {
					cnt++
				}
			}
		}
		if cnt == 1 {
			return ta.name
		}
	}
	return ""
}

func structFieldTypes(n *types.Named) []string {
	st, ok := n.Underlying().(*types.Struct)
	if !ok {
		return nil
	}
	var out []string
	for i := 0; i < st.NumFields(); i++ {
		out = append(out, strings.ReplaceAll(st.Field(i).Type().String(), an.ModulePath+"/", ""))
	}
	sort.Strings(out)
	return out
}

func hasMethod(n *types.Named, name string) bool {
	ms := types.NewMethodSet(types.NewPointer(n))
	for i := 0; i < ms.Len(); i++ {
		if ms.At(i).Obj().Name() == name {
			return true
		}
	}
	return false
}

// the decoded document and its parts are known by the document schema: the exported field names mapstructure fills
func hasFields(n *types.Named, names ...string) bool {
	st, ok := n.Underlying().(*types.Struct)
	if !ok {
		return false
	}
	have := map[string]bool{}
	for i := 0; i < st.NumFields(); i++ {
		have[st.Field(i).Name()] = true
	}
	for _, nm := range names {
		if !have[nm] {
			return false
		}
	}
	return true
}

var typeShapes = []struct {
	pkg, name string
	is        func(n *types.Named) bool
}{
	{"internal/config", "configDefinition", func(n *types.Named) bool {
		// (the built Config has the same section names; the document's Variables are still a plain map)
		st, ok := n.Underlying().(*types.Struct)
		if !ok || !hasFields(n, "Import", "Contexts", "Pipelines", "Tasks", "Watchers", "Variables") {
			return false
		}
		for i := 0; i < st.NumFields(); i++ {
			if st.Field(i).Name() == "Variables" {
				_, isMap := st.Field(i).Type().Underlying().(*types.Map)
				return isMap && !n.Obj().Exported()
			}
		}
		return false
	}},
	{"internal/config", "taskDefinition", func(n *types.Named) bool {
		return hasFields(n, "Command", "Before", "After", "Variations", "Timeout", "AllowFailure")
	}},
	{"internal/config", "stageDefinition", func(n *types.Named) bool {
		return hasFields(n, "Task", "Pipeline", "DependsOn", "AllowFailure") && !hasFields(n, "Command")
	}},
	{"internal/config", "contextDefinition", func(n *types.Named) bool {
		return hasFields(n, "Executable", "Up", "Down") || hasFields(n, "Up", "Down", "Before", "After", "Env")
	}},
	{"internal/config", "watcherDefinition", func(n *types.Named) bool {
		return hasFields(n, "Events", "Watch", "Exclude", "Task")
	}},
	{"internal/config", "loaderContext", func(n *types.Named) bool {
		st, ok := n.Underlying().(*types.Struct)
		return ok && st.NumFields() == 1 && hasFields(n, "Dir")
	}},
	// the one implementation of variables.Container
	{"pkg/variables", "Variables", func(n *types.Named) bool {
		if _, ok := n.Underlying().(*types.Struct); !ok {
			return false
		}
		return hasMethod(n, "Merge") && hasMethod(n, "With") && hasMethod(n, "Set") && hasMethod(n, "Map")
	}},
	{"pkg/output", "lineWriter", func(n *types.Named) bool {
		return strings.Join(structFieldTypes(n), ",") == "*pkg/task.Task,io.Writer" && hasMethod(n, "Write") && !hasMethod(n, "WriteHeader")
	}},
	{"pkg/output", "rawOutputDecorator", func(n *types.Named) bool {
		return strings.Join(structFieldTypes(n), ",") == "io.Writer" && hasMethod(n, "WriteHeader")
	}},
	{"pkg/output", "prefixedOutputDecorator", func(n *types.Named) bool {
		return strings.Join(structFieldTypes(n), ",") == "*bufio.Writer,*pkg/task.Task" && hasMethod(n, "WriteHeader")
	}},
}

func roleFallback(p *an.Prog, pkg, recv, name string) *ssa.Function {
	key := pkg + "|" + recv + "|" + name
	res, ok := roleResolvers[key]
	if !ok {
		return nil
	}
	var found []*ssa.Function
	for _, fn := range p.Funcs {
		if fn.Blocks == nil || fn.Parent() != nil || !inPkgs(pkg)(fn) || fn.Synthetic != "" {
			continue
		}
		isMethod := fn.Signature.Recv() != nil
		if (recv == "") == isMethod {
			continue
		}
		if recv != "" && !an.TypeIs(fn.Signature.Recv().Type(), pkg, recv) {
			continue
		}
		if res(p, fn) {
			found = append(found, fn)
		}
	}
	if len(found) == 1 {
		return found[0]
	}
	return nil
}

func sigIs(fn *ssa.Function, params []string, results []string) bool {
	sig := fn.Signature
	if sig.Params().Len() != len(params) || sig.Results().Len() != len(results) {
		return false
	}
	match := func(t types.Type, want string) bool {
		s := strings.ReplaceAll(t.String(), an.ModulePath+"/", "")
		if s == want {
			return true
		}
		// a pointer to a module type known under its reference name
		if pt, ok := t.(*types.Pointer); ok {
			if n, ok := pt.Elem().(*types.Named); ok && n.Obj().Pkg() != nil && an.TypeName(n) != n.Obj().Name() {
				rel := strings.TrimPrefix(strings.TrimPrefix(n.Obj().Pkg().Path(), an.ModulePath), "/")
				return "*"+rel+"."+an.TypeName(n) == want
			}
		}
		return false
	}
	for i, w := range params {
		if !match(sig.Params().At(i).Type(), w) {
			return false
		}
	}
	for i, w := range results {
		if !match(sig.Results().At(i).Type(), w) {
			return false
		}
	}
	return true
}

func callsAny(fn *ssa.Function, names ...string) bool {
	return len(an.CallsIn(fn, names...)) > 0
}

func callsItself(p *an.Prog, fn *ssa.Function) bool {
	for _, site := range p.CallSitesOf(fn) {
		if site.Parent() == fn {
			return true
		}
	}
	return false
}

const rawDoc = "map[string]interface{}"

var roleResolvers = map[string]func(p *an.Prog, fn *ssa.Function) bool{
	"internal/config||buildFromDefinition": func(p *an.Prog, fn *ssa.Function) bool {
		return sigIs(fn, []string{"*internal/config.configDefinition", "*internal/config.loaderContext"}, []string{"*internal/config.Config", "error"})
	},
	"internal/config||buildPipeline": func(p *an.Prog, fn *ssa.Function) bool {
		res := fn.Signature.Results()
		return res.Len() == 2 && an.TypeIs(res.At(0).Type(), "pkg/scheduler", "ExecutionGraph") && an.IsErrorType(res.At(1).Type()) && fn.Signature.Params().Len() >= 2
	},
	"internal/config||defaultConfigVariables": func(p *an.Prog, fn *ssa.Function) bool {
		res := fn.Signature.Results()
		return fn.Signature.Params().Len() == 0 && res.Len() == 1 && an.TypeIs(res.At(0).Type(), "pkg/variables", "Container")
	},
	// the recursive loader of one location: the (string) → (document, error) method that reads files and URLs
	"internal/config|Loader|load": func(p *an.Prog, fn *ssa.Function) bool {
		if !sigIs(fn, []string{"string"}, []string{rawDoc, "error"}) {
			return false
		}
		n := 0
		for _, e := range p.OutEdges(fn) {
			if e.Callee != fn && an.InModule(e.Callee) && e.Callee.Signature.Recv() != nil && sigIs(e.Callee, []string{"string"}, []string{rawDoc, "error"}) {
				n++
			}
		}
		// it calls the other three (file, URL, directory); each of them calls at most it
		return n >= 2
	},
	"internal/config|Loader|loadDir": func(p *an.Prog, fn *ssa.Function) bool {
		return sigIs(fn, []string{"string"}, []string{rawDoc, "error"}) && callsAny(fn, "path/filepath.Glob")
	},
	"internal/config|Loader|readURL": func(p *an.Prog, fn *ssa.Function) bool {
		return sigIs(fn, []string{"string"}, []string{rawDoc, "error"}) && !callsAny(fn, "path/filepath.Glob") && fetchesOverHTTPDeep(p, fn)
	},
	"internal/config|Loader|readFile": func(p *an.Prog, fn *ssa.Function) bool {
		return sigIs(fn, []string{"string"}, []string{rawDoc, "error"}) && callsAny(fn, "io/ioutil.ReadFile", "os.ReadFile", "os.Open")
	},
	"internal/config|Loader|unmarshalData": func(p *an.Prog, fn *ssa.Function) bool {
		return sigIs(fn, []string{"[]byte", "string"}, []string{rawDoc, "error"})
	},
	"internal/config|Loader|decode": func(p *an.Prog, fn *ssa.Function) bool {
		return callsAny(fn, "github.com/mitchellh/mapstructure.NewDecoder")
	},
	"internal/config|Loader|reset": func(p *an.Prog, fn *ssa.Function) bool {
		if fn.Signature.Params().Len() != 0 || fn.Signature.Results().Len() != 0 {
			return false
		}
		makes := false
		an.EachInstr(fn, func(in ssa.Instruction) {
			if st, ok := in.(*ssa.Store); ok {
				if _, isFA := st.Addr.(*ssa.FieldAddr); isFA {
					if _, isMake := st.Val.(*ssa.MakeMap); isMake {
						makes = true
					}
				}
			}
		})
		return makes
	},
	"internal/config|Config|merge": func(p *an.Prog, fn *ssa.Function) bool {
		return sigIs(fn, []string{"*internal/config.Config"}, []string{"error"})
	},
	// the dependency gate: the function of pkg/scheduler that takes the graph and a stage and answers yes or no
	"pkg/scheduler||checkStatus": func(p *an.Prog, fn *ssa.Function) bool {
		return sigIs(fn, []string{"*pkg/scheduler.ExecutionGraph", "*pkg/scheduler.Stage"}, []string{"bool"})
	},
	"cmd/taskctl||draw": func(p *an.Prog, fn *ssa.Function) bool {
		hasGraph := false
		for i := 0; i < fn.Signature.Params().Len(); i++ {
			if an.TypeIs(fn.Signature.Params().At(i).Type(), "pkg/scheduler", "ExecutionGraph") {
				hasGraph = true
			}
		}
		return hasGraph && callsItself(p, fn)
	},
	"cmd/taskctl||makeApp": func(p *an.Prog, fn *ssa.Function) bool {
		res := fn.Signature.Results()
		return fn.Signature.Params().Len() == 0 && res.Len() == 1 && strings.HasSuffix(res.At(0).Type().String(), "urfave/cli/v2.App")
	},
	"cmd/taskctl||run": func(p *an.Prog, fn *ssa.Function) bool {
		if !sigIs(fn, nil, []string{"error"}) {
			return false
		}
		for _, site := range p.CallSitesOf(fn) {
			if site.Parent().Name() == "main" && site.Parent().Signature.Recv() == nil {
				return true
			}
		}
		return false
	},
}

// fetchesOverHTTPDeep: fn, or a helper of its package it calls, obtains a *http.Response.
func fetchesOverHTTPDeep(p *an.Prog, fn *ssa.Function) bool {
	for g := range p.Reach([]*ssa.Function{fn}, func(e an.CallEdge) bool {
		return e.Kind == an.EdgeCall && an.Outer(e.Callee).Pkg == fn.Pkg && !sigIs(e.Callee, []string{"string"}, []string{rawDoc, "error"})
	}) {
		if g.Blocks != nil && fetchesOverHTTP(g) {
			return true
		}
	}
	return false
}
