package rules

import "taskverif/an"

func thorough(c *an.Ctx, prop string, seed int64, extra map[string]interface{}) {
	extra["whole_program"] = c.P.Whole
}
