package rules

import (
	"fmt"
	"os"
	"os/exec"
	"path/filepath"
	"runtime"
	"sort"
	"strings"
	"sync"

	"taskverif/an"
)

// VerifDir is set by main: where seeded/ and variants/ live.
var VerifDir = "/verif"

// runOn runs the property's rules on another tree and returns the failing
// obligations (violated or undischarged), or an error when it cannot load.
func runOn(prop string, opts an.LoadOpts) (bad []an.Ob, total int, err error) {
	defer func() {
		if r := recover(); r != nil {
			err = fmt.Errorf("panic: %v", r)
		}
	}()
	p, err := an.Load(opts)
	if err != nil {
		return nil, 0, err
	}
	c := an.NewCtx(prop, p)
	Registry[prop](c)
	for _, o := range c.Obs {
		if o.Status == an.StViolated || o.Status == an.StUndischarged {
			bad = append(bad, o)
		}
		if o.Status != an.StObservation {
			total++
		}
	}
	return bad, total, nil
}

// scratchCopy copies the tracked files of root into a new directory under
// $TMPDIR (never under /repo or /verif) and applies patch to it.
func scratchCopy(root, patch string) (string, error) {
	dir, err := os.MkdirTemp("", "taskverif-variant-")
	if err != nil {
		return "", err
	}
	cmd := exec.Command("bash", "-c", fmt.Sprintf("cd %q && git ls-files -z | xargs -0 cp --parents -t %q && cd %q && git init -q . && git apply --whitespace=nowarn %q", root, dir, dir, patch))
	if out, err := cmd.CombinedOutput(); err != nil {
		os.RemoveAll(dir)
		return "", fmt.Errorf("%v: %s", err, strings.TrimSpace(string(out)))
	}
	return dir, nil
}

func thorough(c *an.Ctx, prop string, seed int64, extra map[string]interface{}) {
	extra["whole_program"] = c.P.Whole
	if c.P.Whole {
		extra["callgraph"] = c.P.CallGraphStats()
	}
	root := c.P.Root

	// (2) further build configurations
	var configs []map[string]interface{}
	for _, goos := range []string{"linux", "darwin", "windows"} {
		for _, tags := range []string{"", "verif"} {
			if goos == "linux" && tags == "" {
				continue // the main run
			}
			name := goos
			if tags != "" {
				name += "+" + tags
			}
			bad, total, err := runOn(prop, an.LoadOpts{Root: root, GOOS: goos, Tags: tags})
			entry := map[string]interface{}{"config": name}
			switch {
			case err != nil:
				entry["covered"] = false
				entry["reason"] = firstLine(err.Error())
			default:
				entry["covered"] = true
				entry["obligations"] = total
				entry["failing"] = len(bad)
				for _, o := range bad {
					c.Obs = append(c.Obs, an.Ob{Rule: o.Rule, Construct: "[" + name + "] " + o.Construct, Pos: o.Pos, Status: o.Status, Detail: o.Detail})
				}
			}
			configs = append(configs, entry)
		}
	}
	extra["configurations"] = configs

	// (3) self-validation of the checker on source variants of the current tree
	type vres struct {
		Name   string   `json:"name"`
		Kind   string   `json:"kind"`
		Result string   `json:"result"`
		Rules  []string `json:"rules,omitempty"`
	}
	var results []vres
	expectedMiss := map[string]bool{}
	if data, err := os.ReadFile(filepath.Join(VerifDir, "variants", "expected_miss.txt")); err == nil {
		for _, l := range strings.Split(string(data), "\n") {
			l = strings.TrimSpace(l)
			if l != "" && !strings.HasPrefix(l, "#") {
				expectedMiss[strings.Fields(l)[0]] = true
			}
		}
	}
	var breaking, neutral []string
	add := func(glob string, into *[]string) {
		m, _ := filepath.Glob(glob)
		sort.Strings(m)
		*into = append(*into, m...)
	}
	add(filepath.Join(VerifDir, "seeded", prop+"-*", "patch.diff"), &breaking)
	add(filepath.Join(VerifDir, "variants", "breaking", prop+"-*.diff"), &breaking)
	add(filepath.Join(VerifDir, "variants", "neutral", "*.diff"), &neutral)
	broken := 0
	fired, silent := 0, 0
	// each variant is analysed by a fresh process of this binary (quick tier) on its scratch copy: the
	// copies are independent, so they run in parallel, and a variant that makes the analysis run away
	// cannot take the thorough run with it
	self, _ := os.Executable()
	type job struct {
		patch, kind string
		res         vres
		status      string // fired / silent / skipped
	}
	var jobs []*job
	for _, pch := range breaking {
		jobs = append(jobs, &job{patch: pch, kind: "breaking"})
	}
	for _, pch := range neutral {
		jobs = append(jobs, &job{patch: pch, kind: "neutral"})
	}
	workers := runtime.NumCPU() / 2
	if workers < 1 {
		workers = 1
	}
	if workers > 8 {
		workers = 8
	}
	ch := make(chan *job)
	var wg sync.WaitGroup
	for w := 0; w < workers; w++ {
		wg.Add(1)
		go func() {
			defer wg.Done()
			for j := range ch {
				name := filepath.Base(j.patch)
				if name == "patch.diff" {
					name = filepath.Base(filepath.Dir(j.patch))
				}
				name = strings.TrimSuffix(name, ".diff")
				j.res = vres{Name: name, Kind: j.kind}
				dir, err := scratchCopy(root, j.patch)
				if err != nil {
					j.res.Result, j.status = "skipped: does not apply to the current tree", "skipped"
					continue
				}
				vdir, _ := os.MkdirTemp("", "taskverif-variant-verif-")
				os.MkdirAll(filepath.Join(vdir, "evidence"), 0o755)
				if data, err := os.ReadFile(filepath.Join(VerifDir, "known_findings.txt")); err == nil {
					os.WriteFile(filepath.Join(vdir, "known_findings.txt"), data, 0o644)
				}
				cmd := exec.Command(self, "-prop", prop, "-tier", "quick", "-root", dir, "-verif", vdir)
				out, _ := cmd.CombinedOutput()
				code := cmd.ProcessState.ExitCode()
				os.RemoveAll(dir)
				os.RemoveAll(vdir)
				seen := map[string]bool{}
				for _, line := range strings.Split(string(out), "\n") {
					f := strings.Fields(line)
					if len(f) >= 2 && (f[0] == "violated" || f[0] == "undischarged") && !seen[f[1]] {
						seen[f[1]] = true
						j.res.Rules = append(j.res.Rules, f[1])
					}
				}
				sort.Strings(j.res.Rules)
				switch code {
				case 0:
					j.status = "silent"
				case 1:
					j.status = "fired"
				default:
					j.status = "infra"
					j.res.Rules = append(j.res.Rules, "INFRA:"+firstLine(strings.TrimSpace(string(out))))
				}
			}
		}()
	}
	for _, j := range jobs {
		ch <- j
	}
	close(ch)
	wg.Wait()
	for _, j := range jobs {
		switch {
		case j.status == "skipped":
		case j.status == "infra":
			broken++
			j.res.Result = "CHECKER FAILED"
		case j.kind == "breaking" && j.status == "fired":
			fired++
			j.res.Result = "fired"
		case j.kind == "breaking" && expectedMiss[j.res.Name]:
			j.res.Result = "not detected (documented miss)"
		case j.kind == "breaking":
			broken++
			j.res.Result = "NOT DETECTED"
		case j.kind == "neutral" && j.status == "silent":
			silent++
			j.res.Result = "silent"
		default:
			broken++
			j.res.Result = "FALSE ALARM"
		}
		results = append(results, j.res)
	}
	extra["seeded_variants"] = map[string]interface{}{"fired": fired, "total": len(breaking)}
	extra["neutral_variants"] = map[string]interface{}{"silent": silent, "total": len(neutral)}
	extra["variants"] = results
	if broken > 0 {
		// a checker that misses its own seeded variant or alarms on a neutral one is broken: exit 2
		for _, r := range results {
			if r.Result == "NOT DETECTED" || r.Result == "FALSE ALARM" || r.Result == "CHECKER FAILED" {
				fmt.Printf("INFRA: checker self-validation failed for %s: %s variant %s: %s %v\n", prop, r.Kind, r.Name, r.Result, r.Rules)
			}
		}
		extra["self_validation"] = "FAILED"
		SelfValidationFailed = true
	} else {
		extra["self_validation"] = "passed"
	}
}

// SelfValidationFailed makes main exit with status 2.
var SelfValidationFailed bool

func firstLine(s string) string {
	if i := strings.Index(s, "\n"); i >= 0 {
		return s[:i]
	}
	return s
}
