package rules

import (
	"fmt"
	"go/constant"
	"go/token"
	"go/types"
	"sort"
	"strings"

	"golang.org/x/tools/go/ssa"

	"taskverif/an"
)

// Names of scheduler entities that are part of the exported API or of the
// Go standard library; everything unexported is found by role.
// The two accessors of Stage.Status are known by their exported names; when a tree has unexported or renamed them
// they are found by shape (bindStatusAccessors): the method of Stage that takes one int32 and returns nothing, and
// the one that takes nothing and returns an int32.
var (
	fnReadStatus   = "(pkg/scheduler.Stage).ReadStatus"
	fnUpdateStatus = "(pkg/scheduler.Stage).UpdateStatus"
)

func bindStatusAccessors(p *an.Prog) {
	fnReadStatus, fnUpdateStatus = "(pkg/scheduler.Stage).ReadStatus", "(pkg/scheduler.Stage).UpdateStatus"
	var readers, writers []*ssa.Function
	hasRead, hasUpd := false, false
	for _, fn := range p.Funcs {
		if fn.Blocks == nil || fn.Parent() != nil || fn.Signature.Recv() == nil || !an.TypeIs(fn.Signature.Recv().Type(), "pkg/scheduler", "Stage") {
			continue
		}
		switch an.Short(fn) {
		case fnReadStatus:
			hasRead = true
		case fnUpdateStatus:
			hasUpd = true
		}
		isInt32 := func(t types.Type) bool {
			b, ok := t.Underlying().(*types.Basic)
			return ok && b.Kind() == types.Int32
		}
		sig := fn.Signature
		if sig.Params().Len() == 1 && sig.Results().Len() == 0 && isInt32(sig.Params().At(0).Type()) {
			writers = append(writers, fn)
		}
		if sig.Params().Len() == 0 && sig.Results().Len() == 1 && isInt32(sig.Results().At(0).Type()) {
			readers = append(readers, fn)
		}
	}
	if !hasRead && len(readers) == 1 {
		fnReadStatus = an.Short(readers[0])
	}
	if !hasUpd && len(writers) == 1 {
		fnUpdateStatus = an.Short(writers[0])
	}
}

const (
	fnRunnerRun    = "(pkg/runner.Runner).Run"
	fnRunnerCancel = "(pkg/runner.Runner).Cancel"
	fnRunnerFinish = "(pkg/runner.Runner).Finish"
	fnGraphTo      = "(pkg/scheduler.ExecutionGraph).To"
	fnGraphFrom    = "(pkg/scheduler.ExecutionGraph).From"
	fnGraphNode    = "(pkg/scheduler.ExecutionGraph).Node"
	fnGraphNodes   = "(pkg/scheduler.ExecutionGraph).Nodes"
	fnWgAdd        = "(*sync.WaitGroup).Add"
	fnWgDone       = "(*sync.WaitGroup).Done"
	fnWgWait       = "(*sync.WaitGroup).Wait"
)

// statusNames are the roles of the six status constants.
var statusNames = []string{"Waiting", "Running", "Skipped", "Done", "Error", "Canceled"}

// sched holds the resolved roles of pkg/scheduler.
type sched struct {
	c        *an.Ctx
	p        *an.Prog
	status   map[string]int64 // role → value
	statusOf map[int64]string
	schedule *ssa.Function  // the function holding the scheduling loop (Schedule, or what it forwards to)
	entry    *ssa.Function  // the exported Scheduler.Schedule
	graph    *ssa.Parameter // the scheduled graph in schedule
	cancel   *ssa.Function
	// the scheduling loop (outer) and the per-stage loop (inner) of Schedule
	outer, inner *an.Loop
	outerFn      *ssa.Function   // function containing the scheduling loop (loopFn or a synchronous caller of it)
	innerAnchor  *ssa.BasicBlock // block of outerFn through which a pass enters the per-stage loop (its header, or the call that reaches it)
	launch       *ssa.Go         // the go statement that starts a stage
	launchFn     *ssa.Function   // function containing it
	loopFn       *ssa.Function   // function containing the per-stage loop (launchFn or a synchronous caller of it)
	body         *ssa.Function   // function run by the goroutine
	bodyStage    ssa.Value       // the stage inside body (parameter or free variable)
	// … or, when the launch hands over an object built for this launch (a per-launch record with a
	// *Stage field set to the loop's stage), that parameter of the body and the index of the field
	carrier      *ssa.Parameter
	carrierField int
	// a hand-made replacement of the WaitGroup (latch.go), resolved on demand
	latch       *chanLatch
	latchLooked bool
	runnerCalls []ssa.CallInstruction // calls in body that synchronously reach Runner.Run
	runStage    *ssa.Function         // function invoking Runner.Run
	gate        *ssa.Function
	gateLoop    *an.Loop
	gateCall    *ssa.Call // call of gate in launchFn
	loopStage   ssa.Value // the stage of the current iteration of the per-stage loop
	isDone      *ssa.Function
	ok          bool
}

func statusLabel(s *sched, v int64) string {
	if n, ok := s.statusOf[v]; ok {
		return n
	}
	return fmt.Sprintf("other(%d)", v)
}

// resolveSched discovers the scheduler roles; failures are reported as
// undischarged obligations of rule.
func resolveSched(c *an.Ctx, rule string) *sched {
	p := c.P
	s := &sched{c: c, p: p, status: map[string]int64{}, statusOf: map[int64]string{}}
	for _, n := range statusNames {
		v, ok := p.Const("pkg/scheduler", "Status"+n)
		if !ok {
			c.Und(rule, "scheduler.Status"+n, token.NoPos, "status constant Status%s not found in pkg/scheduler", n)
			return s
		}
		s.status[n] = v
		s.statusOf[v] = n
	}
	if len(s.statusOf) != len(statusNames) {
		c.Bad(rule, "scheduler.Status*", token.NoPos, "two status constants share a value: %v", s.status)
		return s
	}
	s.entry, s.schedule, s.graph = scheduleImpl(p)
	s.cancel = p.Func("pkg/scheduler", "Scheduler", "Cancel")
	if s.schedule == nil || s.cancel == nil {
		c.Und(rule, "scheduler.(*Scheduler).Schedule", token.NoPos, "entry points Scheduler.Schedule / Scheduler.Cancel not found")
		return s
	}
	c.Anchor("entry", an.Short(s.schedule))

	// functions reachable from Schedule without crossing a go statement
	syncReach := p.Reach([]*ssa.Function{s.schedule}, func(e an.CallEdge) bool {
		return e.Kind != an.EdgeGo && an.InModule(e.Callee) && !s.isSchedule(e.Callee)
	})
	reachesRun := func(f *ssa.Function) (bool, *ssa.Function) {
		r := p.Reach([]*ssa.Function{f}, func(e an.CallEdge) bool { return e.Kind != an.EdgeGo && an.InModule(e.Callee) })
		var fs []*ssa.Function
		for g := range r {
			fs = append(fs, g)
		}
		sort.Slice(fs, func(i, j int) bool { return fs[i].String() < fs[j].String() })
		for _, g := range fs {
			if len(an.CallsIn(g, fnRunnerRun)) > 0 {
				return true, g
			}
		}
		return false, nil
	}
	// launch site: a go statement, synchronously reachable from Schedule,
	// whose function reaches Runner.Run
	var launches []*ssa.Go
	var fs []*ssa.Function
	for f := range syncReach {
		fs = append(fs, f)
	}
	sort.Slice(fs, func(i, j int) bool { return fs[i].String() < fs[j].String() })
	for _, f := range fs {
		an.EachInstr(f, func(in ssa.Instruction) {
			g, ok := in.(*ssa.Go)
			if !ok {
				return
			}
			for _, callee := range p.Callees(&g.Call) {
				if ok, _ := reachesRun(callee); ok {
					launches = append(launches, g)
					return
				}
			}
		})
	}
	if len(launches) == 0 {
		c.Und(rule, "scheduler.(*Scheduler).Schedule:launch", s.schedule.Pos(), "no go statement reachable from Schedule leads to Runner.Run: the launch site cannot be identified")
		return s
	}
	if len(launches) > 1 {
		var where []string
		for _, l := range launches {
			where = append(where, p.Pos(l.Pos()))
		}
		c.Bad(rule, "scheduler.(*Scheduler).Schedule:launch", launches[1].Pos(), "more than one launch site starts stage work: %s", strings.Join(where, ", "))
		return s
	}
	s.launch = launches[0]
	s.launchFn = s.launch.Parent()
	cs := p.Callees(&s.launch.Call)
	if len(cs) != 1 {
		c.Und(rule, "scheduler.(*Scheduler).Schedule:launch", s.launch.Pos(), "launch target is not a single function")
		return s
	}
	s.body = cs[0]
	_, s.runStage = reachesRun(s.body)
	c.Anchor("launch site", an.Short(s.launchFn)+" go "+an.Short(s.body))
	c.Anchor("runner caller", an.Short(s.runStage))

	// calls in the body that synchronously reach Runner.Run
	for _, fn := range []*ssa.Function{s.body} {
		an.EachInstr(fn, func(in ssa.Instruction) {
			ci, ok := in.(*ssa.Call)
			if !ok {
				return
			}
			if _, isRun := an.IsCallTo(in, fnRunnerRun); isRun {
				s.runnerCalls = append(s.runnerCalls, ci)
				return
			}
			for _, callee := range p.Callees(&ci.Call) {
				if !an.InModule(callee) {
					continue
				}
				// a nested pipeline: Schedule returns when its stages have run (C03.2)
				if s.isSchedule(callee) {
					s.runnerCalls = append(s.runnerCalls, ci)
					return
				}
				if ok, _ := reachesRun(callee); ok {
					s.runnerCalls = append(s.runnerCalls, ci)
					return
				}
			}
		})
	}

	// the per-stage loop: the innermost loop around the launch, in the launch function itself or in a
	// synchronous caller of it (the body of the loop may have been extracted into a helper)
	{
		site := ssa.Instruction(s.launch)
		fn := s.launchFn
		for depth := 0; depth < 4 && s.inner == nil; depth++ {
			loops := an.Loops(fn)
			if l := an.InnermostLoop(loops, site.Block()); l != nil {
				s.inner, s.loopFn = l, fn
				for _, l2 := range loops {
					if l2 != l && l2.Blocks[l.Header] && (s.outer == nil || len(l2.Blocks) < len(s.outer.Blocks)) {
						s.outer = l2
					}
				}
				break
			}
			var callers []ssa.CallInstruction
			for _, cs := range p.CallSitesOf(fn) {
				if _, isGo := cs.(*ssa.Go); isGo {
					continue
				}
				if _, ok := syncReach[cs.Parent()]; ok || cs.Parent() == s.schedule {
					callers = append(callers, cs)
				}
			}
			if len(callers) != 1 {
				break
			}
			site, fn = callers[0], callers[0].Parent()
		}
	}
	if s.inner == nil {
		c.Und(rule, "scheduler.(*Scheduler).Schedule:loop", s.launch.Pos(), "launch site is not inside a loop (neither in %s nor in its synchronous callers)", an.Short(s.launchFn))
		return s
	}
	// the scheduling loop: around the per-stage loop in the same function, or around the call that reaches it
	if s.outer != nil {
		s.outerFn, s.innerAnchor = s.loopFn, s.inner.Header
	} else {
		fn := s.loopFn
		for depth := 0; depth < 4 && s.outer == nil; depth++ {
			var callers []ssa.CallInstruction
			for _, cs := range p.CallSitesOf(fn) {
				if _, isGo := cs.(*ssa.Go); isGo {
					continue
				}
				if _, ok := syncReach[cs.Parent()]; ok || cs.Parent() == s.schedule {
					callers = append(callers, cs)
				}
			}
			if len(callers) != 1 {
				break
			}
			site := callers[0]
			fn = site.Parent()
			if l := an.InnermostLoop(an.Loops(fn), site.Block()); l != nil {
				s.outer, s.outerFn, s.innerAnchor = l, fn, site.Block()
			}
		}
	}
	if s.outerFn != nil {
		c.Anchor("scheduling loop", an.Short(s.outerFn))
	}
	_, vals := s.inner.RangeKeyValue()
	if len(vals) >= 1 {
		s.loopStage = vals[0]
	}
	if s.loopStage == nil || !an.TypeIs(s.loopStage.Type(), "pkg/scheduler", "Stage") {
		c.Und(rule, "scheduler.(*Scheduler).Schedule:loop", s.inner.Header.Instrs[0].Pos(), "the loop around the launch site does not range over stages")
		return s
	}

	// the stage inside the body: parameter bound at go time or captured variable
	for i, a := range s.launch.Call.Args {
		if an.TypeIs(a.Type(), "pkg/scheduler", "Stage") && i < len(s.body.Params) {
			s.bodyStage = s.body.Params[i]
		}
	}
	if s.bodyStage == nil {
		for _, fv := range s.body.FreeVars {
			if an.TypeIs(an.Deref(fv.Type()), "pkg/scheduler", "Stage") {
				s.bodyStage = fv
			}
		}
	}
	if s.bodyStage == nil {
		for i, a := range s.launch.Call.Args {
			al, ok := an.Resolve(a).(*ssa.Alloc)
			if !ok || al.Parent() != s.launchFn || al.Referrers() == nil || i >= len(s.body.Params) {
				continue
			}
			st, ok := an.Deref(al.Type()).Underlying().(*types.Struct)
			if !ok {
				continue
			}
			for _, r := range *al.Referrers() {
				fa, ok := r.(*ssa.FieldAddr)
				if !ok || fa.Referrers() == nil || !an.TypeIs(st.Field(fa.Field).Type(), "pkg/scheduler", "Stage") {
					continue
				}
				nStores, fromLoop := 0, false
				for _, rr := range *fa.Referrers() {
					if sto, ok := rr.(*ssa.Store); ok && sto.Addr == ssa.Value(fa) {
						nStores++
						if an.SameValue(sto.Val, s.loopStage) {
							fromLoop = true
						}
					}
				}
				if nStores == 1 && fromLoop {
					s.carrier, s.carrierField = s.body.Params[i], fa.Field
					s.bodyStage = s.body.Params[i]
				}
			}
		}
	}

	// gate: function reachable synchronously from Schedule that ranges over To(...)
	for _, f := range fs {
		if f.Pkg == nil || f.Pkg != s.schedule.Pkg {
			continue
		}
		for _, l := range an.Loops(f) {
			op := l.RangeOperand()
			if op == nil {
				continue
			}
			if isToCall(op) {
				if s.gate != nil && s.gate != f {
					c.Und(rule, "scheduler:gate", f.Pos(), "two functions range over a stage's dependencies: %s and %s", an.Short(s.gate), an.Short(f))
					return s
				}
				s.gate, s.gateLoop = f, l
			}
		}
	}
	if s.gate == nil {
		c.Und(rule, "scheduler:gate", s.schedule.Pos(), "no function reachable from Schedule ranges over ExecutionGraph.To(stage) — the dependency gate cannot be identified")
		return s
	}
	c.Anchor("gate", an.Short(s.gate))
	an.EachInstr(s.launchFn, func(in ssa.Instruction) {
		if call, ok := in.(*ssa.Call); ok {
			for _, callee := range p.Callees(&call.Call) {
				if callee == s.gate {
					s.gateCall = call
				}
			}
		}
	})
	// the gate may be called from a helper: rules that need the call site in the launch
	// function report that themselves
	// isDone: bool function of the scheduler package called in the outer loop header
	s.ok = true
	return s
}

// isToCall reports whether v is the list of dependencies of a stage: a call
// of ExecutionGraph.To or a lookup in the `to` field.
func isToCall(v ssa.Value) bool {
	for _, r := range an.Sources(v) {
		switch x := r.(type) {
		case *ssa.Call:
			if _, ok := an.IsCallTo(x, fnGraphTo); ok {
				return true
			}
		case *ssa.Lookup, *ssa.Field:
			if loc, _, ok := edgeListRead(x); ok && an.CurrentProg != nil && loc == resolveEdgeRoles(an.CurrentProg).loc["to"] {
				return true
			}
		}
	}
	return false
}

// statusAtomRows enumerates the status domain: the six constants plus two
// representatives of "anything else".
func (s *sched) statusDomain() []int64 {
	var out []int64
	for _, n := range statusNames {
		out = append(out, s.status[n])
	}
	max := int64(0)
	for _, v := range out {
		if v > max {
			max = v
		}
	}
	return append(out, max+1, -1)
}

// updateStatusEffect labels a status write; who describes the receiver.
func (s *sched) updateStatusEffect(in ssa.Instruction, st *an.State, who func(ssa.Value) string) string {
	cc, ok := an.IsCallTo(in, fnUpdateStatus)
	if !ok {
		return ""
	}
	val := "?"
	if a := st.Eval(cc.Args[1]); a.K == an.AConst && a.C.Kind() == constant.Int {
		i, _ := constant.Int64Val(a.C)
		val = statusLabel(s, i)
	}
	return fmt.Sprintf("write(%s,%s)", who(cc.Args[0]), val)
}

func noReturn(name string) bool {
	switch name {
	case "os.Exit", "log.Fatal", "log.Fatalf", "log.Fatalln",
		"github.com/sirupsen/logrus.Fatal", "github.com/sirupsen/logrus.Fatalf", "github.com/sirupsen/logrus.Fatalln",
		"(*github.com/sirupsen/logrus.Logger).Fatal", "(*github.com/sirupsen/logrus.Logger).Fatalf",
		"(*github.com/sirupsen/logrus.Entry).Fatal", "(*github.com/sirupsen/logrus.Entry).Fatalf":
		return true
	}
	return false
}

// isStatusField reports whether addr is &stage.Status.
func isStatusField(v ssa.Value) bool {
	fa, ok := v.(*ssa.FieldAddr)
	if !ok {
		return false
	}
	if !an.TypeIs(fa.X.Type(), "pkg/scheduler", "Stage") {
		return false
	}
	st := an.Deref(fa.X.Type()).Underlying().(*types.Struct)
	return st.Field(fa.Field).Name() == "Status"
}

// findRunStage finds, by role, the scheduler's runner caller: the function of
// pkg/scheduler that invokes Runner.Run.
func findRunStage(p *an.Prog) *ssa.Function {
	var out *ssa.Function
	for _, fn := range p.Funcs {
		if !inPkgs("pkg/scheduler")(fn) {
			continue
		}
		if len(an.CallsIn(fn, fnRunnerRun)) > 0 {
			// a wrapper that is itself a Runner and hands its own argument on unchanged (logging, tracing) is not
			// the function that runs a stage
			if isRunnerForwarder(fn) {
				continue
			}
			if out != nil {
				return nil
			}
			out = fn
		}
	}
	return out
}

// findErrorRecorders lists the functions that store into ExecutionGraph.error.
func findErrorRecorders(p *an.Prog) []*ssa.Function {
	var out []*ssa.Function
	for _, fn := range p.Funcs {
		found := false
		an.EachInstr(fn, func(in ssa.Instruction) {
			if st, ok := in.(*ssa.Store); ok && isGraphErrorAddr(st.Addr) {
				found = true
			}
		})
		if found {
			out = append(out, fn)
		}
	}
	return out
}

// allNodesOf reports whether v denotes every stage of a graph, and returns
// the graph values it can be: the result of ExecutionGraph.Nodes(), the nodes
// field itself, or the result of a helper of the package that collects every
// element of one of those into a slice (a loop over all nodes that appends
// its element on every iteration).
func allNodesOf(p *an.Prog, v ssa.Value, depth int) (graphs []ssa.Value, ok bool) {
	srcs := an.ResolveAll(v)
	if len(srcs) == 0 {
		return nil, false
	}
	for _, r := range srcs {
		switch x := r.(type) {
		case *ssa.Call:
			if cc, isNodes := an.IsCallTo(x, fnGraphNodes); isNodes {
				graphs = append(graphs, cc.Args[0])
				continue
			}
			callee := x.Call.StaticCallee()
			if callee == nil || depth == 0 || !inPkgs("pkg/scheduler")(callee) || callee.Blocks == nil {
				return nil, false
			}
			inner, which, good := collectsAll(p, callee, depth-1)
			if !good {
				return nil, false
			}
			_ = inner
			// map the callee's graph back to the argument
			for _, g := range which {
				mapped := false
				for _, gr := range an.ResolveAll(g) {
					for i, prm := range callee.Params {
						if gr == ssa.Value(prm) && i < len(x.Call.Args) {
							graphs = append(graphs, x.Call.Args[i])
							mapped = true
						}
					}
				}
				if !mapped {
					return nil, false
				}
			}
		case *ssa.UnOp:
			ap := an.AccessPath(x)
			if ap.LastField() == "nodes" && len(ap.Fields) == 1 {
				graphs = append(graphs, ap.Base)
				continue
			}
			return nil, false
		default:
			return nil, false
		}
	}
	return graphs, len(graphs) > 0
}

// collectsAll recognises a function that returns a slice holding every
// element of all-nodes-of-a-graph: its only loop ranges over all nodes and
// every iteration appends the loop's element to the slice that is returned.
func collectsAll(p *an.Prog, fn *ssa.Function, depth int) (*an.Loop, []ssa.Value, bool) {
	loops := an.Loops(fn)
	if len(loops) != 1 {
		return nil, nil, false
	}
	l := loops[0]
	if l.RangeOperand() == nil {
		return nil, nil, false
	}
	graphs, ok := allNodesOf(p, l.RangeOperand(), depth)
	if !ok {
		return nil, nil, false
	}
	_, elems := l.RangeKeyValue()
	isElem := func(v ssa.Value) bool {
		for _, e := range elems {
			if an.SameValue(v, e) {
				return true
			}
		}
		return false
	}
	ex := &an.Explorer{P: p, NoReturn: noReturn}
	l.Bound(ex)
	ex.Effect = func(in ssa.Instruction, st *an.State) string {
		call, ok := in.(*ssa.Call)
		if !ok {
			return ""
		}
		if b, ok := call.Call.Value.(*ssa.Builtin); ok && b.Name() == "append" {
			for _, e := range an.VariadicElems(call.Call.Args[1]) {
				if e != nil && isElem(e) {
					return "append(elem)"
				}
			}
		}
		return ""
	}
	outs := ex.Run(fn, l.BodyEntry(), l.Header, nil)
	if len(outs) == 0 {
		return nil, nil, false
	}
	for _, o := range outs {
		n := 0
		for _, e := range o.Effects {
			if e == "append(elem)" {
				n++
			}
		}
		if o.End != "stop" || o.StopBlock != l.Header || n != 1 {
			return nil, nil, false
		}
	}
	// what is returned is the appended slice
	for _, ret := range an.Returns(fn) {
		good := false
		for _, s := range an.Sources(an.RetVal(ret, 0)) {
			if call, ok := s.(*ssa.Call); ok {
				if b, ok := call.Call.Value.(*ssa.Builtin); ok && b.Name() == "append" {
					good = true
				}
			}
			if _, ok := s.(*ssa.MakeSlice); ok {
				good = true
			}
		}
		if !good {
			return nil, nil, false
		}
	}
	return l, graphs, true
}

// isBodyStage reports whether v denotes the stage the goroutine body works
// for: the body's stage parameter, or — when the body is a closure that
// captured the variable — what that variable holds.
func (s *sched) isBodyStage(v ssa.Value, st *an.State) bool {
	if s.bodyStage == nil {
		return false
	}
	cands := []ssa.Value{v}
	if st != nil {
		cands = append(cands, st.Root(v))
	}
	if s.carrier != nil {
		// the stage field of the per-launch record (read in the body or in a method of the record inlined into it)
		for _, cnd := range cands {
			for _, r := range an.ResolveAll(cnd) {
				u, ok := r.(*ssa.UnOp)
				if !ok || u.Op != token.MUL {
					continue
				}
				fa, ok := u.X.(*ssa.FieldAddr)
				if !ok || fa.Field != s.carrierField {
					continue
				}
				base := fa.X
				if base == ssa.Value(s.carrier) || an.SameValue(base, s.carrier) || (st != nil && st.SameRoot(base, s.carrier)) {
					return true
				}
				// a method of the record called from the body: its receiver is the record
				if prm, ok := an.Resolve(base).(*ssa.Parameter); ok && prm.Parent() != s.body && types.Identical(prm.Type(), s.carrier.Type()) {
					all := true
					sites := s.p.CallSitesOf(prm.Parent())
					idx := paramIndexOf(prm.Parent(), prm)
					for _, cs := range sites {
						if an.Outer(cs.Parent()) != s.body || cs.Common().IsInvoke() || idx >= len(cs.Common().Args) || !an.SameValue(cs.Common().Args[idx], s.carrier) {
							all = false
						}
					}
					if all && len(sites) > 0 {
						return true
					}
				}
			}
		}
		return false
	}
	var held []ssa.Value
	held = append(held, s.bodyStage)
	if fv, ok := s.bodyStage.(*ssa.FreeVar); ok {
		// the captured cell: what was stored into it where the closure was made
		for _, src := range an.Sources(s.launch.Call.Value) {
			mc, ok := src.(*ssa.MakeClosure)
			if !ok {
				continue
			}
			for i, b := range mc.Bindings {
				if i < len(s.body.FreeVars) && s.body.FreeVars[i] == fv {
					held = append(held, b)
					if al, ok := b.(*ssa.Alloc); ok && al.Referrers() != nil {
						for _, r := range *al.Referrers() {
							if sto, ok := r.(*ssa.Store); ok && sto.Addr == ssa.Value(al) {
								held = append(held, sto.Val)
							}
						}
					}
				}
			}
		}
	}
	for _, c := range cands {
		for _, h := range held {
			if c == h || an.SameValue(c, h) {
				return true
			}
			for _, r := range an.ResolveAll(c) {
				if r == h {
					return true
				}
			}
		}
	}
	return false
}

// chanLatchOf returns the channel latch around the launch, if the scheduler
// uses one instead of a WaitGroup.
func (s *sched) chanLatchOf() *chanLatch {
	if !s.latchLooked {
		s.latchLooked = true
		s.latch = resolveChanLatch(s)
	}
	return s.latch
}

// scheduleImpl finds the function that does the scheduling behind the exported entry point: Scheduler.Schedule
// itself, or — when Schedule only forwards (one call of a function of the package that gets the receiver and the
// graph, its result returned unchanged: `return s.schedule(context.Background(), g)`) — the function it forwards
// to. It also returns that function's graph parameter.
func scheduleImpl(p *an.Prog) (entry, impl *ssa.Function, graph *ssa.Parameter) {
	entry = p.Func("pkg/scheduler", "Scheduler", "Schedule")
	if entry == nil {
		return nil, nil, nil
	}
	impl = entry
	if len(entry.Params) > 1 {
		graph = entry.Params[1]
	}
	for depth := 0; depth < 3; depth++ {
		if impl.Blocks == nil || len(impl.Blocks) != 1 || graph == nil {
			return
		}
		var only *ssa.Call
		n := 0
		for _, in := range impl.Blocks[0].Instrs {
			if call, ok := in.(*ssa.Call); ok {
				if callee := call.Call.StaticCallee(); callee != nil && an.InModule(callee) && callee.Pkg == entry.Pkg {
					only = call
					n++
					continue
				}
				if an.InModule(call.Call.StaticCallee()) {
					return
				}
			}
		}
		if n != 1 {
			return
		}
		rets := an.Returns(impl)
		if len(rets) != 1 || len(rets[0].Results) != 1 || rets[0].Results[0] != ssa.Value(only) {
			return
		}
		callee := only.Call.StaticCallee()
		var gp *ssa.Parameter
		for i, a := range only.Call.Args {
			if a == ssa.Value(graph) && i < len(callee.Params) {
				gp = callee.Params[i]
			}
		}
		if gp == nil || callee.Blocks == nil {
			return
		}
		impl, graph = callee, gp
	}
	return
}

// isSchedule: f is the scheduling function or the exported entry point in front of it.
func (s *sched) isSchedule(f *ssa.Function) bool {
	return f != nil && (f == s.schedule || f == s.entry)
}

// scheduleCallsIn lists the calls in fn of the scheduling function (or its entry point).
func (s *sched) scheduleCallsIn(fn *ssa.Function) []ssa.CallInstruction {
	var out []ssa.CallInstruction
	if fn == nil {
		return nil
	}
	an.EachInstr(fn, func(in ssa.Instruction) {
		ci, ok := in.(ssa.CallInstruction)
		if !ok {
			return
		}
		for _, callee := range s.p.Callees(ci.Common()) {
			if s.isSchedule(callee) {
				out = append(out, ci)
				return
			}
		}
	})
	return out
}

// isRunnerForwarder: fn is the Run method of a type of the module that implements runner.Runner, and every
// Runner.Run it calls gets fn's own task parameter while its result is what fn returns.
func isRunnerForwarder(fn *ssa.Function) bool {
	if fn.Signature.Recv() == nil || fn.Name() != "Run" || len(fn.Params) != 2 || fn.Signature.Results().Len() != 1 {
		return false
	}
	if !an.TypeIs(fn.Params[1].Type(), "pkg/task", "Task") || !an.IsErrorType(fn.Signature.Results().At(0).Type()) {
		return false
	}
	calls := an.CallsIn(fn, fnRunnerRun)
	if len(calls) != 1 {
		return false
	}
	cc := calls[0].Common()
	if len(cc.Args) != 1 || !an.SameValue(cc.Args[0], fn.Params[1]) {
		return false
	}
	call, ok := calls[0].(*ssa.Call)
	if !ok {
		return false
	}
	for _, ret := range an.Returns(fn) {
		for _, src := range an.Sources(an.RetVal(ret, 0)) {
			if src != ssa.Value(call) {
				return false
			}
		}
	}
	return true
}
