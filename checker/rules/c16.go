package rules

import (
	"fmt"
	"go/token"
	"go/types"
	"sort"
	"strings"

	"golang.org/x/tools/go/ssa"

	"taskverif/an"
)

func init() { register("C16", checkC16) }

var formatDecoders = map[string]string{
	".yaml": "(*gopkg.in/yaml.v2.Decoder).Decode",
	".yml":  "(*gopkg.in/yaml.v2.Decoder).Decode",
	".json": "(*encoding/json.Decoder).Decode",
	".toml": "(*github.com/pelletier/go-toml.Decoder).Decode",
}

var formatNewDecoder = map[string]string{
	"(*gopkg.in/yaml.v2.Decoder).Decode":             "gopkg.in/yaml.v2.NewDecoder",
	"(*encoding/json.Decoder).Decode":                "encoding/json.NewDecoder",
	"(*github.com/pelletier/go-toml.Decoder).Decode": "github.com/pelletier/go-toml.NewDecoder",
}

func checkC16(c *an.Ctx) {
	c.Rule("C16.1", "registry (E9): unmarshalData dispatches, case-insensitively, .yaml/.yml → yaml.v2, .json → encoding/json, .toml → go-toml; each case only decodes the whole input into the one map that is returned unmodified; any other extension is an error; readURL/readFile derive the extension from content type / path only; no document is read through a truncating reader whose cut goes undetected")
	c.Rule("C16.2", "one decode path (E4): mapstructure.NewDecoder has one caller with one configuration; every configDefinition is produced by it; Load and LoadGlobalConfig both go load → decode → buildFromDefinition")
	c.Rule("C16.4", "closed schema (E9 over types): no field reachable from configDefinition has an interface type — every leaf is a string, bool, duration or a list/map of those, so mapstructure's weak conversion erases the decoders' dynamic types (YAML int, TOML int64, JSON float64; yaml.v2's map[interface{}]interface{}) before the configuration is built")
	c.Rule("C16.3", "format-blindness (E4): outside unmarshalData/readURL/readFile nothing in internal/config looks at a file extension, a content type, or at decoder-specific dynamic types (including map[string]interface{} asserted on a value taken out of a raw document: nested sections are that from JSON and TOML, map[interface{}]interface{} from YAML); a decode hook of the module asks at most whether its source is a string (the numeric kinds differ between the decoders); nothing reached from the loader compares two dynamic reflect.Types for identity")
	c.NotDecided = append(c.NotDecided, "that the three libraries produce maps mapstructure decodes identically (key types, numeric types, YAML 1.1 booleans, durations) — the property proper", "directory imports match *.yaml only (observation)")
	p := c.P
	um := p.Func("internal/config", "Loader", "unmarshalData")
	if um == nil {
		c.Und("C16.1", "config.(*Loader).unmarshalData", token.NoPos, "unmarshalData not found")
		return
	}
	// the dispatch itself may live in a function unmarshalData only forwards to: descend through pure
	// forwarders (one call of a function of the package that is handed the same data and extension)
	var forwarders []*ssa.Function
	for hops := 0; hops < 3; hops++ {
		var next *ssa.Function
		nCalls := 0
		an.EachInstr(um, func(in ssa.Instruction) {
			call, ok := in.(*ssa.Call)
			if !ok {
				return
			}
			if _, isB := call.Call.Value.(*ssa.Builtin); isB {
				return
			}
			nCalls++
			g := call.Call.StaticCallee()
			// (the dispatch may have moved to another package of the module, with the old name left as a forwarder)
			if g == nil || g.Blocks == nil || !an.InModule(g) {
				return
			}
			passed := 0
			for _, a := range call.Call.Args {
				if prm, ok := a.(*ssa.Parameter); ok && prm.Parent() == um {
					if _, isSl := prm.Type().Underlying().(*types.Slice); isSl {
						passed++
					}
					if b, ok := prm.Type().Underlying().(*types.Basic); ok && b.Kind() == types.String {
						passed++
					}
				}
			}
			if passed == 2 {
				next = g
			}
		})
		if next == nil || nCalls != 1 {
			break
		}
		forwarders = append(forwarders, um)
		um = next
	}
	isForwarder := map[*ssa.Function]bool{}
	for _, f := range forwarders {
		isForwarder[f] = true
	}
	var dataParam, extParam *ssa.Parameter
	for _, prm := range um.Params {
		if _, ok := prm.Type().Underlying().(*types.Slice); ok {
			dataParam = prm
		}
		if b, ok := prm.Type().Underlying().(*types.Basic); ok && b.Kind() == types.String {
			extParam = prm
		}
	}
	if dataParam == nil || extParam == nil {
		c.Und("C16.1", an.Short(um)+":params", um.Pos(), "unmarshalData does not take (data, extension)")
		return
	}
	// the switched value: case-insensitive form of ext
	isExtCmp := func(v ssa.Value) (lit string, folded bool, ok bool) {
		bo, isb := v.(*ssa.BinOp)
		if !isb || bo.Op != token.EQL {
			return "", false, false
		}
		s, isS := an.ConstString(bo.Y)
		if !isS {
			return "", false, false
		}
		for _, src := range an.Sources(bo.X) {
			if src == ssa.Value(extParam) {
				return s, false, true
			}
			if call, okc := src.(*ssa.Call); okc && an.ShortCallee(&call.Call) == "strings.ToLower" && an.SameValue(call.Call.Args[0], extParam) {
				return s, true, true
			}
		}
		return "", false, false
	}
	// second idiom: a constant registry — a package-level map from extension to decoding function,
	// looked up with the (folded) extension
	registry := map[string]*ssa.Function{}
	var regLookup *ssa.Lookup
	regFolded := false
	an.EachInstr(um, func(in ssa.Instruction) {
		lk, ok := in.(*ssa.Lookup)
		if !ok {
			return
		}
		var g *ssa.Global
		for _, s := range an.Sources(lk.X) {
			if u, ok := s.(*ssa.UnOp); ok && u.Op == token.MUL {
				if gg, ok := u.X.(*ssa.Global); ok {
					g = gg
				}
			}
		}
		if g == nil {
			return
		}
		keyFromExt, fold := false, false
		for _, src := range an.Sources(lk.Index) {
			if src == ssa.Value(extParam) {
				keyFromExt = true
			}
			if call, okc := src.(*ssa.Call); okc && an.ShortCallee(&call.Call) == "strings.ToLower" && an.SameValue(call.Call.Args[0], extParam) {
				keyFromExt, fold = true, true
			}
		}
		if !keyFromExt {
			return
		}
		// the literal the global is initialised with
		if initFn := g.Pkg.Func("init"); initFn != nil {
			an.EachInstr(initFn, func(in2 ssa.Instruction) {
				mu, ok := in2.(*ssa.MapUpdate)
				if !ok {
					return
				}
				mm, ok := mu.Map.(*ssa.MakeMap)
				if !ok || mm.Referrers() == nil {
					return
				}
				stored := false
				for _, r := range *mm.Referrers() {
					if st, ok := r.(*ssa.Store); ok && st.Addr == ssa.Value(g) {
						stored = true
					}
				}
				k, isK := an.ConstString(mu.Key)
				if !stored || !isK {
					return
				}
				for _, v := range an.Sources(mu.Value) {
					switch f := v.(type) {
					case *ssa.Function:
						registry[k] = f
					case *ssa.MakeClosure:
						registry[k] = f.Fn.(*ssa.Function)
					case *ssa.ChangeType:
						if fn, ok := f.X.(*ssa.Function); ok {
							registry[k] = fn
						}
					}
				}
			})
		}
		// nobody else writes the registry
		writers := 0
		for _, fn := range p.Funcs {
			an.EachInstr(fn, func(in2 ssa.Instruction) {
				switch y := in2.(type) {
				case *ssa.Store:
					if y.Addr == ssa.Value(g) {
						writers++
					}
				case *ssa.MapUpdate:
					for _, s := range an.Sources(y.Map) {
						if u, ok := s.(*ssa.UnOp); ok && u.X == ssa.Value(g) {
							writers++
						}
					}
				}
			})
		}
		if writers == 0 && len(registry) > 0 {
			regLookup, regFolded = lk, fold
			c.Anchor("decoder registry", g.Name())
		} else {
			registry = map[string]*ssa.Function{}
		}
	})
	folded := true
	seenCmp := false
	if regLookup != nil {
		seenCmp, folded = true, regFolded
	}
	an.EachInstr(um, func(in ssa.Instruction) {
		if v, ok := in.(ssa.Value); ok {
			if _, f, ok := isExtCmp(v); ok {
				seenCmp = true
				if !f {
					folded = false
				}
			}
		}
	})
	c.Check(seenCmp && folded, "C16.1", an.Short(um)+":case-insensitive", um.Pos(), "the extension is compared in lower case", "the extension is not compared case-insensitively")
	var table []string
	rows := []string{".yaml", ".yml", ".json", ".toml", ".ini", ""}
	for _, ext := range rows {
		ext := ext
		ex := &an.Explorer{P: p, NoReturn: noReturn, MaxDepth: 2}
		if regLookup != nil {
			ex.Inline = func(f *ssa.Function) bool { return an.Outer(f).Pkg == um.Pkg && f != um }
			ex.ResolveCallee = func(cc *ssa.CallCommon, st *an.State) *ssa.Function {
				for _, s := range an.Sources(cc.Value) {
					if s == ssa.Value(regLookup) {
						return registry[ext]
					}
					if e, ok := s.(*ssa.Extract); ok && e.Tuple == ssa.Value(regLookup) && e.Index == 0 {
						return registry[ext]
					}
				}
				return nil
			}
		}
		ex.Atom = func(v ssa.Value) (an.AVal, bool) {
			if lit, _, ok := isExtCmp(v); ok {
				return an.ABool(lit == ext), true
			}
			if regLookup != nil {
				_, present := registry[ext]
				if e, ok := v.(*ssa.Extract); ok && e.Tuple == ssa.Value(regLookup) {
					if e.Index == 1 {
						return an.ABool(present), true
					}
					if present {
						return an.AVal{K: an.ANonNil}, true
					}
					return an.AVal{K: an.ANil}, true
				}
				if v == ssa.Value(regLookup) && !regLookup.CommaOk {
					if present {
						return an.AVal{K: an.ANonNil}, true
					}
					return an.AVal{K: an.ANil}, true
				}
			}
			return an.AVal{}, false
		}
		ex.Effect = func(in ssa.Instruction, st *an.State) string {
			call, ok := in.(*ssa.Call)
			if !ok {
				return ""
			}
			name := an.ShortCallee(&call.Call)
			if strings.HasSuffix(name, ".Decode") || strings.Contains(name, "Unmarshal") {
				// the decoder and its input
				into := "?"
				if a, ok := an.Resolve(st.Root(call.Call.Args[len(call.Call.Args)-1])).(*ssa.Alloc); ok {
					into = "&" + a.Comment
				}
				input := "?"
				for _, src := range an.Sources(call.Call.Args[0]) {
					if nd, ok := src.(*ssa.Call); ok {
						input = an.ShortCallee(&nd.Call) + "(" + an.FieldProv(st.Root(nd.Call.Args[0])) + ")"
					}
				}
				return fmt.Sprintf("%s[%s→%s]", name, input, into)
			}
			// anything else done to a decoder (UseNumber, Strict, …) or to the map
			if len(call.Call.Args) > 0 {
				t := call.Call.Args[0].Type().String()
				if strings.Contains(t, "Decoder") && !strings.HasSuffix(name, "NewDecoder") {
					return "tweak:" + name
				}
			}
			return ""
		}
		outs := ex.Run(um, um.Blocks[0], nil, nil)
		var cells []string
		bad := ""
		for _, o := range outs {
			cells = append(cells, strings.Join(o.Effects, ",")+"→"+o.End)
			want, known := formatDecoders[ext]
			var decodes, tweaks []string
			for _, e := range o.Effects {
				if strings.HasPrefix(e, "tweak:") {
					tweaks = append(tweaks, e)
				} else {
					decodes = append(decodes, e)
				}
			}
			if !known {
				if len(decodes) > 0 {
					bad = "an unknown extension is decoded by " + decodes[0]
				}
				if o.End == "return" && o.Ret[len(o.Ret)-1].K != an.ANonNil {
					bad = "an unknown extension is not an error"
				}
				continue
			}
			if len(tweaks) > 0 {
				bad = "this format's decoder is configured differently from the others (" + strings.Join(tweaks, ",") + "): the same document decodes to different values"
			}
			if len(decodes) != 1 {
				bad = fmt.Sprintf("expected exactly one Decode, got %v", decodes)
				continue
			}
			wantInput := formatNewDecoder[want] + "(bytes.NewReader([" + "param:" + dataParam.Name() + "]))"
			_ = wantInput
			if !strings.HasPrefix(decodes[0], want+"[") {
				bad = "decoded by " + decodes[0] + ", want " + want
			} else if !strings.Contains(decodes[0], formatNewDecoder[want]+"(") || !strings.Contains(decodes[0], "param:"+dataParam.Name()) {
				bad = "the decoder does not read the whole input: " + decodes[0]
			}
		}
		if len(outs) == 0 {
			bad = "no path"
		}
		name := ext
		if name == "" {
			name = "(empty)"
		}
		table = append(table, fmt.Sprintf("%-8s -> %v", name, dedup(cells)))
		key := an.Short(um) + ":row " + name
		if bad != "" {
			c.Bad("C16.1", key, um.Pos(), "extension %s: %s", name, bad)
		} else {
			c.OK("C16.1", key, um.Pos(), "%v", dedup(cells))
		}
	}
	c.Tables["unmarshalData"] = table
	// the map is returned unmodified: no MapUpdate / delete on it in this function
	touched := false
	an.EachInstr(um, func(in ssa.Instruction) {
		switch x := in.(type) {
		case *ssa.MapUpdate:
			touched = true
			_ = x
		case *ssa.Call:
			if b, ok := x.Call.Value.(*ssa.Builtin); ok && b.Name() == "delete" {
				touched = true
			}
		}
	})
	c.Check(!touched, "C16.1", an.Short(um)+":returns-decoded-map", um.Pos(), "the decoded map is returned as decoded", "unmarshalData edits the decoded map")
	// the functions that choose the extension: the callers of unmarshalData and the helpers only they use
	deciders := map[*ssa.Function]bool{um: true}
	extIdx := paramIndexOf(um, extParam)
	// the sites that choose an extension: the calls of the dispatch function, and for a forwarder its own callers
	type extSite struct {
		site ssa.CallInstruction
		ext  ssa.Value
	}
	var extSites []extSite
	var collectSites func(fn *ssa.Function, idx int, depth int)
	collectSites = func(fn *ssa.Function, idx int, depth int) {
		for _, site := range p.CallSitesOf(fn) {
			args := site.Common().Args
			ai := idx
			if site.Common().IsInvoke() {
				ai = idx - 1
			}
			if ai < 0 || ai >= len(args) {
				continue
			}
			deciders[site.Parent()] = true
			if isForwarder[site.Parent()] && depth > 0 {
				if pi := paramIndexOf(site.Parent(), args[ai]); pi >= 0 {
					collectSites(site.Parent(), pi, depth-1)
					continue
				}
			}
			extSites = append(extSites, extSite{site, args[ai]})
		}
	}
	collectSites(um, extIdx, 3)
	for changed := true; changed; {
		changed = false
		for _, fn := range p.Funcs {
			if deciders[fn] || !inPkgs("internal/config")(fn) {
				continue
			}
			sites := p.CallSitesOf(fn)
			if len(sites) == 0 {
				continue
			}
			all := true
			for _, st := range sites {
				if !deciders[st.Parent()] || st.Parent() == p.Func("internal/config", "Loader", "load") && fn.Signature.Results().Len() != 1 {
					all = false
				}
			}
			// only value-returning helpers that feed the extension (string results)
			if all && fn.Signature.Results().Len() == 1 {
				if b, ok := fn.Signature.Results().At(0).Type().Underlying().(*types.Basic); ok && b.Kind() == types.String {
					deciders[fn] = true
					changed = true
				}
			}
		}
	}
	var urlFn *ssa.Function
	for _, es := range extSites {
		f := es.site.Parent()
		for g := range p.Reach([]*ssa.Function{f}, func(e an.CallEdge) bool {
			return e.Kind == an.EdgeCall && an.Outer(e.Callee).Pkg == um.Pkg && e.Callee != um && !isForwarder[e.Callee]
		}) {
			if g.Blocks != nil && fetchesOverHTTP(g) {
				urlFn = f
			}
		}
	}
	rf, ru := (*ssa.Function)(nil), urlFn
	for _, es := range extSites {
		f := es.site.Parent()
		if f != urlFn {
			rf = f
		}
	}
	for _, f := range []*ssa.Function{rf, ru} {
		if f == nil {
			continue
		}
		for _, es := range extSites {
			site := es.site
			if site.Parent() != f {
				continue
			}
			var exts []string
			for _, src := range p.DeepSources(es.ext, 3, false) {
				if s, ok := an.ConstString(src); ok {
					exts = append(exts, fmt.Sprintf("%q", s))
					continue
				}
				if call, ok := src.(*ssa.Call); ok {
					exts = append(exts, an.ShortCallee(&call.Call))
					continue
				}
				exts = append(exts, an.Prov(src))
			}
			sort.Strings(exts)
			got := strings.Join(dedup(exts), ",")
			want := "path/filepath.Ext"
			if f == ru {
				want = `"",".json",".yaml",path/filepath.Ext`
			}
			okSet := got == want
			if f == ru && !okSet {
				// the empty fallback need not be a value of its own when the code returns the default directly
				okSet = got == `".json",".yaml",path/filepath.Ext`
			}
			c.Check(okSet, "C16.1", an.Short(f)+":extension", site.Pos(), "the extension comes from "+want, "the extension handed to unmarshalData comes from {"+got+"}, want {"+want+"}")
		}
	}
	if ru != nil {
		// ".json" is chosen exactly for media type application/json
		okMT := false
		for f := range deciders {
			an.EachInstr(f, func(in ssa.Instruction) {
				if bo, ok := in.(*ssa.BinOp); ok && bo.Op == token.EQL {
					if s, _ := an.ConstString(bo.Y); s == "application/json" {
						okMT = true
					}
				}
			})
		}
		c.Check(okMT, "C16.1", an.Short(ru)+":content-type", ru.Pos(), "application/json selects the JSON decoder", "readURL does not map application/json to .json")
	}

	// C16.2
	decoding(c, "C16.2")
	dec := p.Func("internal/config", "Loader", "decode")
	nDef := 0
	for _, fn := range p.Funcs {
		an.EachInstr(fn, func(in ssa.Instruction) {
			if a, ok := in.(*ssa.Alloc); ok && an.TypeIs(a.Type(), "internal/config", "configDefinition") {
				nDef++
				c.Check(fn == dec, "C16.2", an.Short(fn)+":configDefinition", a.Pos(), "the definition is produced by the single decode function", "a configDefinition is built outside decode: that path bypasses the shared mapstructure decoder")
			}
		})
	}
	if nDef == 0 {
		c.Und("C16.2", "config.configDefinition:producers", token.NoPos, "no configDefinition is allocated")
	}
	ld := p.Func("internal/config", "Loader", "load")
	bfd := p.Func("internal/config", "", "buildFromDefinition")
	_, _ = ld, bfd
	if f := p.Func("internal/config", "Loader", "Load"); f != nil {
		loadPipeline(c, "C16.2", f, map[string]bool{"pipeline": true}, false)
	}
	if f, _ := globalLoader(p); f != nil {
		loadPipeline(c, "C16.2", f, map[string]bool{"pipeline": true}, true)
	}

	wholeInput(c, "C16.1")
	// C16.4: the definition schema is closed under decoder-independent types
	hookKindBlind(c, "C16.3")
	closedSchema(c, "C16.4")

	// C16.3
	allowed := deciders
	clean := true
	for _, fn := range p.Funcs {
		if !inPkgs("internal/config")(fn) || allowed[fn] {
			continue
		}
		an.EachInstr(fn, func(in ssa.Instruction) {
			switch x := in.(type) {
			case *ssa.Call:
				name := an.ShortCallee(&x.Call)
				if name == "path/filepath.Ext" || name == "path.Ext" || strings.HasPrefix(name, "mime.") {
					clean = false
					c.Bad("C16.3", an.Short(fn)+":"+name, x.Pos(), "%s looks at the file type (%s) outside the decoding functions: behaviour may differ between formats", an.Short(fn), name)
				}
				if name == "strings.HasSuffix" || name == "strings.EqualFold" {
					if s, ok := an.ConstString(x.Call.Args[len(x.Call.Args)-1]); ok {
						if _, isExt := formatDecoders[strings.ToLower(s)]; isExt {
							clean = false
							c.Bad("C16.3", an.Short(fn)+":suffix("+s+")", x.Pos(), "%s tests for the extension %s outside the decoding functions", an.Short(fn), s)
						}
					}
				}
			case *ssa.BinOp:
				if s, ok := an.ConstString(x.Y); ok && (x.Op == token.EQL || x.Op == token.NEQ) {
					if _, isExt := formatDecoders[strings.ToLower(s)]; isExt {
						clean = false
						c.Bad("C16.3", an.Short(fn)+":compare("+s+")", x.Pos(), "%s compares with the extension %s outside the decoding functions", an.Short(fn), s)
					}
				}
			case *ssa.TypeAssert:
				t := x.AssertedType.String()
				if t == "map[interface{}]interface{}" || (t == "map[string]interface{}" && rawDocValue(x.X)) || strings.HasPrefix(t, "encoding/json.") || strings.Contains(t, "go-toml") || strings.Contains(t, "yaml.v2") {
					clean = false
					c.Bad("C16.3", an.Short(fn)+":assert("+t+")", x.Pos(), "%s distinguishes the decoder-specific dynamic type %s: only one format produces it, so the formats are treated differently", an.Short(fn), t)
				}
			}
		})
	}
	// … the same for what the loader reaches in other packages of the module (a hand-written merge of raw
	// documents in pkg/utils that switches on the container types is format-dependent in the same way)
	var loaderRoots []*ssa.Function
	for _, fn := range p.Funcs {
		if inPkgs("internal/config")(fn) && fn.Signature.Recv() != nil && an.TypeIs(fn.Signature.Recv().Type(), "internal/config", "Loader") {
			loaderRoots = append(loaderRoots, fn)
		}
	}
	for fn := range p.Reach(loaderRoots, func(e an.CallEdge) bool { return e.Kind != an.EdgeGo && an.InModule(e.Callee) }) {
		if fn.Blocks == nil || inPkgs("internal/config")(fn) {
			continue
		}
		an.EachInstr(fn, func(in ssa.Instruction) {
			x, ok := in.(*ssa.TypeAssert)
			if !ok {
				return
			}
			t := x.AssertedType.String()
			if t == "map[interface{}]interface{}" || (t == "map[string]interface{}" && rawDocValue(x.X)) || strings.HasPrefix(t, "encoding/json.") || strings.Contains(t, "go-toml") || strings.Contains(t, "yaml.v2") {
				clean = false
				c.Bad("C16.3", an.Short(fn)+":assert("+t+")", x.Pos(), "%s (reached from the loader) distinguishes the decoder-specific dynamic type %s: only one format produces it, so the formats are treated differently", an.Short(fn), t)
			}
		})
	}
	// … nor compares the dynamic types of two raw values for identity: the same document has different dynamic
	// types per format (numbers: int / int64 / float64; maps: map[interface{}]interface{} only from YAML), so
	// "these two have the same type" holds for one format and fails for another
	isReflectType := func(t types.Type) bool {
		n, ok := t.(*types.Named)
		return ok && n.Obj().Pkg() != nil && n.Obj().Pkg().Path() == "reflect" && n.Obj().Name() == "Type"
	}
	dynamicType := func(v ssa.Value) bool {
		for _, src := range an.Sources(v) {
			call, ok := src.(*ssa.Call)
			if !ok {
				continue
			}
			switch an.ShortCallee(&call.Call) {
			case "(reflect.Value).Type":
				return true
			case "reflect.TypeOf":
				if len(call.Call.Args) == 1 {
					arg := call.Call.Args[0]
					if mi, ok := arg.(*ssa.MakeInterface); ok {
						// reflect.TypeOf(T(…)) of a concrete static type is a fixed type, not a dynamic one
						if _, isIface := mi.X.Type().Underlying().(*types.Interface); !isIface {
							continue
						}
					}
					return true
				}
			}
		}
		return false
	}
	for fn := range p.Reach(loaderRoots, func(e an.CallEdge) bool { return e.Kind != an.EdgeGo && an.InModule(e.Callee) }) {
		if fn.Blocks == nil || allowed[fn] {
			continue
		}
		an.EachInstr(fn, func(in ssa.Instruction) {
			x, ok := in.(*ssa.BinOp)
			if !ok || (x.Op != token.EQL && x.Op != token.NEQ) || !isReflectType(x.X.Type()) || !isReflectType(x.Y.Type()) {
				return
			}
			if dynamicType(x.X) && dynamicType(x.Y) {
				clean = false
				c.Bad("C16.3", an.Short(fn)+":same-dynamic-type", x.Pos(), "%s (reached from the loader) compares the dynamic types of two values for identity: decoded values have decoder-specific dynamic types (a number is int from YAML, int64 from TOML, float64 from JSON), so the comparison comes out differently per format", an.Short(fn))
			}
		})
	}
	// decode hooks written in the module see the decoder's dynamic types (yaml: int, toml: int64, json: float64):
	// a hook that turns the raw value into text by its dynamic type makes the three formats load differently
	for _, fn := range p.Funcs {
		if !an.InModule(fn) || fn.Blocks == nil || !isDecodeHook(fn.Signature) {
			continue
		}
		data := fn.Params[len(fn.Params)-1]
		for _, ret := range an.Returns(fn) {
			for _, src := range an.Sources(an.RetVal(ret, 0)) {
				if mi, ok := src.(*ssa.MakeInterface); ok {
					src = mi.X
				}
				for _, s2 := range an.Sources(src) {
					call, ok := s2.(*ssa.Call)
					if !ok {
						continue
					}
					name := an.ShortCallee(&call.Call)
					if !(strings.HasPrefix(name, "fmt.Sprint") || strings.HasPrefix(name, "strconv.Format")) {
						continue
					}
					dep := false
					for _, a := range call.Call.Args {
						if an.ParamDeps(a)[data] {
							dep = true
						}
						for _, e := range an.VariadicElems(a) {
							if e != nil && an.ParamDeps(e)[data] {
								dep = true
							}
						}
					}
					if dep {
						clean = false
						c.Bad("C16.3", an.Short(fn)+":renders-raw-value", call.Pos(), "the decode hook %s turns the raw value into text with %s: the text depends on the dynamic type the decoder produced (a number is int from YAML, int64 from TOML and float64 from JSON — 20260927 becomes 2.0260927e+07 only there)", an.Short(fn), name)
					}
				}
			}
		}
	}
	if clean {
		c.OK("C16.3", "internal/config:format-blind", token.NoPos, "no function of internal/config besides unmarshalData/readFile/readURL consults extensions, content types or decoder-specific types")
	}
	if ldir := p.Func("internal/config", "Loader", "loadDir"); ldir != nil {
		an.EachInstr(ldir, func(in ssa.Instruction) {
			if k, ok := in.(*ssa.Call); ok && an.ShortCallee(&k.Call) == "path/filepath.Join" {
				c.Note("C16.3", an.Short(ldir)+":glob", k.Pos(), "directory imports match *.yaml only")
			}
		})
	}
}

// isDecodeHook reports whether sig has the shape of a mapstructure DecodeHookFunc.
func isDecodeHook(sig *types.Signature) bool {
	if sig.Params().Len() != 3 || sig.Results().Len() != 2 {
		return false
	}
	if _, ok := sig.Params().At(2).Type().Underlying().(*types.Interface); !ok {
		return false
	}
	if _, ok := sig.Results().At(0).Type().Underlying().(*types.Interface); !ok {
		return false
	}
	if !an.IsErrorType(sig.Results().At(1).Type()) {
		return false
	}
	for i := 0; i < 2; i++ {
		t := sig.Params().At(i).Type().String()
		if t != "reflect.Type" && t != "reflect.Kind" {
			return false
		}
	}
	return true
}

// closedSchema checks C16.4.
func closedSchema(c *an.Ctx, rule string) {
	sp := c.P.Pkg("internal/config")
	if sp == nil {
		return
	}
	root := sp.Type("configDefinition")
	if root == nil {
		if n := c.P.Named("internal/config", "configDefinition"); n != nil {
			if tn, ok := sp.Members[n.Obj().Name()].(*ssa.Type); ok {
				root = tn
			}
		}
	}
	if root == nil {
		c.Und(rule, "config.configDefinition", token.NoPos, "configDefinition not found")
		return
	}
	seen := map[types.Type]bool{}
	var open []string
	nFields := 0
	var walk func(t types.Type, path string)
	walk = func(t types.Type, path string) {
		if seen[t] {
			return
		}
		seen[t] = true
		switch u := t.Underlying().(type) {
		case *types.Interface:
			open = append(open, path)
		case *types.Pointer:
			walk(u.Elem(), path)
		case *types.Slice:
			walk(u.Elem(), path+"[]")
		case *types.Array:
			walk(u.Elem(), path+"[]")
		case *types.Map:
			walk(u.Key(), path+"[key]")
			walk(u.Elem(), path+"[]")
		case *types.Struct:
			// library types (time.Duration is not a struct; a struct from another module is a leaf)
			if n, ok := t.(*types.Named); ok && n.Obj().Pkg() != nil && !strings.HasPrefix(n.Obj().Pkg().Path(), an.ModulePath) {
				return
			}
			for i := 0; i < u.NumFields(); i++ {
				nFields++
				f := u.Field(i)
				delete(seen, f.Type()) // the same leaf type under another field is another path
				if _, isBasic := f.Type().Underlying().(*types.Basic); isBasic {
					continue
				}
				walk(f.Type(), path+"."+f.Name())
			}
		}
	}
	walk(root.Type(), "configDefinition")
	sort.Strings(open)
	c.Check(len(open) == 0 && nFields > 10, rule, "config.configDefinition:closed", root.Pos(), fmt.Sprintf("no interface-typed field among the %d fields reachable from configDefinition", nFields), fmt.Sprintf("the definition keeps decoder-specific values: %v have an interface type, so a number arrives as int from YAML, int64 from TOML and float64 from JSON (and nested YAML maps as map[interface{}]interface{}) and the three formats load differently", open))
}

// fetchesOverHTTP: fn calls something of net/http that hands back a *http.Response (http.Get, Client.Do, …).
func fetchesOverHTTP(fn *ssa.Function) bool {
	found := false
	an.EachInstr(fn, func(in ssa.Instruction) {
		ci, ok := in.(ssa.CallInstruction)
		if !ok {
			return
		}
		if !strings.Contains(an.ShortCallee(ci.Common()), "net/http.") {
			return
		}
		res := ci.Common().Signature().Results()
		for i := 0; i < res.Len(); i++ {
			if an.TypeIs(res.At(i).Type(), "net/http", "Response") {
				found = true
			}
		}
	})
	return found
}

// wholeInput: what the loader reads is what the decoders get. io.LimitReader cuts its source silently (library
// summary), and a cut document is format-dependent — the YAML prefix that ends at a line end still parses, the
// JSON one never does. A limit is fine when the cut is detected: LimitReader(r, N) followed by a test of
// len(data) against a constant that only a cut document can reach (len > K with K < N, len ≥ K with K ≤ N).
func wholeInput(c *an.Ctx, rule string) {
	p := c.P
	var roots []*ssa.Function
	for _, fn := range p.Funcs {
		if inPkgs("internal/config")(fn) && fn.Signature.Recv() != nil && an.TypeIs(fn.Signature.Recv().Type(), "internal/config", "Loader") {
			roots = append(roots, fn)
		}
	}
	n := 0
	for _, fn := range sortedFns(func() map[*ssa.Function]bool {
		m := map[*ssa.Function]bool{}
		for f := range p.Reach(roots, func(e an.CallEdge) bool { return e.Kind != an.EdgeGo && an.InModule(e.Callee) }) {
			if f.Blocks != nil {
				m[f] = true
			}
		}
		return m
	}()) {
		for _, ci := range an.CallsIn(fn, "io.LimitReader") {
			lim, ok := ci.(*ssa.Call)
			if !ok {
				continue
			}
			n++
			key := an.Short(fn) + ":LimitReader"
			limit, isConst := an.ConstInt(lim.Call.Args[1])
			if !isConst {
				c.Und(rule, key, lim.Pos(), "the limit of io.LimitReader is not a constant: whether a cut document is detected cannot be decided by this rule")
				continue
			}
			// the bytes read through it
			detected := false
			an.EachInstr(fn, func(in ssa.Instruction) {
				bo, ok := in.(*ssa.BinOp)
				if !ok || detected {
					return
				}
				x, y, op := bo.X, bo.Y, bo.Op
				if _, isK := an.ConstInt(x); isK {
					x, y = y, x
					switch op {
					case token.LSS:
						op = token.GTR
					case token.LEQ:
						op = token.GEQ
					case token.GTR:
						op = token.LSS
					case token.GEQ:
						op = token.LEQ
					}
				}
				k, isK := an.ConstInt(y)
				if !isK {
					return
				}
				call, ok := x.(*ssa.Call)
				if !ok {
					return
				}
				b, ok := call.Call.Value.(*ssa.Builtin)
				if !ok || b.Name() != "len" {
					return
				}
				through := false
				for _, src := range an.Sources(call.Call.Args[0]) {
					if ex, ok := src.(*ssa.Extract); ok {
						src = ex.Tuple
					}
					rd, ok := src.(*ssa.Call)
					if !ok {
						continue
					}
					name := an.ShortCallee(&rd.Call)
					if name != "io/ioutil.ReadAll" && name != "io.ReadAll" {
						continue
					}
					for _, a := range an.Sources(rd.Call.Args[0]) {
						if mi, ok := a.(*ssa.MakeInterface); ok {
							a = mi.X
						}
						if a == ssa.Value(lim) {
							through = true
						}
					}
				}
				if !through {
					return
				}
				if (op == token.GTR && k < limit) || (op == token.GEQ && k <= limit) {
					detected = true
				}
			})
			c.Check(detected, rule, key, lim.Pos(), "a document cut at the limit is detected by a length test only a cut document can meet", fmt.Sprintf("%s reads the document through io.LimitReader(…, %d) and no test of the length read can tell a cut document from a whole one: a longer file is cut silently, and the cut prefix loads as YAML, fails as JSON", an.Short(fn), limit))
		}
	}
	if n == 0 {
		c.OK(rule, "loader:whole-input", token.NoPos, "nothing the loader reaches reads a document through a truncating reader")
	}
}

// rawDocValue reports whether v is a value taken out of a raw document: an element of a container of
// interface values (a map lookup, a range over a map, an element of a list) or an interface parameter.
// Only for such a value is map[string]interface{} a decoder-specific dynamic type (JSON and TOML build
// nested sections as map[string]interface{}, yaml.v2 as map[interface{}]interface{}); the same assertion
// on what a sync/atomic.Value holds, say, is about the module's own data.
func rawDocValue(v ssa.Value) bool {
	ifaceElem := func(t types.Type) bool {
		switch u := t.Underlying().(type) {
		case *types.Map:
			return types.IsInterface(u.Elem())
		case *types.Slice:
			return types.IsInterface(u.Elem())
		case *types.Pointer:
			if a, ok := u.Elem().Underlying().(*types.Array); ok {
				return types.IsInterface(a.Elem())
			}
		}
		return false
	}
	for _, src := range an.Sources(v) {
		switch x := src.(type) {
		case *ssa.Parameter:
			if types.IsInterface(x.Type()) {
				return true
			}
		case *ssa.Lookup:
			if ifaceElem(x.X.Type()) {
				return true
			}
		case *ssa.Extract:
			switch t := x.Tuple.(type) {
			case *ssa.Lookup:
				if ifaceElem(t.X.Type()) {
					return true
				}
			case *ssa.Next:
				if rg, ok := t.Iter.(*ssa.Range); ok && ifaceElem(rg.X.Type()) {
					return true
				}
			}
		case *ssa.UnOp:
			if ia, ok := x.X.(*ssa.IndexAddr); ok && x.Op == token.MUL && ifaceElem(ia.X.Type()) {
				return true
			}
		}
	}
	return false
}
