package rules

import (
	"fmt"
	"go/token"
	"go/types"
	"sort"
	"strings"

	"golang.org/x/tools/go/ssa"

	"taskverif/an"
)

func init() { register("C08", checkC08) }

func chainCfg(p *an.Prog) *an.ChainCfg {
	return &an.ChainCfg{P: p, ParamDepth: 0,
		IsMerge:   func(n string) bool { return n == fnMerge || n == "(pkg/variables.Variables).Merge" },
		IsWith:    func(n string) bool { return n == fnWith || n == "(pkg/variables.Variables).With" },
		IsFromMap: func(n string) bool { return n == fnFromMap },
		IsEmpty:   func(n string) bool { return n == "pkg/variables.NewVariables" },
	}
}

// freshContainer reports whether v is a container built in this activation
// (result of Merge/With/FromMap/NewVariables or a Variables literal), looking
// through loads of fields that were stored in the same function.
func freshContainer(v ssa.Value, depth int) bool {
	if depth > 4 {
		return false
	}
	srcs := an.Sources(v)
	if len(srcs) == 0 {
		return false
	}
	for _, s := range srcs {
		switch x := s.(type) {
		case *ssa.Call:
			switch an.ShortCallee(&x.Call) {
			case fnMerge, fnWith, fnFromMap, "pkg/variables.NewVariables", "(pkg/variables.Variables).Merge", "(pkg/variables.Variables).With":
				continue
			}
			return false
		case *ssa.Alloc:
			if an.TypeIs(x.Type(), "pkg/variables", "Variables") {
				continue
			}
			return false
		case *ssa.TypeAssert:
			if !freshContainer(x.X, depth+1) {
				return false
			}
		case *ssa.UnOp:
			if fwd, ok := an.ForwardLoad(x); ok {
				// the field belongs to a fresh object and was assigned here
				fa := x.X.(*ssa.FieldAddr)
				if fresh, _ := an.FreshBase(fa.X); fresh && freshContainer(fwd[0], depth+1) {
					continue
				}
			}
			// the field of an object a constructor helper has just built: what the helper put there
			if fa, ok := x.X.(*ssa.FieldAddr); ok && x.Op == token.MUL && builtByConstructorCall(x.Parent(), fa.X) {
				okAll, n := true, 0
				for _, src := range an.ResolveAll(fa.X) {
					var call *ssa.Call
					switch y := src.(type) {
					case *ssa.Call:
						call = y
					case *ssa.Extract:
						call, _ = y.Tuple.(*ssa.Call)
					}
					if call == nil {
						okAll = false
						continue
					}
					callee := call.Call.StaticCallee()
					for _, ret := range an.Returns(callee) {
						for _, r := range an.ResolveAll(an.RetVal(ret, 0)) {
							al, isAlloc := r.(*ssa.Alloc)
							if !isAlloc {
								continue
							}
							for _, st := range an.StoresToField(callee, al, an.AccessPath(fa).LastField()) {
								n++
								if !freshContainer(st.Val, depth+1) {
									okAll = false
								}
							}
						}
					}
				}
				if okAll && n > 0 {
					continue
				}
			}
			return false
		default:
			return false
		}
	}
	return true
}

func checkC08(c *an.Ctx) {
	c.Rule("C08.1", "ownership (E4): a store to Task.Env / .Variables / .Dir (or to the same fields of an ExecutionContext), or a mutating Set on a container held in those fields, is allowed only on an object or container the function itself allocated (constructor literal, value copy, fresh Merge/With/FromMap result); Task.WithEnv is API and must not be reachable from the scheduler, the config builders or the watcher")
	c.Rule("C08.2", "pure combinators (E4): Variables.Merge and .With write only to a container allocated in the same activation; in the functions under them no append, element write or map write targets a slice or map that can share backing storage with an operand (loaded from an operand's field, re-sliced without a capacity limit, or parked in the result's field)")
	c.Rule("C08.4", "shared definition storage (E4 alias analysis, module-wide): no element store, map update on a slice or map reachable from a field of a task.Task the writer did not build itself (loaded from the field, an element of it, a re-slice, or a slice that copy() filled with its reference-typed elements) — the per-stage copy is shallow, such a write leaks into every other user of the task")
	c.Rule("C08.3", "layering (E5/E2): the runner caller of the scheduler runs a per-stage copy of the task whose Env is [Task.Env < Stage.Env], Variables [Task.Variables < Stage.Variables] and Dir = Stage.Dir when non-empty; Runner.Run receives that copy")
	c.Rule("C08.5", "no package-level state on the way from settings to command (who-may-use, call graph): the functions that turn a stage's settings into what its commands see — everything reachable from CompileTask, CompileCommand and the executor's Execute — use no package variable of the module other than immutable ones (basic, error and function values and compiled regular expressions never assigned after initialisation, maps and slices that are only read); an object kept in a package variable is shared by the stage goroutines, and what one stage puts into it (a template text, a value) is what another one takes out")
	c.NotDecided = append(c.NotDecided, "sharing introduced by a caller handing one *Stage to two graphs", "containers reachable through other aliases than the three task fields")
	p := c.P
	fields := map[string]bool{"Env": true, "Variables": true, "Dir": true}
	n := 0
	for _, fn := range p.Funcs {
		isTaskMethod := fn.Signature.Recv() != nil && an.TypeIs(fn.Signature.Recv().Type(), "pkg/task", "Task")
		an.EachInstr(fn, func(in ssa.Instruction) {
			switch x := in.(type) {
			case *ssa.Store:
				if _, isFA := x.Addr.(*ssa.FieldAddr); !isFA && an.TypeIs(x.Addr.Type(), "pkg/task", "Task") && an.TypeIs(an.Deref(x.Addr.Type()), "pkg/task", "Task") {
					// whole-object store *p = v
					if _, isPtr := x.Val.Type().Underlying().(*types.Pointer); !isPtr {
						n++
						key := an.Short(fn) + ":write(*Task)"
						if fresh, _ := an.FreshBase(x.Addr); fresh {
							c.OK(rule1, key, x.Pos(), "initialisation of a local copy")
						} else {
							c.Bad(rule1, key, x.Pos(), "%s overwrites the whole task object %s, which it did not allocate, env, variables and dir included", an.Short(fn), an.Prov(x.Addr))
						}
					}
					return
				}
				fa, ok := x.Addr.(*ssa.FieldAddr)
				// a named execution context is one object shared by every task that uses it: the same ownership
				// rule holds for its env, variables and dir
				if ok && an.TypeIs(fa.X.Type(), "pkg/runner", "ExecutionContext") && fields[an.AccessPath(fa).LastField()] {
					n++
					name := an.AccessPath(fa).LastField()
					key := an.Short(fn) + ":write(ExecutionContext." + name + ")"
					fresh, _ := an.FreshBase(fa.X)
					if !fresh {
						// an object this function has just obtained from a constructor
						srcs := an.ResolveAll(fa.X)
						fresh = len(srcs) > 0
						for _, src := range srcs {
							call, isCall := src.(*ssa.Call)
							if !isCall || call.Parent() != fn {
								fresh = false
								continue
							}
							callee := call.Call.StaticCallee()
							if callee == nil || callee.Blocks == nil || !an.InModule(callee) {
								fresh = false
								continue
							}
							for _, ret := range an.Returns(callee) {
								for _, r := range an.ResolveAll(an.RetVal(ret, 0)) {
									if al, isAlloc := r.(*ssa.Alloc); !isAlloc || al.Parent() != callee {
										fresh = false
									}
								}
							}
						}
					}
					if fresh {
						c.OK(rule1, key, x.Pos(), "written on a context object allocated here")
					} else {
						c.Bad(rule1, key, x.Pos(), "%s writes ExecutionContext.%s through %s, a context object it did not allocate: a named context is shared by all tasks that use it, so what one task's run puts there is seen by every overlapping or later run", an.Short(fn), name, an.Prov(fa.X))
					}
					return
				}
				// a stage is one object shared by every run of its pipeline (and by every includer of that pipeline):
				// its own overrides are written when it is built and by nobody afterwards
				if ok && an.TypeIs(fa.X.Type(), "pkg/scheduler", "Stage") && fields[an.AccessPath(fa).LastField()] {
					n++
					name := an.AccessPath(fa).LastField()
					key := an.Short(fn) + ":write(Stage." + name + ")"
					if fresh, copied := an.FreshBase(fa.X); fresh && !copied {
						c.OK(rule1, key, x.Pos(), "written on a stage built here")
					} else {
						c.Bad(rule1, key, x.Pos(), "%s writes Stage.%s through %s, a stage it did not build: the stage belongs to a graph that can be run on its own, again, or from another includer, and all of them then see this value", an.Short(fn), name, an.Prov(fa.X))
					}
					return
				}
				if !ok || !an.TypeIs(fa.X.Type(), "pkg/task", "Task") {
					return
				}
				name := an.AccessPath(fa).LastField()
				if !fields[name] {
					return
				}
				n++
				key := an.Short(fn) + ":write(Task." + name + ")"
				fresh, copied := an.FreshBase(fa.X)
				if !fresh && builtByConstructorCall(fn, fa.X) {
					fresh = true
				}
				switch {
				case fresh:
					how := "constructor literal"
					if copied {
						how = "value copy of the task"
					}
					c.OK(rule1, key, x.Pos(), "written on an object allocated here (%s)", how)
					c.Site(rule1, key+" fresh")
				case isTaskMethod && len(fn.Params) > 0 && an.SameValue(fa.X, fn.Params[0]):
					c.OK(rule1, key, x.Pos(), "method of Task (API): reachability checked below")
					c.Site(rule1, key+" task-method")
				default:
					// an unexported helper writing through a pointer parameter: the obligation moves to its call sites
					if why, ok := freshAtCallSites(p, fn, fa.X, 2); ok {
						c.OK(rule1, key, x.Pos(), "written through a parameter that every caller binds to an object it allocated itself (%s)", why)
						c.Site(rule1, key+" fresh-at-callers")
						return
					}
					c.Bad(rule1, key, x.Pos(), "%s writes Task.%s through %s, a task object it did not allocate: the value is visible to every other stage, pipeline, watcher or direct run that uses the task", an.Short(fn), name, an.Prov(fa.X))
				}
			case *ssa.Call:
				cc, ok := an.IsCallTo(x, fnSet, "(pkg/variables.Variables).Set")
				if !ok {
					return
				}
				recv := cc.Value
				if !cc.IsInvoke() {
					recv = cc.Args[0]
				}
				// a helper that sets on a container it was handed: the container is what its callers pass
				var prmSrc *ssa.Parameter
				for _, rs := range an.Sources(recv) {
					if q, isPrm := rs.(*ssa.Parameter); isPrm && q.Parent() == fn && !isTaskMethod {
						prmSrc = q
					}
				}
				if prm := prmSrc; prm != nil {
					idx := -1
					for i, q := range fn.Params {
						if q == prm {
							idx = i
						}
					}
					for _, site := range p.CallSitesOf(fn) {
						if idx < 0 || idx >= len(site.Common().Args) || !an.InModule(site.Parent()) {
							continue
						}
						arg := site.Common().Args[idx]
						u2, isLoad2 := an.Resolve(arg).(*ssa.UnOp)
						if !isLoad2 {
							continue
						}
						fa2, isFA2 := u2.X.(*ssa.FieldAddr)
						if !isFA2 || !(an.TypeIs(fa2.X.Type(), "pkg/task", "Task") || an.TypeIs(fa2.X.Type(), "pkg/runner", "ExecutionContext") || an.TypeIs(fa2.X.Type(), "pkg/scheduler", "Stage")) {
							continue
						}
						name2 := an.AccessPath(fa2).LastField()
						if !fields[name2] {
							continue
						}
						n++
						key2 := an.Short(fn) + ":Set(" + prm.Name() + "←" + an.TypeField(fa2) + ")"
						if freshContainer(arg, 0) {
							c.OK(rule1, key2, x.Pos(), "Set on a container its caller built in the same activation")
						} else {
							c.Bad(rule1, key2, x.Pos(), "%s calls Set on its parameter %s, which %s binds to the container held in %s of %s (%s): the container is shared by every user of that task, stage or context — a per-stage copy of the task is shallow — so the write is visible to other stages, pipelines and direct runs", an.Short(fn), prm.Name(), an.Short(site.Parent()), an.TypeField(fa2), an.Prov(fa2.X), p.Pos(site.Pos()))
						}
					}
					return
				}
				// only containers read from the three task fields
				u, isLoad := an.Resolve(recv).(*ssa.UnOp)
				if !isLoad {
					return
				}
				fa, isFA := u.X.(*ssa.FieldAddr)
				if isFA && an.TypeIs(fa.X.Type(), "pkg/scheduler", "Stage") && fields[an.AccessPath(fa).LastField()] {
					// a stage's own containers are part of the pipeline's definition: a value copy of the stage shares them
					n++
					keyS := an.Short(fn) + ":Set(Stage." + an.AccessPath(fa).LastField() + ")"
					if freshContainer(recv, 0) {
						c.OK(rule1, keyS, x.Pos(), "Set on a container built in this activation")
					} else {
						c.Bad(rule1, keyS, x.Pos(), "%s calls Set on the container held in Stage.%s of %s without having built that container itself: the stage definition — and every later use of its pipeline — keeps the value", an.Short(fn), an.AccessPath(fa).LastField(), an.Prov(fa.X))
					}
					return
				}
				if !isFA || !an.TypeIs(fa.X.Type(), "pkg/task", "Task") {
					return
				}
				name := an.AccessPath(fa).LastField()
				if !fields[name] {
					return
				}
				n++
				key := an.Short(fn) + ":Set(Task." + name + ")"
				if freshContainer(recv, 0) {
					c.OK(rule1, key, x.Pos(), "Set on a container built in this activation")
					c.Site(rule1, key+" fresh-container")
				} else {
					c.Bad(rule1, key, x.Pos(), "%s calls Set on the container held in Task.%s of %s without having built that container itself: a value copy of the task shares its containers, so the write is visible to every other user of the task", an.Short(fn), name, an.Prov(fa.X))
				}
			}
		})
	}
	if n == 0 {
		c.Und(rule1, "Task.{Env,Variables,Dir}:writers", token.NoPos, "no writer of the task's env/variables/dir found")
	}
	// Task methods that mutate: not reachable from scheduler / config / watch
	for _, fn := range p.Funcs {
		if fn.Signature.Recv() == nil || !an.TypeIs(fn.Signature.Recv().Type(), "pkg/task", "Task") {
			continue
		}
		mut := false
		an.EachInstr(fn, func(in ssa.Instruction) {
			if st, ok := in.(*ssa.Store); ok {
				if fa, ok := st.Addr.(*ssa.FieldAddr); ok && fields[an.AccessPath(fa).LastField()] && an.TypeIs(fa.X.Type(), "pkg/task", "Task") {
					mut = true
				}
			}
		})
		if !mut {
			continue
		}
		bad := false
		for _, site := range p.CallSitesOf(fn) {
			if inPkgs("pkg/scheduler", "internal/config", "internal/watch", "pkg/runner")(site.Parent()) {
				// allowed on fresh objects only
				recv := site.Common().Args[0]
				if fresh, _ := an.FreshBase(recv); !fresh {
					bad = true
					c.Bad(rule1, an.Short(site.Parent())+":call("+an.Short(fn)+")", site.Pos(), "the mutating task method %s is called on a task the caller did not allocate", an.Short(fn))
				}
			}
		}
		if !bad {
			c.OK(rule1, an.Short(fn)+":callers", fn.Pos(), "mutating task method is not called on shared tasks by the scheduler, builders, runner or watcher")
		}
	}

	// C08.2
	for _, name := range []string{"Merge", "With"} {
		fn := p.Func("pkg/variables", "Variables", name)
		if fn == nil {
			c.Und("C08.2", "variables.(*Variables)."+name, token.NoPos, "not found")
			continue
		}
		bad := false
		an.EachInstr(fn, func(in ssa.Instruction) {
			if st, ok := in.(*ssa.Store); ok {
				ap := an.AccessPath(st.Addr)
				for _, prm := range fn.Params {
					if an.SameValue(ap.Base, prm) && len(ap.Fields) > 0 {
						bad = true
						c.Bad("C08.2", an.Short(fn)+":write(operand)", st.Pos(), "%s writes a field of its operand %s", name, prm.Name())
					}
				}
			}
			call, ok := in.(*ssa.Call)
			if !ok {
				return
			}
			cname := an.ShortCallee(&call.Call)
			if cname != "(pkg/variables.Variables).Set" && cname != fnSet && cname != "(*sync.Map).Store" && cname != "(*sync.Map).Delete" {
				return
			}
			recv := call.Call.Value
			if !call.Call.IsInvoke() {
				recv = call.Call.Args[0]
			}
			okRecv := true
			for _, src := range an.Sources(recv) {
				switch y := src.(type) {
				case *ssa.Alloc:
				case *ssa.TypeAssert:
					if !freshContainer(y.X, 0) {
						okRecv = false
					}
				case *ssa.Call:
					if !freshContainer(y, 0) {
						okRecv = false
					}
				case *ssa.FieldAddr:
					if fresh, _ := an.FreshBase(y.X); !fresh {
						okRecv = false
					}
				default:
					okRecv = false
				}
			}
			if !okRecv {
				bad = true
				c.Bad("C08.2", an.Short(fn)+":"+cname, call.Pos(), "%s mutates a container it did not allocate (%s): an operand of the combinator is changed", name, an.Prov(recv))
			}
		})
		if !bad {
			c.OK("C08.2", an.Short(fn)+":pure", fn.Pos(), "%s writes only to the container it allocates", name)
		}
	}

	var combinators []*ssa.Function
	for _, name := range []string{"Merge", "With"} {
		if fn := p.Func("pkg/variables", "Variables", name); fn != nil {
			combinators = append(combinators, fn)
		}
	}
	if len(combinators) > 0 {
		sharedStorageWrites(c, "C08.2", combinators)
	}

	stageLayering(c, "C08.3")
	taskStorageWrites(c, "C08.4")
	packageState(c, "C08.5")
}

// packageState checks C08.5.
func packageState(c *an.Ctx, rule string) {
	p := c.P
	var roots []*ssa.Function
	if f := p.Func("pkg/runner", "TaskCompiler", "CompileTask"); f != nil {
		roots = append(roots, f)
	}
	if ccr := resolveCmdCompiler(p); ccr.fn != nil {
		roots = append(roots, ccr.fn)
	}
	for _, fn := range p.Funcs {
		if fn.Name() == "Execute" && fn.Signature.Recv() != nil && inPkgs("pkg/executor")(fn) && fn.Blocks != nil {
			roots = append(roots, fn)
		}
	}
	if len(roots) < 3 {
		c.Und(rule, "compile path roots", token.NoPos, "CompileTask / CompileCommand / Execute not all found (%d)", len(roots))
		return
	}
	reach := p.Reach(roots, func(e an.CallEdge) bool { return an.InModule(e.Callee) })
	var fns []*ssa.Function
	for f := range reach {
		fns = append(fns, f)
	}
	sort.Slice(fns, func(i, j int) bool { return fns[i].String() < fns[j].String() })
	// stores to module globals outside package initialisers
	assigned := map[*ssa.Global]bool{}
	written := map[*ssa.Global]bool{} // element / map writes through a load of the global
	for _, fn := range p.Funcs {
		if !an.InModule(fn) || fn.Name() == "init" {
			continue
		}
		an.EachInstr(fn, func(in ssa.Instruction) {
			switch x := in.(type) {
			case *ssa.Store:
				if g, ok := x.Addr.(*ssa.Global); ok {
					assigned[g] = true
				}
				if ia, ok := x.Addr.(*ssa.IndexAddr); ok {
					for _, src := range an.Sources(ia.X) {
						if u, ok := src.(*ssa.UnOp); ok {
							if g, ok := u.X.(*ssa.Global); ok {
								written[g] = true
							}
						}
					}
				}
			case *ssa.MapUpdate:
				for _, src := range an.Sources(x.Map) {
					if u, ok := src.(*ssa.UnOp); ok {
						if g, ok := u.X.(*ssa.Global); ok {
							written[g] = true
						}
					}
				}
			}
		})
	}
	immutable := func(g *ssa.Global) (bool, string) {
		if assigned[g] {
			return false, "is assigned outside package initialisation"
		}
		t := an.Deref(g.Type())
		// the synchronisation types of the standard library are made to be shared
		el := t
		if pt, ok := el.(*types.Pointer); ok {
			el = pt.Elem()
		}
		if n, ok := el.(*types.Named); ok && n.Obj().Pkg() != nil && (n.Obj().Pkg().Path() == "sync" || n.Obj().Pkg().Path() == "sync/atomic") && n.Obj().Name() != "Pool" && n.Obj().Name() != "Map" {
			return true, ""
		}
		switch u := t.Underlying().(type) {
		case *types.Basic, *types.Signature:
			return true, ""
		case *types.Interface:
			if types.Identical(t, types.Universe.Lookup("error").Type()) {
				return true, ""
			}
			return false, "holds an object behind an interface"
		case *types.Pointer:
			if an.TypeIs(u.Elem(), "regexp", "Regexp") {
				return true, ""
			}
			return false, "is a shared " + types.TypeString(t, func(pk *types.Package) string { return pk.Name() })
		case *types.Map, *types.Slice:
			if written[g] {
				return false, "is a map or slice written after initialisation"
			}
			return true, ""
		case *types.Struct:
			_ = u
			return false, "is a shared " + types.TypeString(t, func(pk *types.Package) string { return pk.Name() })
		}
		return false, "is a shared " + types.TypeString(t, func(pk *types.Package) string { return pk.Name() })
	}
	// a sync.Pool of scratch buffers is shared storage that carries nothing from one user to the next when every
	// Get is followed by Reset before anything else is done with the buffer and the buffer itself goes nowhere
	// but back into the pool (its content leaves as a copy: String(), or as bytes written through it)
	scratchPool := func(g *ssa.Global) bool {
		if !an.TypeIs(g.Type(), "sync", "Pool") {
			return false
		}
		okAll, nGets := true, 0
		for _, fn := range p.Funcs {
			if !an.InModule(fn) || fn.Blocks == nil || fn.Synthetic != "" && fn.Name() != "init" {
				continue
			}
			an.EachInstr(fn, func(in ssa.Instruction) {
				call, ok := in.(*ssa.Call)
				if !ok || an.ShortCallee(&call.Call) != "(*sync.Pool).Get" || call.Call.Args[0] != ssa.Value(g) {
					return
				}
				nGets++
				if call.Referrers() == nil {
					okAll = false
					return
				}
				for _, r := range *call.Referrers() {
					ta, ok := r.(*ssa.TypeAssert)
					if !ok {
						if _, isDbg := r.(*ssa.DebugRef); !isDbg {
							okAll = false
						}
						continue
					}
					if !an.TypeIs(ta.AssertedType, "bytes", "Buffer") || ta.Referrers() == nil {
						okAll = false
						continue
					}
					var reset ssa.Instruction
					for _, u := range *ta.Referrers() {
						if c2, ok := u.(*ssa.Call); ok && an.ShortCallee(&c2.Call) == "(*bytes.Buffer).Reset" {
							reset = c2
						}
					}
					if reset == nil {
						okAll = false
						continue
					}
					for _, u := range *ta.Referrers() {
						ui, _ := u.(ssa.Instruction)
						if u == reset || ui == nil {
							continue
						}
						if !an.Dominates(reset, ui) {
							okAll = false
						}
						switch x := u.(type) {
						case *ssa.Call:
							name := an.ShortCallee(&x.Call)
							if !strings.HasPrefix(name, "(*bytes.Buffer).") {
								okAll = false
							}
						case *ssa.Defer:
							if an.ShortCallee(&x.Call) != "(*sync.Pool).Put" {
								okAll = false
							}
						case *ssa.MakeInterface:
							// handed to a library writer/pool as an interface: fine when the only users are calls
							if x.Referrers() != nil {
								for _, u2 := range *x.Referrers() {
									switch y := u2.(type) {
									case *ssa.Call:
										if callee := y.Call.StaticCallee(); callee != nil && an.InModule(callee) {
											okAll = false
										}
									case *ssa.Defer, *ssa.DebugRef:
									default:
										okAll = false
									}
								}
							}
						case *ssa.DebugRef:
						default:
							okAll = false
						}
					}
				}
			})
		}
		return okAll && nGets > 0
	}
	nUses := 0
	bad := false
	for _, fn := range fns {
		seen := map[*ssa.Global]bool{}
		an.EachInstr(fn, func(in ssa.Instruction) {
			for _, op := range in.Operands(nil) {
				if op == nil || *op == nil {
					continue
				}
				g, ok := (*op).(*ssa.Global)
				if !ok || g.Pkg == nil || !strings.HasPrefix(g.Pkg.Pkg.Path(), an.ModulePath) || strings.HasPrefix(g.Name(), "init$") || seen[g] {
					continue
				}
				seen[g] = true
				nUses++
				if ok, why := immutable(g); !ok && !scratchPool(g) {
					bad = true
					c.Bad(rule, an.Short(fn)+":"+g.Pkg.Pkg.Name()+"."+g.Name(), in.Pos(), "package variable %s.%s %s and is used on the way from a stage's settings to its commands (%s): the stage goroutines share it, so what one stage stores or parses into it can be what another stage executes with", g.Pkg.Pkg.Name(), g.Name(), why, p.PathString(reach[fn]))
				}
			}
		})
	}
	if !bad {
		c.OK(rule, "compile path:package variables", roots[0].Pos(), "%d functions reachable from CompileTask, CompileCommand and Execute use %d package variables of the module, all immutable", len(fns), nUses)
	}
}

const rule1 = "C08.1"

// stageLayering checks C08.3 on the scheduler's runner caller.
func stageLayering(c *an.Ctx, rule string) {
	f := findRunStage(c.P)
	if f == nil {
		c.Und(rule, "scheduler:runner-caller", token.NoPos, "cannot find the single function of pkg/scheduler that invokes Runner.Run")
		return
	}
	cfg := chainCfg(c.P)
	stage := stageOf(f)
	if stage == nil {
		c.Und(rule, an.Short(f)+":stage", f.Pos(), "runner caller has no stage parameter")
		return
	}
	// the object handed to Runner.Run
	var runArg ssa.Value
	for _, ci := range an.CallsIn(f, fnRunnerRun) {
		runArg = ci.Common().Args[0]
	}
	if runArg == nil {
		c.Und(rule, an.Short(f)+":Run", f.Pos(), "no Runner.Run call")
		return
	}
	// resolve through `stage.Task = &copy` and through a helper that builds the copy
	target := runArg
	if fwd, ok := an.ForwardLoad(an.Resolve(runArg)); ok {
		target = fwd[0]
	} else if vals, _, ok := c.P.ForwardLoadThroughCall(an.Resolve(runArg)); ok && len(vals) == 1 {
		// `stage.bind(); run(stage.Task)`: a helper called with the stage stores the copy into stage.Task
		target = vals[0]
	}
	builder := f
	var alloc *ssa.Alloc
	// every value that can reach the runner must be a copy built for this stage in this activation:
	// a task taken from state kept across stages (a cache keyed by name, a field) is not provably this stage's
	for _, src := range c.P.DeepSources(target, 3, false) {
		if a, ok := src.(*ssa.Alloc); ok && an.TypeIs(a.Type(), "pkg/task", "Task") {
			alloc = a
			continue
		}
		if an.IsNilConst(src) {
			continue
		}
		c.Bad(rule, an.Short(f)+":runs-copy", f.Pos(), "the task handed to Runner.Run can be %s, which is not a copy built for this stage in this activation: a task prepared elsewhere (a cache keyed by name, a shared field) can belong to another stage or graph", an.FieldProv(src))
		return
	}
	if alloc != nil {
		target = alloc
		builder = alloc.Parent()
		// the stage as the builder sees it
		if bs := stageOf(builder); bs != nil {
			stage = bs
		}
	}
	fresh, copied := an.FreshBase(target)
	copyOfTask := false
	if fresh {
		for _, r := range an.ResolveAll(target) {
			a := r.(*ssa.Alloc)
			for _, ref := range *a.Referrers() {
				if st, ok := ref.(*ssa.Store); ok && st.Addr == ssa.Value(a) {
					ap := an.AccessPath(st.Val)
					if ap.LastField() == "Task" && an.SameValue(ap.Base, stage) {
						copyOfTask = true
					}
					// (a helper that gets the task itself: `c := *t` with t bound to stage.Task at every call site)
					if u, ok := st.Val.(*ssa.UnOp); ok && u.Op == token.MUL {
						if prm, ok := u.X.(*ssa.Parameter); ok && prm.Parent() == builder && builder != f {
							idx := paramIndexOf(builder, prm)
							sites := c.P.CallSitesOf(builder)
							all := idx >= 0 && len(sites) > 0
							for _, site := range sites {
								cc := site.Common()
								ai := idx
								if cc.IsInvoke() {
									ai--
								}
								if ai < 0 || ai >= len(cc.Args) {
									all = false
									continue
								}
								cs := stageOf(site.Parent())
								ap := an.AccessPath(cc.Args[ai])
								if cs == nil || ap.LastField() != "Task" || !an.SameValue(ap.Base, cs) {
									all = false
								}
							}
							if all {
								copyOfTask = true
							}
						}
					}
					// (the stage itself may have been read from a field of a work item: compare the object the Task field is read from)
					v := st.Val
					for k := 0; k < 3; k++ {
						u, ok := v.(*ssa.UnOp)
						if !ok || u.Op != token.MUL {
							break
						}
						if fa, ok := u.X.(*ssa.FieldAddr); ok {
							if an.TypeField(fa) == "Stage.Task" && an.SameValue(fa.X, stage) {
								copyOfTask = true
							}
							break
						}
						v = u.X
					}
				}
			}
		}
	}
	if !c.Check(fresh && copied && copyOfTask, rule, an.Short(f)+":runs-copy", f.Pos(), "Runner.Run receives a per-stage value copy of stage.Task", "Runner.Run does not receive a per-stage copy of the stage's task ("+an.Prov(target)+")") {
		return
	}
	f = builder
	cfg.ParamDepth = 2
	want := map[string][][]string{
		// (the task's layer alone = "the stage overrides nothing")
		"Env":       {{"Stage.Env"}, {"Task.Env", "Stage.Env"}, {"Task.Env"}},
		"Variables": {{"Stage.Variables"}, {"Task.Variables", "Stage.Variables"}, {"Task.Variables"}},
	}
	for _, field := range []string{"Env", "Variables"} {
		sts := c.P.StoresToFieldDeep(f, target, field, 2)
		key := an.Short(f) + ":copy." + field
		if len(sts) == 0 {
			c.Bad(rule, key, f.Pos(), "the stage's %s is never layered over the task's", strings.ToLower(field))
			continue
		}
		for _, st := range sts {
			for _, ch := range cfg.Chains(st.Val) {
				var labels []string
				for _, l := range ch {
					labels = append(labels, l.Label)
				}
				ok := false
				for _, w := range want[field] {
					if strings.Join(w, ",") == strings.Join(labels, ",") {
						ok = true
					}
				}
				c.Check(ok, rule, key+" "+ch.String(), st.Pos(), "stage "+strings.ToLower(field)+" layered over the task's", fmt.Sprintf("the copy's %s is built as %s; want %s over %s, nothing else (a stage layer must not replace the task's, nor mix env with variables)", field, ch, "Stage."+field, "Task."+field))
			}
			// a store under `task field == nil` may use the stage layer alone; otherwise both must be present
		}
		// the merge branch must exist: some alternative has both layers
		both := false
		for _, st := range sts {
			for _, ch := range cfg.Chains(st.Val) {
				if ch.Has("Task."+field) && ch.Has("Stage."+field) {
					both = true
				}
			}
		}
		c.Check(both, rule, key+":merge", f.Pos(), "when both are set the stage layer is merged over the task layer", "no branch merges the stage's "+field+" over the task's: the task's own settings are replaced")
	}
	// Dir
	dsts := c.P.StoresToFieldDeep(f, target, "Dir", 2)
	if len(dsts) == 0 {
		c.Bad(rule, an.Short(f)+":copy.Dir", f.Pos(), "the stage's dir is never applied to the stage's copy of the task")
	}
	isStageDir := func(v ssa.Value) bool {
		ap := an.AccessPath(v)
		if ap.LastField() == "Dir" && an.SameValue(ap.Base, stage) {
			return true
		}
		// handed over through a helper's parameter or a struct value
		return c.P.DeepFieldProvCallers(v) == "Stage.Dir"
	}
	for _, st := range dsts {
		okVal := isStageDir(st.Val)
		guarded := false
		for _, g := range an.Guards(st.Block()) {
			if bo, ok := g.Cond.(*ssa.BinOp); ok {
				if s1, ok := an.ConstString(bo.Y); ok && s1 == "" {
					if isStageDir(bo.X) && ((bo.Op == token.NEQ) == g.Outcome) {
						guarded = true
					}
				}
			}
		}
		c.Check(okVal && guarded, rule, an.Short(f)+":copy.Dir", st.Pos(), "copy's dir := stage.Dir when it is non-empty", "the copy's dir is not set from a non-empty stage.Dir")
	}
}

// freshAtCallSites reports whether v, a pointer parameter of the unexported
// function fn, is bound at every module call site to an object the caller
// allocated itself (or to the caller's own parameter, discharged the same way).
func freshAtCallSites(p *an.Prog, fn *ssa.Function, v ssa.Value, depth int) (string, bool) {
	var prm *ssa.Parameter
	for _, r := range an.ResolveAll(v) {
		if q, ok := r.(*ssa.Parameter); ok && q.Parent() == fn {
			prm = q
		}
	}
	if prm == nil || fn.Object() == nil || fn.Object().Exported() {
		return "", false
	}
	idx := -1
	for i, q := range fn.Params {
		if q == prm {
			idx = i
		}
	}
	sites := p.CallSitesOf(fn)
	if idx < 0 || len(sites) == 0 {
		return "", false
	}
	var callers []string
	for _, site := range sites {
		args := site.Common().Args
		ai := idx
		if site.Common().IsInvoke() {
			ai--
		}
		if ai < 0 || ai >= len(args) {
			return "", false
		}
		if fresh, _ := an.FreshBase(args[ai]); fresh {
			callers = append(callers, an.Short(site.Parent()))
			continue
		}
		if depth > 0 {
			if _, ok := freshAtCallSites(p, site.Parent(), args[ai], depth-1); ok {
				callers = append(callers, an.Short(site.Parent()))
				continue
			}
		}
		return "", false
	}
	return strings.Join(callers, ", "), true
}

// builtByConstructorCall reports whether v is the result of a call, made in
// fn, of a module function that returns an object it allocated itself on
// every return: fn has just obtained a new object from a constructor helper.
func builtByConstructorCall(fn *ssa.Function, v ssa.Value) bool {
	srcs := an.ResolveAll(v)
	if len(srcs) == 0 {
		return false
	}
	for _, src := range srcs {
		var call *ssa.Call
		switch x := src.(type) {
		case *ssa.Call:
			call = x
		case *ssa.Extract:
			call, _ = x.Tuple.(*ssa.Call)
		}
		if call == nil || call.Parent() != fn {
			return false
		}
		callee := call.Call.StaticCallee()
		if callee == nil || callee.Blocks == nil || !an.InModule(callee) {
			return false
		}
		for _, ret := range an.Returns(callee) {
			for _, r := range an.ResolveAll(an.RetVal(ret, 0)) {
				if an.IsNilConst(r) {
					continue
				}
				if al, isAlloc := r.(*ssa.Alloc); !isAlloc || al.Parent() != callee {
					return false
				}
			}
		}
	}
	return true
}

// stageOf returns the stage a function works for: its *Stage parameter, or —
// when the stage is carried in a struct the function receives (a work item
// with a stage field) — the one value loaded from that field.
func stageOf(f *ssa.Function) ssa.Value {
	for _, prm := range f.Params {
		if an.TypeIs(prm.Type(), "pkg/scheduler", "Stage") {
			return prm
		}
	}
	var found ssa.Value
	n := 0
	an.EachInstr(f, func(in ssa.Instruction) {
		var base ssa.Value
		var v ssa.Value
		switch x := in.(type) {
		case *ssa.UnOp:
			if fa, ok := x.X.(*ssa.FieldAddr); ok && x.Op == token.MUL {
				base, v = fa.X, x
			}
		case *ssa.Field:
			base, v = x.X, x
		}
		if v == nil || !an.TypeIs(v.Type(), "pkg/scheduler", "Stage") {
			return
		}
		if _, isPtr := v.Type().Underlying().(*types.Pointer); !isPtr {
			return
		}
		// the struct is a parameter, or the local a value parameter was spilled into
		fromParam := false
		for _, r := range an.ResolveAll(base) {
			switch y := r.(type) {
			case *ssa.Parameter:
				fromParam = true
			case *ssa.Alloc:
				if y.Referrers() != nil {
					for _, ref := range *y.Referrers() {
						if st, ok := ref.(*ssa.Store); ok && st.Addr == ssa.Value(y) {
							if _, isPrm := st.Val.(*ssa.Parameter); isPrm {
								fromParam = true
							}
						}
					}
				}
			}
		}
		if fromParam {
			found = v
			n++
		}
	})
	if n == 1 {
		return found
	}
	return nil
}
