package rules

import (
	"fmt"
	"go/token"
	"go/types"
	"sort"
	"strings"

	"golang.org/x/tools/go/ssa"

	"taskverif/an"
)

func init() { register("C12", checkC12) }

func checkC12(c *an.Ctx) {
	c.Rule("C12.1", "Cancel protocol (E8): (a) everything TaskRunner.Cancel can block on is a WaitGroup wait whose every Add registers a Done on all paths, or a short critical section; (b) a channel held in a TaskRunner field is closed only under a once-guard; (c) Cancel's effects are guarded by !canceling under the exclusive lock; (d) Run tests the cancelled context, under the lock that also covers its registration, before anything that executes a command, and returns a non-nil error on that branch")
	c.Rule("C12.2", "commands run under the runner context (E5): every Execute of the before/command/after phases receives TaskRunner.ctx; Execute hands it, or a WithTimeout child of it, to the interpreter; ctx and cancelFunc come from one WithCancel pair assigned only in the constructor")
	c.Rule("C12.3", "scheduler (E3/E4): Scheduler.Cancel stores the flag before cancelling the runner; the flag is loaded on every pass before any launch; a cancelled run still waits for its stages")
	c.Rule("C12.4", "an interrupted command is fatal (E2): the rows 'not an exit status' of the job-walk table mark the task errored and return the error, with and without allow_failure; a condition command, whose non-zero exit means skip, runs under a context cancellation cannot reach (an interrupted condition would read as not-met and the interrupted task as skipped); wherever a function under Run compares ctx.Err() with nil, no return of a nil error is reachable from the cancelled side before another command is executed (an early exit from the command loop that falls into the success return reports an interrupted task as succeeded)")
	c.Rule("C12.6", "one runner, one cancellation state (E4): no whole-value copy of a TaskRunner (or of the object that holds its mutex, flag and WaitGroup) is made anywhere in the module — a copy shares the context but has a mutex, a flag and a WaitGroup of its own, so runs started through it are not waited for by Cancel on the original")
	c.Rule("C12.5", "how a running command is stopped (library summary, option table): every interp.New in the module is given options from the closed set StdIO / Env / Dir / Params / OpenHandler, and an ExecHandler only if it is interp.DefaultExecHandler with a positive constant grace period — the library default interrupts the command, lets it stop its own children and kills it after the grace period; with a non-positive period the command is killed outright, its children are orphaned holding the output pipes, and the interpreter (and with it Run and Cancel) waits for them")
	c.Summaries = append(c.Summaries, "mvdan.cc/sh/v3@v3.1.1 interp.DefaultExecHandler(d): on context cancellation sends os.Interrupt, then Kill after d; with d <= 0 sends Kill at once (read in interp/handler.go); interp.New installs DefaultExecHandler(2s)", "os/exec: a Stdin that is not an *os.File is copied to the child by a goroutine, and Cmd.Wait returns only after that goroutine has finished (package documentation of Cmd.Stdin)")
	c.NotDecided = append(c.NotDecided, "promptness in wall-clock terms", "how the interpreter kills children", "absence of deadlock in general (only this protocol's shape)")
	p := c.P
	r := resolveRunner(c, "C12.0")
	if !r.ok {
		return
	}
	c.OK("C12.0", "runner roles", r.run.Pos(), "Cancel=%s", an.Short(r.cancel))

	// C12.1 (a)
	boundedWaits(c, "C12.1", []*ssa.Function{r.cancel}, "TaskRunner.Cancel", nil)
	// (b) closes of channels in TaskRunner fields
	nClose := 0
	for _, fn := range p.Funcs {
		an.EachInstr(fn, func(in ssa.Instruction) {
			ci, ok := in.(ssa.CallInstruction)
			if !ok {
				return
			}
			b, ok := ci.Common().Value.(*ssa.Builtin)
			if !ok || b.Name() != "close" {
				return
			}
			key := an.FieldKey(ci.Common().Args[0])
			if !strings.HasPrefix(key, "TaskRunner.") {
				return
			}
			nClose++
			// once-guard: inside a closure passed to sync.Once.Do
			once := false
			for _, site := range p.CallSitesOf(fn) {
				if _, ok := an.IsCallTo(site, "(*sync.Once).Do"); ok {
					once = true
				}
			}
			c.Check(once, "C12.1", an.Short(fn)+":close("+key+")", in.Pos(), "closed under sync.Once", "the channel "+key+" can be closed by every Run that returns during cancellation: with two runs in flight the second close panics (no once-guard)")
		})
	}
	if nClose == 0 {
		c.OK("C12.1", "TaskRunner:channel-closes", r.cancel.Pos(), "no channel held in a TaskRunner field is closed anywhere (nothing to guard)")
	}
	// (c) idempotence
	cancelIdempotent(c, r, "C12.1")
	// (d) the gate in Run
	runGate(c, r, "C12.1")
	cancelTestsAreFatal(c, r, "C12.4")

	// C12.2
	runnerContext(c, r, "C12.2")

	// C12.3
	s := resolveSched(c, "C12.3")
	if s.ok {
		var store, rcancel ssa.Instruction
		for _, ci := range an.CallsIn(s.cancel, "sync/atomic.StoreInt32") {
			if an.FieldKey(ci.Common().Args[0]) == "Scheduler.cancelled" {
				store = ci
			}
		}
		for _, ci := range an.CallsIn(s.cancel, fnRunnerCancel) {
			rcancel = ci
		}
		if store == nil || rcancel == nil {
			c.Bad("C12.3", an.Short(s.cancel)+":order", s.cancel.Pos(), "Scheduler.Cancel does not both set the flag and cancel the runner")
		} else {
			c.Check(an.Dominates(store, rcancel), "C12.3", an.Short(s.cancel)+":order", store.Pos(), "the flag is stored before the runner is cancelled (no stage is launched after Cancel returned)", "the runner is cancelled before the flag is stored: the loop can launch a stage in between")
		}
		loopExits(c, s, "C12.3")
		wgPairing(c, s, "C12.3")
	}

	// C12.4
	executeTable(c, r, "C12.4", false)
	conditionsNotInterrupted(c, "C12.4")

	// C12.5
	interpOptions(c, "C12.5")

	// C12.6
	{
		holders := map[string]bool{"TaskRunner": true}
		if rs := resolveRunnerState(p); rs != nil && rs.mutex != "" {
			if i := strings.Index(rs.mutex, "."); i > 0 {
				holders[rs.mutex[:i]] = true
			}
		}
		n, copies := 0, 0
		for _, fn := range p.Funcs {
			if !an.InModule(fn) {
				continue
			}
			an.EachInstr(fn, func(in ssa.Instruction) {
				u, ok := in.(*ssa.UnOp)
				if !ok || u.Op != token.MUL {
					return
				}
				n++
				named, ok := u.Type().(*types.Named)
				if !ok || named.Obj().Pkg() == nil || !strings.HasSuffix(named.Obj().Pkg().Path(), "pkg/runner") || !holders[named.Obj().Name()] {
					return
				}
				if _, isStruct := named.Underlying().(*types.Struct); !isStruct {
					return
				}
				copies++
				c.Bad("C12.6", an.Short(fn)+":copy("+named.Obj().Name()+")", u.Pos(), "%s copies a whole %s value: the copy shares the runner's context but has its own mutex, cancelling flag and WaitGroup — a run started through the copy is not registered with the original, so Cancel on the original returns while that run's command is still alive, and the copy never refuses a run", an.Short(fn), named.Obj().Name())
			})
		}
		if copies == 0 {
			c.OK("C12.6", "runner:value-copies", r.run.Pos(), "no whole-value copy of the runner's state holder is made in the module (%d loads looked at)", n)
		}
	}
}

// interpOptions checks C12.5.
func interpOptions(c *an.Ctx, rule string) {
	p := c.P
	plain := map[string]bool{"StdIO": true, "Env": true, "Dir": true, "Params": true, "OpenHandler": true}
	n := 0
	for _, fn := range p.Funcs {
		if !an.InModule(fn) {
			continue
		}
		an.EachInstr(fn, func(in ssa.Instruction) {
			call, ok := in.(*ssa.Call)
			if !ok || call.Call.IsInvoke() {
				return
			}
			callee := call.Call.StaticCallee()
			if callee == nil || callee.Pkg == nil || callee.Pkg.Pkg.Path() != "mvdan.cc/sh/v3/interp" || callee.Name() != "New" {
				return
			}
			n++
			var bad []string
			opts := call.Call.Args
			if len(opts) == 1 {
				if an.IsNilConst(opts[0]) {
					opts = nil
				} else if el := an.VariadicElems(opts[0]); el != nil {
					opts = el
				} else {
					bad = append(bad, "the option list is not a literal argument list ("+an.Prov(opts[0])+")")
					opts = nil
				}
			}
			for _, o := range opts {
				if o == nil {
					bad = append(bad, "an option could not be identified")
					continue
				}
				for _, src := range an.Sources(o) {
					oc, ok := src.(*ssa.Call)
					var of *ssa.Function
					if ok {
						of = oc.Call.StaticCallee()
					}
					if of == nil || of.Pkg == nil || of.Pkg.Pkg.Path() != "mvdan.cc/sh/v3/interp" {
						bad = append(bad, "an option is not built by a function of the interpreter package ("+an.Prov(src)+")")
						continue
					}
					switch {
					case plain[of.Name()]:
					case of.Name() == "ExecHandler":
						good := false
						for _, hs := range an.Sources(oc.Call.Args[0]) {
							hc, ok := hs.(*ssa.Call)
							if !ok || hc.Call.StaticCallee() == nil || hc.Call.StaticCallee().Name() != "DefaultExecHandler" || hc.Call.StaticCallee().Pkg != of.Pkg {
								bad = append(bad, "the exec handler is not the library's default handler ("+an.Prov(hs)+")")
								continue
							}
							d, isC := an.ConstInt(hc.Call.Args[0])
							switch {
							case !isC:
								bad = append(bad, "the grace period of the exec handler is not a constant ("+an.Prov(hc.Call.Args[0])+")")
							case d <= 0:
								bad = append(bad, fmt.Sprintf("the exec handler's grace period is %d: a cancelled command is killed outright, without the interrupt that lets it stop its children — they keep the output pipes open and the interpreter, Run and Cancel wait for them", d))
							default:
								good = true
							}
						}
						_ = good
					default:
						bad = append(bad, "option "+of.Name()+" is outside the reviewed set")
					}
				}
			}
			// the command's standard input is the reader the executor was given, not a wrapper of it: os/exec hands
			// an *os.File to the child as it is, but for any other reader it starts a copying goroutine and Wait
			// waits for it — a wrapper around a pipe or terminal that never reaches EOF keeps the killed command's
			// Wait, and with it Run and Cancel, from returning
			for _, o := range opts {
				if o == nil {
					continue
				}
				for _, src := range an.Sources(o) {
					oc, ok := src.(*ssa.Call)
					if !ok || oc.Call.StaticCallee() == nil || oc.Call.StaticCallee().Name() != "StdIO" || len(oc.Call.Args) < 1 {
						continue
					}
					for _, in := range an.Sources(oc.Call.Args[0]) {
						switch x := in.(type) {
						case *ssa.Parameter, *ssa.Const:
						case *ssa.MakeInterface:
							_ = x // a reader of the executor's own making (a finite one ends the copy at EOF)
							if wc, isCall := an.Resolve(x.X).(*ssa.Call); isCall {
								for _, a := range wc.Call.Args {
									for _, as := range an.Sources(a) {
										if prm, isP := as.(*ssa.Parameter); isP && prm.Parent() == fn {
											bad = append(bad, "the interpreter's standard input is "+an.ShortCallee(&wc.Call)+"(…) wrapped around the reader the executor was given: for anything but an *os.File os/exec copies stdin in a goroutine that Wait waits for, so a command killed on cancellation is not reaped while the wrapped pipe or terminal stays open")
										}
									}
								}
							}
						case *ssa.Call:
							for _, a := range x.Call.Args {
								for _, as := range an.Sources(a) {
									if prm, isP := as.(*ssa.Parameter); isP && prm.Parent() == fn {
										bad = append(bad, "the interpreter's standard input is "+an.ShortCallee(&x.Call)+"(…) wrapped around the reader the executor was given: for anything but an *os.File os/exec copies stdin in a goroutine that Wait waits for, so a command killed on cancellation is not reaped while the wrapped pipe or terminal stays open")
									}
								}
							}
						}
					}
				}
			}
			bad = dedup(bad)
			c.Check(len(bad) == 0, rule, an.Short(fn)+":interp.New", call.Pos(), fmt.Sprintf("%d options, all from the reviewed set; commands are stopped by the library's default handler", len(opts)), strings.Join(bad, "; "))
		})
	}
	if n == 0 {
		c.Und(rule, "interp.New:call sites", token.NoPos, "the interpreter is not constructed anywhere in the module")
	}
}

func cancelIdempotent(c *an.Ctx, r *runnerRoles, rule string) {
	p := c.P
	f := r.cancel
	// Cancel and the helpers of the package it calls: the lock, the test and the effects may sit in any of them
	scope := p.Reach([]*ssa.Function{f}, func(e an.CallEdge) bool { return e.Kind == an.EdgeCall && an.Outer(e.Callee).Pkg == f.Pkg })
	lockOf := func(g *ssa.Function) *an.BlockOp {
		for _, op := range an.BlockingOps(g) {
			if op.Kind == "lock" {
				o := op
				return &o
			}
		}
		return nil
	}
	anyLock := false
	for g := range scope {
		if lockOf(g) != nil {
			anyLock = true
		}
	}
	if !anyLock {
		c.Bad(rule, an.Short(f)+":exclusive-lock", f.Pos(), "Cancel does not take an exclusive lock")
		return
	}
	// the calls a closure is handed to (Once.Do(func(){…})): they stand for its call sites
	handedTo := func(g *ssa.Function) []ssa.Instruction {
		var out []ssa.Instruction
		if g.Parent() == nil {
			return nil
		}
		an.EachInstr(g.Parent(), func(in ssa.Instruction) {
			ci, ok := in.(ssa.CallInstruction)
			if !ok {
				return
			}
			for _, a := range ci.Common().Args {
				for _, src := range an.Sources(a) {
					if mc, ok := src.(*ssa.MakeClosure); ok && mc.Fn == ssa.Value(g) {
						out = append(out, in)
					}
				}
			}
		})
		return out
	}
	sitesOf := func(g *ssa.Function) []ssa.Instruction {
		var out []ssa.Instruction
		for _, cs := range p.CallSitesOf(g) {
			out = append(out, cs.(ssa.Instruction))
		}
		return append(out, handedTo(g)...)
	}
	// underLock / guarded at an instruction: established in its own function, or at every call site of that function
	var underLock, guarded func(in ssa.Instruction, depth int) bool
	underLock = func(in ssa.Instruction, depth int) bool {
		g := in.Parent()
		if lk := lockOf(g); lk != nil && an.Dominates(lk.Instr, in) {
			held := true
			an.EachInstr(g, func(x ssa.Instruction) {
				if an.IsUnlockOf(x, *lk) {
					if _, isDefer := x.(*ssa.Defer); !isDefer && an.Dominates(x, in) {
						held = false
					}
				}
			})
			if held {
				return true
			}
		}
		if g == f || depth == 0 {
			return false
		}
		sites := sitesOf(g)
		if len(sites) == 0 {
			return false
		}
		for _, cs := range sites {
			if !underLock(cs, depth-1) {
				return false
			}
		}
		return true
	}
	guarded = func(in ssa.Instruction, depth int) bool {
		for _, gd := range an.Guards(in.Block()) {
			v := gd.Cond
			neg := false
			if u, ok := v.(*ssa.UnOp); ok && u.Op == token.NOT {
				v, neg = u.X, true
			}
			if an.FieldProv(v) == resolveRunnerState(p).canceling && (gd.Outcome != neg) == false {
				return true
			}
			// the same question put to the runner's context itself: ctx.Err() == nil holds until cancelFunc, which
			// only runs under this guard and the exclusive lock, has been called
			if bo, ok := v.(*ssa.BinOp); ok && (bo.Op == token.EQL || bo.Op == token.NEQ) {
				x, y := bo.X, bo.Y
				if an.IsNilConst(x) {
					x, y = y, x
				}
				if call, ok := x.(*ssa.Call); ok && an.IsNilConst(y) && call.Call.IsInvoke() && call.Call.Method.Name() == "Err" &&
					an.FieldProv(call.Call.Value) == resolveRunnerState(p).ctx {
					notCancelled := (bo.Op == token.EQL) == (gd.Outcome != neg)
					if notCancelled {
						return true
					}
				}
			}
		}
		g := in.Parent()
		if g == f || depth == 0 {
			return false
		}
		// a function handed to Do of a sync.Once held by the runner runs once in the runner's life
		if hs := handedTo(g); len(hs) > 0 && len(p.CallSitesOf(g)) == 0 {
			all := true
			for _, h := range hs {
				cc := h.(ssa.CallInstruction).Common()
				if an.ShortCallee(cc) != "(*sync.Once).Do" || !strings.HasPrefix(an.FieldKey(cc.Args[0]), "TaskRunner.") {
					all = false
				}
			}
			if all {
				return true
			}
		}
		sites := sitesOf(g)
		if len(sites) == 0 {
			return false
		}
		for _, cs := range sites {
			if !guarded(cs, depth-1) {
				return false
			}
		}
		return true
	}
	n := 0
	var fns []*ssa.Function
	for g := range scope {
		if g.Blocks != nil {
			fns = append(fns, g)
		}
	}
	sort.Slice(fns, func(i, j int) bool { return fns[i].String() < fns[j].String() })
	for _, g := range fns {
		an.EachInstr(g, func(in ssa.Instruction) {
			isEffect := false
			what := ""
			if call, ok := in.(*ssa.Call); ok {
				if an.FieldProv(call.Call.Value) == resolveRunnerState(p).cancel {
					isEffect, what = true, "cancelFunc()"
				}
			}
			if st, ok := in.(*ssa.Store); ok {
				if fa, ok := st.Addr.(*ssa.FieldAddr); ok && strings.HasPrefix(an.TypeField(fa), "TaskRunner.") {
					isEffect, what = true, "write("+an.TypeField(fa)+")"
				}
			}
			if !isEffect {
				return
			}
			n++
			ul, gd := underLock(in, 2), guarded(in, 2)
			c.Check(ul && gd, rule, an.Short(f)+":"+what, in.Pos(), "executed once: under the exclusive lock and only when not yet canceling", fmt.Sprintf("%s is not guarded by !canceling under the exclusive lock (under lock=%v, guarded=%v): a second Cancel repeats it", what, ul, gd))
		})
	}
	if n == 0 {
		c.Bad(rule, an.Short(f)+":effects", f.Pos(), "Cancel never cancels the runner's context")
	}
}

func runGate(c *an.Ctx, r *runnerRoles, rule string) {
	// the gate rows of the Run trace: nothing precedes the cancelled test, a cancelled
	// runner starts nothing and returns a non-nil error
	checkRunTable(c, rule, map[string]bool{"gate": true})
	// the function holding the test (Run itself or a helper it calls first)
	var f *ssa.Function
	var errCall ssa.Instruction
	ctxField := resolveRunnerState(c.P).ctx
	// the test: ctx.Err(), a non-blocking poll of ctx.Done(), or a call of a helper that consists of one of them
	isDirectTest := func(in ssa.Instruction) bool {
		if call, ok := in.(*ssa.Call); ok && call.Call.IsInvoke() && call.Call.Method.Name() == "Err" && an.FieldProv(call.Call.Value) == ctxField {
			return true
		}
		if sel, ok := in.(*ssa.Select); ok && !sel.Blocking && gateSelect(sel) >= 0 {
			return true
		}
		return false
	}
	isTest := func(in ssa.Instruction) bool {
		if isDirectTest(in) {
			return true
		}
		if call, ok := in.(*ssa.Call); ok {
			if h := call.Call.StaticCallee(); h != nil && an.InModule(h) && h.Blocks != nil && len(an.BlockingOps(h)) <= 1 {
				found := false
				an.EachInstr(h, func(x ssa.Instruction) {
					if isDirectTest(x) {
						found = true
					}
				})
				return found
			}
		}
		return false
	}
	for _, fn := range r.scope {
		hasAdd := len(an.CallsIn(fn, fnWgAdd)) > 0
		an.EachInstr(fn, func(in ssa.Instruction) {
			if !isTest(in) {
				return
			}
			// prefer the test in the function that registers the run, and there the first one
			if f == nil || (hasAdd && (f != fn || an.Dominates(in, errCall))) {
				f, errCall = fn, in
			}
		})
	}
	if errCall == nil {
		c.Bad(rule, an.Short(r.run)+":gate", r.run.Pos(), "Run does not test whether the runner's context is cancelled")
		return
	}
	// registration under the same read lock
	var rlock *an.BlockOp
	for _, op := range an.BlockingOps(f) {
		if op.Kind == "rlock" || op.Kind == "lock" {
			if an.Dominates(op.Instr, errCall) {
				o := op
				rlock = &o
			}
		}
	}
	var add ssa.Instruction
	for _, ci := range an.CallsIn(f, fnWgAdd) {
		add = ci
	}
	okReg := false
	if rlock != nil && add != nil && an.Dominates(errCall, add) {
		okReg = true
		// no unlock between the test and the Add
		an.EachInstr(f, func(x ssa.Instruction) {
			if an.IsUnlockOf(x, *rlock) {
				if an.Dominates(x, add) && an.Dominates(errCall, x) {
					okReg = false
				}
			}
		})
		if groupKey(rlock.OnVal) != resolveRunnerState(c.P).mutex {
			okReg = false
		}
	}
	c.Check(okReg, rule, an.Short(f)+":register-under-lock", errCall.Pos(), "the cancelled test and the in-flight registration happen under the lock Cancel takes exclusively: Cancel waits for every run that passed the test", "the cancelled test and the registration of the run are not covered by one critical section of Cancel's lock: a run can slip past a completed Cancel")
}

func runnerContext(c *an.Ctx, r *runnerRoles, rule string) {
	p := c.P
	// phases: Execute's ctx argument has provenance TaskRunner.ctx
	cfgDepth := 2
	_ = cfgDepth
	for _, fn0 := range r.scope {
		for _, fn := range []*ssa.Function{fn0} {
			fn := fn
			an.EachInstr(fn, func(in ssa.Instruction) {
				cc, ok := isExecCall(in)
				if !ok {
					return
				}
				ctxArg := cc.Args[0]
				if !cc.IsInvoke() {
					ctxArg = cc.Args[1]
				}
				job := cc.Args[len(cc.Args)-1]
				kind := jobKind(job, nil)
				if kind == "?" {
					kinds := map[string]bool{}
					for _, src := range p.DeepSources(job, 2, true) {
						kinds[jobKind(src, nil)] = true
					}
					var ks []string
					for k := range kinds {
						ks = append(ks, k)
					}
					sort.Strings(ks)
					kind = strings.Join(ks, "+")
				}
				if serviceCommandSite(fn, job) {
					return // context service commands: not one of the statement's injection points
				}
				provs := map[string]bool{}
				for _, src := range p.DeepSources(ctxArg, 3, true) {
					provs[an.FieldProv(src)] = true
				}
				var ps []string
				for k := range provs {
					ps = append(ps, k)
				}
				sort.Strings(ps)
				ph := struct {
					fn   *ssa.Function
					name string
				}{fn, kind}
				key := an.Short(ph.fn) + ":Execute(ctx," + kind + ")"
				good := len(provs) == 1 && provs[resolveRunnerState(p).ctx]
				if ph.name == "condition" {
					if !good {
						c.Note(rule, key, in.Pos(), "the condition job runs under %v, not the runner's context (outside the statement's injection points)", ps)
					} else {
						c.OK(rule, key, in.Pos(), "runs under TaskRunner.ctx")
					}
					return
				}
				c.Check(good, rule, key, in.Pos(), "runs under TaskRunner.ctx, the context Cancel cancels", fmt.Sprintf("the %s run under %v instead of the runner's context: Cancel cannot interrupt them", ph.name, ps))
			})
		}
	}
	// Execute hands ctx (or a child) to the interpreter
	ex := p.Func("pkg/executor", "DefaultExecutor", "Execute")
	if ex != nil {
		for _, ci := range an.CallsIn(ex, "(*mvdan.cc/sh/v3/interp.Runner).Run") {
			good := true
			why := ""
			for _, src := range an.Sources(ci.Common().Args[1]) {
				switch x := src.(type) {
				case *ssa.Parameter:
					if x != ex.Params[1] {
						good, why = false, an.Prov(src)
					}
				case *ssa.Extract:
					call, ok := x.Tuple.(*ssa.Call)
					if !ok || an.ShortCallee(&call.Call) != "context.WithTimeout" && an.ShortCallee(&call.Call) != "context.WithDeadline" && an.ShortCallee(&call.Call) != "context.WithCancel" {
						good, why = false, an.Prov(src)
						break
					}
					parentOK := false
					for _, ps := range an.Sources(call.Call.Args[0]) {
						if ps == ssa.Value(ex.Params[1]) {
							parentOK = true
						}
					}
					if !parentOK {
						good, why = false, "child of "+an.Prov(call.Call.Args[0])
					}
				default:
					good, why = false, an.Prov(src)
				}
			}
			c.Check(good, rule, an.Short(ex)+":interp.Run(ctx)", ci.Pos(), "the interpreter runs under the caller's context or a child of it", "the interpreter does not run under the context Execute was given: "+why)
		}
	}
	// the pair
	var ctxStores, cancelStores []*ssa.Store
	for _, fn := range p.Funcs {
		an.EachInstr(fn, func(in ssa.Instruction) {
			st, ok := in.(*ssa.Store)
			if !ok {
				return
			}
			fa, ok := st.Addr.(*ssa.FieldAddr)
			if !ok {
				return
			}
			switch an.TypeField(fa) {
			case resolveRunnerState(p).ctx:
				ctxStores = append(ctxStores, st)
			case resolveRunnerState(p).cancel:
				cancelStores = append(cancelStores, st)
			}
		})
	}
	good := len(ctxStores) == 1 && len(cancelStores) == 1
	if good {
		e0, ok0 := ctxStores[0].Val.(*ssa.Extract)
		e1, ok1 := cancelStores[0].Val.(*ssa.Extract)
		good = ok0 && ok1 && e0.Tuple == e1.Tuple && e0.Index == 0 && e1.Index == 1
		if good {
			call, ok := e0.Tuple.(*ssa.Call)
			good = ok && an.ShortCallee(&call.Call) == "context.WithCancel" && onlyUnderConstructor(p, ctxStores[0].Parent())
		}
	}
	c.Check(good, rule, "TaskRunner.ctx/cancelFunc:pair", r.cancel.Pos(), "ctx and cancelFunc are one WithCancel pair, assigned only in the constructor", "TaskRunner.ctx and cancelFunc are not a single WithCancel pair assigned once in the constructor: Cancel may cancel a context the commands do not run under")
}

// serviceCommandSite recognises the execution of an execution context's own
// service command (up/down/before/after of a context, not of a task): the
// function works on an ExecutionContext, has no TaskRunner in reach, and the
// job is one it builds itself rather than one the task compiler produced.
func serviceCommandSite(fn *ssa.Function, job ssa.Value) bool {
	f := an.Outer(fn)
	hasCtx := false
	for _, prm := range f.Params {
		if an.TypeIs(prm.Type(), "pkg/runner", "TaskRunner") {
			return false
		}
		if an.TypeIs(prm.Type(), "pkg/runner", "ExecutionContext") {
			hasCtx = true
		}
	}
	if !hasCtx {
		return false
	}
	srcs := an.ResolveAll(job)
	if len(srcs) == 0 {
		return false
	}
	for _, src := range srcs {
		// a job built here: a literal, or the result of a constructor of the job's package called here
		if call, isCall := src.(*ssa.Call); isCall && call.Parent() == fn && an.TypeIs(call.Type(), "pkg/executor", "Job") {
			ctor := call.Call.StaticCallee()
			fresh := ctor != nil && ctor.Blocks != nil && inPkgs("pkg/executor")(ctor)
			if fresh {
				for _, ret := range an.Returns(ctor) {
					for _, rs := range an.ResolveAll(an.RetVal(ret, 0)) {
						if ra, isAl := rs.(*ssa.Alloc); !isAl || ra.Parent() != ctor {
							fresh = false
						}
					}
				}
			}
			if fresh {
				continue
			}
			return false
		}
		al, ok := src.(*ssa.Alloc)
		if !ok || al.Parent() != fn || !an.TypeIs(al.Type(), "pkg/executor", "Job") {
			return false
		}
	}
	return true
}

// onlyUnderConstructor reports whether fn is NewTaskRunner or a function of
// pkg/runner that only NewTaskRunner calls (an init method of the state it
// builds).
func onlyUnderConstructor(p *an.Prog, fn *ssa.Function) bool {
	ctor := p.Func("pkg/runner", "", "NewTaskRunner")
	if ctor == nil {
		return false
	}
	if fn == ctor {
		return true
	}
	sites := p.CallSitesOf(fn)
	if len(sites) == 0 {
		return false
	}
	for _, s := range sites {
		if an.Outer(s.Parent()) != ctor {
			return false
		}
	}
	return true
}

// conditionsNotInterrupted: a condition's verdict is not taken from an interrupted command. A task's condition and a
// stage's condition both turn "the command exited non-zero" into "skip" — which is a success. A command killed by
// cancellation also exits non-zero (or is reported as an exit error), so a condition that runs under the
// cancellable context makes an interrupted task report success.
func conditionsNotInterrupted(c *an.Ctx, rule string) {
	p := c.P
	// every origin of the context is context.Background()/TODO(), followed back through parameters (all call sites
	// in the module) and closure variables
	var trace func(v ssa.Value, seen map[ssa.Value]bool) (bool, string)
	trace = func(v ssa.Value, seen map[ssa.Value]bool) (bool, string) {
		if seen[v] {
			return true, ""
		}
		seen[v] = true
		srcs := an.Sources(v)
		if len(srcs) == 0 {
			return false, an.Prov(v)
		}
		for _, src := range srcs {
			switch x := src.(type) {
			case *ssa.Call:
				switch an.ShortCallee(&x.Call) {
				case "context.Background", "context.TODO":
					continue
				}
				return false, an.FieldProv(src)
			case *ssa.Parameter:
				fn := x.Parent()
				idx := -1
				for i, q := range fn.Params {
					if q == x {
						idx = i
					}
				}
				sites := p.CallSitesOf(fn)
				if idx < 0 || len(sites) == 0 || (fn.Object() != nil && fn.Object().Exported()) {
					return false, "parameter " + x.Name() + " of " + an.Short(fn)
				}
				for _, site := range sites {
					cc := site.Common()
					ai := idx
					if cc.IsInvoke() {
						ai--
					}
					if ai < 0 || ai >= len(cc.Args) {
						return false, "parameter " + x.Name() + " of " + an.Short(fn)
					}
					if ok, what := trace(cc.Args[ai], seen); !ok {
						return false, what
					}
				}
			case *ssa.FreeVar:
				fn := x.Parent()
				found := false
				if fn.Parent() != nil {
					an.EachInstr(fn.Parent(), func(in ssa.Instruction) {
						mc, ok := in.(*ssa.MakeClosure)
						if !ok || mc.Fn != ssa.Value(fn) {
							return
						}
						for i, fv := range fn.FreeVars {
							if fv == x && i < len(mc.Bindings) {
								found = true
								if ok, _ := trace(mc.Bindings[i], seen); !ok {
									found = false
								}
							}
						}
					})
				}
				if !found {
					return false, "captured variable " + x.Name()
				}
			case *ssa.UnOp:
				// a load of a captured cell: what was stored into it
				if x.Op == token.MUL {
					if fv, ok := x.X.(*ssa.FreeVar); ok {
						if ok, what := trace(fv, seen); !ok {
							return false, what
						}
						continue
					}
					if al, ok := x.X.(*ssa.Alloc); ok && al.Referrers() != nil {
						n := 0
						for _, ref := range *al.Referrers() {
							if st, ok := ref.(*ssa.Store); ok && st.Addr == ssa.Value(al) {
								n++
								if ok, what := trace(st.Val, seen); !ok {
									return false, what
								}
							}
						}
						if n > 0 {
							continue
						}
					}
				}
				return false, an.FieldProv(src)
			case *ssa.Alloc:
				n := 0
				if x.Referrers() != nil {
					for _, ref := range *x.Referrers() {
						if st, ok := ref.(*ssa.Store); ok && st.Addr == ssa.Value(x) {
							n++
							if ok, what := trace(st.Val, seen); !ok {
								return false, what
							}
						}
					}
				}
				if n == 0 {
					return false, an.FieldProv(src)
				}
			default:
				return false, an.FieldProv(src)
			}
		}
		return true, ""
	}
	uncancellable := func(v ssa.Value) (bool, string) { return trace(v, map[ssa.Value]bool{}) }
	n := 0
	for _, fn := range p.Funcs {
		if !an.InModule(fn) || fn.Blocks == nil {
			continue
		}
		// the task's condition: the function that compiles Task.Condition and executes the job
		if inPkgs("pkg/runner")(fn) {
			compiles := false
			an.EachInstr(fn, func(in ssa.Instruction) {
				ci, ok := in.(ssa.CallInstruction)
				if !ok {
					return
				}
				for _, a := range ci.Common().Args {
					if an.FieldProv(a) == "Task.Condition" {
						if callee := ci.Common().StaticCallee(); callee != nil && an.InModule(callee) {
							compiles = true
						}
					}
				}
			})
			if compiles {
				for _, ci := range an.CallsIn(fn, fnExecIface, fnExecDefault) {
					n++
					cc, _ := an.IsCallTo(ci, fnExecIface, fnExecDefault)
					ok, what := uncancellable(cc.Args[1])
					c.Check(ok, rule, an.Short(fn)+":condition-context", ci.Pos(), "the task's condition runs under a context cancellation cannot reach", "the task's condition runs under "+what+": a condition interrupted by Cancel exits non-zero, which reads as \"condition not met\" — the interrupted task is marked skipped and Run returns nil")
				}
			}
		}
		// the stage's condition: os/exec in pkg/scheduler
		if inPkgs("pkg/scheduler")(fn) {
			for _, ci := range an.CallsIn(fn, "os/exec.CommandContext") {
				n++
				ok, what := uncancellable(ci.Common().Args[0])
				c.Check(ok, rule, an.Short(fn)+":condition-context", ci.Pos(), "the stage's condition runs under a context cancellation cannot reach", "the stage's condition runs under "+what+": a condition killed by Cancel is an exit error, which reads as \"condition not met\" — the stage is marked Skipped instead of the run being reported as interrupted")
			}
			for _, ci := range an.CallsIn(fn, "os/exec.Command") {
				n++
				c.OK(rule, an.Short(fn)+":condition-context", ci.Pos(), "the stage's condition is a plain exec.Command: cancellation does not reach it")
			}
		}
	}
	if n == 0 {
		c.Und(rule, "conditions:context", token.NoPos, "neither the task's nor the stage's condition command was found")
	}
}

// cancelTestsAreFatal: wherever a function under Run asks a context whether it is
// cancelled (ctx.Err() compared with nil), the cancelled side reports an error: no
// return reachable from it — before a command is executed again, whose interruption
// the job-walk table makes fatal — gives a constant nil error. (An early exit that
// leaves the command loop on cancellation and falls into the success return reports
// an interrupted task as succeeded.)
func cancelTestsAreFatal(c *an.Ctx, r *runnerRoles, rule string) {
	n := 0
	for _, fn0 := range r.scope {
		for _, fn := range an.WithAnon(fn0) {
			ei := an.ErrResultIndex(fn.Signature)
			if ei < 0 || fn.Blocks == nil {
				continue
			}
			for _, b := range fn.Blocks {
				if len(b.Instrs) == 0 {
					continue
				}
				iff, ok := b.Instrs[len(b.Instrs)-1].(*ssa.If)
				if !ok {
					continue
				}
				x, eq, isNil := an.NilTest(iff.Cond)
				if !isNil {
					continue
				}
				call, ok := an.Resolve(x).(*ssa.Call)
				if !ok || !call.Call.IsInvoke() || call.Call.Method.Name() != "Err" || !an.TypeIs(call.Call.Value.Type(), "context", "Context") {
					continue
				}
				n++
				// the successor taken when Err() is non-nil
				start := b.Succs[0]
				if eq {
					start = b.Succs[1]
				}
				seen := map[*ssa.BasicBlock]bool{}
				work := []*ssa.BasicBlock{start}
				var bad *ssa.Return
				for len(work) > 0 && bad == nil {
					blk := work[len(work)-1]
					work = work[:len(work)-1]
					if seen[blk] {
						continue
					}
					seen[blk] = true
					barrier := false
					for _, in := range blk.Instrs {
						if _, isExec := isExecCall(in); isExec {
							barrier = true
							break
						}
						if ret, ok := in.(*ssa.Return); ok {
							if an.IsNilConst(an.RetVal(ret, ei)) {
								bad = ret
							}
						}
					}
					if !barrier {
						work = append(work, blk.Succs...)
					}
				}
				key := an.Short(fn) + ":cancelled-test"
				if bad != nil {
					c.Bad(rule, key, bad.Pos(), "%s tests ctx.Err() and, on the cancelled side, reaches a return of a nil error without executing another command: an interrupted or not yet started task reports success", an.Short(fn))
				} else {
					c.OK(rule, key, iff.Pos(), "the cancelled side of the ctx.Err() test returns an error (or goes on to a command whose interruption is fatal)")
				}
			}
		}
	}
	if n == 0 {
		c.OK(rule, "runner:cancelled-tests", r.run.Pos(), "no function under Run besides the gate compares ctx.Err() with nil")
	}
}
