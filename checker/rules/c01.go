package rules

import (
	"fmt"
	"go/token"
	"sort"
	"strings"

	"golang.org/x/tools/go/ssa"

	"taskverif/an"
)

func init() { register("C01", checkC01) }

func checkC01(c *an.Ctx) {
	c.Rule("C01.1", "gate table (E2): per dependency, rows Done/Skipped/(Error∧allow_failure) may keep the gate's result, every other status row must make it false; the result is never set to true inside the loop; the gate ranges over the dependencies of the stage that is launched — all of them, on every call (the loop starts at the first element and is stepped by one)")
	c.Rule("C01.2", "launch guard (E3): the launch is dominated by status==Waiting and by the gate returning true, all on the stage handed to the goroutine at go time (no captured loop variable)")
	c.Rule("C01.3", "publish after run (E3): in the stage goroutine every Done/Error write is dominated by the synchronous call that reaches Runner.Run; no go edge between the goroutine and Runner.Run / nested Schedule")
	c.Rule("C01.4", "atomic status (E4): Stage.Status is written only by atomic.StoreInt32 in UpdateStatus and read in pkg/scheduler only by atomic.LoadInt32")
	c.Rule("C01.5", "edges (E4/E5): AddStage reaches the edge recorder for every dependency with (dep, stage.Name); the recorder updates from[a]∪={b}, to[b]∪={a} unconditionally; nothing else writes from/to; To/From return the entries unmodified")
	c.Rule("C01.6", "finished stays finished (premise of the gate and of the launch guard; same rule as C02.5): statuses are written as constants, Waiting is never written, Running only by the scheduling side on a stage seen Waiting — a dependency that was seen Done cannot be running again when its dependant starts")
	c.Rule("C01.7", "a nested pipeline finishes when its stages have (the rules of C02.7 and C02.2, obligations of C01 because a stage that is a pipeline is Done when Schedule returns): the scheduling loop ends by the done test only when no stage is Waiting or Running, and the stage goroutine ends Done / Error with the run's error recorded exactly when the stage failed fatally")
	c.NotDecided = append(c.NotDecided,
		"real interleavings and the Go memory model beyond 'all status accesses are atomic'",
		"a stage graph shared by two concurrently running schedulers",
		"the condition-before-dependencies order (a stage may be skipped before its dependencies finish; that is not a start)")
	s := resolveSched(c, "C01.0")
	if !s.ok {
		return
	}
	c.OK("C01.0", "scheduler roles", s.schedule.Pos(), "launch=%s body=%s gate=%s runner-caller=%s", c.P.Pos(s.launch.Pos()), an.Short(s.body), an.Short(s.gate), an.Short(s.runStage))
	gateTable(c, s, "C01.1", false)
	launchGuard(c, s, "C01.2")
	publishAfterRun(c, s, "C01.3")
	atomicStatus(c, s, "C01.4")
	edgeWiring(c, s, "C01.5")
	monotoneStatus(c, s, "C01.6")
	// a nested pipeline is a stage: "finished" for it means that Schedule returned, so Schedule may return
	// only when none of its stages is unfinished, and with the failure of a stage as its error
	doneTest(c, s, "C01.7")
	stageBodyTable(c, s, "C01.7")
}

// gateRow is the result of exploring the gate's loop body for one row.
type gateRow struct {
	status  int64
	af      bool
	name    string
	verdict []string // per outcome: keep / false / true / exit / ?…
	writes  [][]string
	undec   []string
}

// exploreGate extracts the gate's decision table.
func exploreGate(c *an.Ctx, s *sched, rule string) ([]gateRow, bool) {
	g, l := s.gate, s.gateLoop
	key := an.Short(g) + ":gate-loop"
	_, elems := l.RangeKeyValue()
	if len(elems) == 0 {
		c.Und(rule, key, g.Pos(), "cannot identify the dependency name of the current iteration")
		return nil, false
	}
	isElem := func(v ssa.Value) bool {
		for _, r := range an.ResolveAll(v) {
			for _, e := range elems {
				if r == e {
					return true
				}
			}
		}
		return false
	}
	// the dependency stage: result of Node(<elem>) or nodes[<elem>]
	isDep := func(v ssa.Value) bool {
		for _, r := range an.ResolveAll(v) {
			switch x := r.(type) {
			case *ssa.Extract:
				if call, ok := x.Tuple.(*ssa.Call); ok {
					if cc, ok := an.IsCallTo(call, fnGraphNode); ok && len(cc.Args) == 2 && isElem(cc.Args[1]) && x.Index == 0 {
						return true
					}
				}
				if lk, ok := x.Tuple.(*ssa.Lookup); ok && x.Index == 0 {
					if an.AccessPath(lk.X).LastField() == "nodes" && isElem(lk.Index) {
						return true
					}
				}
			case *ssa.Lookup:
				if an.AccessPath(x.X).LastField() == "nodes" && isElem(x.Index) {
					return true
				}
			}
		}
		return false
	}
	// the stage being gated: a *Stage parameter of the gate
	var stageParam *ssa.Parameter
	for _, p := range g.Params {
		if an.TypeIs(p.Type(), "pkg/scheduler", "Stage") {
			stageParam = p
		}
	}
	who := func(v ssa.Value) string {
		if isDep(v) {
			return "dep"
		}
		if stageParam != nil && an.SameValue(v, stageParam) {
			return "stage"
		}
		if s.loopStage != nil && an.SameValue(v, s.loopStage) {
			return "stage"
		}
		return "other:" + an.Prov(v)
	}
	// result φ: header φ that flows to a return
	entry := l.BodyEntry()
	if entry == nil {
		c.Und(rule, key, g.Pos(), "loop has no body")
		return nil, false
	}
	nAtoms := 0
	var rows []gateRow
	for _, stv := range s.statusDomain() {
		for _, af := range []bool{false, true} {
			stv, af := stv, af
			ex := &an.Explorer{P: c.P, NoReturn: noReturn, MaxDepth: 3,
				Inline: func(f *ssa.Function) bool { return f.Pkg == g.Pkg && f != s.schedule },
			}
			l.Bound(ex)
			// (the dependency may be examined by a helper of the package — a classifier the gate switches on:
			// inside it the dependency is the helper's parameter, mapped back by the state)
			ex.AtomSt = func(v ssa.Value, st *an.State) (an.AVal, bool) {
				isDep := func(x ssa.Value) bool {
					for _, y := range st.RootChain(x) {
						if isDep(y) {
							return true
						}
					}
					return false
				}
				switch x := v.(type) {
				case *ssa.Call:
					if cc, ok := an.IsCallTo(x, fnReadStatus); ok && isDep(cc.Args[0]) {
						nAtoms++
						return an.AInt(stv), true
					}
					if cc, ok := an.IsCallTo(x, "sync/atomic.LoadInt32"); ok && isStatusField(cc.Args[0]) && isDep(cc.Args[0].(*ssa.FieldAddr).X) {
						nAtoms++
						return an.AInt(stv), true
					}
				case *ssa.UnOp:
					if x.Op == token.MUL {
						if fa, ok := x.X.(*ssa.FieldAddr); ok && an.TypeIs(fa.X.Type(), "pkg/scheduler", "Stage") {
							ap := an.AccessPath(fa)
							if ap.LastField() == "AllowFailure" && isDep(fa.X) {
								nAtoms++
								return an.ABool(af), true
							}
						}
					}
				}
				return an.AVal{}, false
			}
			ex.Effect = func(in ssa.Instruction, st *an.State) string {
				if e := s.updateStatusEffect(in, st, who); e != "" {
					return e
				}
				if cc, ok := an.IsCallTo(in, "sync/atomic.StoreInt32"); ok && isStatusField(cc.Args[0]) {
					return "rawwrite(" + who(cc.Args[0].(*ssa.FieldAddr).X) + ")"
				}
				return ""
			}
			outs := ex.Run(g, entry, l.Header, nil)
			row := gateRow{status: stv, af: af, name: fmt.Sprintf("%s/af=%v", statusLabel(s, stv), af)}
			for _, o := range outs {
				v := gateVerdict(g, l, o)
				row.verdict = append(row.verdict, v)
				row.writes = append(row.writes, o.Effects)
				for _, u := range o.Unknown {
					// the only condition a row may fork on is the existence of the dependency
					if !strings.Contains(u, "Node(") && !strings.Contains(u, ".nodes[") {
						row.undec = append(row.undec, u)
					}
				}
			}
			rows = append(rows, row)
		}
	}
	if nAtoms == 0 {
		c.Und(rule, key, g.Pos(), "the gate loop never reads the dependency's status (ReadStatus on the stage looked up from the ranged name): table cannot be extracted")
		return nil, false
	}
	// table into evidence
	var table []string
	for _, r := range rows {
		var cells []string
		for i := range r.verdict {
			cells = append(cells, fmt.Sprintf("%s {%s}", r.verdict[i], strings.Join(r.writes[i], ",")))
		}
		sort.Strings(cells)
		table = append(table, fmt.Sprintf("%-22s -> %s", r.name, strings.Join(dedup(cells), " | ")))
	}
	c.Tables["gate("+an.Short(g)+")"] = table
	return rows, true
}

func dedup(xs []string) []string {
	seen := map[string]bool{}
	var out []string
	for _, x := range xs {
		if !seen[x] {
			seen[x] = true
			out = append(out, x)
		}
	}
	return out
}

// gateVerdict classifies what one path through the loop body does to the
// gate's final result.
func gateVerdict(g *ssa.Function, l *an.Loop, o an.Outcome) string {
	switch o.End {
	case "exit":
		return "exit"
	case "return":
		if len(o.Ret) >= 1 {
			if b, ok := o.Ret[0].IsBool(); ok {
				if b {
					return "true"
				}
				return "false"
			}
		}
		return "?return"
	case "stop":
		// which φ carries the result?  the one (in the stop block) that a
		// return of the gate yields, directly or through later φs
		res := resultPhis(g)
		verdict := "keep"
		found := false
		for phi, v := range o.PhiIn {
			if res[phi] {
				found = true
				verdict = v
			}
		}
		if !found {
			// no result φ in the stop block: the result is not touched by
			// this path when the stop block is the header of a loop whose
			// result is decided by returns; if a result φ exists elsewhere
			// the path leaves it unchanged
			return "keep"
		}
		return verdict
	}
	return "?" + o.End
}

// resultPhis returns the φ nodes of g whose value can flow to a return.
func resultPhis(g *ssa.Function) map[*ssa.Phi]bool {
	res := map[*ssa.Phi]bool{}
	var walk func(v ssa.Value)
	walk = func(v ssa.Value) {
		if phi, ok := v.(*ssa.Phi); ok {
			if res[phi] {
				return
			}
			res[phi] = true
			for _, e := range phi.Edges {
				walk(e)
			}
		}
	}
	for _, r := range an.Returns(g) {
		for _, v := range r.Results {
			walk(v)
		}
	}
	return res
}

// gateTable checks C01.1 (cancelColumn=false) or C02.1 (cancelColumn=true).
func gateTable(c *an.Ctx, s *sched, rule string, cancelColumn bool) {
	rows, ok := exploreGate(c, s, rule)
	if !ok {
		return
	}
	g := s.gate
	D, S, E, C, W, R := s.status["Done"], s.status["Skipped"], s.status["Error"], s.status["Canceled"], s.status["Waiting"], s.status["Running"]
	for _, r := range rows {
		key := an.Short(g) + ":row " + r.name
		if len(r.undec) > 0 {
			c.Und(rule, key, g.Pos(), "row forks on conditions the analysis cannot compute from the dependency's status and allow_failure: %s", strings.Join(dedup(r.undec), "; "))
			continue
		}
		satisfied := r.status == D || r.status == S || (r.status == E && r.af)
		if !cancelColumn {
			bad := ""
			for i, v := range r.verdict {
				switch {
				case v == "true":
					bad = "sets the gate's result to true (earlier dependencies are forgotten)"
				case strings.HasPrefix(v, "?"):
					c.Und(rule, key, g.Pos(), "cannot determine the gate's result on a path with effects %v: %s", r.writes[i], v)
					bad = "-"
				case !satisfied && v == "keep":
					bad = "leaves the gate's result unchanged although the dependency has not finished acceptably"
				}
			}
			if bad == "-" {
				continue
			}
			if bad != "" {
				c.Bad(rule, key, g.Pos(), "dependency status %s: the gate %s", r.name, bad)
			} else {
				c.OK(rule, key, g.Pos(), "verdicts %v", dedup(r.verdict))
			}
			continue
		}
		// a dependency that finished acceptably blocks nothing
		if satisfied {
			for _, v := range r.verdict {
				if v == "false" || v == "true" {
					c.Bad(rule, key+":blocks", g.Pos(), "dependency status %s: the gate makes the stage wait (result %s) although the dependency finished acceptably — a skipped or allowed-to-fail dependency must block nothing", r.name, v)
				}
			}
		}
		// cancel column: exact set of writes on the waiting stage
		mustCancel := r.status == C || (r.status == E && !r.af)
		_ = W
		_ = R
		bad := ""
		for i, ws := range r.writes {
			if r.verdict[i] == "exit" {
				continue
			}
			var onStage []string
			for _, w := range ws {
				if strings.HasPrefix(w, "write(stage,") {
					onStage = append(onStage, strings.TrimSuffix(strings.TrimPrefix(w, "write(stage,"), ")"))
				} else {
					bad = "writes a status on something that is not the waiting stage: " + w
				}
			}
			switch {
			case mustCancel && (len(onStage) == 0 || onStage[len(onStage)-1] != "Canceled"):
				bad = fmt.Sprintf("must cancel the waiting stage but writes %v", onStage)
			case !mustCancel && len(onStage) > 0:
				bad = fmt.Sprintf("must not change the waiting stage but writes %v", onStage)
			}
		}
		if bad != "" {
			c.Bad(rule, key, g.Pos(), "dependency status %s: the gate %s", r.name, bad)
		} else {
			c.OK(rule, key, g.Pos(), "writes %v", r.writes)
		}
	}
	// every dependency is looked at on every call: a loop that resumes at a remembered position ("the first k
	// were satisfied last time") skips the ones before it, whatever their status is by now
	c.Check(s.gateLoop.VisitsEveryElement(), rule, an.Short(g)+":all-dependencies", g.Pos(),
		"the gate's loop goes over all dependencies on every call",
		"the gate's loop does not start at the first dependency (or is not stepped by one): dependencies it skips are never looked at, so a stage can be let through while one of them is still running or has failed")
	if cancelColumn {
		return
	}
	// loop-carried soundness: the result φ in the header gets only itself or false from inside the loop
	res := resultPhis(g)
	l := s.gateLoop
	for _, in := range l.Header.Instrs {
		phi, ok := in.(*ssa.Phi)
		if !ok {
			break
		}
		if !res[phi] {
			continue
		}
		for i, pred := range l.Header.Preds {
			e := phi.Edges[i]
			if !l.Blocks[pred] {
				continue
			}
			if k, ok := e.(*ssa.Const); ok && k.Value != nil && k.Value.ExactString() == "true" {
				c.Bad(rule, an.Short(g)+":result-phi", phi.Pos(), "the gate's result is reset to true inside the dependency loop")
			}
		}
	}
	// the gate ranges over the dependencies of the stage that is launched
	op := l.RangeOperand()
	okRange := false
	for _, r := range an.ResolveAll(op) {
		if call, ok := r.(*ssa.Call); ok {
			if cc, ok := an.IsCallTo(call, fnGraphTo); ok {
				ap := an.AccessPath(cc.Args[1])
				if ap.LastField() == "Name" && an.TypeIs(ap.Base.Type(), "pkg/scheduler", "Stage") {
					if _, isParam := ap.Base.(*ssa.Parameter); isParam || an.SameValue(ap.Base, s.loopStage) {
						okRange = true
					}
				}
			}
		}
		if lk, ok := r.(*ssa.Lookup); ok {
			ap := an.AccessPath(lk.Index)
			if ap.LastField() == "Name" {
				okRange = true
			}
		}
	}
	c.Check(okRange, rule, an.Short(g)+":range", g.Pos(),
		"the gate ranges over To(stage.Name) of its stage parameter",
		"the gate's loop does not range over To(<stage>.Name) of the gated stage: "+an.Prov(op))
}

// launchGuard checks C01.2 (and C03.1): on the scheduling trace a stage is
// launched only in the rows where it was seen Waiting, its condition allowed
// it and the gate said true, with Add and Waiting→Running before the go
// statement; and the goroutine gets its stage bound at go time.
func launchGuard(c *an.Ctx, s *sched, rule string) {
	key := an.Short(s.launchFn) + ":launch"
	// the dependency gate is not a question one may ask at any time: it cancels the stage it is asked about when
	// a dependency has failed. Its only call is the one the per-stage loop makes for a stage it has just seen
	// Waiting — asked about a finished stage (for a log line, say) it rewrites a final status
	if s.gate != nil {
		writes := false
		for f := range c.P.Reach([]*ssa.Function{s.gate}, func(e an.CallEdge) bool { return e.Kind == an.EdgeCall && an.Outer(e.Callee).Pkg == s.gate.Pkg }) {
			if len(an.CallsIn(f, fnUpdateStatus)) > 0 {
				writes = true
			}
		}
		if writes {
			for _, site := range c.P.CallSitesOf(s.gate) {
				if !an.InModule(site.Parent()) || (s.gateCall != nil && site == ssa.CallInstruction(s.gateCall)) {
					continue
				}
				// (the per-stage loop may live in a function of its own, with the launch in yet another one: the call
				// the loop makes for its current stage is the launch decision)
				if site.Parent() == s.loopFn && s.inner != nil && s.inner.Blocks[site.Block()] && len(c.P.CallSitesOf(s.gate)) == 1 {
					continue
				}
				c.Bad(rule, an.Short(site.Parent())+":gate-call", site.Pos(), "%s calls the dependency gate %s outside the launch path: the gate cancels the stage it is asked about, so asking about a stage that is not Waiting (skipped, done, running) can overwrite its status and cancel stages that depend on it", an.Short(site.Parent()), an.Short(s.gate))
			}
		}
	}
	var goStage ssa.Value
	for _, a := range s.launch.Call.Args {
		if an.TypeIs(a.Type(), "pkg/scheduler", "Stage") {
			goStage = a
		}
	}
	if goStage == nil && s.carrier != nil {
		c.OK(rule, key+":identity", s.launch.Pos(), "the goroutine receives an object built for this launch whose stage field is the loop's stage")
		checkSchedTable(c, s, rule, map[string]bool{"launch": true})
		return
	}
	if goStage == nil {
		fv, ok := s.bodyStage.(*ssa.FreeVar)
		if !ok {
			c.Und(rule, key, s.launch.Pos(), "cannot find the stage handed to the goroutine")
			return
		}
		// a captured variable is fine when it belongs to one launch: a parameter of a helper that is called
		// once per stage, or a variable declared inside the loop body (a new one per iteration); the loop's
		// own range variable is one variable shared by all iterations (go.mod says go 1.16)
		perLaunch := false
		for _, src := range an.Sources(s.launch.Call.Value) {
			mc, isMC := src.(*ssa.MakeClosure)
			if !isMC {
				continue
			}
			for i, b := range mc.Bindings {
				if i >= len(s.body.FreeVars) || s.body.FreeVars[i] != fv {
					continue
				}
				switch x := b.(type) {
				case *ssa.Parameter:
					perLaunch = s.launchFn != s.loopFn
				case *ssa.Alloc:
					if s.launchFn != s.loopFn {
						perLaunch = true
					} else if s.inner.Blocks[x.Block()] && x.Block() != s.inner.Header {
						perLaunch = true
					}
				}
			}
		}
		if !perLaunch {
			c.Bad(rule, key, s.launch.Pos(), "the stage goroutine captures the loop variable %q instead of receiving the stage as an argument at go time (go.mod says go 1.16: one variable shared by all iterations)", fv.Name())
			return
		}
		c.OK(rule, key+":identity", s.launch.Pos(), "the goroutine captures a variable that belongs to this launch only (%s)", fv.Name())
		checkSchedTable(c, s, rule, map[string]bool{"launch": true})
		return
	}
	for _, fn := range an.WithAnon(s.body) {
		for _, fv := range fn.FreeVars {
			if fn != s.body {
				continue
			}
			if an.TypeIs(an.Deref(fv.Type()), "pkg/scheduler", "Stage") {
				c.Bad(rule, key+":capture", s.launch.Pos(), "the stage goroutine also captures a *Stage variable %q that is shared between iterations", fv.Name())
			}
		}
	}
	c.OK(rule, key+":identity", s.launch.Pos(), "goroutine receives its stage as an argument bound at go time")
	checkSchedTable(c, s, rule, map[string]bool{"launch": true})
}

// evalWith evaluates v under the given assumptions.
func evalWith(p *an.Prog, v ssa.Value, seed map[ssa.Value]an.AVal) an.AVal {
	ex := &an.Explorer{P: p}
	st := ex.NewState(seed)
	return st.Eval(v)
}

// publishAfterRun checks C01.3.
func publishAfterRun(c *an.Ctx, s *sched, rule string) {
	body := s.body
	key := an.Short(body)
	if len(s.runnerCalls) == 0 {
		c.Und(rule, key+":runner-call", body.Pos(), "stage goroutine has no synchronous call reaching Runner.Run")
		return
	}
	// no go edge between the body and Runner.Run / Schedule
	syncSet := c.P.Reach([]*ssa.Function{body}, func(e an.CallEdge) bool { return e.Kind != an.EdgeGo && an.InModule(e.Callee) })
	asyncBad := false
	for f := range syncSet {
		if f == s.launchFn && f != body {
			// the recursive Schedule: its own launch site is the legitimate one
			continue
		}
		an.EachInstr(f, func(in ssa.Instruction) {
			g, ok := in.(*ssa.Go)
			if !ok || g == s.launch {
				return
			}
			r := c.P.Reach(c.P.Callees(&g.Call), func(e an.CallEdge) bool { return an.InModule(e.Callee) })
			for h := range r {
				if len(an.CallsIn(h, fnRunnerRun)) > 0 || s.isSchedule(h) {
					c.Bad(rule, an.Short(f)+":go", g.Pos(), "the task is started asynchronously (go statement between the stage goroutine and Runner.Run): the status would be published before the task finished")
					asyncBad = true
					return
				}
			}
		})
	}
	if !asyncBad {
		c.OK(rule, key+":sync", body.Pos(), "Runner.Run and nested Schedule are reached by synchronous calls only (%d functions)", len(syncSet))
	}
	// on the trace of the goroutine body (helpers of the package inlined, the runner calls opaque): a Done or
	// Error status is written only after a runner call returned
	D, E := s.status["Done"], s.status["Error"]
	isRunner := map[ssa.Instruction]bool{}
	for _, rc := range s.runnerCalls {
		isRunner[rc] = true
	}
	ex := &an.Explorer{P: c.P, NoReturn: noReturn, MaxDepth: 3,
		Inline: func(f *ssa.Function) bool {
			return an.Outer(f).Pkg == s.schedule.Pkg && f != s.schedule && f != s.runStage && an.Outer(f) != an.Outer(body) || f.Parent() == body
		}}
	writeSites := map[string]ssa.Instruction{}
	ex.Effect = func(in ssa.Instruction, st *an.State) string {
		if isRunner[in] {
			return "run"
		}
		if ci, ok := in.(ssa.CallInstruction); ok {
			for _, callee := range c.P.Callees(ci.Common()) {
				if callee == s.runStage || s.isSchedule(callee) {
					return "run"
				}
			}
		}
		cc, ok := an.IsCallTo(in, fnUpdateStatus)
		if !ok {
			return ""
		}
		lbl := "?"
		if a := st.Eval(cc.Args[1]); a.K == an.AConst {
			if v, isInt := an.ConstIntOf(a); isInt {
				if v != D && v != E {
					return ""
				}
				lbl = statusLabel(s, v)
			}
		}
		e := "write(" + lbl + ")@" + an.Short(in.Parent())
		writeSites[e] = in
		return e
	}
	outs := ex.Run(body, body.Blocks[0], nil, nil)
	early := map[string]bool{}
	seenWrites := map[string]bool{}
	for _, o := range outs {
		ran := false
		for _, e := range o.Effects {
			if e == "run" {
				ran = true
			}
			if strings.HasPrefix(e, "write(") {
				seenWrites[e] = true
				if !ran {
					early[e] = true
				}
			}
		}
	}
	n := 0
	var wkeys []string
	for e := range seenWrites {
		wkeys = append(wkeys, e)
	}
	sort.Strings(wkeys)
	for _, e := range wkeys {
		n++
		parts := strings.SplitN(e, "@", 2)
		wkey := parts[1] + ":" + parts[0]
		c.Check(!early[e], rule, wkey, writeSites[e].Pos(),
			"status write follows the return of the runner call",
			"a finished status is published on a path on which the task has not run to completion (write not preceded by the runner call)")
	}
	if n == 0 {
		c.Und(rule, key+":writes", body.Pos(), "stage goroutine publishes no Done/Error status")
	}
	// the nested Schedule call is synchronous and its result is what the runner caller returns
	if s.runStage != nil {
		for _, ci := range s.scheduleCallsIn(s.runStage) {
			if _, isGo := ci.(*ssa.Go); isGo {
				c.Bad(rule, an.Short(s.runStage)+":nested", ci.Pos(), "nested pipeline is scheduled asynchronously")
			} else {
				c.OK(rule, an.Short(s.runStage)+":nested", ci.Pos(), "nested pipeline is scheduled by a synchronous call")
			}
		}
	}
}

// atomicStatus checks C01.4.
func atomicStatus(c *an.Ctx, s *sched, rule string) {
	n := 0
	guardKeys := map[string]bool{}
	atomics := 0
	plain := false
	for _, fn := range c.P.Funcs {
		an.EachInstr(fn, func(in ssa.Instruction) {
			fa, ok := in.(*ssa.FieldAddr)
			if !ok || !isStatusField(fa) {
				return
			}
			refs := fa.Referrers()
			if refs == nil {
				return
			}
			for _, r := range *refs {
				n++
				key := an.Short(fn) + ":Stage.Status"
				switch x := r.(type) {
				case *ssa.Call:
					name := an.ShortCallee(&x.Call)
					switch name {
					case "sync/atomic.LoadInt32":
						atomics++
						c.OK(rule, key+":atomic-load", x.Pos(), "atomic load")
						c.Site(rule, an.Short(fn)+" atomic.LoadInt32 "+c.P.Pos(x.Pos()))
					case "sync/atomic.StoreInt32":
						atomics++
						isUpd := an.Short(fn) == fnUpdateStatus
						c.Check(isUpd, rule, key+":atomic-store", x.Pos(), "atomic store inside UpdateStatus",
							"Stage.Status is stored outside UpdateStatus")
						c.Site(rule, an.Short(fn)+" atomic.StoreInt32 "+c.P.Pos(x.Pos()))
					default:
						// a method of a status type of its own that does the atomic operation on the same word
						if kind := atomicAccessor(x); kind != "" {
							atomics++
							if kind == "store" {
								isUpd := an.Short(fn) == fnUpdateStatus
								c.Check(isUpd, rule, key+":atomic-store", x.Pos(), "atomic store (through "+name+") inside UpdateStatus", "Stage.Status is stored outside UpdateStatus")
							} else {
								c.OK(rule, key+":atomic-load", x.Pos(), "atomic load (through "+name+")")
							}
							c.Site(rule, an.Short(fn)+" "+name+" "+c.P.Pos(x.Pos()))
							continue
						}
						c.Bad(rule, key+":"+name, x.Pos(), "Stage.Status address escapes to %s", name)
					}
				case *ssa.UnOp:
					if k, on := heldLock(fn, x); k != "" && an.SameValue(an.AccessPath(on).Base, fa.X) && leafMutex(c.P, k) {
						guardKeys[k] = true
						c.OK(rule, key+":locked-read", x.Pos(), "read under the stage's own leaf mutex "+k)
						continue
					}
					plain = true
					if strings.Contains(fn.Pkg.Pkg.Path(), "pkg/scheduler") {
						c.Bad(rule, key+":plain-read", x.Pos(), "non-atomic read of Stage.Status inside pkg/scheduler")
					} else {
						c.Note(rule, key+":plain-read", x.Pos(), "non-atomic read of Stage.Status outside the scheduler (after the run)")
					}
				case *ssa.Store:
					if x.Addr == fa {
						fresh := false
						if a, ok := fa.X.(*ssa.Alloc); ok && a.Heap {
							fresh = true
						}
						if k, on := heldLock(fn, x); !fresh && k != "" && an.SameValue(an.AccessPath(on).Base, fa.X) && leafMutex(c.P, k) {
							guardKeys[k] = true
							c.Check(an.Short(fn) == fnUpdateStatus, rule, key+":locked-write", x.Pos(), "write under the stage's own leaf mutex "+k+" inside UpdateStatus", "Stage.Status is stored outside UpdateStatus")
							continue
						}
						if fresh {
							c.OK(rule, key+":init", x.Pos(), "initialisation of a freshly allocated stage")
						} else {
							c.Bad(rule, key+":plain-write", x.Pos(), "non-atomic write of Stage.Status")
						}
					}
				case *ssa.DebugRef:
				default:
					c.Bad(rule, key+":escape", r.Pos(), "Stage.Status address used by %T", r)
				}
			}
		})
	}
	if n == 0 {
		c.Und(rule, "Stage.Status", token.NoPos, "no access to Stage.Status found")
	}
	// one discipline: the accesses that rely on a mutex all rely on the same one, and none relies on atomics then
	if len(guardKeys) > 1 || (len(guardKeys) == 1 && atomics > 0) {
		c.Bad(rule, "Stage.Status:discipline", token.NoPos, "accesses to Stage.Status are synchronised in different ways (%d mutexes, %d atomic accesses): they do not exclude each other", len(guardKeys), atomics)
	}
	_ = plain
}

// edgeWiring checks C01.5.
func edgeWiring(c *an.Ctx, s *sched, rule string) {
	p := c.P
	add := p.Func("pkg/scheduler", "ExecutionGraph", "AddStage")
	if add == nil {
		c.Und(rule, "scheduler.(*ExecutionGraph).AddStage", token.NoPos, "AddStage not found")
		return
	}
	// recorder: function with map updates on both from and to
	type upd struct {
		fn    *ssa.Function
		mu    *ssa.MapUpdate
		field string
	}
	var updates []upd
	roles := resolveEdgeRoles(p)
	for _, fn := range p.Funcs {
		an.EachInstr(fn, func(in ssa.Instruction) {
			mu, ok := in.(*ssa.MapUpdate)
			if !ok {
				return
			}
			ap := an.AccessPath(mu.Map)
			if ap.Base != nil && an.TypeIs(ap.Base.Type(), "pkg/scheduler", "ExecutionGraph") && roles.isEdgeMapField(ap.LastField()) {
				seen := map[string]bool{}
				for _, u := range roles.edgeUpdates(mu) {
					if u.role != "" && !seen[u.role] {
						seen[u.role] = true
						updates = append(updates, upd{fn, mu, u.role})
					}
				}
			}
		})
		// whole-map replacement outside a constructor
		an.EachInstr(fn, func(in ssa.Instruction) {
			st, ok := in.(*ssa.Store)
			if !ok {
				return
			}
			fa, ok := st.Addr.(*ssa.FieldAddr)
			if !ok || !an.TypeIs(fa.X.Type(), "pkg/scheduler", "ExecutionGraph") {
				return
			}
			name := an.AccessPath(fa).LastField()
			if !roles.isEdgeMapField(name) {
				return
			}
			if a, ok := fa.X.(*ssa.Alloc); ok && a.Heap {
				c.OK(rule, an.Short(fn)+":init "+name, st.Pos(), "edge map initialised on a freshly allocated graph")
				return
			}
			c.Bad(rule, an.Short(fn)+":replace "+name, st.Pos(), "edge map %s of an existing graph is replaced", name)
		})
	}
	if len(updates) == 0 {
		c.Und(rule, "scheduler:edge-recorder", add.Pos(), "no function updates ExecutionGraph.from/to")
		return
	}
	// who may update the edge maps: only code that runs as part of AddStage
	reach := p.Reach([]*ssa.Function{add}, func(e an.CallEdge) bool { return an.InModule(e.Callee) })
	for _, u := range updates {
		_, ok := reach[u.fn]
		c.Check(ok, rule, an.Short(u.fn)+":update "+u.field, u.mu.Pos(), "the edge map "+u.field+" is updated as part of AddStage", "the edge map "+u.field+" is also written by "+an.Short(u.fn)+", outside AddStage")
	}
	edgeRecords(c, rule)
	// … and stay what was recorded: nobody but the graph's builders writes the adjacency lists in place
	graphStorageWrites(c, rule)
	// the loop covers the whole slice: plain range (no early exit besides error returns) — exits other than header must be returns with non-nil error
	// accessors
	for _, acc := range []struct{ name, field string }{{"To", "to"}, {"From", "from"}} {
		f := p.Func("pkg/scheduler", "ExecutionGraph", acc.name)
		if f == nil {
			c.Und(rule, "scheduler.(*ExecutionGraph)."+acc.name, token.NoPos, "accessor not found")
			continue
		}
		ok := true
		for _, ret := range an.Returns(f) {
			// (a defensive copy of the list counts as the list)
			loc, key, isRead := edgeListRead(an.ContentOf(an.RetVal(ret, 0)))
			if !isRead || loc != roles.loc[acc.field] || !an.SameValue(key, f.Params[1]) {
				ok = false
			}
		}
		c.Check(ok, rule, an.Short(f)+":accessor", f.Pos(), acc.name+" returns "+acc.field+"[name] unmodified", acc.name+" does not return the list kept for its argument in the graph's "+acc.field+" relation, unmodified")
	}
}

// atomicAccessor: call hands the address to a small module function that does nothing with it but one sync/atomic
// operation on the same word (after a pointer conversion to the underlying integer type); it returns "load",
// "store" or "".
func atomicAccessor(call *ssa.Call) string {
	h := call.Call.StaticCallee()
	if h == nil || !an.InModule(h) || h.Blocks == nil || len(h.Blocks) != 1 || len(call.Call.Args) == 0 {
		return ""
	}
	var prm *ssa.Parameter
	for i, a := range call.Call.Args {
		if _, isFA := a.(*ssa.FieldAddr); isFA && i < len(h.Params) {
			prm = h.Params[i]
		}
	}
	if prm == nil || prm.Referrers() == nil {
		return ""
	}
	kind := ""
	ok := true
	var visit func(v ssa.Value)
	visit = func(v ssa.Value) {
		if v.Referrers() == nil {
			return
		}
		for _, r := range *v.Referrers() {
			switch x := r.(type) {
			case *ssa.Convert:
				visit(x)
			case *ssa.ChangeType:
				visit(x)
			case *ssa.DebugRef:
			case *ssa.Call:
				switch an.ShortCallee(&x.Call) {
				case "sync/atomic.LoadInt32":
					if kind == "" {
						kind = "load"
					}
				case "sync/atomic.StoreInt32", "sync/atomic.CompareAndSwapInt32", "sync/atomic.SwapInt32":
					kind = "store"
				default:
					ok = false
				}
			default:
				ok = false
			}
		}
	}
	visit(prm)
	if !ok {
		return ""
	}
	return kind
}
