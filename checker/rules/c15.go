package rules

import (
	"fmt"
	"go/token"
	"go/types"
	"sort"
	"strings"

	"golang.org/x/tools/go/ssa"

	"taskverif/an"
)

func init() { register("C15", checkC15) }

// loadScope returns the module functions that run while a configuration is
// loaded or inspected: everything reachable from the loader's entry points,
// ReadEnvFile, NewWatcher, the app's Before hook and the list/show/graph/
// validate actions.
func loadScope(c *an.Ctx) (map[*ssa.Function][]an.CallEdge, []*ssa.Function) {
	p := c.P
	var roots []*ssa.Function
	add := func(f *ssa.Function) {
		if f != nil {
			roots = append(roots, f)
		}
	}
	add(p.Func("internal/config", "Loader", "Load"))
	add(p.Func("internal/config", "Loader", "LoadGlobalConfig"))
	add(p.Func("pkg/utils", "", "ReadEnvFile"))
	add(p.Func("internal/watch", "", "NewWatcher"))
	for _, name := range []string{"newListCommand", "newShowCommand", "newGraphCommand", "newValidateCommand"} {
		if f := p.Func("cmd/taskctl", "", name); f != nil {
			for _, a := range an.WithAnon(f) {
				if a != f {
					add(a)
				}
			}
		}
	}
	if app := p.Func("cmd/taskctl", "", "makeApp"); app != nil {
		for _, a := range an.WithAnon(app) {
			if a != app && len(an.CallsIn(a, "(internal/config.Loader).Load")) > 0 {
				add(a)
			}
		}
	}
	add(p.Func("cmd/taskctl", "", "draw"))
	add(p.Func("cmd/taskctl", "", "buildSuggestions"))
	reach := p.Reach(roots, func(e an.CallEdge) bool { return an.InModule(e.Callee) })
	return reach, roots
}

func checkC15(c *an.Ctx) {
	c.Rule("C15.1", "no unchecked type assertion (E6a): in the load scope a single-result x.(T) is allowed only where every value that can reach x provably has dynamic type T (all stores into the container it is read from, or all returns of the module function it comes from)")
	c.Rule("C15.2", "no unproven constant indexing (E6b): s[k] / s[k:] with a constant k on a slice needs a dominating comparison of len(s) that implies len(s) > k (≥ k for slicing)")
	c.Rule("C15.3", "no nil dereference of loaded structure (E6c): a pointer read from a map or slice of pointers (definitions, tasks, pipelines), a pointer parameter fed from such a read, or a result of an error-returning call, is dereferenced (or, for a map, written into) only under a dominating non-nil test (or, for call results, after a test of the call's error — provided no return of a module callee gives a nil result with a nil error)")
	c.Rule("C15.4", "no abort fed by loaded data (E6d): panic, logrus.Fatal*, os.Exit and template.Must in the load scope are limited to the named environment helpers and constant templates")
	c.Rule("C15.5", "bounded recursion (E3): every recursive cycle of the load scope is guarded — the import recursion by the visited set on the key passed on, the recursion over included pipelines by the inclusion check of C18.5 (for the walker itself, and for consumers that cannot run during a load before the walker was called)")
	c.Rule("C15.6", "tolerated sentinel (E7 taint + E3): where a caller of Load tolerates an error matching a sentinel of internal/config and uses the returned configuration unconditionally, an error that may match the sentinel (the sentinel itself, an fmt.Errorf %w wrap of one, a result passed on) never crosses a recursive call of the loading functions, and Load returns the non-recursive origin together with the destination configuration")
	c.Rule("C15.7", "guarded document merges (E6d + library summary): a mergo call of the load scope whose operands are raw documents (maps of interface values) runs under a deferred recover that stores a non-nil error into the function's error result — mergo v0.3.8 panics in reflect when the two documents' map types differ (yaml.v2 vs json/toml)")
	c.Rule("C15.8", "decode hooks (library contract): a function of the module with the shape of a mapstructure DecodeHookFunc never returns a nil value with a nil error (mapstructure v1.1.2 panics on it for every non-interface target)")
	c.Rule("C15.9", "format decoders as reviewed (library contract, option table): on a decoder of encoding/json, yaml.v2 or go-toml built in the load scope no configuring call changes the dynamic types a document arrives with: json.Decoder.UseNumber is reported — json.Number has kind string without being a string, and the duration hook of mapstructure v1.1.2 asserts data.(string) on every string-kind input that is to become a time.Duration, so a bare number in a JSON document panics")
	c.Summaries = append(c.Summaries, "mapstructure v1.1.2 StringToTimeDurationHookFunc: `if f.Kind() != reflect.String {return data}; … time.ParseDuration(data.(string))` — panics for json.Number (read in decode_hooks.go)")
	c.Rule("C15.10", "loading waits for nobody (E8): no channel operation, Cond.Wait or polling loop is synchronously reachable in the module from the entry points of the load scope unless it has an unconditional waker — at load time no goroutine of taskctl is running, so a wait whose waker is a goroutine started elsewhere (a watcher's Run, say) never ends")
	c.NotDecided = append(c.NotDecided,
		"termination and panic-freedom inside yaml.v2, encoding/json, go-toml, mapstructure, text/template and doublestar on adversarial input (their bodies are outside the lint's scope)",
		"nil-ness of struct fields (only map/slice elements, parameters fed from them and call results are tracked)",
		"the top-level file vanishing between the existence test and the read (the one sentinel-matching error Load returns without a configuration; the Before hook rejects it when the file was named explicitly)",
		"resource exhaustion")
	p := c.P
	scope, roots := loadScope(c)
	if len(roots) < 6 {
		c.Und("C15.0", "load-scope:roots", token.NoPos, "only %d entry points of the load scope were found", len(roots))
		return
	}
	var fns []*ssa.Function
	for f := range scope {
		if f.Blocks != nil {
			fns = append(fns, f)
		}
	}
	sort.Slice(fns, func(i, j int) bool { return fns[i].String() < fns[j].String() })
	var names []string
	for _, f := range fns {
		names = append(names, an.Short(f))
	}
	c.Sites["C15.0"] = names
	c.OK("C15.0", "load-scope", token.NoPos, "%d functions in the load scope from %d entry points", len(fns), len(roots))

	typeAssertions(c, fns, "C15.1")
	constantIndexing(c, fns, "C15.2")
	nilDereferences(c, fns, scope, "C15.3")
	aborts(c, fns, "C15.4")
	boundedRecursion(c, fns, scope, "C15.5")
	// the recursion over included pipelines (graph drawing, the scheduler) is bounded only if no accepted
	// configuration includes a pipeline in itself: the premises of C18.5 are obligations of C15.5 too
	if bfd := p.Func("internal/config", "", "buildFromDefinition"); bfd != nil {
		inclusionCycles(c, bfd, "C15.5")
	}
	toleratedSentinels(c, "C15.6", false)
	guardedDocumentMerges(c, fns, "C15.7")
	decodeHooks(c, "C15.8")
	decoderOptions(c, "C15.9", scope)
	loadWaits(c, "C15.10", roots)
	_ = p
}

// ---------------------------------------------------------------------------

func typeAssertions(c *an.Ctx, fns []*ssa.Function, rule string) {
	p := c.P
	n := 0
	for _, fn := range fns {
		an.EachInstr(fn, func(in ssa.Instruction) {
			ta, ok := in.(*ssa.TypeAssert)
			if !ok || ta.CommaOk {
				return
			}
			n++
			key := fmt.Sprintf("%s:assert(%s)", an.Short(fn), types.TypeString(ta.AssertedType, func(*types.Package) string { return "" }))
			if why, ok := assertProven(p, fn, ta); ok {
				c.OK(rule, key, ta.Pos(), "proven: %s", why)
				return
			}
			c.Bad(rule, key, ta.Pos(), "%s asserts %s.(%s) without the comma-ok form and nothing proves the dynamic type: a document that puts another type there crashes the loader", an.Short(fn), an.Prov(ta.X), ta.AssertedType)
		})
	}
	if n == 0 {
		c.OK(rule, "load-scope:assertions", token.NoPos, "no single-result type assertion in the load scope")
	}
}

// assertProven recognises the two accepted proofs.
func assertProven(p *an.Prog, fn *ssa.Function, ta *ssa.TypeAssert) (string, bool) {
	// (1) the operand is the result of a module function all of whose returns box the asserted type
	for _, src := range an.Sources(ta.X) {
		call, ok := src.(*ssa.Call)
		if !ok {
			goto second
		}
		callees := p.Callees(&call.Call)
		if len(callees) == 0 {
			goto second
		}
		for _, callee := range callees {
			if callee.Blocks == nil {
				goto second
			}
			for _, ret := range an.Returns(callee) {
				if !boxesOnly(an.RetVal(ret, 0), ta.AssertedType, 0) {
					goto second
				}
			}
		}
	}
	return "every return of the callee has that dynamic type", true
second:
	// (2) a key/value handed to a sync.Map.Range callback: every Store into that map field has the type
	{
		for pi, prm := range fn.Params {
			isOperand := false
			for _, src := range an.Sources(ta.X) {
				if src == ssa.Value(prm) {
					isOperand = true
				}
			}
			// the callback's (key, value) are its last two parameters (a method used as a value has its receiver first)
			i := pi - (len(fn.Params) - 2)
			if !isOperand || i < 0 || fn.Signature.Params().Len() != 2 {
				continue
			}
			// fn is only ever used as the callback of Range over one map field
			mapKey, onlyRange := rangeCallbackOf(p, fn)
			if mapKey == "" || !onlyRange {
				continue
			}
			all := true
			n := 0
			for _, g := range p.Funcs {
				an.EachInstr(g, func(in ssa.Instruction) {
					call, ok := in.(*ssa.Call)
					if !ok || an.ShortCallee(&call.Call) != "(*sync.Map).Store" || an.FieldKey(call.Call.Args[0]) != mapKey {
						return
					}
					n++
					arg := call.Call.Args[1+i]
					if !boxesOnly(arg, ta.AssertedType, 0) {
						// (inductive case) the same component of an entry of the same map, handed to a Range
						// callback: it has the type if everything else stored there has
						inductive := false
						if prm, ok := an.Resolve(arg).(*ssa.Parameter); ok {
							cb := prm.Parent()
							if mk2, only := rangeCallbackOf(p, cb); only && mk2 == mapKey {
								if pi := paramIndexOf(cb, prm); pi-(len(cb.Params)-2) == i {
									inductive = true
								}
							}
						}
						if !inductive {
							all = false
						}
					}
				})
			}
			if all && n > 0 {
				return fmt.Sprintf("all %d Store calls on %s pass that type", n, mapKey), true
			}
		}
	}
	return "", false
}

// rangeCallbackOf finds the sync.Map field whose Range is given fn (a
// function literal, a declared function or a method value) as its callback;
// onlyRange tells that fn has no other use in the module (no direct call, no
// other escape), so that its parameters only ever hold entries of that map.
func rangeCallbackOf(p *an.Prog, fn *ssa.Function) (mapKey string, onlyRange bool) {
	denotes := func(v ssa.Value) bool {
		switch x := v.(type) {
		case *ssa.Function:
			return x == fn
		case *ssa.MakeClosure:
			f, _ := x.Fn.(*ssa.Function)
			return f == fn || p.Unwrap(f) == fn
		}
		return false
	}
	onlyRange = true
	keys := map[string]bool{}
	for _, g := range p.Funcs {
		an.EachInstr(g, func(in ssa.Instruction) {
			if mc, ok := in.(*ssa.MakeClosure); ok && denotes(mc) {
				return
			}
			if call, ok := in.(*ssa.Call); ok && an.ShortCallee(&call.Call) == "(*sync.Map).Range" && len(call.Call.Args) == 2 {
				for _, src := range an.Sources(call.Call.Args[1]) {
					if denotes(src) {
						keys[an.FieldKey(call.Call.Args[0])] = true
					}
				}
				if denotes(call.Call.Args[1]) {
					return
				}
			}
			for _, op := range in.Operands(nil) {
				if *op != nil && denotes(*op) {
					// a store of the literal into the local the Range call reads is the same use
					if st, ok := in.(*ssa.Store); ok {
						if _, local := st.Addr.(*ssa.Alloc); local {
							continue
						}
					}
					onlyRange = false
				}
			}
		})
	}
	if len(keys) != 1 {
		return "", false
	}
	for k := range keys {
		mapKey = k
	}
	return mapKey, onlyRange
}

// ---------------------------------------------------------------------------

// lenBound returns the lower bound on len(s) implied by the guards of block b.
func lenBound(b *ssa.BasicBlock, s ssa.Value) int64 {
	best := int64(0)
	for _, g := range an.Guards(b) {
		bo, ok := g.Cond.(*ssa.BinOp)
		if !ok {
			continue
		}
		x, y := bo.X, bo.Y
		op := bo.Op
		isLen := func(v ssa.Value) bool {
			call, ok := v.(*ssa.Call)
			if !ok {
				return false
			}
			bi, ok := call.Call.Value.(*ssa.Builtin)
			return ok && bi.Name() == "len" && an.SameValue(call.Call.Args[0], s)
		}
		// a string compared with "": s != "" means len(s) ≥ 1
		if (op == token.EQL || op == token.NEQ) && (an.SameValue(x, s) || an.SameValue(y, s)) {
			other := y
			if an.SameValue(y, s) {
				other = x
			}
			if k, isS := an.ConstString(other); isS && k == "" {
				if (op == token.NEQ) == g.Outcome && best < 1 {
					best = 1
				}
			}
			continue
		}
		if !isLen(x) {
			if isLen(y) {
				// swap: k op len  ⇒  len op' k
				x, y = y, x
				switch op {
				case token.LSS:
					op = token.GTR
				case token.LEQ:
					op = token.GEQ
				case token.GTR:
					op = token.LSS
				case token.GEQ:
					op = token.LEQ
				}
			} else {
				continue
			}
		}
		k, ok := an.ConstInt(y)
		if !ok {
			continue
		}
		lb := int64(0)
		switch {
		case op == token.EQL && g.Outcome, op == token.NEQ && !g.Outcome:
			lb = k
		case op == token.GTR && g.Outcome, op == token.LEQ && !g.Outcome:
			lb = k + 1
		case op == token.GEQ && g.Outcome, op == token.LSS && !g.Outcome:
			lb = k
		}
		if lb > best {
			best = lb
		}
	}
	return best
}

func constantIndexing(c *an.Ctx, fns []*ssa.Function, rule string) {
	n := 0
	for _, fn := range fns {
		an.EachInstr(fn, func(in ssa.Instruction) {
			var s ssa.Value
			var need int64 = -1
			what := ""
			switch x := in.(type) {
			case *ssa.IndexAddr:
				if _, isSlice := x.X.Type().Underlying().(*types.Slice); !isSlice {
					return
				}
				k, ok := an.ConstInt(x.Index)
				if !ok {
					return
				}
				s, need, what = x.X, k+1, fmt.Sprintf("[%d]", k)
			case *ssa.Index:
				_, isSlice := x.X.Type().Underlying().(*types.Slice)
				if b, isB := x.X.Type().Underlying().(*types.Basic); isB && b.Info()&types.IsString != 0 {
					// a byte of a string at a constant position: name[0]
					if _, isConst := x.X.(*ssa.Const); !isConst {
						isSlice = true
					}
				}
				if !isSlice {
					return
				}
				k, ok := an.ConstInt(x.Index)
				if !ok {
					return
				}
				s, need, what = x.X, k+1, fmt.Sprintf("[%d]", k)
			case *ssa.Lookup:
				// a byte of a string at a constant position: name[0]
				b, isB := x.X.Type().Underlying().(*types.Basic)
				if !isB || b.Info()&types.IsString == 0 || x.CommaOk {
					return
				}
				k, ok := an.ConstInt(x.Index)
				if !ok {
					return
				}
				if _, isConst := x.X.(*ssa.Const); isConst {
					return
				}
				s, need, what = x.X, k+1, fmt.Sprintf("[%d]", k)
			case *ssa.Slice:
				_, isSlice := x.X.Type().Underlying().(*types.Slice)
				if b, isB := x.X.Type().Underlying().(*types.Basic); isB && b.Info()&types.IsString != 0 {
					isSlice = true // a string is sliced under the same bounds rules
				}
				if !isSlice {
					return
				}
				// s[k:h] with a constant k ≥ 1 and a computed h: h < k is a panic whatever the length is
				if x.Low != nil && x.High != nil {
					if k, ok := an.ConstInt(x.Low); ok && k >= 1 {
						if _, isC := an.ConstInt(x.High); !isC {
							n++
							key := fmt.Sprintf("%s:slice[%d:h](%s)", an.Short(fn), k, an.FieldProv(x.X))
							if highAtLeast(in.Block(), x.High, k) {
								c.OK(rule, key, in.Pos(), "the upper bound is tested to be ≥ %d on the way", k)
							} else {
								c.Bad(rule, key, in.Pos(), "%s slices %s[%d:%s] but no dominating test establishes %s ≥ %d: an upper bound that falls below the constant lower bound (a closing quote found at position 0, an index that is -1 or 0) is a slice-bounds panic", an.Short(fn), an.Prov(x.X), k, an.Prov(x.High), an.Prov(x.High), k)
							}
						}
					}
				}
				var k int64
				if x.Low != nil {
					if v, ok := an.ConstInt(x.Low); ok && v > k {
						k = v
					}
				}
				if x.High != nil {
					if v, ok := an.ConstInt(x.High); ok && v > k {
						k = v
					}
				}
				if k == 0 {
					return
				}
				s, need, what = x.X, k, fmt.Sprintf("[%d:]", k)
			default:
				return
			}
			// a slice built here with a known length (literal) is fine
			if sl, ok := an.Resolve(s).(*ssa.Slice); ok {
				if al, ok := sl.X.(*ssa.Alloc); ok {
					if arr, ok := an.Deref(al.Type()).Underlying().(*types.Array); ok && arr.Len() >= need {
						return
					}
				}
			}
			n++
			key := fmt.Sprintf("%s:index%s(%s)", an.Short(fn), what, an.FieldProv(s))
			lb := lenBound(in.Block(), s)
			if lb >= need {
				c.OK(rule, key, in.Pos(), "dominated by a length test implying len ≥ %d", lb)
			} else {
				c.Bad(rule, key, in.Pos(), "%s indexes %s%s but no dominating test establishes len ≥ %d (established: ≥ %d): a shorter input — an empty or malformed line, a missing field — is an index-out-of-range panic", an.Short(fn), an.Prov(s), what, need, lb)
			}
		})
	}
	if n == 0 {
		c.OK(rule, "load-scope:constant-indexing", token.NoPos, "no constant index on a slice of input-dependent length in the load scope")
	}
}

// ---------------------------------------------------------------------------

// nonNilGuard reports whether block b is dominated by a non-nil test of v
// (same SSA value, or another read of the same map element / field).
func nonNilGuard(b *ssa.BasicBlock, v ssa.Value) bool {
	rv := an.Resolve(v)
	for _, g := range an.Guards(b) {
		x, eq, ok := an.NilTest(g.Cond)
		if !ok || eq == g.Outcome {
			continue
		}
		rx := an.Resolve(x)
		if rx == rv {
			return true
		}
		for _, s1 := range an.Sources(x) {
			for _, s2 := range an.Sources(v) {
				if s1 == s2 {
					return true
				}
			}
		}
		// the comma-ok companion: v, ok := m[k]; if !ok {return}
		if an.Prov(x) == an.Prov(v) && an.Prov(v) != "phi" {
			return true
		}
	}
	// comma-ok guard
	for _, g := range an.Guards(b) {
		if e, ok := g.Cond.(*ssa.Extract); ok && e.Index == 1 && g.Outcome {
			for _, s := range an.Sources(v) {
				if e2, ok := s.(*ssa.Extract); ok && e2.Tuple == e.Tuple && e2.Index == 0 {
					return true
				}
			}
		}
	}
	return false
}

// errTested reports whether block b is dominated by a test of the error
// result of call (the value is used on a path where the error was looked at).
func errTested(b *ssa.BasicBlock, call *ssa.Call) bool {
	errs := an.ErrValueOf(call)
	for _, g := range an.Guards(b) {
		found := false
		var walk func(v ssa.Value, depth int)
		walk = func(v ssa.Value, depth int) {
			if depth > 6 || found {
				return
			}
			for _, e := range errs {
				if v == e {
					found = true
				}
			}
			for _, s := range an.Sources(v) {
				for _, e := range errs {
					if s == e {
						found = true
					}
				}
			}
			switch x := v.(type) {
			case *ssa.BinOp:
				walk(x.X, depth+1)
				walk(x.Y, depth+1)
			case *ssa.UnOp:
				walk(x.X, depth+1)
			case *ssa.Phi:
				for _, e := range x.Edges {
					walk(e, depth+1)
				}
			case *ssa.Call:
				for _, a := range x.Call.Args {
					walk(a, depth+1)
				}
			}
		}
		walk(g.Cond, 0)
		if found {
			return true
		}
	}
	return false
}

type derefSite struct {
	in   ssa.Instruction
	base ssa.Value
}

func derefsIn(fn *ssa.Function) []derefSite {
	var out []derefSite
	an.EachInstr(fn, func(in ssa.Instruction) {
		switch x := in.(type) {
		case *ssa.FieldAddr:
			out = append(out, derefSite{in, x.X})
		case *ssa.UnOp:
			if x.Op == token.MUL {
				if _, isPtrToStruct := an.Deref(x.X.Type()).Underlying().(*types.Struct); isPtrToStruct {
					if _, isAlloc := x.X.(*ssa.Alloc); !isAlloc {
						if _, isFA := x.X.(*ssa.FieldAddr); !isFA {
							out = append(out, derefSite{in, x.X})
						}
					}
				}
			}
		case ssa.CallInstruction:
			cc := x.Common()
			if cc.IsInvoke() {
				out = append(out, derefSite{in, cc.Value})
			}
		case *ssa.MapUpdate:
			// a write into a nil map panics just as a nil pointer does
			out = append(out, derefSite{in, x.Map})
		}
	})
	return out
}

// nilWithNilError: a return of fn that hands out a nil first result together with a nil error (the two operands
// are matched edge by edge where both are φ-nodes of one block).
func nilWithNilError(fn *ssa.Function) *ssa.Return {
	ei := an.ErrResultIndex(fn.Signature)
	if ei < 0 || fn.Blocks == nil {
		return nil
	}
	isNil := func(v ssa.Value) bool {
		k, ok := v.(*ssa.Const)
		return ok && k.Value == nil
	}
	mayNil := func(v ssa.Value) bool {
		for _, s := range an.Sources(v) {
			if isNil(s) {
				return true
			}
		}
		return false
	}
	var found *ssa.Return
	an.EachInstr(fn, func(in ssa.Instruction) {
		ret, ok := in.(*ssa.Return)
		if !ok || found != nil || len(ret.Results) <= ei {
			return
		}
		for vi := range ret.Results {
			if vi == ei {
				continue
			}
			val := an.RetVal(ret, vi)
			switch val.Type().Underlying().(type) {
			case *types.Pointer, *types.Map:
			default:
				continue
			}
			errv := an.RetVal(ret, ei)
			pv, vphi := val.(*ssa.Phi)
			pe, ephi := errv.(*ssa.Phi)
			if vphi && ephi && pv.Block() == pe.Block() {
				for i := range pv.Edges {
					if mayNil(pv.Edges[i]) && mayNil(pe.Edges[i]) {
						found = ret
					}
				}
				continue
			}
			if isNil(val) && mayNil(errv) || isNil(errv) && mayNil(val) && !vphi {
				found = ret
			}
		}
	})
	return found
}

func nilDereferences(c *an.Ctx, fns []*ssa.Function, scope map[*ssa.Function][]an.CallEdge, rule string) {
	p := c.P
	inScope := map[*ssa.Function]bool{}
	for _, f := range fns {
		inScope[f] = true
	}
	nChecked := 0
	// maybe-nil origins of a base pointer
	type origin struct {
		kind string // elem, result, param
		desc string
		call *ssa.Call
		prm  *ssa.Parameter
	}
	isDefinitionPtr := func(t types.Type) bool {
		pt, ok := t.Underlying().(*types.Pointer)
		if !ok {
			return false
		}
		n, ok := pt.Elem().(*types.Named)
		return ok && n.Obj().Pkg() != nil && strings.HasSuffix(n.Obj().Pkg().Path(), "internal/config") && strings.HasSuffix(n.Obj().Name(), "Definition")
	}
	var originOf func(v ssa.Value) *origin
	// a lookup m[k] that follows m[k] = <call result> in the same function denotes that result
	forwardLookup := func(l *ssa.Lookup) ssa.Value {
		fn := l.Parent()
		var best *ssa.MapUpdate
		an.EachInstr(fn, func(in ssa.Instruction) {
			mu, ok := in.(*ssa.MapUpdate)
			if !ok || !an.Dominates(mu, l) {
				return
			}
			if an.FieldProv(mu.Map) == an.FieldProv(l.X) && (an.SameValue(mu.Key, l.Index) || an.Prov(mu.Key) == an.Prov(l.Index)) {
				if best == nil || an.Dominates(best, mu) {
					best = mu
				}
			}
		})
		if best == nil {
			return nil
		}
		return best.Value
	}
	originOf = func(v ssa.Value) *origin {
		for _, src := range an.Sources(v) {
			switch x := src.(type) {
			case *ssa.Lookup:
				if _, isPtr := x.Type().Underlying().(*types.Pointer); isPtr {
					if fw := forwardLookup(x); fw != nil {
						if o := originOf(fw); o != nil {
							return o
						}
						continue
					}
					return &origin{kind: "elem", desc: an.FieldProv(x.X) + "[…]"}
				}
			case *ssa.Extract:
				switch t := x.Tuple.(type) {
				case *ssa.Lookup:
					if x.Index == 0 {
						if _, isPtr := x.Type().Underlying().(*types.Pointer); isPtr {
							return &origin{kind: "elem", desc: an.FieldProv(t.X) + "[…]"}
						}
					}
				case *ssa.Next:
					// an element met while ranging is what was stored; only the decoded
					// definition (filled by the decoder from the document) can hold nil entries
					if x.Index == 2 && isDefinitionPtr(x.Type()) {
						if r, ok := t.Iter.(*ssa.Range); ok {
							return &origin{kind: "elem", desc: "range " + an.FieldProv(r.X)}
						}
					}
				case *ssa.Call:
					if an.ErrResultIndex(t.Call.Signature()) >= 0 && x.Index != an.ErrResultIndex(t.Call.Signature()) {
						switch x.Type().Underlying().(type) {
						case *types.Pointer, *types.Interface, *types.Map:
							return &origin{kind: "result", desc: an.ShortCallee(&t.Call) + "()", call: t}
						}
					}
				}
			case *ssa.UnOp:
				if x.Op == token.MUL {
					if ia, ok := x.X.(*ssa.IndexAddr); ok && isDefinitionPtr(x.Type()) {
						return &origin{kind: "elem", desc: an.FieldProv(ia.X) + "[i]"}
					}
				}
			case *ssa.Parameter:
				if _, isPtr := x.Type().Underlying().(*types.Pointer); isPtr {
					return &origin{kind: "param", desc: x.Name(), prm: x}
				}
			}
		}
		return nil
	}
	// parameters that are dereferenced without a guard, per function
	type pkey struct {
		fn  *ssa.Function
		idx int
	}
	needsNonNil := map[pkey]ssa.Instruction{}
	// one obligation per (function, origin): the first unguarded use is reported
	type tallyEntry struct {
		ok, bad  int
		firstOK  ssa.Instruction
		firstBad ssa.Instruction
		okMsg    string
		badMsg   string
	}
	tallies := map[string]*tallyEntry{}
	var tallyOrder []string
	tally := func(key string, ok bool, in ssa.Instruction, msg string) {
		t := tallies[key]
		if t == nil {
			t = &tallyEntry{}
			tallies[key] = t
			tallyOrder = append(tallyOrder, key)
		}
		if ok {
			t.ok++
			if t.firstOK == nil {
				t.firstOK, t.okMsg = in, msg
			}
		} else {
			t.bad++
			if t.firstBad == nil {
				t.firstBad, t.badMsg = in, msg
			}
		}
	}
	defer func() {
		for _, key := range tallyOrder {
			t := tallies[key]
			if t.bad > 0 {
				c.Bad(rule, key, t.firstBad.Pos(), "%s (%d unguarded use(s), %d guarded)", t.badMsg, t.bad, t.ok)
			} else {
				c.OK(rule, key, t.firstOK.Pos(), "%s (%d use(s))", t.okMsg, t.ok)
			}
		}
	}()
	for _, fn := range fns {
		for _, d := range derefsIn(fn) {
			o := originOf(d.base)
			if o == nil {
				continue
			}
			switch o.kind {
			case "elem":
				nChecked++
				key := fmt.Sprintf("%s:deref(%s)", an.Short(fn), o.desc)
				if nonNilGuard(d.in.Block(), d.base) {
					tally(key, true, d.in, "element of a pointer container, nil-tested before use")
				} else {
					tally(key, false, d.in, fmt.Sprintf("%s dereferences %s, an element of a map/slice of pointers, without a dominating nil test: an entry with an empty body (or a missing key) is a nil pointer dereference", an.Short(fn), o.desc))
				}
			case "result":
				nChecked++
				key := fmt.Sprintf("%s:use(%s)", an.Short(fn), o.desc)
				if nonNilGuard(d.in.Block(), d.base) {
					tally(key, true, d.in, "result nil-tested before use")
				} else if errTested(d.in.Block(), o.call) {
					// the error test vouches for the result only if the callee keeps its side: no nil result with a nil error
					var breach *ssa.Return
					var who *ssa.Function
					for _, callee := range p.Callees(o.call.Common()) {
						if an.InModule(callee) {
							if r := nilWithNilError(callee); r != nil && breach == nil {
								breach, who = r, callee
							}
						}
					}
					if breach != nil {
						tally(key, false, d.in, fmt.Sprintf("%s uses the result of %s after testing only its error, but %s returns a nil result with a nil error at %s: a nil dereference / write into a nil map", an.Short(fn), o.desc, an.Short(who), p.Pos(breach.Pos())))
					} else {
						tally(key, true, d.in, "result used after its error was tested (the callee never returns nil with a nil error)")
					}
				} else {
					tally(key, false, d.in, fmt.Sprintf("%s uses the result of %s before testing the error it returned: when the call fails the result is nil and this is a nil pointer dereference", an.Short(fn), o.desc))
				}
			case "param":
				if fn.Signature.Recv() != nil && len(fn.Params) > 0 && o.prm == fn.Params[0] {
					continue // method receiver
				}
				if nonNilGuard(d.in.Block(), d.base) {
					continue
				}
				idx := -1
				for i, q := range fn.Params {
					if q == o.prm {
						idx = i
					}
				}
				if _, ok := needsNonNil[pkey{fn, idx}]; !ok {
					needsNonNil[pkey{fn, idx}] = d.in
				}
			}
		}
	}
	// discharge parameters at the in-scope call sites (bounded propagation)
	for round := 0; round < 4; round++ {
		var keys []pkey
		for k := range needsNonNil {
			keys = append(keys, k)
		}
		sort.Slice(keys, func(i, j int) bool {
			if keys[i].fn.String() != keys[j].fn.String() {
				return keys[i].fn.String() < keys[j].fn.String()
			}
			return keys[i].idx < keys[j].idx
		})
		progressed := false
		for _, k := range keys {
			where := needsNonNil[k]
			delete(needsNonNil, k)
			sites := p.CallSitesOf(k.fn)
			for _, site := range sites {
				caller := site.Parent()
				if !inScope[caller] {
					continue
				}
				ai := k.idx
				if site.Common().IsInvoke() {
					ai--
				}
				if ai < 0 || ai >= len(site.Common().Args) {
					continue
				}
				arg := site.Common().Args[ai]
				o := originOf(arg)
				okey := fmt.Sprintf("%s:arg(%s→%s.%s)", an.Short(caller), an.FieldProv(arg), an.Short(k.fn), k.fn.Params[k.idx].Name())
				switch {
				case o == nil:
					// fresh allocation, field, global, address: not tracked as maybe-nil
					continue
				case o.kind == "param":
					if caller.Signature.Recv() != nil && o.prm == caller.Params[0] {
						continue
					}
					if nonNilGuard(site.Block(), arg) {
						continue
					}
					ci := -1
					for i, q := range caller.Params {
						if q == o.prm {
							ci = i
						}
					}
					if _, dup := needsNonNil[pkey{caller, ci}]; !dup {
						needsNonNil[pkey{caller, ci}] = site
						progressed = true
					}
				case o.kind == "elem":
					nChecked++
					if nonNilGuard(site.Block(), arg) {
						c.OK(rule, okey, site.Pos(), "nil-tested before it is handed to %s, which dereferences it", an.Short(k.fn))
					} else {
						c.Bad(rule, okey, site.Pos(), "%s hands %s, an element of a map/slice of pointers, to %s, which dereferences it (at %s) without a nil test on either side: an entry with an empty body crashes the loader", an.Short(caller), o.desc, an.Short(k.fn), p.Pos(where.Pos()))
					}
				case o.kind == "result":
					nChecked++
					if errTested(site.Block(), o.call) || nonNilGuard(site.Block(), arg) {
						c.OK(rule, okey, site.Pos(), "error tested before the result is handed on")
					} else {
						c.Bad(rule, okey, site.Pos(), "%s hands the result of %s to %s before testing its error", an.Short(caller), o.desc, an.Short(k.fn))
					}
				}
			}
		}
		if !progressed {
			break
		}
	}
	if nChecked == 0 {
		c.Und(rule, "load-scope:derefs", token.NoPos, "no dereference of a maybe-nil pointer was found in the load scope (expected: definitions, tasks, pipelines)")
	}
}

// ---------------------------------------------------------------------------

func aborts(c *an.Ctx, fns []*ssa.Function, rule string) {
	exemptFn := map[string]string{
		"pkg/utils.MustGetwd":          "depends on the process environment, not on loaded data",
		"pkg/utils.MustGetUserHomeDir": "depends on the process environment, not on loaded data",
	}
	n := 0
	for _, fn := range fns {
		an.EachInstr(fn, func(in ssa.Instruction) {
			name := ""
			switch x := in.(type) {
			case *ssa.Panic:
				name = "panic"
			case ssa.CallInstruction:
				cn := an.ShortCallee(x.Common())
				if noReturn(cn) {
					name = cn
				}
				if cn == "text/template.Must" {
					name = cn
				}
			}
			if name == "" {
				return
			}
			// go/ssa inserts panics for failed single-result assertions etc.: only explicit ones count
			if pn, ok := in.(*ssa.Panic); ok && !pn.Pos().IsValid() {
				return
			}
			n++
			key := an.Short(fn) + ":" + name
			if why, ok := exemptFn[an.Short(fn)]; ok {
				c.Note(rule, key, in.Pos(), "exempt: %s", why)
				return
			}
			if name == "text/template.Must" {
				// constant template: Parse(<package-level string>) on template.New(<const>)
				ci := in.(ssa.CallInstruction)
				prov := an.FieldProv(ci.Common().Args[0])
				constant := strings.Contains(prov, "Parse(") && !strings.Contains(prov, "param:") && !strings.Contains(prov, "Config.")
				if constant {
					c.Note(rule, key, in.Pos(), "exempt: template.Must on a constant template (%s)", prov)
					return
				}
			}
			c.Bad(rule, key, in.Pos(), "%s can abort the process (%s) while a configuration is loaded or inspected", an.Short(fn), name)
		})
	}
	if n == 0 {
		c.OK(rule, "load-scope:aborts", token.NoPos, "no explicit abort in the load scope")
	} else {
		c.OK(rule, "load-scope:aborts", token.NoPos, "%d abort sites classified", n)
	}
}

// ---------------------------------------------------------------------------

func boundedRecursion(c *an.Ctx, fns []*ssa.Function, scope map[*ssa.Function][]an.CallEdge, rule string) {
	p := c.P
	inScope := map[*ssa.Function]bool{}
	for _, f := range fns {
		inScope[f] = true
	}
	// classify every in-scope call edge that lies on a cycle
	type edge struct {
		e       an.CallEdge
		guarded bool
		why     string
	}
	var cyc []edge
	for _, fn := range fns {
		for _, e := range p.OutEdges(fn) {
			if !inScope[e.Callee] || errorChainCall(e) {
				continue
			}
			back := p.Reach([]*ssa.Function{e.Callee}, func(x an.CallEdge) bool { return inScope[x.Callee] && !errorChainCall(x) })
			if _, ok := back[fn]; !ok {
				continue
			}
			ed := edge{e: e}
			// (1) visited-set guard on a key passed on
			for _, g := range an.Guards(e.Site.Block()) {
				lk, ok := g.Cond.(*ssa.Lookup)
				if !ok {
					continue
				}
				if _, isMap := lk.X.Type().Underlying().(*types.Map); !isMap {
					continue
				}
				for ai, a := range e.Site.Common().Args {
					if (an.SameValue(lk.Index, a) || an.Prov(lk.Index) == an.Prov(a)) && !g.Outcome {
						// the guard bounds the recursion only if the key gets marked: by the callee for
						// its parameter (before it recurses), or by the caller before the call
						marked := false
						callee := e.Callee
						pi := ai
						if e.Site.Common().IsInvoke() {
							pi = ai + 1
						}
						if pi < len(callee.Params) {
							an.EachInstr(callee, func(in ssa.Instruction) {
								if mu, ok := in.(*ssa.MapUpdate); ok && an.FieldProv(mu.Map) == an.FieldProv(lk.X) && an.SameValue(mu.Key, callee.Params[pi]) {
									okDom := true
									for _, oe := range p.OutEdges(callee) {
										if inScope[oe.Callee] && !an.Dominates(mu, oe.Site) {
											if back := p.Reach([]*ssa.Function{oe.Callee}, func(x an.CallEdge) bool { return inScope[x.Callee] }); back[callee] != nil || oe.Callee == callee {
												okDom = false
											}
										}
									}
									if okDom {
										marked = true
									}
								}
							})
						}
						an.EachInstr(fn, func(in ssa.Instruction) {
							if mu, ok := in.(*ssa.MapUpdate); ok && an.FieldProv(mu.Map) == an.FieldProv(lk.X) && an.SameValue(mu.Key, a) && an.Dominates(mu, e.Site) {
								marked = true
							}
						})
						if marked {
							ed.guarded, ed.why = true, "guarded by a visited set on the key passed on, which the callee marks before it recurses"
						}
					}
				}
			}
			// (1') the same guard, decided on traces: the membership test and the mark may sit in methods of a
			// set type or in a resolver that returns a verdict (visited.go)
			if !ed.guarded {
				onCycle := map[*ssa.Function]bool{}
				for g := range back {
					if !inScope[g] {
						continue
					}
					if r2 := p.Reach([]*ssa.Function{g}, func(x an.CallEdge) bool { return inScope[x.Callee] }); r2[fn] != nil || g == fn {
						onCycle[g] = true
					}
				}
				onCycle[fn], onCycle[e.Callee] = true, true
				vt := &visitedTracer{p: p, onCycle: onCycle, sites: map[ssa.Instruction]bool{}, reads: map[ssa.Instruction]bool{}, seedURL: -1}
				for g := range onCycle {
					if g.Blocks == nil {
						continue
					}
					an.EachInstr(g, func(in ssa.Instruction) {
						if ci, ok := in.(ssa.CallInstruction); ok {
							for _, callee := range p.Callees(ci.Common()) {
								if onCycle[callee] {
									vt.sites[in] = true
								}
							}
						}
					})
				}
				if touchesSetUnder(p, fn, onCycle) {
					vt.setHelpers(fn.Pkg)
					if ai, sp, ok, _ := vt.guardedOn(fn, e.Site.(ssa.Instruction)); ok {
						pi := ai
						if e.Site.Common().IsInvoke() {
							pi = ai + 1
						}
						marked := false
						if pi < len(e.Callee.Params) {
							marked, _ = vt.marksBefore(e.Callee, e.Callee.Params[pi], sp)
						}
						if !marked {
							marked = vt.callerMarksBefore(fn, e.Site.(ssa.Instruction), ai, sp)
						}
						if marked {
							ed.guarded, ed.why = true, "on every path the call is preceded by a negative membership test of the visited set on the key passed on, which is marked before the recursion goes on"
						}
					}
				}
			}
			// (2) the callee refuses a revisit at its entry and marks before recursing
			if !ed.guarded && e.Caller == e.Callee {
				callee := e.Callee
				var entryLookup *ssa.Lookup
				for _, in := range callee.Blocks[0].Instrs {
					if lk, ok := in.(*ssa.Lookup); ok {
						if _, isMap := lk.X.Type().Underlying().(*types.Map); isMap {
							for _, prm := range callee.Params {
								if an.SameValue(lk.Index, prm) {
									entryLookup = lk
								}
							}
						}
					}
				}
				if entryLookup != nil {
					an.EachInstr(callee, func(in ssa.Instruction) {
						if mu, ok := in.(*ssa.MapUpdate); ok && an.SameObject(mu.Map, entryLookup.X) && an.SameValue(mu.Key, entryLookup.Index) && an.Dominates(mu, e.Site) {
							ed.guarded, ed.why = true, "the callee refuses an argument it has marked, and marks before recursing"
						}
					})
				}
			}
			// (3) recursion over included pipelines: acyclic for every accepted configuration by C18.5
			if !ed.guarded {
				for _, a := range e.Site.Common().Args {
					if an.FieldProv(a) != "Stage.Pipeline" {
						continue
					}
					w := inclusionWalker(c)
					if w == nil {
						continue
					}
					// … for the walker itself (C18.5 decides its own guard) and for consumers that run after a
					// load has succeeded. A function that follows Stage.Pipeline recursively *while loading* —
					// reachable from Loader.Load, where the inclusion check may not have run yet — is not covered
					if e.Caller != w && earlyPipelineConsumer(c, e.Caller) {
						ed.why = "follows included pipelines recursively while the configuration is still being loaded: the inclusion check has not vouched for acyclicity yet"
						continue
					}
					ed.guarded, ed.why = true, "recursion over included pipelines, which the inclusion check (C18.5) makes acyclic for every configuration that loads"
				}
				if recvIsPipeline(e) {
					if w := inclusionWalker(c); w != nil && e.Caller != w && earlyPipelineConsumer(c, e.Caller) {
						ed.guarded = false
					}
				}
			}
			cyc = append(cyc, ed)
		}
	}
	if len(cyc) == 0 {
		c.Und(rule, "load-scope:recursion", token.NoPos, "no recursive cycle found in the load scope (the import loader is expected to recurse)")
		return
	}
	// a cycle is bounded when it passes at least one guarded edge: drop the guarded edges and
	// look for a cycle made of unguarded ones only
	succ := map[*ssa.Function][]edge{}
	for _, ed := range cyc {
		if !ed.guarded {
			succ[ed.e.Caller] = append(succ[ed.e.Caller], ed)
		}
	}
	reachUnguarded := func(from, to *ssa.Function) bool {
		seen := map[*ssa.Function]bool{}
		work := []*ssa.Function{from}
		for len(work) > 0 {
			f := work[len(work)-1]
			work = work[:len(work)-1]
			for _, ed := range succ[f] {
				if ed.e.Callee == to {
					return true
				}
				if !seen[ed.e.Callee] {
					seen[ed.e.Callee] = true
					work = append(work, ed.e.Callee)
				}
			}
		}
		return false
	}
	for _, ed := range cyc {
		key := fmt.Sprintf("%s:recursion(%s)", an.Short(ed.e.Caller), an.Short(ed.e.Callee))
		if ed.guarded {
			c.OK(rule, key, ed.e.Site.Pos(), "%s", ed.why)
			continue
		}
		if ed.e.Callee == ed.e.Caller || reachUnguarded(ed.e.Callee, ed.e.Caller) {
			c.Bad(rule, key, ed.e.Site.Pos(), "%s calls %s on a cycle of calls none of which is guarded by a visited set on what it passes on: a structure that refers back to itself (an import cycle) makes loading recurse until the stack overflows", an.Short(ed.e.Caller), an.Short(ed.e.Callee))
		} else {
			c.OK(rule, key, ed.e.Site.Pos(), "every cycle through this call passes a guarded call")
		}
	}
}

// inclusionWalkerExists re-establishes the premise of C18.5 in brief: a
// recursive function of internal/config that reads Stage.Pipeline is called
// from buildFromDefinition and its error is propagated.
func inclusionWalkerExists(c *an.Ctx) bool { return inclusionWalker(c) != nil }

// inclusionWalker returns that function.
func inclusionWalker(c *an.Ctx) *ssa.Function {
	p := c.P
	bfd := p.Func("internal/config", "", "buildFromDefinition")
	if bfd == nil {
		return nil
	}
	reach := p.Reach([]*ssa.Function{bfd}, func(e an.CallEdge) bool { return an.InModule(e.Callee) && inPkgs("internal/config")(e.Callee) })
	for fn := range reach {
		reads, rec := false, false
		an.EachInstr(fn, func(in ssa.Instruction) {
			if fa, ok := in.(*ssa.FieldAddr); ok && an.TypeField(fa) == "Stage.Pipeline" {
				reads = true
			}
		})
		for _, s := range p.CallSitesOf(fn) {
			if s.Parent() == fn {
				rec = true
			}
		}
		if !reads || !rec {
			continue
		}
		// its error travels up to buildFromDefinition
		ok := true
		cur := fn
		for hops := 0; cur != bfd && hops < 4; hops++ {
			var next *ssa.Function
			for _, s := range p.CallSitesOf(cur) {
				if s.Parent() == cur {
					continue
				}
				if _, in := reach[s.Parent()]; !in {
					continue
				}
				f := p.ErrFate(s, noReturn)
				if f.Kind != "propagated" && f.Kind != "converted" {
					ok = false
				}
				next = s.Parent()
			}
			if next == nil {
				ok = false
				break
			}
			cur = next
		}
		if ok && cur == bfd {
			return fn
		}
	}
	return nil
}

// boxesOnly reports whether the interface value v is, on every path, a value
// of static type t converted to an interface.
func boxesOnly(v ssa.Value, t types.Type, depth int) bool {
	if depth > 6 {
		return false
	}
	switch x := v.(type) {
	case *ssa.MakeInterface:
		return types.Identical(x.X.Type(), t)
	case *ssa.ChangeInterface:
		return boxesOnly(x.X, t, depth+1)
	case *ssa.Phi:
		for _, e := range x.Edges {
			if e != ssa.Value(x) && !boxesOnly(e, t, depth+1) {
				return false
			}
		}
		return len(x.Edges) > 0
	}
	if types.Identical(v.Type(), t) {
		return true
	}
	return false
}

// touchesSetUnder reports whether fn, or a function of its package it calls
// off the cycle, tests or fills a set (cheap pre-check before tracing).
func touchesSetUnder(p *an.Prog, fn *ssa.Function, onCycle map[*ssa.Function]bool) bool {
	for g := range p.Reach([]*ssa.Function{fn}, func(e an.CallEdge) bool {
		return e.Kind == an.EdgeCall && an.Outer(e.Callee).Pkg == fn.Pkg && !onCycle[e.Callee]
	}) {
		if g.Blocks != nil && touchesSet(g) {
			return true
		}
	}
	return false
}

// loadWaits implements C15.10 (and C18.7 for the two loader entry points).
func loadWaits(c *an.Ctx, rule string, roots []*ssa.Function) {
	before := len(c.Obs)
	boundedWaitsOpt(c, rule, roots, "loading the configuration", waitOpts{polls: true, onlyChans: true})
	n := 0
	for _, o := range c.Obs[before:] {
		if o.Rule == rule {
			n++
		}
	}
	if n == 0 {
		c.OK(rule, "load scope:channel-waits", roots[0].Pos(), "no channel operation, Cond.Wait or polling loop is synchronously reachable from the %d entry points of the load scope", len(roots))
	}
}

// highAtLeast: on every way to block b the value h was compared so that h ≥ k holds (h ≥ c with c ≥ k, h > c with
// c ≥ k-1, or the mirrored forms; a length — len(x) — of something whose length is tested likewise).
func highAtLeast(b *ssa.BasicBlock, h ssa.Value, k int64) bool {
	for _, g := range an.Guards(b) {
		bo, ok := g.Cond.(*ssa.BinOp)
		if !ok {
			continue
		}
		x, y, op := bo.X, bo.Y, bo.Op
		if !g.Outcome {
			switch op {
			case token.LSS:
				op = token.GEQ
			case token.LEQ:
				op = token.GTR
			case token.GTR:
				op = token.LEQ
			case token.GEQ:
				op = token.LSS
			case token.EQL:
				op = token.NEQ
			case token.NEQ:
				op = token.EQL
			}
		}
		// normalise to h <op> c
		if an.SameValue(y, h) {
			x, y = y, x
			switch op {
			case token.LSS:
				op = token.GTR
			case token.LEQ:
				op = token.GEQ
			case token.GTR:
				op = token.LSS
			case token.GEQ:
				op = token.LEQ
			}
		}
		if !an.SameValue(x, h) {
			continue
		}
		cst, isC := an.ConstInt(y)
		if !isC {
			continue
		}
		switch op {
		case token.GEQ:
			if cst >= k {
				return true
			}
		case token.GTR:
			if cst >= k-1 {
				return true
			}
		}
	}
	return false
}

var duringLoadCache = map[*an.Ctx]map[*ssa.Function]bool{}

// duringLoad: the functions that can run while Loader.Load / LoadGlobalConfig are in progress.
func duringLoad(c *an.Ctx) map[*ssa.Function]bool {
	if m, ok := duringLoadCache[c]; ok {
		return m
	}
	p := c.P
	var roots []*ssa.Function
	for _, name := range []string{"Load", "LoadGlobalConfig"} {
		if f := p.Func("internal/config", "Loader", name); f != nil {
			roots = append(roots, f)
		}
	}
	m := map[*ssa.Function]bool{}
	for f := range p.Reach(roots, func(e an.CallEdge) bool { return an.InModule(e.Callee) }) {
		m[f] = true
	}
	duringLoadCache[c] = m
	return m
}

// recvIsPipeline: the recursive call is a method call on a value read from Stage.Pipeline.
func recvIsPipeline(e an.CallEdge) bool {
	cc := e.Site.Common()
	if cc.IsInvoke() {
		return an.FieldProv(cc.Value) == "Stage.Pipeline"
	}
	return len(cc.Args) > 0 && an.FieldProv(cc.Args[0]) == "Stage.Pipeline"
}

// earlyPipelineConsumer: fn can run during a load at a point the inclusion walk has not vouched for: it is
// reachable from Loader.Load through a call that is not placed after the call of the walk (in the function that
// calls the walk: dominated by that call, or behind the loop that makes it).
func earlyPipelineConsumer(c *an.Ctx, fn *ssa.Function) bool {
	w := inclusionWalker(c)
	if w == nil || fn == w || !duringLoad(c)[fn] {
		return false
	}
	return !afterInclusionCheck(c, fn, w, 0, map[*ssa.Function]bool{})
}

func afterInclusionCheck(c *an.Ctx, fn, walker *ssa.Function, depth int, seen map[*ssa.Function]bool) bool {
	if depth > 4 || seen[fn] {
		return false
	}
	seen[fn] = true
	p := c.P
	n := 0
	for _, site := range p.CallSitesOf(fn) {
		par := site.Parent()
		if par == fn || !duringLoad(c)[par] {
			continue
		}
		n++
		var checks []ssa.CallInstruction
		for _, ws := range p.CallSitesOf(walker) {
			if ws.Parent() == par {
				checks = append(checks, ws)
			}
		}
		if len(checks) == 0 {
			if !afterInclusionCheck(c, par, walker, depth+1, seen) {
				return false
			}
			continue
		}
		for _, ws := range checks {
			after := an.Dominates(ws, site) || (an.CanReach(ws.Block(), site.Block()) && !an.CanReach(site.Block(), ws.Block()))
			if !after {
				return false
			}
		}
	}
	return n > 0
}

// errorChainCall: a dynamic call of Error or Unwrap on a value of the interface type error. Such a call walks a
// chain of wrapped errors, which is built from the inside out and never refers back to itself; resolving it
// by method name makes every wrapper type of the module look recursive.
func errorChainCall(e an.CallEdge) bool {
	cc := e.Site.Common()
	if !cc.IsInvoke() || !an.IsErrorType(cc.Value.Type()) {
		return false
	}
	return cc.Method.Name() == "Error" || cc.Method.Name() == "Unwrap"
}
