package rules

import (
	"fmt"
	"go/token"

	"golang.org/x/tools/go/ssa"

	"taskverif/an"
)

// searchBounds extends C19.4: Finish runs for tasks whose output never started,
// so "the task is in the list of running tasks" is not an invariant of the
// cockpit. Library contract: sort.Search(n, f) (and SearchStrings/Ints/
// Float64s) returns n when nothing matches. With S the searched slice
// (identified by the field it is loaded from) and k the result, an element
// access s[k+c] needs k+c < len(s) and a slice bound s[k+c:] / s[:k+c] needs
// k+c ≤ len(s), where len(s) = n when s is the same field and n+1 when the
// field was re-assigned append(field, one element) in between. Without a
// dominating test k < len (or k == len / k >= len leaving), k can be n.
func searchBounds(c *an.Ctx, rule string, pkg string) {
	p := c.P
	type search struct {
		call  *ssa.Call
		field string // FieldKey of the searched slice
	}
	var searches []search
	for _, fn := range p.Funcs {
		if !inPkgs(pkg)(fn) {
			continue
		}
		for _, ci := range an.CallsIn(fn, "sort.Search", "sort.SearchStrings", "sort.SearchInts", "sort.SearchFloat64s") {
			call, ok := ci.(*ssa.Call)
			if !ok {
				continue
			}
			field := ""
			for _, s := range an.Sources(call.Call.Args[0]) {
				if l, ok := s.(*ssa.Call); ok {
					if b, ok := l.Call.Value.(*ssa.Builtin); ok && b.Name() == "len" {
						field = an.FieldKey(l.Call.Args[0])
					}
				} else if k := an.FieldKey(s); k != "" {
					field = k
				}
			}
			searches = append(searches, search{call, field})
		}
	}
	if len(searches) == 0 {
		return
	}
	isSearch := func(v ssa.Value) (search, bool) {
		for _, s := range p.DeepSources(v, 3, false) {
			for _, sr := range searches {
				if s == ssa.Value(sr.call) {
					return sr, true
				}
			}
		}
		return search{}, false
	}
	// k + c
	offset := func(v ssa.Value) (ssa.Value, int64) {
		if bo, ok := v.(*ssa.BinOp); ok && bo.Op == token.ADD {
			if k, ok := an.ConstInt(bo.Y); ok {
				return bo.X, k
			}
		}
		if bo, ok := v.(*ssa.BinOp); ok && bo.Op == token.SUB {
			if k, ok := an.ConstInt(bo.Y); ok {
				return bo.X, -k
			}
		}
		return v, 0
	}
	for _, fn := range p.Funcs {
		if !inPkgs(pkg)(fn) {
			continue
		}
		fn := fn
		// did the function grow the field by one element before this instruction?
		grown := func(field string, at ssa.Instruction) int64 {
			d := int64(0)
			an.EachInstr(fn, func(in ssa.Instruction) {
				st, ok := in.(*ssa.Store)
				if !ok || an.FieldKey(st.Addr) != field || !an.Dominates(st, at) {
					return
				}
				for _, s := range an.Sources(st.Val) {
					if call, ok := s.(*ssa.Call); ok {
						if b, ok := call.Call.Value.(*ssa.Builtin); ok && b.Name() == "append" && an.FieldKey(call.Call.Args[0]) == field && len(an.VariadicElems(call.Call.Args[1])) == 1 {
							d = 1
						}
					}
				}
			})
			return d
		}
		guarded := func(k ssa.Value, field string, at ssa.Instruction) bool {
			for _, g := range an.Guards(at.Block()) {
				bo, ok := g.Cond.(*ssa.BinOp)
				if !ok {
					continue
				}
				isLen := func(v ssa.Value) bool {
					for _, s := range an.Sources(v) {
						if l, ok := s.(*ssa.Call); ok {
							if b, ok := l.Call.Value.(*ssa.Builtin); ok && b.Name() == "len" && an.FieldKey(l.Call.Args[0]) == field {
								return true
							}
						}
					}
					return false
				}
				if !an.SameValue(bo.X, k) || !isLen(bo.Y) {
					continue
				}
				switch {
				case bo.Op == token.LSS && g.Outcome, bo.Op == token.GEQ && !g.Outcome, bo.Op == token.EQL && !g.Outcome, bo.Op == token.NEQ && g.Outcome:
					return true
				}
			}
			return false
		}
		check := func(at ssa.Instruction, base, idx ssa.Value, isElem bool, what string) {
			if idx == nil {
				return
			}
			k, off := offset(idx)
			sr, ok := isSearch(k)
			if !ok || sr.field == "" || an.FieldKey(base) != sr.field {
				return
			}
			d := grown(sr.field, at)
			limit := d // k+off ≤ n+d for a bound, < for an element
			okb := off <= limit
			if isElem {
				okb = off < limit
			}
			if !okb && guarded(k, sr.field, at) {
				// k ≤ n-1
				okb = off-1 <= limit
				if isElem {
					okb = off-1 < limit
				}
			}
			key := fmt.Sprintf("%s:%s(search result%+d)", an.Short(fn), what, off)
			c.Check(okb, rule, key, at.Pos(), "the search result is within bounds here", fmt.Sprintf("%s uses the result of %s (which is len(%s) when nothing matches) as %s%+d without a dominating test against the length: a task that was never added — Finish runs for tasks whose output never started — makes this panic", an.Short(fn), an.ShortCallee(&sr.call.Call), sr.field, what, off))
		}
		an.EachInstr(fn, func(in ssa.Instruction) {
			switch x := in.(type) {
			case *ssa.IndexAddr:
				check(x, x.X, x.Index, true, "index")
			case *ssa.Slice:
				check(x, x.X, x.Low, false, "slice-low")
				check(x, x.X, x.High, false, "slice-high")
			}
		})
	}
}
