package rules

import (
	"fmt"
	"go/types"
	"strings"

	"golang.org/x/tools/go/ssa"

	"taskverif/an"
)

// Visited-set guards, decided on traces rather than on the shape of one
// function. A "set" is a map from string to bool or to the empty struct. The
// functions under analysis are explored twice, helpers of the package that
// touch a set (a seen/mark method of a set type, a resolver that consults the
// set and returns a verdict) inlined:
//
//	world P: every membership test on a set answers "present";
//	world A: every membership test answers "absent".
//
// A call site is guarded on the key it passes on when (P) no path reaches it
// after a membership test on that very key, and (A) every path that reaches
// it made such a test before. Keys are compared by what they denote in the
// explored function (parameters and results of inlined helpers are mapped
// back), never by name.

type setEvent struct {
	kind string    // "test", "mark", "call", "read"
	key  ssa.Value // test/mark: the key, rooted
	setP string    // test/mark: provenance of the set (type-qualified field)
	site ssa.Instruction
	args []ssa.Value // call: the arguments, rooted
	// call: for an argument that is the result of path.Join / filepath.Join, the joined elements, rooted
	joins map[int][]ssa.Value
	// alts[i]: when argument i is read from a field of an element of a slice the function collected in an
	// earlier pass, the values stored into that field (a may-set)
	alts map[int][]ssa.Value
}

func isSetMapType(t types.Type) bool {
	m, ok := t.Underlying().(*types.Map)
	if !ok {
		return false
	}
	if b, ok := m.Key().Underlying().(*types.Basic); !ok || b.Kind() != types.String {
		return false
	}
	switch e := m.Elem().Underlying().(type) {
	case *types.Basic:
		return e.Kind() == types.Bool
	case *types.Struct:
		return e.NumFields() == 0
	}
	return false
}

// touchesSet reports whether fn contains a membership test or an insertion on a set.
func touchesSet(fn *ssa.Function) bool {
	found := false
	an.EachInstr(fn, func(in ssa.Instruction) {
		switch x := in.(type) {
		case *ssa.Lookup:
			if isSetMapType(x.X.Type()) {
				found = true
			}
		case *ssa.MapUpdate:
			if isSetMapType(x.Map.Type()) {
				found = true
			}
		}
	})
	return found
}

type visitedTracer struct {
	p *an.Prog
	// onCycle: functions that stay opaque (the recursive ones)
	onCycle map[*ssa.Function]bool
	// sites: the calls recorded as "call" events
	sites map[ssa.Instruction]bool
	// reads: calls recorded as "read" events
	reads   map[ssa.Instruction]bool
	helpers map[*ssa.Function]bool
	// seedURL: -1 leaves utils.IsURL undecided; 0/1 make every IsURL answer false/true ("url" events record the operand)
	seedURL int
	memo    map[string]tracedPaths
}

type tracedPaths struct {
	paths     [][]setEvent
	exhausted bool
}

// setHelpers computes the functions of pkg that (transitively, through
// functions that are not on the cycle) touch a set: these are inlined.
func (vt *visitedTracer) setHelpers(pkg *ssa.Package) {
	vt.helpers = map[*ssa.Function]bool{}
	for _, f := range vt.p.Funcs {
		if an.Outer(f).Pkg != pkg || vt.onCycle[f] || f.Blocks == nil {
			continue
		}
		reach := vt.p.Reach([]*ssa.Function{f}, func(e an.CallEdge) bool {
			return e.Kind == an.EdgeCall && an.Outer(e.Callee).Pkg == pkg && !vt.onCycle[e.Callee]
		})
		for g := range reach {
			if g.Blocks != nil && touchesSet(g) {
				vt.helpers[f] = true
			}
		}
	}
}

// trace explores fn in one world and returns, per path, the ordered events.
func (vt *visitedTracer) trace(fn *ssa.Function, present bool) (paths [][]setEvent, exhausted bool) {
	mk := fmt.Sprintf("%p|%v|%d", fn, present, vt.seedURL)
	if vt.memo == nil {
		vt.memo = map[string]tracedPaths{}
	}
	if m, ok := vt.memo[mk]; ok {
		return m.paths, m.exhausted
	}
	defer func() { vt.memo[mk] = tracedPaths{paths, exhausted} }()
	var events []setEvent
	index := map[string]int{}
	ex := &an.Explorer{P: vt.p, NoReturn: noReturn, MaxDepth: 3, MaxVisits: 2,
		Inline: func(g *ssa.Function) bool {
			return (vt.helpers[g] || isForwarder(g)) && g != fn && !vt.onCycle[g]
		}}
	ex.AtomSt = func(v ssa.Value, st *an.State) (an.AVal, bool) {
		switch x := v.(type) {
		case *ssa.Lookup:
			if !x.CommaOk && isSetMapType(x.X.Type()) {
				if m := x.X.Type().Underlying().(*types.Map); types.Identical(m.Elem().Underlying(), types.Typ[types.Bool]) {
					return an.ABool(present), true
				}
			}
		case *ssa.Call:
			if vt.seedURL >= 0 && an.ShortCallee(&x.Call) == "pkg/utils.IsURL" {
				return an.ABool(vt.seedURL == 1), true
			}
		case *ssa.Extract:
			if lk, ok := x.Tuple.(*ssa.Lookup); ok && lk.CommaOk && isSetMapType(lk.X.Type()) {
				if x.Index == 1 {
					return an.ABool(present), true
				}
				if b, ok := x.Type().Underlying().(*types.Basic); ok && b.Kind() == types.Bool {
					return an.ABool(present), true
				}
			}
		}
		return an.AVal{}, false
	}
	ex.Effect = func(in ssa.Instruction, st *an.State) string {
		rec := func(ev setEvent) string {
			sig := fmt.Sprintf("%s|%p|%p|%s", ev.kind, ev.site, ev.key, ev.setP)
			for _, a := range ev.args {
				sig += fmt.Sprintf("|%p", a)
			}
			if i, ok := index[sig]; ok {
				return fmt.Sprintf("e:%d", i)
			}
			events = append(events, ev)
			index[sig] = len(events) - 1
			return fmt.Sprintf("e:%d", len(events)-1)
		}
		switch x := in.(type) {
		case *ssa.Lookup:
			if isSetMapType(x.X.Type()) {
				return rec(setEvent{kind: "test", key: st.Root(x.Index), setP: heldSetProv(st, x.X), site: in})
			}
		case *ssa.MapUpdate:
			if isSetMapType(x.Map.Type()) {
				return rec(setEvent{kind: "mark", key: st.Root(x.Key), setP: heldSetProv(st, x.Map), site: in})
			}
		case ssa.CallInstruction:
			if vt.seedURL >= 0 && an.ShortCallee(x.Common()) == "pkg/utils.IsURL" {
				return rec(setEvent{kind: "url", key: rootThroughConversions(st, x.Common().Args[0]), site: in})
			}
			if vt.sites[in] {
				ev := setEvent{kind: "call", site: in, joins: map[int][]ssa.Value{}, alts: map[int][]ssa.Value{}}
				for i, a := range x.Common().Args {
					r := rootThroughConversions(st, a)
					ev.args = append(ev.args, r)
					for _, alt := range an.CollectedFieldSources(r) {
						ev.alts[i] = append(ev.alts[i], st.Root(alt))
					}
					if jc, ok := r.(*ssa.Call); ok && (an.ShortCallee(&jc.Call) == "path.Join" || an.ShortCallee(&jc.Call) == "path/filepath.Join") {
						for _, el := range an.VariadicElems(jc.Call.Args[0]) {
							ev.joins[i] = append(ev.joins[i], rootThroughConversions(st, el))
						}
					}
				}
				return rec(ev)
			}
			if vt.reads[in] {
				return rec(setEvent{kind: "read", site: in})
			}
		}
		return ""
	}
	outs := ex.Run(fn, fn.Blocks[0], nil, nil)
	for _, o := range outs {
		var path []setEvent
		for _, e := range o.Effects {
			var idx int
			if _, err := fmt.Sscanf(e, "e:%d", &idx); err == nil && idx < len(events) {
				path = append(path, events[idx])
			}
		}
		paths = append(paths, path)
	}
	return paths, ex.Exhausted
}

func sameKey(a, b ssa.Value) bool {
	if a == nil || b == nil {
		return false
	}
	return a == b || an.SameValue(a, b) || (an.Prov(a) == an.Prov(b) && an.Prov(a) != "" && !isConstLike(a))
}

func isConstLike(v ssa.Value) bool {
	_, ok := v.(*ssa.Const)
	return ok
}

// guardedOn decides whether `site` (a call in fn) is guarded by a visited
// set on one of the arguments it passes on. It returns the guarded argument
// index, the set's provenance and a reason.
func (vt *visitedTracer) guardedOn(fn *ssa.Function, site ssa.Instruction) (argIdx int, setP string, ok bool, why string) {
	pp, exP := vt.trace(fn, true)
	pa, exA := vt.trace(fn, false)
	if exP || exA {
		return -1, "", false, "the path exploration ran out of budget"
	}
	matchBefore := func(path []setEvent, upto int, ev setEvent) (int, string) {
		for j := 0; j < upto; j++ {
			if path[j].kind != "test" {
				continue
			}
			for ai, a := range ev.args {
				if sameKey(path[j].key, a) {
					return ai, path[j].setP
				}
			}
		}
		return -1, ""
	}
	// world P: the call is never reached after a test on a key it passes on
	for _, path := range pp {
		for i, ev := range path {
			if ev.kind == "call" && ev.site == site {
				if ai, _ := matchBefore(path, i, ev); ai >= 0 {
					return -1, "", false, "the call is made although the visited set already holds the key"
				}
			}
		}
	}
	// world A: whenever the call is reached, a test on a key it passes on came first
	n := 0
	argIdx = -1
	for _, path := range pa {
		for i, ev := range path {
			if ev.kind != "call" || ev.site != site {
				continue
			}
			n++
			ai, sp := matchBefore(path, i, ev)
			if ai < 0 {
				return -1, "", false, "a path reaches the call without a membership test on the key it passes on"
			}
			if argIdx >= 0 && (argIdx != ai || setP != sp) {
				return -1, "", false, "the paths to the call test different keys or sets"
			}
			argIdx, setP = ai, sp
		}
	}
	if n == 0 {
		return -1, "", false, "no explored path reaches the call when nothing has been visited yet"
	}
	return argIdx, setP, true, ""
}

// marksBefore decides whether fn inserts its parameter prm into the set setP
// on every path before the first of the given events (calls on the cycle,
// reads).
func (vt *visitedTracer) marksBefore(fn *ssa.Function, prm *ssa.Parameter, setP string) (bool, string) {
	pa, exA := vt.trace(fn, false)
	if exA {
		return false, "the path exploration ran out of budget"
	}
	seen := false
	for _, path := range pa {
		marked := false
		for _, ev := range path {
			switch ev.kind {
			case "mark":
				if sameKey(ev.key, prm) && (setP == "" || ev.setP == setP) {
					marked = true
				}
			case "call", "read":
				seen = true
				if !marked {
					return false, "a path reads the input or follows an import before the parameter is marked as visited"
				}
			}
		}
	}
	if !seen {
		return false, "no explored path reads the input or follows an import"
	}
	return true, ""
}

// callerMarksBefore decides whether fn inserts the argument it passes on at
// `site` into the set before the call, on every path that reaches it.
func (vt *visitedTracer) callerMarksBefore(fn *ssa.Function, site ssa.Instruction, argIdx int, setP string) bool {
	pa, exA := vt.trace(fn, false)
	if exA {
		return false
	}
	n := 0
	for _, path := range pa {
		for i, ev := range path {
			if ev.kind != "call" || ev.site != site || argIdx >= len(ev.args) {
				continue
			}
			n++
			marked := false
			for j := 0; j < i; j++ {
				if path[j].kind == "mark" && sameKey(path[j].key, ev.args[argIdx]) && path[j].setP == setP {
					marked = true
				}
			}
			if !marked {
				return false
			}
		}
	}
	return n > 0
}

// heldSetProv names the set m by the fields it is reached through. A set kept in a small object of its own (a
// registry with mark/seen methods) is named from the holder of that object: inside the inlined method the map is
// <receiver>.seen, and the receiver is what the caller passed — Loader.imports — so the name is
// Loader.imports.seen.
func heldSetProv(st *an.State, m ssa.Value) string {
	own := an.FieldProv(st.Root(m))
	ap := an.AccessPath(m)
	if len(ap.Fields) == 0 {
		return own
	}
	if _, isPrm := ap.Base.(*ssa.Parameter); !isPrm {
		return own
	}
	for _, r := range st.RootChain(ap.Base) {
		if r == ap.Base {
			continue
		}
		if hp := an.FieldProv(r); strings.Contains(hp, ".") && !strings.Contains(hp, "(") {
			return hp + "." + strings.Join(ap.Fields, ".")
		}
	}
	return own
}

// isForwarder: a small function of the module that only hands its arguments on to one other function and returns
// what comes back (a method of a named string type wrapping path.Join, say): exploring it in place costs nothing
// and lets the call inside be seen for what it is.
func isForwarder(g *ssa.Function) bool {
	if g == nil || g.Blocks == nil || len(g.Blocks) != 1 || !an.InModule(g) {
		return false
	}
	calls := 0
	for _, in := range g.Blocks[0].Instrs {
		switch x := in.(type) {
		case *ssa.Call:
			if _, isB := x.Call.Value.(*ssa.Builtin); !isB {
				calls++
			}
		case *ssa.Store:
			// (the argument list of a variadic call is stored into a local array)
			ia, ok := x.Addr.(*ssa.IndexAddr)
			if !ok {
				return false
			}
			if _, isLocal := ia.X.(*ssa.Alloc); !isLocal {
				return false
			}
		case *ssa.Go, *ssa.Defer, *ssa.MapUpdate, *ssa.Send:
			return false
		}
	}
	return calls == 1 && len(g.Blocks[0].Instrs) <= 16
}

// rootThroughConversions is State.Root that also looks through conversions between a string and a named string
// type (location(v), string(l)): the value is the same text.
func rootThroughConversions(st *an.State, v ssa.Value) ssa.Value {
	r := st.Root(v)
	for i := 0; i < 8; i++ {
		switch x := r.(type) {
		case *ssa.Convert:
			if isStringType(x.Type()) && isStringType(x.X.Type()) {
				r = st.Root(x.X)
				continue
			}
		case *ssa.ChangeType:
			if isStringType(x.Type()) && isStringType(x.X.Type()) {
				r = st.Root(x.X)
				continue
			}
		}
		break
	}
	return r
}

func isStringType(t types.Type) bool {
	b, ok := t.Underlying().(*types.Basic)
	return ok && b.Info()&types.IsString != 0
}
