package rules

import (
	"go/token"

	"golang.org/x/tools/go/ssa"

	"taskverif/an"
)

// globalOfLookup returns the package-level map a lookup reads, if any.
func globalOfLookup(lk *ssa.Lookup) *ssa.Global {
	for _, s := range an.Sources(lk.X) {
		if u, ok := s.(*ssa.UnOp); ok && u.Op == token.MUL {
			if g, ok := u.X.(*ssa.Global); ok {
				return g
			}
		}
	}
	return nil
}

// constRegistry reads a constant registry: a package-level map with string
// keys that is initialised by a literal in the package initialiser and that
// nothing else in the module writes (no assignment, no element update). It
// returns the literal's constant keys with the function each maps to (nil
// when the value is not a function).
func constRegistry(p *an.Prog, g *ssa.Global) (map[string]*ssa.Function, bool) {
	reg := map[string]*ssa.Function{}
	initFn := g.Pkg.Func("init")
	if initFn == nil {
		return nil, false
	}
	allConst := true
	an.EachInstr(initFn, func(in ssa.Instruction) {
		mu, ok := in.(*ssa.MapUpdate)
		if !ok {
			return
		}
		mm, ok := mu.Map.(*ssa.MakeMap)
		if !ok || mm.Referrers() == nil {
			return
		}
		stored := false
		for _, r := range *mm.Referrers() {
			if st, ok := r.(*ssa.Store); ok && st.Addr == ssa.Value(g) {
				stored = true
			}
		}
		if !stored {
			return
		}
		k, isK := an.ConstString(mu.Key)
		if !isK {
			allConst = false
			return
		}
		reg[k] = nil
		for _, v := range an.Sources(mu.Value) {
			switch f := v.(type) {
			case *ssa.Function:
				reg[k] = f
			case *ssa.MakeClosure:
				reg[k] = f.Fn.(*ssa.Function)
			case *ssa.ChangeType:
				if fn, ok := f.X.(*ssa.Function); ok {
					reg[k] = fn
				}
			}
		}
	})
	writers := 0
	for _, fn := range p.Funcs {
		an.EachInstr(fn, func(in ssa.Instruction) {
			switch y := in.(type) {
			case *ssa.Store:
				if y.Addr == ssa.Value(g) {
					writers++
				}
			case *ssa.MapUpdate:
				for _, s := range an.Sources(y.Map) {
					if u, ok := s.(*ssa.UnOp); ok && u.X == ssa.Value(g) {
						writers++
					}
				}
			}
		})
	}
	return reg, allConst && writers == 0 && len(reg) > 0
}

// globalInitValue returns the value the package initialiser stores into g,
// provided nothing else in the module assigns g; nil otherwise.
func globalInitValue(p *an.Prog, g *ssa.Global) ssa.Value {
	initFn := g.Pkg.Func("init")
	if initFn == nil {
		return nil
	}
	var val ssa.Value
	n := 0
	an.EachInstr(initFn, func(in ssa.Instruction) {
		if st, ok := in.(*ssa.Store); ok && st.Addr == ssa.Value(g) {
			val = st.Val
			n++
		}
	})
	if n != 1 {
		return nil
	}
	for _, fn := range p.Funcs {
		written := false
		an.EachInstr(fn, func(in ssa.Instruction) {
			if st, ok := in.(*ssa.Store); ok && st.Addr == ssa.Value(g) {
				written = true
			}
		})
		if written {
			return nil
		}
	}
	return val
}
