package rules

import (
	"fmt"
	"go/token"
	"go/types"
	"os"
	"sort"
	"strings"

	"golang.org/x/tools/go/ssa"

	"taskverif/an"
)

func init() { register("C09", checkC09) }

// paramIndex returns the index of the parameter called name in fn.
func paramNamed(fn *ssa.Function, name string) int {
	for i, p := range fn.Params {
		if p.Name() == name {
			return i
		}
	}
	return -1
}

// compileCmdSites lists the CompileCommand call sites in pkg/runner with the
// kind of job they compile.
type ccSite struct {
	call *ssa.Call
	fn   *ssa.Function
	kind string // condition, before, after, command
}

func compileCommandSites(c *an.Ctx, r *runnerRoles) []ccSite {
	var out []ccSite
	ccr := resolveCmdCompiler(c.P)
	for _, fn := range c.P.Funcs {
		if !inPkgs("pkg/runner")(fn) {
			continue
		}
		an.EachInstr(fn, func(in ssa.Instruction) {
			call, ok := ccr.asCall(in)
			if !ok {
				return
			}
			kind := ccCommandKind(call, nil)
			if kind == "?" {
				// the command is a parameter of a shared helper: classify by its callers
				kinds := map[string]bool{}
				for _, cv := range ccr.arg(call, "command") {
					for _, src := range c.P.DeepSources(cv, 3, true) {
						kinds[commandKind(src, nil)] = true
					}
				}
				var ks []string
				for k := range kinds {
					ks = append(ks, k)
				}
				sort.Strings(ks)
				kind = strings.Join(ks, "+")
			}
			out = append(out, ccSite{call, fn, kind})
		})
	}
	return out
}

// argOf returns the argument bound to the callee parameter called name.
func argOf(call *ssa.Call, callee *ssa.Function, name string) ssa.Value {
	i := paramNamed(callee, name)
	if i < 0 || i >= len(call.Call.Args) {
		return nil
	}
	return call.Call.Args[i]
}

func checkC09(c *an.Ctx) {
	c.Rule("C09.1", "env chain (E5): over its sites the environment is layered process env < context env < env_file < task env < stage env < variation, with TASK_NAME=Task.Name and the runner's env (ARGS, stored outputs) present; Merge copies its argument's keys after its receiver's")
	c.Rule("C09.2", "unique names (E5 + library summary): what is handed to expand.ListEnviron is built from one map per Execute call (ListEnviron resolves duplicate names by sort order, not by arrival)")
	c.Rule("C09.3", "dir table (E2): job dir := dir argument if non-empty, else the context's dir if non-empty, else empty, then rendered; Execute falls back to its start directory; buildContext defaults the context dir to the invocation directory")
	c.Rule("C09.4", "call-site agreement (E4): every CompileCommand caller passes the task's Dir, and hooks/commands pass the task's env chain")
	c.Summaries = append(c.Summaries, "mvdan.cc/sh/v3@v3.1.1 expand.ListEnviron sorts its arguments and keeps, for a repeated name, the lexically last pair (read in expand/environ.go)")
	c.Rule("C09.5", "env_file reader contract (E3 + library summary): in ReadEnvFile the data a bufio.Reader returns together with io.EOF is used, and a bufio.Scanner's Err is consulted and returned before success: every line of the file reaches the env_file level")
	c.Rule("C09.6", "an interpreter serves one phase of one task run (lifetime, who-may-keep): every executor the module constructs stays within the call that constructed it — it is kept in locals, handed down to callees, or held in an object that itself does not outlive the call; it is never stored in a field of the runner, of a context, of a task, or in a package variable (library summary: the interpreter keeps its shell state — $PWD, assigned variables, options — from one Run to the next, so a shared one carries one task's directory and variables into another's commands)")
	c.Summaries = append(c.Summaries, "mvdan.cc/sh/v3@v3.1.1 interp.Runner.Run resets the shell state from Dir/Env only on the first Run (Reset is not called again): $PWD and variables assigned by earlier scripts persist in the Runner (read in interp/api.go)")
	c.NotDecided = append(c.NotDecided, "what the shell does with the environment afterwards", "values (the chain rule is value-independent by construction)", "how one env_file line is split into name and value (C15 covers its crash-freedom)")
	p := c.P
	r := resolveRunner(c, "C09.0")
	if !r.ok {
		return
	}
	cfg := chainCfg(p)
	cfg.ParamDepth = 2
	ct := p.Func("pkg/runner", "TaskCompiler", "CompileTask")
	ccr := resolveCmdCompiler(p)
	cc := ccr.fn
	if ct == nil || cc == nil {
		c.Und("C09.0", "runner.(*TaskCompiler)", token.NoPos, "CompileTask / CompileCommand not found")
		return
	}
	c.OK("C09.0", "runner roles", r.run.Pos(), "sites: Run, CompileTask, buildTask, runStage, Execute")
	processEnvEntry(c, "C09.1")
	stableCombinators(c, "C09.1")
	wholeValues(c, "C09.1")
	executorScope(c, "C09.6")

	// (a) Run: env handed to CompileTask
	envArg := argOf(r.compileCall, ct, "env")
	if envArg == nil {
		c.Und("C09.1", an.Short(r.run)+":env", r.run.Pos(), "cannot find the env argument of CompileTask")
	} else {
		checkRunEnvChain(c, "C09.1", an.Short(r.run)+":env→CompileTask", r.compileCall, cfg.Chains(envArg))
	}
	// (b) CompileTask: variation over the env parameter
	cfgLocal := chainCfg(p)
	cfgLocal.MapLabel = func(v ssa.Value) string {
		for _, l := range an.Loops(ct) {
			_, vals := l.RangeKeyValue()
			for _, e := range vals {
				if an.SameValue(v, e) {
					for _, src := range an.Sources(l.RangeOperand()) {
						if call, ok := src.(*ssa.Call); ok {
							if _, ok := an.IsCallTo(call, "(pkg/task.Task).GetVariations"); ok {
								return "variation"
							}
						}
					}
				}
			}
		}
		return ""
	}
	var ctSites []*ssa.Call
	an.EachInstr(ct, func(in ssa.Instruction) {
		if call, ok := ccr.asCall(in); ok {
			ctSites = append(ctSites, call)
		}
	})
	for _, call := range ctSites {
		for _, ch := range cfgLocal.Chains(ccr.arg1(call, "env")) {
			key := an.Short(ct) + ":env→CompileCommand " + ch.String()
			good := len(ch) == 2 && ch[0].Label == "param:env" && ch[1].Label == "map:variation"
			c.Check(good, "C09.1", key, call.Pos(), "the current variation is merged over the task's env", "each command's env must be [env parameter < current variation], got "+ch.String())
		}
	}
	// (c) buildTask
	tb := resolveTaskBuild(p)
	if tb == nil {
		c.Und("C09.1", "config.buildTask", token.NoPos, "the function that builds a task.Task from a taskDefinition was not found")
	} else {
		bt := tb.root
		seenFile, seenPlain := false, false
		{
			for _, st := range tb.storesTo("Env") {
				for _, ch := range chainCfg(p).Chains(st.Val) {
					var labels []string
					for _, l := range ch {
						labels = append(labels, l.Label)
					}
					j := strings.Join(labels, " < ")
					key := an.Short(bt) + ":Task.Env [" + j + "]"
					switch j {
					case "map:taskDefinition.Env":
						seenPlain = true
						c.OK("C09.1", key, st.Pos(), "task env from the definition")
					case "map:utils.ReadEnvFile()#0 < map:taskDefinition.Env":
						seenFile = true
						c.OK("C09.1", key, st.Pos(), "env_file merged under the task's env")
					default:
						c.Bad("C09.1", key, st.Pos(), "Task.Env is built as [%s]; want [env_file < env] (or [env] without an env_file)", j)
					}
				}
			}
		}
		if !seenFile || !seenPlain {
			c.Bad("C09.1", an.Short(bt)+":Task.Env", bt.Pos(), "buildTask does not build Task.Env from the definition's env with the env_file underneath (plain=%v, with file=%v)", seenPlain, seenFile)
		}
	}
	// (d) stage site
	stageLayering(c, "C09.1")
	// Merge's own direction
	mergeDirection(c, "C09.1")
	// (e) Execute
	executeEnv(c, "C09.1", "C09.2")

	envFileReader(c, "C09.5")

	dirTables(c, r, cc, "C09.3")

	// C09.4
	for _, site := range compileCommandSites(c, r) {
		key := an.Short(site.fn) + ":CompileCommand(" + site.kind + ")"
		dirArg := ccr.arg1(site.call, "dir")
		dir := an.AccessPath(dirArg)
		okDir := dir.LastField() == "Dir" && an.TypeIs(dir.Base.Type(), "pkg/task", "Task") && len(dir.Fields) == 1
		if !okDir {
			// handed over through a helper's parameter or a parameter bundle
			okDir = dirArg != nil && p.DeepFieldProvCallers(dirArg) == "Task.Dir"
		}
		c.Check(okDir, "C09.4", key+":dir", site.call.Pos(),
			"passes the task's Dir", "does not pass the task's Dir as the job's dir: "+dir.String())
		chains := cfg.Chains(ccr.arg1(site.call, "env"))
		if site.kind == "condition" {
			for _, ch := range chains {
				c.Note("C09.4", key+":env", site.call.Pos(), "the condition job is compiled with %s (outside the statement's clauses)", ch)
			}
			continue
		}
		if site.kind == "command" {
			continue // checked under (b)
		}
		checkRunEnvChain(c, "C09.4", key+":env", site.call, chains)
	}
}

// checkRunEnvChain checks a chain that must contain runner env, context env,
// TASK_NAME and task env with context env below task env.
func checkRunEnvChain(c *an.Ctx, rule, key string, at ssa.Instruction, chains []an.Chain) {
	if len(chains) == 0 {
		c.Und(rule, key, at.Pos(), "no chain")
		return
	}
	for _, ch := range chains {
		var bad []string
		for _, l := range ch {
			if l.Kind == "unknown" || l.Kind == "param" {
				bad = append(bad, "layer of unknown provenance "+l.Label)
			}
		}
		if !ch.Has("TaskRunner.env") {
			bad = append(bad, "the runner's env (ARGS, stored outputs) is missing")
		}
		if !ch.Before("ExecutionContext.Env", "Task.Env") {
			bad = append(bad, "context env must be below the task's env")
		}
		if !ch.Has("key:TASK_NAME=Task.Name") {
			bad = append(bad, "TASK_NAME=Task.Name is missing")
		}
		if len(bad) > 0 {
			if len(bad) == 1 && strings.HasPrefix(bad[0], "layer of unknown") {
				c.Und(rule, key, at.Pos(), "chain %s: %s", ch, bad[0])
			} else {
				c.Bad(rule, key, at.Pos(), "env chain %s: %s", ch, strings.Join(bad, "; "))
			}
		} else {
			c.OK(rule, key, at.Pos(), "%s", ch)
		}
	}
}

// mergeDirection: in Variables.Merge the argument's keys are copied after the receiver's.
func mergeDirection(c *an.Ctx, rule string) {
	p := c.P
	fn := p.Func("pkg/variables", "Variables", "Merge")
	if fn == nil || len(fn.Params) < 2 {
		c.Und(rule, "variables.(*Variables).Merge", token.NoPos, "Merge not found")
		return
	}
	recvP, argP := fn.Params[0], fn.Params[1]
	// writes into the container Merge builds, along every path, labelled by whose data they carry
	label := func(vals ...ssa.Value) string {
		fromRecv, fromArg := false, false
		for _, v := range vals {
			d := an.ParamDeps(v)
			fromRecv = fromRecv || d[recvP]
			fromArg = fromArg || d[argP]
		}
		switch {
		case fromArg:
			return "write(arg)"
		case fromRecv:
			return "write(recv)"
		}
		return ""
	}
	isFreshStorage := func(v ssa.Value) bool {
		if fresh, _ := an.FreshBase(v); fresh {
			return true
		}
		for _, s := range an.Sources(v) {
			switch x := s.(type) {
			case *ssa.UnOp:
				if fa, ok := x.X.(*ssa.FieldAddr); ok {
					if fresh, _ := an.FreshBase(fa.X); fresh {
						return true
					}
				}
			case *ssa.FieldAddr:
				if fresh, _ := an.FreshBase(x.X); fresh {
					return true
				}
			}
		}
		return false
	}
	ex := &an.Explorer{P: p, NoReturn: noReturn, MaxVisits: 2}
	ex.Effect = func(in ssa.Instruction, st *an.State) string {
		switch x := in.(type) {
		case *ssa.Call:
			if _, isBuiltin := x.Call.Value.(*ssa.Builtin); isBuiltin {
				return ""
			}
			// m.Range(func(k, v) { <built container>.Store/Set(k, v) }): the entries of m's owner are written
			// into the container being built, one by one, by the callback
			if an.ShortCallee(&x.Call) == "(*sync.Map).Range" && len(x.Call.Args) == 2 {
				for _, src := range an.Sources(x.Call.Args[1]) {
					mc, ok := src.(*ssa.MakeClosure)
					if !ok {
						continue
					}
					cb := mc.Fn.(*ssa.Function)
					writes := false
					an.EachInstr(cb, func(in2 ssa.Instruction) {
						c2, ok := in2.(*ssa.Call)
						if !ok || len(c2.Call.Args) == 0 {
							return
						}
						var r2 ssa.Value
						a2 := c2.Call.Args
						if c2.Call.IsInvoke() {
							r2 = c2.Call.Value
						} else {
							r2, a2 = a2[0], a2[1:]
						}
						usesEntry := false
						for _, a := range a2 {
							for _, as := range an.Sources(a) {
								if prm, ok := as.(*ssa.Parameter); ok && prm.Parent() == cb {
									usesEntry = true
								}
							}
						}
						if usesEntry && isFreshStorage(r2) {
							writes = true
						}
					})
					if writes {
						return label(x.Call.Args[0])
					}
				}
			}
			var recv ssa.Value
			args := x.Call.Args
			if x.Call.IsInvoke() {
				recv = x.Call.Value
			} else if len(args) > 0 {
				recv, args = args[0], args[1:]
			}
			if recv == nil || len(args) == 0 || !isFreshStorage(recv) {
				return ""
			}
			return label(args...)
		case *ssa.Store:
			switch a := x.Addr.(type) {
			case *ssa.FieldAddr:
				if fresh, _ := an.FreshBase(a.X); fresh {
					return label(x.Val)
				}
			case *ssa.IndexAddr:
				if isFreshStorage(a.X) {
					return label(x.Val)
				}
			}
		case *ssa.MapUpdate:
			if isFreshStorage(x.Map) {
				return label(x.Key, x.Value)
			}
		}
		return ""
	}
	// what Merge returns is a container it built: handing back the receiver or the argument itself (a "nothing
	// to copy" fast path) makes every later layering step on the result — With("TASK_NAME", …), Set — a write
	// into a container that other tasks read
	for _, ret := range an.Returns(fn) {
		fresh := true
		for _, src := range an.ResolveAll(an.RetVal(ret, 0)) {
			if f2, _ := an.FreshBase(src); !f2 {
				fresh = false
			}
		}
		if !fresh {
			c.Bad(rule, an.Short(fn)+":result", ret.Pos(), "Merge can return %s instead of a container it allocated: the layers built on top of the result are then written into an operand that other tasks share", an.Prov(an.RetVal(ret, 0)))
		}
	}
	outs := ex.Run(fn, fn.Blocks[0], nil, nil)
	if os.Getenv("TV_DEBUG") != "" {
		for _, o := range outs {
			fmt.Fprintln(os.Stderr, "mergeDirection:", o.End, o.Effects, o.Unknown)
		}
	}
	bad := ""
	sawBoth := false
	for _, o := range outs {
		if o.End != "return" {
			continue
		}
		seenArg, seenRecv := false, false
		for _, e := range o.Effects {
			switch e {
			case "write(arg)":
				seenArg = true
			case "write(recv)":
				seenRecv = true
				if seenArg {
					bad = "Merge writes its receiver's values after its argument's: the receiver would win"
				}
			}
		}
		if seenArg && seenRecv {
			sawBoth = true
		}
	}
	if bad == "" && !sawBoth {
		c.Und(rule, an.Short(fn)+":direction", fn.Pos(), "no path of Merge writes both its receiver's and its argument's values into the container it builds (%d paths)", len(outs))
		return
	}
	c.Check(bad == "", rule, an.Short(fn)+":direction", fn.Pos(), "on every path the argument's values are written after the receiver's (argument wins)", bad)
}

func reachesWithoutReturning(a, b *ssa.BasicBlock) bool { return an.CanReach(a, b) }

// executeEnv checks site (e) and C09.2.
func executeEnv(c *an.Ctx, rule1, rule2 string) {
	p := c.P
	ex := p.Func("pkg/executor", "DefaultExecutor", "Execute")
	if ex == nil {
		c.Und(rule1, "executor.(*DefaultExecutor).Execute", token.NoPos, "Execute not found")
		return
	}
	var sites []ssa.CallInstruction
	for fn := range p.Reach([]*ssa.Function{ex}, func(e an.CallEdge) bool { return an.Outer(e.Callee).Pkg == ex.Pkg }) {
		sites = append(sites, an.CallsIn(fn, "mvdan.cc/sh/v3/expand.ListEnviron")...)
	}
	if len(sites) != 1 {
		c.Und(rule2, an.Short(ex)+":ListEnviron", ex.Pos(), "expected one ListEnviron call under Execute, found %d", len(sites))
		return
	}
	site := sites[0].(*ssa.Call)
	arg := site.Call.Args[0]
	// name-unique: the slice is the result of ConvertEnv(<one map>) and nothing else (helpers of pkg/executor are looked through)
	var m ssa.Value
	hf := ex // the function that builds the map
	unique := true
	why := ""
	// (a helper of the module that returns ConvertEnv(<map it built>) on every path is looked through, wherever it lives)
	var srcsOf func(v ssa.Value, interproc bool, depth int) []ssa.Value
	srcsOf = func(v ssa.Value, interproc bool, depth int) []ssa.Value {
		var out []ssa.Value
		if call, ok := an.Resolve(v).(*ssa.Call); ok {
			if isEnvConverterCall(p, call) {
				return []ssa.Value{call}
			}
		}
		for _, src := range p.DeepSources(v, 3, interproc) {
			call, ok := src.(*ssa.Call)
			if ok && depth < 3 {
				if !isEnvConverterCall(p, call) {
					if callee := call.Call.StaticCallee(); callee != nil && an.InModule(callee) && callee.Blocks != nil && callee.Signature.Results().Len() == 1 {
						rets := an.Returns(callee)
						for _, ret := range rets {
							out = append(out, srcsOf(an.RetVal(ret, 0), false, depth+1)...)
						}
						if len(rets) > 0 {
							continue
						}
					}
				}
			}
			out = append(out, src)
		}
		return out
	}
	for _, src := range srcsOf(arg, site.Parent() != ex, 0) {
		call, ok := src.(*ssa.Call)
		if !ok {
			unique = false
			why = an.Prov(src)
			continue
		}
		if isEnvConverterCall(p, call) {
			if m != nil {
				unique = false
				why = "more than one ConvertEnv result"
			}
			m = call.Call.Args[0]
			hf = call.Parent()
			continue
		}
		unique = false
		why = an.ShortCallee(&call.Call)
	}
	if !unique || m == nil {
		c.Bad(rule2, an.Short(ex)+":ListEnviron(arg)", site.Pos(), "the list handed to ListEnviron is not built from a single map (%s): a name defined twice is resolved by the sort order of the values, not by precedence", why)
		return
	}
	c.OK(rule2, an.Short(ex)+":ListEnviron(arg)", site.Pos(), "the list is ConvertEnv of one map: names are unique")
	// ConvertEnv itself: ranges over its map parameter, one entry per key
	ce := p.Func("pkg/utils", "", "ConvertEnv")
	if conv := envConverterOf(p, site.Parent(), arg); conv != nil {
		ce = conv
	}
	if ce != nil {
		okCE := false
		for _, l := range an.Loops(ce) {
			if op := l.RangeOperand(); op != nil && an.SameValue(op, ce.Params[0]) {
				okCE = true
			}
		}
		c.Check(okCE, rule2, an.Short(ce)+":one-per-key", ce.Pos(), "ConvertEnv emits one entry per map key", "ConvertEnv does not range over its map")
		// … for every key: no pass of the loop goes on to the next key without emitting an entry (a filter on names
		// here drops inherited variables that nothing overrides)
		for _, l := range an.Loops(ce) {
			if op := l.RangeOperand(); op == nil || !an.SameValue(op, ce.Params[0]) || l.BodyEntry() == nil {
				continue
			}
			exl := &an.Explorer{P: p, NoReturn: noReturn, MaxDepth: 2}
			l.Bound(exl)
			exl.Effect = func(in ssa.Instruction, st *an.State) string {
				if call, ok := in.(*ssa.Call); ok {
					if b, ok := call.Call.Value.(*ssa.Builtin); ok && b.Name() == "append" {
						return "emit"
					}
				}
				if st2, ok := in.(*ssa.Store); ok {
					if _, isIdx := st2.Addr.(*ssa.IndexAddr); isIdx {
						if _, isStr := st2.Val.Type().Underlying().(*types.Basic); isStr {
							return "emit"
						}
					}
				}
				return ""
			}
			outs := exl.Run(ce, l.BodyEntry(), l.Header, nil)
			every := len(outs) > 0 && !exl.Exhausted
			for _, o := range outs {
				if o.End == "stop" && o.StopBlock == l.Header && count(o.Effects, "emit") < 1 {
					every = false
				}
			}
			c.Check(every, rule2, an.Short(ce)+":every-key", ce.Pos(), "every key of the map yields an entry", an.Short(ce)+" can pass over a key of the map without emitting an entry for it: a variable of the merged environment (an inherited one with an unusual name, say) silently disappears from what the command gets")
		}
	}
	// layers of the map: the map is made during this Execute call (by Execute or a
	// helper of the package under it), and written first from the process
	// environment, then from the job's env; the writes may sit in helpers
	reach := p.Reach([]*ssa.Function{ex}, func(e an.CallEdge) bool { return e.Kind != an.EdgeGo && an.InModule(e.Callee) })
	mapOf := func(v ssa.Value) *ssa.MakeMap {
		if mk, ok := an.Resolve(v).(*ssa.MakeMap); ok {
			return mk
		}
		var found *ssa.MakeMap
		for _, src := range p.DeepSources(v, 4, true) {
			mk, ok := an.Resolve(src).(*ssa.MakeMap)
			if !ok || (found != nil && found != mk) {
				return nil
			}
			found = mk
		}
		return found
	}
	noEnvRemoval(c, rule1)
	mm := mapOf(m)
	_ = hf
	if mm == nil {
		c.Bad(rule1, an.Short(ex)+":env-map", site.Pos(), "the environment map is not allocated by this Execute call (%s): entries of one job survive into the next, so a name one job defines stays defined for later jobs", an.Prov(m))
		return
	}
	if _, under := reach[mm.Parent()]; !under {
		c.Bad(rule1, an.Short(ex)+":env-map", site.Pos(), "the environment map is not allocated by this Execute call (made in %s): entries of one job survive into the next, so a name one job defines stays defined for later jobs", an.Short(mm.Parent()))
		return
	}
	// anchor: where, in function f, the work of instruction `in` of a function under f happens
	type anchor struct {
		entry, exit *ssa.BasicBlock
		idx         int
		call        *ssa.Call
	}
	type layer struct {
		fn    *ssa.Function
		loop  *an.Loop
		mu    *ssa.MapUpdate
		label string
	}
	// labelOf follows a ranged-over value to where it was read from (through helper parameters)
	var labelOf func(v ssa.Value, depth int) string
	labelOf = func(v ssa.Value, depth int) string {
		label := ""
		for _, src := range an.Sources(v) {
			s := an.FieldProv(src)
			switch {
			case strings.Contains(s, executorBaseField(p)):
				return "process-env"
			case strings.Contains(s, "Job.Env"):
				return "job-env"
			}
			// a conversion of something that arrived as a parameter (ConvertToMapOfStrings(jobEnv))
			if call, ok := src.(*ssa.Call); ok && depth > 0 {
				for _, a := range call.Call.Args {
					if _, isPrm := an.Resolve(a).(*ssa.Parameter); isPrm {
						if l := labelOf(a, depth-1); l != "" {
							if label != "" && label != l {
								return "?mixed"
							}
							label = l
						}
					}
				}
			}
			if prm, ok := src.(*ssa.Parameter); ok && depth > 0 {
				idx := paramIndexOf(prm.Parent(), prm)
				for _, cs := range p.CallSitesOf(prm.Parent()) {
					if cs.Common().IsInvoke() {
						continue
					}
					if idx >= 0 && idx < len(cs.Common().Args) {
						if l := labelOf(cs.Common().Args[idx], depth-1); l != "" {
							if label != "" && label != l {
								return "?mixed"
							}
							label = l
						}
					}
				}
			}
		}
		return label
	}
	var layers []layer
	for fn := range reach {
		if fn.Blocks == nil {
			continue
		}
		an.EachInstr(fn, func(in ssa.Instruction) {
			mu, ok := in.(*ssa.MapUpdate)
			if !ok || mapOf(mu.Map) != mm {
				return
			}
			var inl *an.Loop
			for _, l := range an.Loops(fn) {
				if l.Blocks[mu.Block()] && (inl == nil || len(l.Blocks) < len(inl.Blocks)) {
					inl = l
				}
			}
			if inl == nil {
				layers = append(layers, layer{fn, nil, mu, "direct:" + an.Prov(mu.Key)})
				return
			}
			label := labelOf(inl.RangeOperand(), 3)
			if label == "" {
				label = "?" + an.Prov(inl.RangeOperand())
			}
			layers = append(layers, layer{fn, inl, mu, label})
		})
	}
	var proc, job *layer
	for i := range layers {
		l := &layers[i]
		switch l.label {
		case "process-env":
			if proc != nil && proc.loop != l.loop {
				c.Bad(rule1, an.Short(ex)+":env-map:layer", site.Pos(), "the process environment is written into the map in more than one place")
			}
			proc = l
		case "job-env":
			if job != nil && job.loop != l.loop {
				c.Bad(rule1, an.Short(ex)+":env-map:layer", site.Pos(), "the job's env is written into the map in more than one place")
			}
			job = l
		default:
			c.Bad(rule1, an.Short(ex)+":env-map:layer", site.Pos(), "the environment map has a layer of unknown provenance: %s", l.label)
		}
	}
	if proc == nil || job == nil {
		c.Bad(rule1, an.Short(ex)+":env-map", site.Pos(), "the environment map is not filled from the process environment and then the job's env (process=%v job=%v)", proc != nil, job != nil)
		return
	}
	// names nothing overrides pass through unchanged: what the process layer stores is a part of the
	// entry cut out by position (slicing / splitting at '='), never a transformed copy
	if okV, culprit := verbatimPart(p, proc.mu.Value, 4); okV {
		c.OK(rule1, an.Short(ex)+":env-map:process-values", proc.mu.Pos(), "the inherited value is the part of the entry after '=' as it is")
	} else {
		c.Bad(rule1, an.Short(ex)+":env-map:process-values", proc.mu.Pos(), "the value taken from the parent process environment goes through %s before it is stored: inherited variables do not reach commands unchanged", culprit)
	}
	// bring both layers into one function: descend from Execute while both lie under the same call
	anchorIn := func(f *ssa.Function, l *layer) (anchor, bool) {
		if l.fn == f {
			return anchor{entry: l.loop.Header, exit: l.loop.NormalExit()}, true
		}
		var out anchor
		n := 0
		an.EachInstr(f, func(in ssa.Instruction) {
			call, ok := in.(*ssa.Call)
			if !ok {
				return
			}
			for _, callee := range p.Callees(&call.Call) {
				if !an.InModule(callee) {
					continue
				}
				sub := p.Reach([]*ssa.Function{callee}, func(e an.CallEdge) bool { return e.Kind != an.EdgeGo && an.InModule(e.Callee) })
				if _, has := sub[l.fn]; has {
					idx := 0
					for i, x := range call.Block().Instrs {
						if x == ssa.Instruction(call) {
							idx = i
						}
					}
					out = anchor{entry: call.Block(), exit: call.Block(), idx: idx, call: call}
					n++
				}
			}
		})
		return out, n == 1
	}
	f := ex
	var pa, ja anchor
	for depth := 0; ; depth++ {
		var ok1, ok2 bool
		pa, ok1 = anchorIn(f, proc)
		ja, ok2 = anchorIn(f, job)
		if !ok1 || !ok2 || depth > 6 {
			c.Und(rule1, an.Short(ex)+":env-map:order", site.Pos(), "the places where the process environment and the job's env are written could not be brought into one function (under %s)", an.Short(f))
			return
		}
		if pa.call != nil && pa.call == ja.call {
			f = pa.call.Call.StaticCallee()
			if f == nil {
				c.Und(rule1, an.Short(ex)+":env-map:order", site.Pos(), "both layers are written under one dynamic call")
				return
			}
			continue
		}
		break
	}
	var after bool
	if pa.entry == ja.entry && pa.call != nil && ja.call != nil {
		after = pa.idx < ja.idx && !an.InLoop(pa.entry)
	} else {
		after = pa.exit != nil && an.CanReach(pa.exit, ja.entry) && !an.CanReach(ja.exit, pa.entry)
	}
	c.Check(after, rule1, an.Short(ex)+":env-map:order", site.Pos(), "job env is written over the process env", "the process environment is written after the job's env: the parent process would win")
	// the process layer is os.Environ(), assigned in the constructor
	found := false
	for _, fn := range p.Funcs {
		an.EachInstr(fn, func(in ssa.Instruction) {
			st, ok := in.(*ssa.Store)
			if !ok {
				return
			}
			fa, ok := st.Addr.(*ssa.FieldAddr)
			if !ok || an.TypeField(fa) != executorBaseField(p) {
				return
			}
			good := false
			why := an.Prov(st.Val)
			for _, src := range an.Sources(st.Val) {
				call, ok := src.(*ssa.Call)
				if !ok {
					continue
				}
				if an.ShortCallee(&call.Call) == "os.Environ" {
					good = true
					continue
				}
				// a helper of the module that re-shapes os.Environ() (into a map by name, say): every key and value
				// it stores is cut out of an entry of its argument by position only
				h := call.Call.StaticCallee()
				if h == nil || !an.InModule(h) || h.Blocks == nil || len(call.Call.Args) != 1 {
					continue
				}
				fromEnviron := false
				for _, a := range an.Sources(call.Call.Args[0]) {
					if ac, ok := a.(*ssa.Call); ok && an.ShortCallee(&ac.Call) == "os.Environ" {
						fromEnviron = true
					}
				}
				if !fromEnviron {
					continue
				}
				okH, nW := true, 0
				fromParam := func(v ssa.Value) bool {
					// the entry the part is cut from is an element of the helper's parameter
					seen := map[ssa.Value]bool{}
					var walk func(v ssa.Value, d int) bool
					walk = func(v ssa.Value, d int) bool {
						if v == nil || d > 8 || seen[v] {
							return false
						}
						seen[v] = true
						for _, s2 := range an.Sources(v) {
							switch x := s2.(type) {
							case *ssa.Parameter:
								if x == h.Params[0] {
									return true
								}
							case *ssa.Slice:
								if walk(x.X, d+1) {
									return true
								}
							case *ssa.UnOp:
								if ia, ok := x.X.(*ssa.IndexAddr); ok && walk(ia.X, d+1) {
									return true
								}
							case *ssa.Extract:
								if walk(x.Tuple, d+1) {
									return true
								}
							case *ssa.Next:
								if walk(x.Iter, d+1) {
									return true
								}
							case *ssa.Range:
								if walk(x.X, d+1) {
									return true
								}
							case *ssa.Index:
								if walk(x.X, d+1) {
									return true
								}
							case *ssa.Call:
								for _, a := range x.Call.Args {
									if walk(a, d+1) {
										return true
									}
								}
							}
						}
						return false
					}
					return walk(v, 0)
				}
				an.EachInstr(h, func(in ssa.Instruction) {
					mu, ok := in.(*ssa.MapUpdate)
					if !ok {
						return
					}
					nW++
					for _, part := range []ssa.Value{mu.Key, mu.Value} {
						if okV, culprit := verbatimPart(p, part, 4); !okV {
							okH, why = false, an.Short(h)+" passes the entry through "+culprit
						} else if !fromParam(part) {
							okH, why = false, an.Short(h)+" stores something that is not a part of an entry of its argument"
						}
					}
				})
				if okH && nW > 0 {
					good = true
				}
			}
			found = true
			c.Check(good, rule1, an.Short(fn)+":DefaultExecutor.env", st.Pos(), "the executor's base environment is os.Environ()", "the executor's base environment is not os.Environ(): "+why)
		})
	}
	if !found {
		c.Bad(rule1, "DefaultExecutor.env:writers", ex.Pos(), "the executor's base environment is never set")
	}
}

// dirTables checks C09.3.
func dirTables(c *an.Ctx, r *runnerRoles, cc *ssa.Function, rule string) {
	p := c.P
	ccr := resolveCmdCompiler(p)
	if !ccr.hasRole("dir") {
		c.Und(rule, an.Short(cc)+":dir", cc.Pos(), "CompileCommand has no dir parameter")
		return
	}
	isEmptyTest := func(v ssa.Value, of func(ssa.Value) bool) (neq bool, ok bool) {
		bo, isb := v.(*ssa.BinOp)
		if !isb || (bo.Op != token.NEQ && bo.Op != token.EQL) {
			return false, false
		}
		if s, isS := an.ConstString(bo.Y); !isS || s != "" {
			return false, false
		}
		if !of(bo.X) {
			return false, false
		}
		return bo.Op == token.NEQ, true
	}
	// the dir input and the context's Dir, as parameters or as fields of an options struct; st maps values
	// of inlined helpers back
	roleIs := func(v ssa.Value, role string, st *an.State) bool {
		if ccr.isRole(v, role) {
			return true
		}
		if st != nil {
			for _, y := range st.RootChain(v) {
				if ccr.isRole(y, role) {
					return true
				}
			}
		}
		return false
	}
	ctxDir := func(v ssa.Value, st *an.State) bool {
		cands := []ssa.Value{v}
		if st != nil {
			cands = st.RootChain(v)
		}
		for _, y := range cands {
			for _, r := range an.ResolveAll(y) {
				u, ok := r.(*ssa.UnOp)
				if !ok || u.Op != token.MUL {
					continue
				}
				fa, ok := u.X.(*ssa.FieldAddr)
				if !ok || an.TypeField(fa) != "ExecutionContext.Dir" {
					continue
				}
				if roleIs(fa.X, "ctx", st) {
					return true
				}
			}
		}
		return false
	}
	isDirParam := func(v ssa.Value) bool { return roleIs(v, "dir", nil) }
	isCtxDir := func(v ssa.Value) bool { return ctxDir(v, nil) }
	var table []string
	for _, row := range []struct {
		name        string
		dirSet, ctx bool
		want        string
	}{{"dir set", true, true, "dir"}, {"dir set, no context dir", true, false, "dir"}, {"dir empty, context dir set", false, true, "ctx"}, {"both empty", false, false, ""}} {
		row := row
		ex := &an.Explorer{P: p, NoReturn: noReturn, MaxDepth: 2,
			Inline: func(g *ssa.Function) bool {
				return an.Outer(g).Pkg == cc.Pkg && g != cc && an.Short(g) != "pkg/utils.RenderString"
			}}
		ex.AtomSt = func(v ssa.Value, st *an.State) (an.AVal, bool) {
			isDirP := func(x ssa.Value) bool { return roleIs(x, "dir", st) }
			isCtxD := func(x ssa.Value) bool { return ctxDir(x, st) }
			if neq, ok := isEmptyTest(v, isDirP); ok {
				return an.ABool(neq == row.dirSet), true
			}
			if neq, ok := isEmptyTest(v, isCtxD); ok {
				return an.ABool(neq == row.ctx), true
			}
			return an.AVal{}, false
		}
		classify := func(v ssa.Value, st *an.State) string {
			root := st.Root(v)
			switch {
			case isDirParam(v) || roleIs(v, "dir", st):
				return "dir"
			case isCtxDir(v) || ctxDir(v, st):
				return "ctx"
			}
			if k, ok := an.ConstString(root); ok && k == "" {
				return "empty"
			}
			return "other:" + an.Prov(root)
		}
		isJobDir := func(addr ssa.Value) bool {
			ap := an.AccessPath(addr)
			return ap.LastField() == "Dir" && an.TypeIs(ap.Base.Type(), "pkg/executor", "Job")
		}
		ex.Effect = func(in ssa.Instruction, st *an.State) string {
			switch x := in.(type) {
			case *ssa.Store:
				if !isJobDir(x.Addr) {
					return ""
				}
				for _, src := range an.Sources(x.Val) {
					if e, ok := src.(*ssa.Extract); ok {
						if call, ok := e.Tuple.(*ssa.Call); ok {
							if _, ok := an.IsCallTo(call, "pkg/utils.RenderString"); ok {
								return "stored-render"
							}
						}
					}
				}
				return "set:" + classify(x.Val, st)
			case *ssa.Call:
				if cc, ok := an.IsCallTo(x, "pkg/utils.RenderString"); ok {
					if u, ok := an.Resolve(cc.Args[0]).(*ssa.UnOp); ok && isJobDir(u.X) {
						return "render(field)"
					}
					return "render:" + classify(cc.Args[0], st)
				}
			}
			return ""
		}
		outs := ex.Run(cc, cc.Blocks[0], nil, nil)
		bad := ""
		var cells []string
		for _, o := range outs {
			cells = append(cells, strings.Join(o.Effects, ","))
			chosen, rendered := "empty", false
			for _, e := range o.Effects {
				switch {
				case strings.HasPrefix(e, "set:"):
					chosen, rendered = strings.TrimPrefix(e, "set:"), false
				case strings.HasPrefix(e, "render:"):
					chosen = strings.TrimPrefix(e, "render:")
				case e == "stored-render":
					rendered = true
				}
			}
			want := row.want
			if want == "" {
				want = "empty"
			}
			// a source that is empty in this row is the empty string
			if (chosen == "ctx" && !row.ctx) || (chosen == "dir" && !row.dirSet) {
				chosen = "empty"
			}
			if chosen != want {
				bad = fmt.Sprintf("job dir comes from %q, want %q", chosen, want)
			}
			if o.End == "return" && o.Ret[len(o.Ret)-1].K != an.ANonNil && !rendered {
				bad = "the job dir is not rendered as a template after it is chosen"
			}
		}
		table = append(table, fmt.Sprintf("%-30s -> %v", row.name, dedup(cells)))
		key := an.Short(cc) + ":dir row " + row.name
		if bad != "" {
			c.Bad(rule, key, cc.Pos(), "%s: %s", row.name, bad)
		} else {
			c.OK(rule, key, cc.Pos(), "%v", dedup(cells))
		}
	}
	c.Tables["dir("+an.Short(cc)+")"] = table
	// Execute: empty job dir → executor's start dir
	if ex := p.Func("pkg/executor", "DefaultExecutor", "Execute"); ex != nil {
		good := false
		an.EachInstr(ex, func(in ssa.Instruction) {
			sto, ok := in.(*ssa.Store)
			if !ok {
				return
			}
			ap := an.AccessPath(sto.Addr)
			if ap.LastField() != "Dir" || !an.TypeIs(ap.Base.Type(), "pkg/executor", "Job") {
				return
			}
			if an.FieldProv(sto.Val) != "DefaultExecutor.dir" {
				return
			}
			for _, g := range an.Guards(sto.Block()) {
				if bo, ok := g.Cond.(*ssa.BinOp); ok {
					if s1, ok := an.ConstString(bo.Y); ok && s1 == "" && an.AccessPath(bo.X).LastField() == "Dir" && (bo.Op == token.EQL) == g.Outcome {
						good = true
					}
				}
			}
		})
		c.Check(good, rule, an.Short(ex)+":dir-fallback", ex.Pos(), "an empty job dir falls back to the executor's start directory", "Execute does not fall back to its start directory for an empty job dir")
		// and the interpreter gets the job's dir
		okInterp := false
		an.EachInstr(ex, func(in ssa.Instruction) {
			if sto, ok := in.(*ssa.Store); ok {
				if fa, ok := sto.Addr.(*ssa.FieldAddr); ok && an.TypeField(fa) == "Runner.Dir" && an.FieldProv(sto.Val) == "Job.Dir" {
					okInterp = true
				}
			}
		})
		c.Check(okInterp, rule, an.Short(ex)+":interp.Dir", ex.Pos(), "the interpreter runs in the job's dir", "the interpreter's Dir is not set from the job's dir")
	}
	// buildContext: empty dir → MustGetwd
	var bc *ssa.Function
	var ctxCalls []ssa.CallInstruction
	for _, f := range p.Funcs {
		if f.Pkg != nil && strings.HasSuffix(f.Pkg.Pkg.Path(), "internal/config") {
			for _, ci := range an.CallsIn(f, "pkg/runner.NewExecutionContext") {
				ctxCalls = append(ctxCalls, ci)
				if bc == nil {
					bc = an.Outer(f)
				}
			}
		}
	}
	if bc != nil {
		good := true
		for _, ci := range ctxCalls {
			has := false
			for _, src := range p.DeepSources(ci.Common().Args[1], 3, false) {
				if call, ok := src.(*ssa.Call); ok && an.ShortCallee(&call.Call) == "pkg/utils.MustGetwd" {
					has = true
				}
			}
			if !has {
				good = false
			}
		}
		// … and the context definition's dir is what was decoded: nothing fills it in between decoding and
		// buildContext (a default written there — the configuration file's directory, say — pre-empts the
		// invocation-directory default)
		for _, fn := range p.Funcs {
			if !an.InModule(fn) {
				continue
			}
			an.EachInstr(fn, func(in ssa.Instruction) {
				st, ok := in.(*ssa.Store)
				if !ok {
					return
				}
				if fa, ok := st.Addr.(*ssa.FieldAddr); ok && an.TypeField(fa) == "contextDefinition.Dir" {
					good = false
					c.Bad(rule, an.Short(fn)+":write(contextDefinition.Dir)", st.Pos(), "%s writes the dir of a context definition (%s): a context without dir no longer defaults to the directory taskctl was started in", an.Short(fn), an.FieldProv(st.Val))
				}
				// … nor after it: the built context's dir is what its constructor was given (a store on a context the
				// function did not allocate replaces the default buildContext has just applied)
				if fa, ok := st.Addr.(*ssa.FieldAddr); ok && an.TypeField(fa) == "ExecutionContext.Dir" {
					if fresh, _ := an.FreshBase(fa.X); !fresh {
						good = false
						c.Bad(rule, an.Short(fn)+":write(ExecutionContext.Dir)", st.Pos(), "%s overwrites the dir of a context that was already built (%s): the directory decided by buildContext — the declared one, else the directory taskctl was started in — is replaced", an.Short(fn), an.FieldProv(st.Val))
					}
				}
			})
		}
		c.Check(good, rule, an.Short(bc)+":dir-default", bc.Pos(), "a context without dir defaults to the invocation directory", "buildContext does not default an empty dir to the invocation directory")
	}
}

// verbatimPart reports whether v is cut out of a string by position only:
// slices, the results of strings.Index*/Split*/Cut, elements of such results,
// constants, and module helpers all of whose results are such. culprit names
// the first call that can change bytes.
func verbatimPart(p *an.Prog, v ssa.Value, depth int) (bool, string) {
	if v == nil || depth == 0 {
		return true, ""
	}
	for _, src := range an.Sources(v) {
		switch x := src.(type) {
		case *ssa.Const, *ssa.Parameter, *ssa.FreeVar:
			continue
		case *ssa.Slice:
			if ok, cp := verbatimPart(p, x.X, depth); !ok {
				return false, cp
			}
		case *ssa.UnOp:
			// element of a split result, or the ranged entry itself
			if ia, ok := x.X.(*ssa.IndexAddr); ok {
				if ok2, cp := verbatimPart(p, ia.X, depth); !ok2 {
					return false, cp
				}
			}
		case *ssa.Extract:
			if ok, cp := verbatimPart(p, x.Tuple, depth); !ok {
				return false, cp
			}
		case *ssa.Next, *ssa.Range, *ssa.Lookup, *ssa.Index:
			continue
		case *ssa.Call:
			name := an.ShortCallee(&x.Call)
			switch name {
			case "strings.SplitN", "strings.Split", "strings.Cut", "strings.SplitAfterN", "strings.Index", "strings.IndexByte", "strings.IndexRune":
				continue
			}
			callee := x.Call.StaticCallee()
			if callee == nil || callee.Blocks == nil || !an.InModule(callee) {
				return false, name
			}
			for _, ret := range an.Returns(callee) {
				for i := range ret.Results {
					if b, isB := ret.Results[i].Type().Underlying().(*types.Basic); !isB || b.Kind() != types.String {
						continue
					}
					if ok, cp := verbatimPart(p, an.RetVal(ret, i), depth-1); !ok {
						return false, cp + " (in " + an.Short(callee) + ")"
					}
				}
			}
		default:
			return false, an.Prov(src)
		}
	}
	return true, ""
}

// processEnvEntry: the environment of the taskctl process enters a command's environment at the lowest level
// only — as the executor's base layer. Every reader of the process environment in the module (os.Environ,
// syscall.Environ, os.Getenv, os.LookupEnv, os.ExpandEnv) is followed forward; what it read must not reach a
// variables container (a function of pkg/variables, an Env field) — every such container is a higher level than
// the executor's base, so an inherited name would beat what the runner, the context or the task define there
// (ARGS, stored outputs, TASK_NAME …).
func processEnvEntry(c *an.Ctx, rule string) {
	p := c.P
	readers := map[string]bool{"os.Environ": true, "syscall.Environ": true, "os.Getenv": true, "os.LookupEnv": true, "os.ExpandEnv": true}
	nSites, nBase := 0, 0
	for _, fn := range p.Funcs {
		if !an.InModule(fn) || fn.Parent() != nil {
			continue
		}
		for _, f := range an.WithAnon(fn) {
			an.EachInstr(f, func(in ssa.Instruction) {
				call, ok := in.(*ssa.Call)
				if !ok || !readers[an.ShortCallee(&call.Call)] {
					return
				}
				nSites++
				var bad []string
				for _, u := range p.FlowsFrom(fn, []ssa.Value{call}, 3) {
					switch x := u.In.(type) {
					case *ssa.Store:
						fa, ok := x.Addr.(*ssa.FieldAddr)
						if !ok {
							continue
						}
						tf := an.TypeField(fa)
						if tf == executorBaseField(p) {
							nBase++
							continue
						}
						if strings.HasSuffix(tf, ".Env") || an.TypeIs(fa.Type().(*types.Pointer).Elem(), "pkg/variables", "Container") {
							bad = append(bad, fmt.Sprintf("is stored in %s (%s)", tf, p.Pos(x.Pos())))
						}
					case ssa.CallInstruction:
						for _, callee := range p.Callees(x.Common()) {
							if inPkgs("pkg/variables")(callee) {
								bad = append(bad, fmt.Sprintf("is handed to %s (%s)", an.Short(callee), p.Pos(x.Pos())))
							}
						}
					}
				}
				bad = dedup(bad)
				key := an.Short(f) + ":" + an.ShortCallee(&call.Call)
				if len(bad) > 0 {
					c.Bad(rule, key, call.Pos(), "what %s reads from the process environment %s: the inherited environment enters above the executor's base layer and beats the levels below that point (the runner's ARGS and stored outputs, …)", an.ShortCallee(&call.Call), strings.Join(bad, "; "))
				} else {
					c.OK(rule, key, call.Pos(), "the process environment read here reaches no variables container")
				}
			})
		}
	}
	if nSites == 0 || nBase == 0 {
		c.Und(rule, "process-environment readers", token.NoPos, "no reader of the process environment feeds the executor's base layer (%d readers found)", nSites)
	}
}

// isExecutorType: (a pointer to) a named type of pkg/executor with an Execute method.
func isExecutorType(t types.Type) bool {
	if pt, ok := t.(*types.Pointer); ok {
		t = pt.Elem()
	}
	n, ok := t.(*types.Named)
	if !ok || n.Obj().Pkg() == nil || !strings.HasSuffix(n.Obj().Pkg().Path(), "pkg/executor") {
		return false
	}
	ms := types.NewMethodSet(types.NewPointer(n))
	for i := 0; i < ms.Len(); i++ {
		if ms.At(i).Obj().Name() == "Execute" {
			return true
		}
	}
	return false
}

// isExecutorCtor: a function of pkg/executor that hands out an executor together with an error (the constructor
// and thin wrappers of it).
func isExecutorCtor(fn *ssa.Function) bool {
	return fn != nil && inPkgs("pkg/executor")(fn) && fn.Signature.Results().Len() == 2 && isExecutorType(fn.Signature.Results().At(0).Type())
}

// executorScope checks C09.6.
func executorScope(c *an.Ctx, rule string) {
	p := c.P
	// constructors: module functions outside tests whose first result is (a pointer to) a type of pkg/executor with an Execute method
	var ctors []*ssa.Function
	for _, fn := range p.Funcs {
		if !an.InModule(fn) || fn.Parent() != nil || fn.Signature.Recv() != nil || fn.Signature.Results().Len() == 0 {
			continue
		}
		if isExecutorType(fn.Signature.Results().At(0).Type()) && inPkgs("pkg/executor")(fn) {
			ctors = append(ctors, fn)
		}
	}
	if len(ctors) == 0 {
		c.Und(rule, "executor constructors", token.NoPos, "no constructor of an executor found in pkg/executor")
		return
	}
	nSites := 0
	for _, ctor := range ctors {
		// the constructor hands out a fresh object
		for _, ret := range an.Returns(ctor) {
			rv := an.RetVal(ret, 0)
			if an.IsNilConst(rv) {
				continue
			}
			fresh := true
			for _, src := range an.ResolveAll(rv) {
				if _, ok := src.(*ssa.Alloc); !ok && !an.IsNilConst(src) {
					fresh = false
				}
			}
			c.Check(fresh, rule, an.Short(ctor)+":fresh", ret.Pos(), "returns an executor it allocated", "does not return a freshly allocated executor ("+an.Prov(rv)+"): callers share one interpreter")
		}
		for _, site := range p.CallSitesOf(ctor) {
			fn := site.Parent()
			if !an.InModule(fn) {
				continue
			}
			sv, ok := site.(ssa.Value)
			if !ok {
				continue
			}
			nSites++
			var kept []string
			seen := map[ssa.Value]bool{}
			var follow func(v ssa.Value, depth int)
			follow = func(v ssa.Value, depth int) {
				if seen[v] || v.Referrers() == nil {
					return
				}
				seen[v] = true
				for _, ref := range *v.Referrers() {
					switch x := ref.(type) {
					case *ssa.Extract:
						if x.Index == 0 || x.Tuple != v {
							follow(x, depth)
						}
					case *ssa.Phi, *ssa.MakeInterface, *ssa.ChangeInterface, *ssa.ChangeType, *ssa.TypeAssert:
						follow(x.(ssa.Value), depth)
					case *ssa.Store:
						if x.Val != v {
							continue
						}
						switch a := x.Addr.(type) {
						case *ssa.Global:
							kept = append(kept, "package variable "+a.Name()+" ("+p.Pos(x.Pos())+")")
						case *ssa.FieldAddr:
							if localObject(p, a.X) == nil {
								kept = append(kept, "field "+an.TypeField(a)+" ("+p.Pos(x.Pos())+")")
							}
						case *ssa.Alloc:
							// a local variable: follow its loads
							if a.Referrers() != nil {
								for _, r2 := range *a.Referrers() {
									if u, ok := r2.(*ssa.UnOp); ok && u.Op == token.MUL {
										follow(u, depth)
									}
									if mc, ok := r2.(*ssa.MakeClosure); ok {
										_ = mc // captured by a closure of the same call
									}
								}
							}
						case *ssa.IndexAddr:
							kept = append(kept, "an element of "+an.Prov(a.X)+" ("+p.Pos(x.Pos())+")")
						default:
							kept = append(kept, an.Prov(x.Addr)+" ("+p.Pos(x.Pos())+")")
						}
					case *ssa.MapUpdate:
						if x.Value == v {
							kept = append(kept, "map "+an.Prov(x.Map)+" ("+p.Pos(x.Pos())+")")
						}
					case *ssa.Send:
						if x.X == v {
							kept = append(kept, "channel "+an.Prov(x.Chan)+" ("+p.Pos(x.Pos())+")")
						}
					case *ssa.Return:
						// handed back to the caller: follow at the callers (wrappers of the constructor)
						if depth < 2 {
							for _, s2 := range p.CallSitesOf(x.Parent()) {
								if v2, ok := s2.(ssa.Value); ok && an.InModule(s2.Parent()) {
									follow(v2, depth+1)
								}
							}
						}
					case ssa.CallInstruction:
						cc := x.Common()
						for i, a := range cc.Args {
							if a != v {
								continue
							}
							for _, callee := range p.Callees(cc) {
								if !an.InModule(callee) || callee.Blocks == nil || depth >= 2 {
									continue
								}
								pi := i
								if cc.IsInvoke() {
									pi = i + 1
								}
								if pi < len(callee.Params) && !(callee.Signature.Recv() != nil && pi == 0 && inPkgs("pkg/executor")(callee)) {
									follow(callee.Params[pi], depth+1)
								}
							}
						}
					}
				}
			}
			follow(sv, 0)
			kept = dedup(kept)
			c.Check(len(kept) == 0, rule, an.Short(fn)+":"+an.Short(ctor), site.Pos(), "the executor stays within the call that constructed it", "the executor constructed here is kept in "+strings.Join(kept, ", ")+": it outlives the call and serves other tasks or phases, and the interpreter inside carries its shell state ($PWD, assigned variables) from one job to the next — a later command runs with an earlier task's directory and variables instead of its own")
		}
	}
	if nSites == 0 {
		c.Und(rule, "executor constructors:call sites", token.NoPos, "no executor is constructed in the module")
	}
}

// stableCombinators: the functions that decide precedence between layers (everything reachable from
// Variables.Merge / With / FromMap inside pkg/variables) do not order their entries with an unstable sort —
// sort.Slice and sort.Sort make no promise about the relative order of elements that compare equal, and "the
// entry added last wins" among equal names is exactly such an order (library summary: package sort).
func stableCombinators(c *an.Ctx, rule string) {
	p := c.P
	var roots []*ssa.Function
	for _, name := range []string{"Merge", "With", "Set", "Map"} {
		if f := p.Func("pkg/variables", "Variables", name); f != nil {
			roots = append(roots, f)
		}
	}
	if f := p.Func("pkg/variables", "", "FromMap"); f != nil {
		roots = append(roots, f)
	}
	if len(roots) == 0 {
		c.Und(rule, "variables:combinators", token.NoPos, "Merge / With / FromMap not found")
		return
	}
	reach := p.Reach(roots, func(e an.CallEdge) bool { return an.InModule(e.Callee) && inPkgs("pkg/variables")(e.Callee) })
	bad := false
	for f := range reach {
		an.EachInstr(f, func(in ssa.Instruction) {
			call, ok := in.(*ssa.Call)
			if !ok {
				return
			}
			switch an.ShortCallee(&call.Call) {
			case "sort.Slice", "sort.Sort":
				bad = true
				c.Bad(rule, an.Short(f)+":"+an.ShortCallee(&call.Call), call.Pos(), "%s orders the entries of a variables container with %s, which is not stable: which of two entries with the same name comes last — the one that is kept — is not determined, so a lower level can win over a higher one", an.Short(f), an.ShortCallee(&call.Call))
			}
		})
	}
	if !bad {
		c.OK(rule, "variables:stable-order", roots[0].Pos(), "no unstable sort in the %d functions that combine variable layers", len(reach))
	}
}

var executorBaseFieldCache = map[*an.Prog]string{}

// executorBaseField names the field of the executor that holds the environment of the taskctl process: the field
// of an executor type (pkg/executor, has Execute) into which what os.Environ() returned is stored — as it is, or
// re-shaped by a helper that is handed os.Environ(). "DefaultExecutor.env" when none is found.
func executorBaseField(p *an.Prog) string {
	if f, ok := executorBaseFieldCache[p]; ok {
		return f
	}
	found := "DefaultExecutor.env"
	for _, fn := range p.Funcs {
		if !inPkgs("pkg/executor")(fn) {
			continue
		}
		an.EachInstr(fn, func(in ssa.Instruction) {
			st, ok := in.(*ssa.Store)
			if !ok {
				return
			}
			fa, ok := st.Addr.(*ssa.FieldAddr)
			if !ok || !isExecutorType(fa.X.Type()) {
				return
			}
			for _, src := range an.Sources(st.Val) {
				call, ok := src.(*ssa.Call)
				if !ok {
					continue
				}
				if an.ShortCallee(&call.Call) == "os.Environ" {
					found = an.TypeField(fa)
				}
				for _, a := range call.Call.Args {
					for _, as := range an.Sources(a) {
						if ac, ok := as.(*ssa.Call); ok && an.ShortCallee(&ac.Call) == "os.Environ" {
							found = an.TypeField(fa)
						}
					}
				}
			}
		})
	}
	executorBaseFieldCache[p] = found
	return found
}

// wholeValues: on the way into a command's environment an entry NAME=value is taken apart at its first '=' only.
// An unbounded strings.Split(entry, "=") whose second piece is used as the value cuts every value that itself
// contains '=' (an argument like --opt=1 in $ARGS, a URL with a query, a base64 string).
func wholeValues(c *an.Ctx, rule string) {
	p := c.P
	var roots []*ssa.Function
	for _, fn := range p.Funcs {
		if inPkgs("pkg/executor")(fn) && fn.Parent() == nil && (fn.Name() == "Execute" || isExecutorCtor(fn)) {
			roots = append(roots, fn)
		}
	}
	if f := p.Func("pkg/utils", "", "ReadEnvFile"); f != nil {
		roots = append(roots, f)
	}
	if len(roots) == 0 {
		c.Und(rule, "executor:environment path", token.NoPos, "Execute not found")
		return
	}
	reach := p.Reach(roots, func(e an.CallEdge) bool { return an.InModule(e.Callee) })
	bad := false
	n := 0
	for f := range reach {
		an.EachInstr(f, func(in ssa.Instruction) {
			call, ok := in.(*ssa.Call)
			if !ok || an.ShortCallee(&call.Call) != "strings.Split" {
				return
			}
			sep, isS := an.ConstString(call.Call.Args[1])
			if !isS || sep != "=" {
				return
			}
			n++
			if call.Referrers() == nil {
				return
			}
			for _, ref := range *call.Referrers() {
				ia, ok := ref.(*ssa.IndexAddr)
				if !ok {
					continue
				}
				if k, isC := an.ConstInt(ia.Index); isC && k >= 1 {
					bad = true
					c.Bad(rule, an.Short(f)+":Split(=)", call.Pos(), "%s takes piece %d of strings.Split(entry, \"=\") as (part of) a value on the way into a command's environment: a value that contains '=' — an argument after `--`, a stored output, an inherited variable — is cut at its first '='", an.Short(f), k)
				}
			}
		})
	}
	if !bad {
		c.OK(rule, "environment path:whole values", roots[0].Pos(), "no NAME=value entry is split at every '=' on the way into a command's environment (%d functions, %d splits at '=')", len(reach), n)
	}
}

// An "environment converter" is a function of the module from map[string]string to []string that ranges over its
// map (utils.ConvertEnv today); a function that only forwards to one (its result is the result of one call of a
// converter on its own parameter) is one too. Where the converter lives does not matter.
func isEnvConverter(p *an.Prog, fn *ssa.Function, depth int) bool {
	if fn == nil || fn.Blocks == nil || !an.InModule(fn) || depth > 2 {
		return false
	}
	sig := fn.Signature
	if sig.Recv() != nil || sig.Params().Len() != 1 || sig.Results().Len() != 1 {
		return false
	}
	if sig.Params().At(0).Type().String() != "map[string]string" || sig.Results().At(0).Type().String() != "[]string" {
		return false
	}
	for _, l := range an.Loops(fn) {
		if op := l.RangeOperand(); op != nil && an.SameValue(op, fn.Params[0]) {
			return true
		}
	}
	// a forwarder
	for _, ret := range an.Returns(fn) {
		call, ok := an.Resolve(an.RetVal(ret, 0)).(*ssa.Call)
		if !ok || len(call.Call.Args) != 1 || !an.SameValue(call.Call.Args[0], fn.Params[0]) || !isEnvConverter(p, call.Call.StaticCallee(), depth+1) {
			return false
		}
	}
	return len(an.Returns(fn)) > 0
}

func isEnvConverterCall(p *an.Prog, call *ssa.Call) bool {
	return isEnvConverter(p, call.Call.StaticCallee(), 0)
}

// envConverterOf: the converter (behind forwarders) whose result reaches v in fn.
func envConverterOf(p *an.Prog, fn *ssa.Function, v ssa.Value) *ssa.Function {
	var found *ssa.Function
	var walk func(v ssa.Value, depth int)
	walk = func(v ssa.Value, depth int) {
		if depth > 3 {
			return
		}
		for _, src := range p.DeepSources(v, 3, true) {
			call, ok := src.(*ssa.Call)
			if !ok {
				continue
			}
			callee := call.Call.StaticCallee()
			if isEnvConverter(p, callee, 0) {
				for hop := 0; hop < 3; hop++ {
					ranges := false
					for _, l := range an.Loops(callee) {
						if op := l.RangeOperand(); op != nil && an.SameValue(op, callee.Params[0]) {
							ranges = true
						}
					}
					if ranges {
						break
					}
					next := (*ssa.Function)(nil)
					for _, ret := range an.Returns(callee) {
						if c2, ok := an.Resolve(an.RetVal(ret, 0)).(*ssa.Call); ok {
							next = c2.Call.StaticCallee()
						}
					}
					if next == nil {
						break
					}
					callee = next
				}
				found = callee
				continue
			}
			if callee != nil && an.InModule(callee) && callee.Blocks != nil {
				for _, ret := range an.Returns(callee) {
					walk(an.RetVal(ret, 0), depth+1)
				}
			}
		}
	}
	walk(v, 0)
	return found
}

// noEnvRemoval: between filling the environment map of a command and converting it to the list the interpreter
// gets, nothing is taken out of it again. Every variable of the layered environment — the captured output of an
// earlier task among them, however long — reaches the command.
func noEnvRemoval(c *an.Ctx, rule string) {
	p := c.P
	ex := p.Func("pkg/executor", "DefaultExecutor", "Execute")
	if ex == nil {
		return
	}
	n := 0
	for fn := range p.Reach([]*ssa.Function{ex}, func(e an.CallEdge) bool { return e.Kind != an.EdgeGo && an.InModule(e.Callee) }) {
		if fn.Blocks == nil {
			continue
		}
		// the maps of this function that are handed to an environment converter
		converted := map[ssa.Value]bool{}
		an.EachInstr(fn, func(in ssa.Instruction) {
			if call, ok := in.(*ssa.Call); ok && isEnvConverterCall(p, call) {
				for _, src := range an.Sources(call.Call.Args[0]) {
					converted[src] = true
				}
			}
		})
		if len(converted) == 0 {
			continue
		}
		an.EachInstr(fn, func(in ssa.Instruction) {
			call, ok := in.(*ssa.Call)
			if !ok {
				return
			}
			b, ok := call.Call.Value.(*ssa.Builtin)
			if !ok || b.Name() != "delete" {
				return
			}
			for _, src := range an.Sources(call.Call.Args[0]) {
				if converted[src] {
					n++
					c.Bad(rule, an.Short(fn)+":delete(env)", call.Pos(), "%s removes entries from the environment map it has just filled, before the interpreter gets it: a variable of the layered environment (a long captured output, a value that fails some check) silently does not reach the command", an.Short(fn))
				}
			}
		})
	}
	if n == 0 {
		c.OK(rule, "executor:env-complete", token.NoPos, "nothing is deleted from a command's environment map before it is converted for the interpreter")
	}
}
