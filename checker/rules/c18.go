package rules

import (
	"fmt"
	"go/token"
	"go/types"
	"strings"

	"golang.org/x/tools/go/ssa"

	"taskverif/an"
)

func init() { register("C18", checkC18) }

func checkC18(c *an.Ctx) {
	c.Rule("C18.1", "stage → task / pipeline (E2): in the stage builder a stage naming a task that is not in Config.Tasks, or a pipeline that is not in Config.Pipelines, returns a non-nil error before the stage is added")
	c.Rule("C18.2", "duplicate stage name (E2): the stage's final name is looked up in the graph under construction before AddStage; found → non-nil error")
	c.Rule("C18.3", "watcher → task (E3): a lookup of the watcher's task in Config.Tasks dominates NewWatcher; absent → non-nil error")
	c.Rule("C18.4", "depends_on → stage (E3/E5): after the last stage of a pipeline was added, every element of every stage's DependsOn itself (not a transformed copy) is looked up in the node set of the same graph; absent → non-nil error that fails the load")
	c.Rule("C18.5", "inclusion cycles (E3/E7): on every success path of buildFromDefinition a recursive walk over Stage.Pipeline links runs for every pipeline, with a mark set allocated per starting pipeline that describes the current path (un-marked on every cycle-free exit), reports a revisit as a non-nil error, and that error fails the load")
	c.Rule("C18.6", "consumers are guarded (E3/E5): the recursive consumers of Stage.Pipeline (scheduler, graph drawing) take their graphs from Config.Pipelines, which passed C18.4/C18.5")
	c.NotDecided = append(c.NotDecided, "completeness of a validator beyond its decision row (e.g. one that inspects only part of what it ranges over is caught only if the range/lookup provenance changes)", "graphs built directly through the scheduler API, bypassing internal/config")
	p := c.P
	bp := p.Func("internal/config", "", "buildPipeline")
	bfd := p.Func("internal/config", "", "buildFromDefinition")
	add := p.Func("pkg/scheduler", "ExecutionGraph", "AddStage")
	if bp == nil || bfd == nil || add == nil {
		c.Und("C18.0", "config.buildPipeline", token.NoPos, "buildPipeline / buildFromDefinition / AddStage not found")
		return
	}
	var stageLoop *an.Loop
	for _, l := range an.Loops(bp) {
		op := l.RangeOperand()
		for _, prm := range bp.Params {
			if op != nil && an.SameValue(op, prm) {
				stageLoop = l
			}
		}
	}
	if stageLoop == nil {
		c.Und("C18.0", an.Short(bp)+":stage-loop", bp.Pos(), "buildPipeline does not range over its stage definitions")
		return
	}
	var addCall *ssa.Call
	for b := range stageLoop.Blocks {
		for _, in := range b.Instrs {
			if call, ok := in.(*ssa.Call); ok {
				for _, callee := range p.Callees(&call.Call) {
					if callee == add {
						addCall = call
					}
				}
			}
		}
	}
	if addCall == nil {
		c.Und("C18.0", an.Short(bp)+":AddStage", bp.Pos(), "the stage loop never adds a stage")
		return
	}
	_, defs := stageLoop.RangeKeyValue()
	isDefField := func(v ssa.Value, field string) bool {
		ap := an.AccessPath(v)
		if ap.LastField() != field || len(ap.Fields) != 1 {
			return false
		}
		for _, d := range defs {
			if an.SameValue(ap.Base, d) {
				return true
			}
		}
		return false
	}
	// lookups
	type lk struct {
		v     ssa.Value // the looked-up pointer
		table string    // Config.Tasks / Config.Pipelines
		key   string    // Task / Pipeline
	}
	var lookups []lk
	for b := range stageLoop.Blocks {
		for _, in := range b.Instrs {
			l, ok := in.(*ssa.Lookup)
			if !ok {
				continue
			}
			tbl := an.FieldProv(l.X)
			switch {
			case tbl == "Config.Tasks" && isDefField(l.Index, "Task"):
				lookups = append(lookups, lk{l, tbl, "Task"})
			case tbl == "Config.Pipelines" && isDefField(l.Index, "Pipeline"):
				lookups = append(lookups, lk{l, tbl, "Pipeline"})
			}
		}
	}
	// C18.1 rows
	for _, row := range []struct {
		name               string
		taskSet            bool
		taskNil, pipeNil   bool
		wantErr            bool
	}{
		{"task named, present", true, false, false, false},
		{"task named, absent", true, true, false, true},
		{"no task, pipeline present", false, false, false, false},
		{"no task, pipeline absent", false, false, true, true},
	} {
		row := row
		ex := &an.Explorer{P: p, NoReturn: noReturn}
		stageLoop.Bound(ex)
		ex.Atom = func(v ssa.Value) (an.AVal, bool) {
			if bo, ok := v.(*ssa.BinOp); ok && (bo.Op == token.NEQ || bo.Op == token.EQL) {
				if s, isS := an.ConstString(bo.Y); isS && s == "" && isDefField(bo.X, "Task") {
					return an.ABool((bo.Op == token.NEQ) == row.taskSet), true
				}
			}
			for _, l := range lookups {
				if v == l.v || (func() bool {
					if e, ok := v.(*ssa.Extract); ok && e.Tuple == l.v && e.Index == 0 {
						return true
					}
					return false
				})() {
					isNil := row.taskNil
					if l.key == "Pipeline" {
						isNil = row.pipeNil
					}
					if isNil {
						return an.AVal{K: an.ANil}, true
					}
					return an.AVal{K: an.ANonNil}, true
				}
				if e, ok := v.(*ssa.Extract); ok && e.Tuple == l.v && e.Index == 1 {
					isNil := row.taskNil
					if l.key == "Pipeline" {
						isNil = row.pipeNil
					}
					return an.ABool(!isNil), true
				}
			}
			return an.AVal{}, false
		}
		ex.Effect = func(in ssa.Instruction, st *an.State) string {
			if in == ssa.Instruction(addCall) {
				return "AddStage"
			}
			return ""
		}
		outs := ex.Run(bp, stageLoop.BodyEntry(), stageLoop.Header, nil)
		bad := ""
		for _, o := range outs {
			added := false
			for _, e := range o.Effects {
				if e == "AddStage" {
					added = true
				}
			}
			if row.wantErr {
				if added {
					bad = "the stage is added although its reference is dangling"
				}
				if !(o.End == "return" && o.Ret[len(o.Ret)-1].K == an.ANonNil) && !added {
					bad = "a dangling reference does not end the build with an error (" + o.End + ")"
				}
			}
		}
		if len(outs) == 0 {
			bad = "no path"
		}
		key := an.Short(bp) + ":row " + row.name
		if bad != "" {
			c.Bad("C18.1", key, bp.Pos(), "%s: %s", row.name, bad)
		} else {
			c.OK("C18.1", key, bp.Pos(), "%d paths", len(outs))
		}
	}
	if len(lookups) < 2 {
		c.Bad("C18.1", an.Short(bp)+":lookups", bp.Pos(), "the stage builder does not look up both the stage's task in Config.Tasks and its pipeline in Config.Pipelines (%d lookups found)", len(lookups))
	}

	// C18.2
	var nodeCall *ssa.Call
	for b := range stageLoop.Blocks {
		for _, in := range b.Instrs {
			if call, ok := in.(*ssa.Call); ok {
				if _, ok := an.IsCallTo(call, fnGraphNode); ok && an.Dominates(call, addCall) {
					nodeCall = call
				}
			}
		}
	}
	if nodeCall == nil {
		c.Bad("C18.2", an.Short(bp)+":duplicate-check", addCall.Pos(), "no lookup of the stage's name in the graph precedes AddStage: a second stage with the same name silently replaces the first")
	} else {
		// same graph, final name (the name the stage is added under)
		sameGraph := an.SameValue(nodeCall.Call.Args[0], addCall.Call.Args[0])
		nameAP := an.AccessPath(nodeCall.Call.Args[1])
		stageArg := addCall.Call.Args[1]
		finalName := nameAP.LastField() == "Name" && an.SameValue(nameAP.Base, stageArg)
		c.Check(sameGraph && finalName, "C18.2", an.Short(bp)+":duplicate-check(args)", nodeCall.Pos(), "the lookup uses the stage's final name in the graph being built", "the duplicate check does not look up the stage's own Name in the graph the stage is added to")
		for _, found := range []bool{true, false} {
			found := found
			ex := &an.Explorer{P: p, NoReturn: noReturn}
			stageLoop.Bound(ex)
			ex.Atom = func(v ssa.Value) (an.AVal, bool) {
				for _, e := range errOf(nodeCall) {
					if v == e {
						if found {
							return an.AVal{K: an.ANil}, true
						}
						return an.AVal{K: an.ANonNil}, true
					}
				}
				return an.AVal{}, false
			}
			ex.Effect = func(in ssa.Instruction, st *an.State) string {
				if in == ssa.Instruction(addCall) {
					return "AddStage"
				}
				return ""
			}
			outs := ex.RunFrom(bp, nodeCall, nil)
			bad := ""
			for _, o := range outs {
				added := false
				for _, e := range o.Effects {
					if e == "AddStage" {
						added = true
					}
				}
				if found && (added || !(o.End == "return" && o.Ret[len(o.Ret)-1].K == an.ANonNil)) {
					bad = "a stage whose name is already taken is not rejected"
				}
				if !found && !added {
					bad = "a stage with a fresh name is not added"
				}
			}
			key := fmt.Sprintf("%s:row name %s", an.Short(bp), map[bool]string{true: "taken", false: "free"}[found])
			if bad != "" {
				c.Bad("C18.2", key, nodeCall.Pos(), "%s", bad)
			} else {
				c.OK("C18.2", key, nodeCall.Pos(), "%d paths", len(outs))
			}
		}
	}

	// C18.3
	nw := p.Func("internal/watch", "", "NewWatcher")
	if nw != nil {
		for _, site := range p.CallSitesOf(nw) {
			fn := site.Parent()
			if !inPkgs("internal/config")(fn) {
				continue
			}
			// the task argument comes from a lookup in Config.Tasks whose absence returns an error
			taskArg := site.Common().Args[len(site.Common().Args)-1]
			good := false
			for _, src := range an.Sources(taskArg) {
				e, ok := src.(*ssa.Extract)
				var l *ssa.Lookup
				if ok {
					l, _ = e.Tuple.(*ssa.Lookup)
				} else {
					l, _ = src.(*ssa.Lookup)
				}
				if l == nil || an.FieldProv(l.X) != "Config.Tasks" {
					continue
				}
				// a guard on presence dominates the call
				for _, g := range an.Guards(site.Block()) {
					if ge, ok := g.Cond.(*ssa.Extract); ok && ge.Tuple == ssa.Value(l) && ge.Index == 1 && g.Outcome {
						good = true
					}
					if x, eq, isNil := an.NilTest(g.Cond); isNil && (eq != g.Outcome) {
						for _, s2 := range an.Sources(x) {
							if s2 == src {
								good = true
							}
						}
					}
				}
			}
			c.Check(good, "C18.3", an.Short(fn)+":watcher-task", site.Pos(), "the watcher is built only when its task exists", "NewWatcher is reached without a dominating presence test of the watcher's task in Config.Tasks")
		}
	}

	dependsOnValidator(c, bp, stageLoop, "C18.4")
	inclusionCycles(c, bfd, "C18.5")

	// C18.6
	sched := p.Func("pkg/scheduler", "Scheduler", "Schedule")
	draw := p.Func("cmd/taskctl", "", "draw")
	for _, f := range []*ssa.Function{sched, draw} {
		if f == nil {
			continue
		}
		for _, site := range p.CallSitesOf(f) {
			if !inPkgs("cmd/taskctl")(site.Parent()) || site.Parent() == f {
				continue
			}
			var garg ssa.Value
			for _, a := range site.Common().Args {
				if an.TypeIs(a.Type(), "pkg/scheduler", "ExecutionGraph") {
					garg = a
				}
			}
			if garg == nil {
				continue
			}
			prov := an.FieldProv(garg)
			if _, isParam := an.Resolve(garg).(*ssa.Parameter); isParam {
				// follow one level of callers
				okAll := true
				par := an.Resolve(garg).(*ssa.Parameter)
				idx := -1
				for i, q := range site.Parent().Params {
					if q == par {
						idx = i
					}
				}
				for _, s2 := range p.CallSitesOf(site.Parent()) {
					pv := an.FieldProv(s2.Common().Args[idx])
					if !strings.HasPrefix(pv, "Config.Pipelines[") {
						okAll = false
						prov = pv
					}
				}
				if okAll {
					prov = "Config.Pipelines[…]"
				}
			}
			c.Check(strings.HasPrefix(prov, "Config.Pipelines["), "C18.6", an.Short(site.Parent())+":graph("+an.Short(f)+")", site.Pos(), "the graph comes from the loaded configuration's pipelines", "the graph handed to "+an.Short(f)+" does not come from Config.Pipelines: "+prov)
		}
	}
	if gate := p.Func("pkg/scheduler", "", "checkStatus"); gate != nil {
		for _, ci := range an.CallsIn(gate, "github.com/sirupsen/logrus.Fatal") {
			c.Note("C18.6", an.Short(gate)+":Fatal", ci.Pos(), "the scheduler aborts on an unknown dependency; unreachable for configurations that passed C18.4 (guarded-dead)")
		}
	}
}

func dependsOnValidator(c *an.Ctx, bp *ssa.Function, stageLoop *an.Loop, rule string) {
	p := c.P
	// a loop (in buildPipeline or a function it calls after the stage loop) ranging over <stage>.DependsOn
	type cand struct {
		fn   *ssa.Function
		loop *an.Loop
	}
	var cands []cand
	reach := p.Reach([]*ssa.Function{bp}, func(e an.CallEdge) bool { return an.InModule(e.Callee) && inPkgs("internal/config")(e.Callee) })
	for fn := range reach {
		for _, l := range an.Loops(fn) {
			op := l.RangeOperand()
			if op == nil {
				continue
			}
			ap := an.AccessPath(op)
			if ap.LastField() == "DependsOn" && an.TypeIs(ap.Base.Type(), "pkg/scheduler", "Stage") {
				cands = append(cands, cand{fn, l})
			}
		}
	}
	if len(cands) == 0 {
		c.Bad(rule, an.Short(bp)+":depends_on-validator", bp.Pos(), "nothing on the load path compares the names in depends_on with the stages of the pipeline: a dangling dependency is accepted and the run aborts the process from inside the scheduler")
		return
	}
	for _, cd := range cands {
		key := an.Short(cd.fn) + ":depends_on-validator"
		_, elems := cd.loop.RangeKeyValue()
		// lookup of the element itself in the node set
		var look ssa.Instruction
		var lookErr []ssa.Value
		var lookGraph ssa.Value
		for b := range cd.loop.Blocks {
			for _, in := range b.Instrs {
				if call, ok := in.(*ssa.Call); ok {
					if cc, ok := an.IsCallTo(call, fnGraphNode); ok {
						for _, e := range elems {
							if an.SameValue(cc.Args[1], e) {
								look, lookErr, lookGraph = call, errOf(call), cc.Args[0]
							}
						}
						if look == nil {
							c.Bad(rule, key+":key", call.Pos(), "the validator looks up %s instead of the depends_on entry itself: the graph records the raw entry, so the two can disagree", an.Prov(cc.Args[1]))
						}
					}
				}
			}
		}
		if look == nil {
			c.Bad(rule, key+":lookup", cd.fn.Pos(), "the loop over DependsOn does not look each entry up in the graph's node set")
			continue
		}
		// absent → non-nil error
		ex := &an.Explorer{P: p, NoReturn: noReturn}
		cd.loop.Bound(ex)
		ex.Atom = func(v ssa.Value) (an.AVal, bool) {
			for _, e := range lookErr {
				if v == e {
					return an.AVal{K: an.ANonNil}, true
				}
			}
			return an.AVal{}, false
		}
		outs := ex.RunFrom(cd.fn, look, nil)
		bad := ""
		for _, o := range outs {
			if !(o.End == "return" && o.Ret[len(o.Ret)-1].K == an.ANonNil) {
				bad = "an unknown dependency does not end the build with an error"
			}
		}
		if len(outs) == 0 {
			bad = "no path"
		}
		if bad != "" {
			c.Bad(rule, key+":row absent", look.Pos(), "%s", bad)
		} else {
			c.OK(rule, key+":row absent", look.Pos(), "an unknown dependency is a non-nil error (%d paths)", len(outs))
		}
		// the stages ranged over are all nodes of the same graph, after the last AddStage
		if cd.fn == bp {
			after := stageLoop.NormalExit() != nil && stageLoop.NormalExit().Dominates(cd.loop.Header) && !stageLoop.Blocks[cd.loop.Header]
			c.Check(after, rule, key+":after-last-stage", cd.loop.Header.Instrs[0].Pos(), "the validator runs after every stage of the pipeline was added (a dependency may be declared later)", "the validator runs before all stages are known: a dependency declared after its dependant is rejected, or a dangling one is missed")
			// outer loop over all nodes
			var outer *an.Loop
			for _, l := range an.Loops(bp) {
				if l.Header != cd.loop.Header && l.Blocks[cd.loop.Header] && l.Header != stageLoop.Header {
					outer = l
				}
			}
			allNodes := false
			if outer != nil {
				for _, src := range an.Sources(outer.RangeOperand()) {
					if call, ok := src.(*ssa.Call); ok {
						if cc, ok := an.IsCallTo(call, fnGraphNodes); ok && an.SameValue(cc.Args[0], lookGraph) {
							allNodes = true
						}
					}
				}
			}
			c.Check(allNodes, rule, key+":all-stages", cd.loop.Header.Instrs[0].Pos(), "every stage of the graph is validated against the same graph", "the validator does not range over all nodes of the graph it looks dependencies up in")
			// every successful return passes the validator
			for _, ret := range an.Returns(bp) {
				if an.IsNilConst(an.RetVal(ret, 1)) {
					c.Check(cd.loop.NormalExit() != nil && cd.loop.NormalExit().Dominates(ret.Block()) || (outer != nil && outer.NormalExit() != nil && outer.NormalExit().Dominates(ret.Block())), rule, key+":on-success-path", ret.Pos(), "a pipeline is returned only after validation", "buildPipeline can succeed without running the validator")
				}
			}
		} else {
			c.Und(rule, key+":placement", cd.fn.Pos(), "the validator lives in %s: its placement relative to the last AddStage is not analysed", an.Short(cd.fn))
		}
	}
	// the error of buildPipeline fails the load (chain to Load)
	errChain(c, rule, []*ssa.Function{bp}, inPkgs("internal/config"), nil)
}

func inclusionCycles(c *an.Ctx, bfd *ssa.Function, rule string) {
	p := c.P
	// walkers: recursive functions of internal/config that read Stage.Pipeline
	var walker *ssa.Function
	for _, fn := range p.Funcs {
		if !inPkgs("internal/config")(fn) {
			continue
		}
		reads := false
		an.EachInstr(fn, func(in ssa.Instruction) {
			if fa, ok := in.(*ssa.FieldAddr); ok && an.TypeField(fa) == "Stage.Pipeline" {
				reads = true
			}
		})
		rec := false
		for _, s := range p.CallSitesOf(fn) {
			if s.Parent() == fn {
				rec = true
			}
		}
		if reads && rec {
			walker = fn
		}
	}
	if walker == nil {
		c.Bad(rule, an.Short(bfd)+":inclusion-walker", bfd.Pos(), "no load-path function follows Stage.Pipeline links: a pipeline that includes itself (directly or through others) is accepted, and running or drawing it recurses for ever")
		return
	}
	c.Anchor("inclusion walker", an.Short(walker))
	// root calls from buildFromDefinition: inside a loop over cfg.Pipelines, fresh mark set per call, error propagated, on every success path
	var roots []ssa.CallInstruction
	for _, s := range p.CallSitesOf(walker) {
		if s.Parent() != walker {
			roots = append(roots, s)
		}
	}
	if len(roots) == 0 {
		c.Bad(rule, an.Short(walker)+":root-call", walker.Pos(), "the inclusion walker is never started")
		return
	}
	for _, root := range roots {
		fn := root.Parent()
		key := an.Short(fn) + ":inclusion-check"
		loop := an.InnermostLoop(an.Loops(fn), root.Block())
		allPipes := false
		if loop != nil {
			allPipes = an.FieldProv(loop.RangeOperand()) == "Config.Pipelines"
		}
		c.Check(allPipes, rule, key+":all-pipelines", root.Pos(), "the walk is started from every pipeline of the configuration", "the inclusion walk is not started from every entry of Config.Pipelines")
		for _, a := range root.Common().Args {
			if _, isMap := a.Type().Underlying().(*types.Map); !isMap {
				continue
			}
			fresh := false
			for _, r := range an.ResolveAll(a) {
				if mm, ok := r.(*ssa.MakeMap); ok && loop != nil && loop.Blocks[mm.Block()] {
					fresh = true
				} else {
					fresh = false
					break
				}
			}
			c.Check(fresh, rule, key+":fresh-marks", root.Pos(), "each starting pipeline gets its own mark set", "the mark set is shared between starting pipelines ("+an.Prov(a)+"): what an earlier walk marked makes a later walk stop early or report wrongly")
		}
		fate := p.ErrFate(root, noReturn)
		c.Check(fate.Kind == "propagated" || fate.Kind == "converted", rule, key+":err", root.Pos(), "a detected inclusion cycle fails the build", "the walker's error is dropped: "+fate.Detail)
		if fn == bfd {
			for _, ret := range an.Returns(bfd) {
				if an.IsNilConst(an.RetVal(ret, 1)) {
					c.Check(loop != nil && loop.NormalExit() != nil && loop.NormalExit().Dominates(ret.Block()), rule, key+":on-success-path", ret.Pos(), "a configuration is returned only after the inclusion check", "buildFromDefinition can succeed without checking pipeline inclusion")
				}
			}
			// after all pipelines are built
			bp := p.Func("internal/config", "", "buildPipeline")
			for _, s := range p.CallSitesOf(bp) {
				if s.Parent() == bfd {
					bl := an.InnermostLoop(an.Loops(bfd), s.Block())
					okOrder := bl != nil && loop != nil && bl.NormalExit() != nil && bl.NormalExit().Dominates(loop.Header)
					c.Check(okOrder, rule, key+":after-build", root.Pos(), "the check runs when all pipelines are built", "the inclusion check does not run after all pipelines were built")
				}
			}
		}
	}
	onPathMarking(c, walker, rule)
	// the walker follows every included pipeline: recursive call argument is stage.Pipeline of a stage of Nodes(g)
	okFollow := false
	for _, s := range p.CallSitesOf(walker) {
		if s.Parent() != walker {
			continue
		}
		for _, a := range s.Common().Args {
			if an.FieldProv(a) == "Stage.Pipeline" {
				okFollow = true
			}
		}
	}
	c.Check(okFollow, rule, an.Short(walker)+":follows-links", walker.Pos(), "the walk recurses into stage.Pipeline", "the walker does not recurse into the pipelines its stages include")
}
