package rules

import (
	"fmt"
	"go/token"
	"go/types"
	"strings"

	"golang.org/x/tools/go/ssa"

	"taskverif/an"
)

func init() { register("C18", checkC18) }

func checkC18(c *an.Ctx) {
	c.Rule("C18.1", "stage → task / pipeline (E2): in the stage builder a stage naming a task that is not in Config.Tasks, or a pipeline that is not in Config.Pipelines, returns a non-nil error before the stage is added")
	c.Rule("C18.2", "duplicate stage name (E2): the stage's final name is looked up in the graph under construction before AddStage; found → non-nil error")
	c.Rule("C18.3", "watcher → task (E3): a lookup of the watcher's task in Config.Tasks dominates NewWatcher; absent → non-nil error")
	c.Rule("C18.4", "depends_on → stage (E3/E5): after the last stage of a pipeline was added, every element of every stage's DependsOn itself (not a transformed copy) is looked up in the node set of the same graph; absent → non-nil error that fails the load")
	c.Rule("C18.5", "inclusion cycles (E3/E7): on every success path of buildFromDefinition a recursive walk over Stage.Pipeline links runs for every pipeline (no pass of the loop over Config.Pipelines reaches the next one without starting the walk), with a mark set allocated per starting pipeline that describes the current path (un-marked on every cycle-free exit), reports a revisit as a non-nil error, and that error fails the load")
	c.Rule("C18.6", "consumers are guarded (E3/E5): the recursive consumers of Stage.Pipeline (scheduler, graph drawing) take their graphs from Config.Pipelines, which passed C18.4/C18.5; no function that follows Stage.Pipeline recursively can run during a load before the inclusion walk has been called")
	c.Rule("C18.8", "verdicts survive (E7): no deferred function of internal/config overwrites the named error result of its function with a value that may be nil — allowed are freshly built errors (the recover pattern) and stores made only while the result is still nil; a clean-up that assigns its own outcome to err turns every rejection reported through that function into an acceptance")
	c.Rule("C18.7", "a rejected configuration is rejected with an error, not with a hang (E8): no channel operation, Cond.Wait or polling loop is synchronously reachable from Loader.Load / LoadGlobalConfig unless it has an unconditional waker (the rule of C15.10 on the two entry points that accept or reject a configuration)")
	c.NotDecided = append(c.NotDecided, "completeness of a validator beyond its decision row (e.g. one that inspects only part of what it ranges over is caught only if the range/lookup provenance changes)", "graphs built directly through the scheduler API, bypassing internal/config")
	p := c.P
	bp := p.Func("internal/config", "", "buildPipeline")
	bfd := p.Func("internal/config", "", "buildFromDefinition")
	add := p.Func("pkg/scheduler", "ExecutionGraph", "AddStage")
	if bp == nil || bfd == nil || add == nil {
		c.Und("C18.0", "config.buildPipeline", token.NoPos, "buildPipeline / buildFromDefinition / AddStage not found")
		return
	}
	{
		var entries []*ssa.Function
		for _, name := range []string{"Load", "LoadGlobalConfig"} {
			if f := p.Func("internal/config", "Loader", name); f != nil {
				entries = append(entries, f)
			}
		}
		if len(entries) == 2 {
			loadWaits(c, "C18.7", entries)
		} else {
			c.Und("C18.7", "config.(*Loader).Load", token.NoPos, "Load / LoadGlobalConfig not found")
		}
	}
	var stageLoop *an.Loop
	for _, l := range an.Loops(bp) {
		op := l.RangeOperand()
		for _, prm := range bp.Params {
			if op != nil && an.SameValue(op, prm) {
				stageLoop = l
			}
		}
	}
	if stageLoop == nil {
		c.Und("C18.0", an.Short(bp)+":stage-loop", bp.Pos(), "buildPipeline does not range over its stage definitions")
		return
	}
	var addCall *ssa.Call
	findAdd := func(fn *ssa.Function, within func(*ssa.BasicBlock) bool) {
		for _, b := range fn.Blocks {
			if within != nil && !within(b) {
				continue
			}
			for _, in := range b.Instrs {
				if call, ok := in.(*ssa.Call); ok {
					for _, callee := range p.Callees(&call.Call) {
						if callee == add {
							addCall = call
						}
					}
				}
			}
		}
	}
	findAdd(bp, func(b *ssa.BasicBlock) bool { return stageLoop.Blocks[b] })
	if addCall == nil {
		// the loop body may live in helpers of the package
		var roots []*ssa.Function
		for b := range stageLoop.Blocks {
			for _, in := range b.Instrs {
				if call, ok := in.(*ssa.Call); ok {
					for _, callee := range p.Callees(&call.Call) {
						if an.Outer(callee).Pkg == bp.Pkg && callee != bp {
							roots = append(roots, callee)
						}
					}
				}
			}
		}
		for _, f := range sortedFns(func() map[*ssa.Function]bool {
			m := map[*ssa.Function]bool{}
			for f := range p.Reach(roots, func(e an.CallEdge) bool {
				return an.Outer(e.Callee).Pkg == bp.Pkg && e.Callee != bp && e.Kind == an.EdgeCall
			}) {
				m[f] = true
			}
			return m
		}()) {
			if addCall == nil {
				findAdd(f, nil)
			}
		}
	}
	if addCall == nil {
		c.Und("C18.0", an.Short(bp)+":AddStage", bp.Pos(), "the stage loop never adds a stage")
		return
	}
	_, defs := stageLoop.RangeKeyValue()
	// the stage-builder trace: one iteration of the stage loop with the helpers of internal/config inlined
	type sbRow struct {
		name             string
		taskSet          int // 1 yes, 0 no
		taskNil, pipeNil bool
		nameTaken        bool
	}
	isDefRoot := func(v ssa.Value, st *an.State) bool {
		for _, d := range defs {
			if st.SameRoot(v, d) {
				return true
			}
		}
		return false
	}
	isDefField := func(v ssa.Value, field string, st *an.State) bool {
		ap := an.AccessPath(st.Root(v))
		if ap.LastField() == field && len(ap.Fields) == 1 && isDefRoot(ap.Base, st) {
			return true
		}
		ap = an.AccessPath(v)
		return ap.LastField() == field && len(ap.Fields) == 1 && isDefRoot(ap.Base, st)
	}
	nLookups := map[string]bool{}
	trace := func(row sbRow) []an.Outcome {
		ex := &an.Explorer{P: p, NoReturn: noReturn, MaxDepth: 3,
			Inline: func(f *ssa.Function) bool { return an.Outer(f).Pkg == bp.Pkg && f != bp }}
		stageLoop.Bound(ex)
		lookupVal := func(l *ssa.Lookup, st *an.State) (isNil bool, ok bool) {
			tbl := an.FieldProv(l.X)
			switch {
			case tbl == "Config.Tasks" && isDefField(l.Index, "Task", st):
				nLookups["Tasks"] = true
				return row.taskNil, true
			case tbl == "Config.Pipelines" && isDefField(l.Index, "Pipeline", st):
				nLookups["Pipelines"] = true
				return row.pipeNil, true
			}
			return false, false
		}
		ex.AtomSt = func(v ssa.Value, st *an.State) (an.AVal, bool) {
			switch x := v.(type) {
			case *ssa.BinOp:
				if x.Op == token.NEQ || x.Op == token.EQL {
					if s, isS := an.ConstString(x.Y); isS && s == "" && isDefField(x.X, "Task", st) {
						return an.ABool((x.Op == token.NEQ) == (row.taskSet == 1)), true
					}
				}
			case *ssa.Lookup:
				if isNil, ok := lookupVal(x, st); ok && !x.CommaOk {
					if isNil {
						return an.AVal{K: an.ANil}, true
					}
					return an.AVal{K: an.ANonNil}, true
				}
			case *ssa.Extract:
				if l, ok := x.Tuple.(*ssa.Lookup); ok {
					if isNil, ok := lookupVal(l, st); ok {
						if x.Index == 1 {
							return an.ABool(!isNil), true
						}
						if isNil {
							return an.AVal{K: an.ANil}, true
						}
						return an.AVal{K: an.ANonNil}, true
					}
				}
				if call, ok := x.Tuple.(*ssa.Call); ok && an.IsErrorType(x.Type()) {
					if _, ok := an.IsCallTo(call, fnGraphNode); ok {
						if row.nameTaken {
							return an.AVal{K: an.ANil}, true
						}
						return an.AVal{K: an.ANonNil}, true
					}
				}
			}
			return an.AVal{}, false
		}
		ex.Effect = func(in ssa.Instruction, st *an.State) string {
			if call, ok := in.(*ssa.Call); ok {
				for _, callee := range p.Callees(&call.Call) {
					if callee == add {
						return "AddStage"
					}
				}
				if _, ok := an.IsCallTo(call, fnGraphNode); ok {
					return "Node"
				}
			}
			return ""
		}
		return ex.Run(bp, stageLoop.BodyEntry(), stageLoop.Header, nil)
	}
	for _, row := range []struct {
		sbRow
		wantErr bool
	}{
		{sbRow{"task named, present", 1, false, false, false}, false},
		{sbRow{"task named, absent", 1, true, false, false}, true},
		{sbRow{"no task, pipeline present", 0, false, false, false}, false},
		{sbRow{"no task, pipeline absent", 0, false, true, false}, true},
	} {
		outs := trace(row.sbRow)
		bad := ""
		for _, o := range outs {
			added := has(o.Effects, "AddStage")
			if row.wantErr {
				if added {
					bad = "the stage is added although its reference is dangling"
				} else if !(o.End == "return" && o.Ret[len(o.Ret)-1].K == an.ANonNil) {
					bad = "a dangling reference does not end the build with an error (" + o.End + ")"
				}
			}
		}
		if len(outs) == 0 {
			bad = "no path"
		}
		key := an.Short(bp) + ":row " + row.name
		if bad != "" {
			c.Bad("C18.1", key, bp.Pos(), "%s: %s", row.name, bad)
		} else {
			c.OK("C18.1", key, bp.Pos(), "%d paths", len(outs))
		}
	}
	if !nLookups["Tasks"] || !nLookups["Pipelines"] {
		c.Bad("C18.1", an.Short(bp)+":lookups", bp.Pos(), "the stage builder does not look up both the stage's task in Config.Tasks and its pipeline in Config.Pipelines (found: %v)", nLookups)
	}

	// C18.2
	for _, taken := range []bool{true, false} {
		outs := trace(sbRow{"dup", 1, false, false, taken})
		bad := ""
		sawNode := false
		for _, o := range outs {
			added := has(o.Effects, "AddStage")
			ni, ai := -1, -1
			for i, e := range o.Effects {
				if e == "Node" && ni < 0 {
					ni = i
				}
				if e == "AddStage" {
					ai = i
				}
			}
			if ni >= 0 {
				sawNode = true
			}
			if added && (ni < 0 || ni > ai) {
				bad = "a stage is added without a preceding lookup of its name in the graph: a second stage with the same name silently replaces the first"
			}
			if taken && ni >= 0 && (added || !(o.End == "return" && o.Ret[len(o.Ret)-1].K == an.ANonNil)) {
				bad = "a stage whose name is already taken is not rejected"
			}
			if !taken && !added && o.End == "stop" {
				bad = "a stage with a fresh name is not added"
			}
		}
		if !sawNode {
			bad = "no lookup of the stage's name in the graph precedes AddStage: a second stage with the same name silently replaces the first"
		}
		key := fmt.Sprintf("%s:row name %s", an.Short(bp), map[bool]string{true: "taken", false: "free"}[taken])
		if bad != "" {
			c.Bad("C18.2", key, addCall.Pos(), "%s", bad)
		} else {
			c.OK("C18.2", key, addCall.Pos(), "%d paths", len(outs))
		}
	}
	// the lookup uses the final name of the stage that is added, in the graph it is added to
	for _, b := range addCall.Parent().Blocks {
		if addCall.Parent() == bp && !stageLoop.Blocks[b] {
			continue
		}
		for _, in := range b.Instrs {
			if call, ok := in.(*ssa.Call); ok {
				if cc, ok := an.IsCallTo(call, fnGraphNode); ok && an.Dominates(call, addCall) {
					sameGraph := p.SameDeep(cc.Args[0], addCall.Call.Args[0])
					nameAP := an.AccessPath(cc.Args[1])
					finalName := nameAP.LastField() == "Name" && an.SameValue(nameAP.Base, addCall.Call.Args[1])
					c.Check(sameGraph && finalName, "C18.2", an.Short(bp)+":duplicate-check(args)", call.Pos(), "the lookup uses the stage's final name in the graph being built", "the duplicate check does not look up the stage's own Name in the graph the stage is added to")
				}
			}
		}
	}

	// C18.3
	nw := p.Func("internal/watch", "", "NewWatcher")
	if nw != nil {
		for _, site := range p.CallSitesOf(nw) {
			fn := site.Parent()
			if !inPkgs("internal/config")(fn) {
				continue
			}
			// the task argument comes from a lookup in Config.Tasks whose absence returns an error
			taskArg := site.Common().Args[len(site.Common().Args)-1]
			good := false
			// (ii) the lookup behind an accessor of the configuration: t, ok := cfg.lookupTask(name), with the
			// accessor returning the two results of one comma-ok lookup in Config.Tasks
			for _, src := range an.Sources(taskArg) {
				e, ok := src.(*ssa.Extract)
				if !ok || e.Index != 0 {
					continue
				}
				call, ok := e.Tuple.(*ssa.Call)
				if !ok {
					continue
				}
				callees := p.Callees(&call.Call)
				accessor := len(callees) > 0
				for _, callee := range callees {
					if callee.Blocks == nil || callee.Signature.Results().Len() != 2 {
						accessor = false
						break
					}
					for _, ret := range an.Returns(callee) {
						v0, ok0 := an.RetVal(ret, 0).(*ssa.Extract)
						v1, ok1 := an.RetVal(ret, 1).(*ssa.Extract)
						if !ok0 || !ok1 || v0.Tuple != v1.Tuple || v0.Index != 0 || v1.Index != 1 {
							accessor = false
							continue
						}
						lk, isLk := v0.Tuple.(*ssa.Lookup)
						if !isLk || !lk.CommaOk || an.FieldProv(lk.X) != "Config.Tasks" {
							accessor = false
						}
					}
				}
				if !accessor {
					continue
				}
				for _, g := range an.Guards(site.Block()) {
					if ge, ok := g.Cond.(*ssa.Extract); ok && ge.Tuple == ssa.Value(call) && ge.Index == 1 && g.Outcome {
						good = true
					}
					if x, eq, isNil := an.NilTest(g.Cond); isNil && (eq != g.Outcome) {
						for _, s2 := range an.Sources(x) {
							if s2 == src {
								good = true
							}
						}
					}
				}
			}
			for _, src := range an.Sources(taskArg) {
				e, ok := src.(*ssa.Extract)
				var l *ssa.Lookup
				if ok {
					l, _ = e.Tuple.(*ssa.Lookup)
				} else {
					l, _ = src.(*ssa.Lookup)
				}
				if l == nil || (an.FieldProv(l.X) != "Config.Tasks" && p.DeepFieldProvCallers(l.X) != "Config.Tasks") {
					continue
				}
				// a guard on presence dominates the call
				for _, g := range an.Guards(site.Block()) {
					if ge, ok := g.Cond.(*ssa.Extract); ok && ge.Tuple == ssa.Value(l) && ge.Index == 1 && g.Outcome {
						good = true
					}
					if x, eq, isNil := an.NilTest(g.Cond); isNil && (eq != g.Outcome) {
						for _, s2 := range an.Sources(x) {
							if s2 == src {
								good = true
							}
						}
					}
				}
			}
			c.Check(good, "C18.3", an.Short(fn)+":watcher-task", site.Pos(), "the watcher is built only when its task exists", "NewWatcher is reached without a dominating presence test of the watcher's task in Config.Tasks")
		}
	}

	verdictSurvives(c, "C18.8")
	dependsOnValidator(c, bp, stageLoop, "C18.4")
	inclusionCycles(c, bfd, "C18.5")

	// C18.6
	sched := p.Func("pkg/scheduler", "Scheduler", "Schedule")
	draw := p.Func("cmd/taskctl", "", "draw")
	for _, f := range []*ssa.Function{sched, draw} {
		if f == nil {
			continue
		}
		for _, site := range p.CallSitesOf(f) {
			if !inPkgs("cmd/taskctl")(site.Parent()) || site.Parent() == f {
				continue
			}
			var garg ssa.Value
			for _, a := range site.Common().Args {
				if an.TypeIs(a.Type(), "pkg/scheduler", "ExecutionGraph") {
					garg = a
				}
			}
			if garg == nil {
				continue
			}
			prov := an.FieldProv(garg)
			if !strings.HasPrefix(prov, "Config.Pipelines[") {
				// follow a parameter (or a field of an options struct) to the arguments of the callers (through wrappers of cmd/taskctl)
				okAll := true
				srcs := p.DeepSources(garg, 4, true)
				for _, src := range srcs {
					pv := an.FieldProv(src)
					if !strings.HasPrefix(pv, "Config.Pipelines[") {
						okAll = false
						prov = pv
					}
				}
				if okAll && len(srcs) > 0 {
					prov = "Config.Pipelines[…]"
				}
			}
			c.Check(strings.HasPrefix(prov, "Config.Pipelines["), "C18.6", an.Short(site.Parent())+":graph("+an.Short(f)+")", site.Pos(), "the graph comes from the loaded configuration's pipelines", "the graph handed to "+an.Short(f)+" does not come from Config.Pipelines: "+prov)
		}
	}
	// … and no consumer runs before the check: a function that follows Stage.Pipeline links recursively and can
	// run while the configuration is still being loaded (other than the inclusion walk itself) meets the cycle
	// the walk exists to reject
	walker := inclusionWalker(c)
	during := duringLoad(c)
	nEarly := 0
	for fn := range during {
		if fn == walker || fn.Blocks == nil || !earlyPipelineConsumer(c, fn) {
			continue
		}
		for _, e := range p.OutEdges(fn) {
			if !an.InModule(e.Callee) {
				continue
			}
			follows := false
			for _, a := range e.Site.Common().Args {
				if an.FieldProv(a) == "Stage.Pipeline" {
					follows = true
				}
			}
			if !follows {
				continue
			}
			back := e.Callee == fn
			if !back {
				_, back = p.Reach([]*ssa.Function{e.Callee}, func(x an.CallEdge) bool { return an.InModule(x.Callee) })[fn]
			}
			if back {
				nEarly++
				c.Bad("C18.6", an.Short(fn)+":early-consumer", e.Site.Pos(), "%s follows included pipelines recursively and is reachable from Loader.Load: it can run before (or without) the inclusion check, on the very cycle that check is there to reject", an.Short(fn))
			}
		}
	}
	if nEarly == 0 {
		c.OK("C18.6", "load:early-consumers", bfd.Pos(), "of the %d functions that can run during a load none follows Stage.Pipeline recursively before the inclusion walk has run", len(during))
	}
	if gate := p.Func("pkg/scheduler", "", "checkStatus"); gate != nil {
		for _, ci := range an.CallsIn(gate, "github.com/sirupsen/logrus.Fatal") {
			c.Note("C18.6", an.Short(gate)+":Fatal", ci.Pos(), "the scheduler aborts on an unknown dependency; unreachable for configurations that passed C18.4 (guarded-dead)")
		}
	}
}

func dependsOnValidator(c *an.Ctx, bp *ssa.Function, stageLoop *an.Loop, rule string) {
	p := c.P
	// a loop (in buildPipeline or a function it calls after the stage loop) ranging over <stage>.DependsOn
	type cand struct {
		fn   *ssa.Function
		loop *an.Loop
	}
	var cands []cand
	reach := p.Reach([]*ssa.Function{bp}, func(e an.CallEdge) bool { return an.InModule(e.Callee) && inPkgs("internal/config")(e.Callee) })
	for fn := range reach {
		for _, l := range an.Loops(fn) {
			op := l.RangeOperand()
			if op == nil {
				continue
			}
			ap := an.AccessPath(op)
			if ap.LastField() == "DependsOn" && an.TypeIs(ap.Base.Type(), "pkg/scheduler", "Stage") {
				cands = append(cands, cand{fn, l})
			}
		}
	}
	if len(cands) == 0 {
		c.Bad(rule, an.Short(bp)+":depends_on-validator", bp.Pos(), "nothing on the load path compares the names in depends_on with the stages of the pipeline: a dangling dependency is accepted and the run aborts the process from inside the scheduler")
		return
	}
	for _, cd := range cands {
		key := an.Short(cd.fn) + ":depends_on-validator"
		_, elems := cd.loop.RangeKeyValue()
		// lookup of the element itself in the node set
		var look ssa.Instruction
		var lookErr []ssa.Value
		var lookGraph ssa.Value
		for b := range cd.loop.Blocks {
			for _, in := range b.Instrs {
				if call, ok := in.(*ssa.Call); ok {
					if cc, ok := an.IsCallTo(call, fnGraphNode); ok {
						for _, e := range elems {
							if an.SameValue(cc.Args[1], e) {
								look, lookErr, lookGraph = call, errOf(call), cc.Args[0]
							}
						}
						if look == nil {
							c.Bad(rule, key+":key", call.Pos(), "the validator looks up %s instead of the depends_on entry itself: the graph records the raw entry, so the two can disagree", an.Prov(cc.Args[1]))
						}
					}
				}
			}
		}
		if look == nil {
			c.Bad(rule, key+":lookup", cd.fn.Pos(), "the loop over DependsOn does not look each entry up in the graph's node set")
			continue
		}
		// absent → non-nil error
		ex := &an.Explorer{P: p, NoReturn: noReturn}
		cd.loop.Bound(ex)
		ex.Atom = func(v ssa.Value) (an.AVal, bool) {
			for _, e := range lookErr {
				if v == e {
					return an.AVal{K: an.ANonNil}, true
				}
			}
			return an.AVal{}, false
		}
		outs := ex.RunFrom(cd.fn, look, nil)
		bad := ""
		for _, o := range outs {
			if !(o.End == "return" && o.Ret[len(o.Ret)-1].K == an.ANonNil) {
				bad = "an unknown dependency does not end the build with an error"
			}
		}
		if len(outs) == 0 {
			bad = "no path"
		}
		if bad != "" {
			c.Bad(rule, key+":row absent", look.Pos(), "%s", bad)
		} else {
			c.OK(rule, key+":row absent", look.Pos(), "an unknown dependency is a non-nil error (%d paths)", len(outs))
		}
		// the stages ranged over are all nodes of the same graph
		var outer *an.Loop
		for _, l := range an.Loops(cd.fn) {
			if l.Header != cd.loop.Header && l.Blocks[cd.loop.Header] && (cd.fn != bp || l.Header != stageLoop.Header) {
				outer = l
			}
		}
		allNodes := false
		if outer != nil {
			for _, src := range an.Sources(outer.RangeOperand()) {
				if call, ok := src.(*ssa.Call); ok {
					if cc, ok := an.IsCallTo(call, fnGraphNodes); ok && p.SameDeep(cc.Args[0], lookGraph) {
						allNodes = true
					}
				}
			}
		}
		c.Check(allNodes, rule, key+":all-stages", cd.loop.Header.Instrs[0].Pos(), "every stage of the graph is validated against the same graph", "the validator does not range over all nodes of the graph it looks dependencies up in")
		// every successful return of the function holding the validator passes it
		for _, ret := range an.Returns(cd.fn) {
			if len(ret.Results) > 0 && an.IsNilConst(an.RetVal(ret, len(ret.Results)-1)) {
				c.Check(cd.loop.NormalExit() != nil && cd.loop.NormalExit().Dominates(ret.Block()) || (outer != nil && outer.NormalExit() != nil && outer.NormalExit().Dominates(ret.Block())), rule, key+":on-success-path", ret.Pos(), "success is returned only after validation", an.Short(cd.fn)+" can succeed without running the validator")
			}
		}
		if cd.fn == bp {
			after := stageLoop.NormalExit() != nil && stageLoop.NormalExit().Dominates(cd.loop.Header) && !stageLoop.Blocks[cd.loop.Header]
			c.Check(after, rule, key+":after-last-stage", cd.loop.Header.Instrs[0].Pos(), "the validator runs after every stage of the pipeline was added (a dependency may be declared later)", "the validator runs before all stages are known: a dependency declared after its dependant is rejected, or a dangling one is missed")
		} else {
			// the validator lives in a helper: its call site in buildPipeline carries the placement obligations
			var sites []*ssa.Call
			for _, b := range bp.Blocks {
				for _, in := range b.Instrs {
					if call, ok := in.(*ssa.Call); ok {
						if call.Call.StaticCallee() == cd.fn {
							sites = append(sites, call)
						}
					}
				}
			}
			if len(sites) == 0 {
				c.Und(rule, key+":placement", cd.fn.Pos(), "the validator lives in %s, which buildPipeline does not call directly: its placement relative to the last AddStage is not analysed", an.Short(cd.fn))
				continue
			}
			var addGraph ssa.Value
			for b := range stageLoop.Blocks {
				for _, in := range b.Instrs {
					if call, ok := in.(*ssa.Call); ok {
						for _, callee := range p.Callees(&call.Call) {
							if callee.Name() == "AddStage" && an.TypeIs(callee.Signature.Recv().Type(), "pkg/scheduler", "ExecutionGraph") {
								addGraph = call.Call.Args[0]
							}
						}
					}
				}
			}
			if addGraph == nil {
				// AddStage is called by a helper of the loop body
				var roots []*ssa.Function
				for b := range stageLoop.Blocks {
					for _, in := range b.Instrs {
						if call, ok := in.(*ssa.Call); ok {
							for _, callee := range p.Callees(&call.Call) {
								if an.Outer(callee).Pkg == bp.Pkg && callee != bp {
									roots = append(roots, callee)
								}
							}
						}
					}
				}
				for f := range p.Reach(roots, func(e an.CallEdge) bool {
					return an.Outer(e.Callee).Pkg == bp.Pkg && e.Callee != bp && e.Kind == an.EdgeCall
				}) {
					an.EachInstr(f, func(in ssa.Instruction) {
						if call, ok := in.(*ssa.Call); ok {
							for _, callee := range p.Callees(&call.Call) {
								if callee.Name() == "AddStage" && callee.Signature.Recv() != nil && an.TypeIs(callee.Signature.Recv().Type(), "pkg/scheduler", "ExecutionGraph") {
									addGraph = call.Call.Args[0]
								}
							}
						}
					})
				}
			}
			good := false
			for _, site := range sites {
				after := stageLoop.NormalExit() != nil && stageLoop.NormalExit().Dominates(site.Block()) && !stageLoop.Blocks[site.Block()]
				if !after {
					continue
				}
				// the graph handed to the helper is the one the stages were added to
				sameGraph := false
				if pi := paramIndexOf(cd.fn, lookGraph); pi >= 0 && addGraph != nil {
					sameGraph = an.SameValue(site.Call.Args[pi], addGraph)
				}
				if !sameGraph && addGraph != nil {
					sameGraph = p.SameDeep(lookGraph, addGraph)
				}
				if !sameGraph {
					continue
				}
				fate := p.ErrFate(site, noReturn)
				onAll := true
				for _, ret := range an.Returns(bp) {
					if an.IsNilConst(an.RetVal(ret, len(ret.Results)-1)) && !site.Block().Dominates(ret.Block()) {
						onAll = false
					}
				}
				if (fate.Kind == "propagated" || fate.Kind == "converted") && onAll {
					good = true
				}
			}
			c.Check(good, rule, key+":after-last-stage", sites[0].Pos(), "the validator is called after every stage was added, on the graph they were added to, on every successful exit, and its error fails the build", "the validator helper is not called after the stage loop on the same graph with its error propagated on every successful exit of buildPipeline")
		}
	}
	// the error of buildPipeline fails the load (chain to Load)
	errChain(c, rule, []*ssa.Function{bp}, inPkgs("internal/config"), nil)
}

func inclusionCycles(c *an.Ctx, bfd *ssa.Function, rule string) {
	p := c.P
	// walkers: recursive functions of internal/config that read Stage.Pipeline
	var walker *ssa.Function
	for _, fn := range p.Funcs {
		if !inPkgs("internal/config")(fn) {
			continue
		}
		reads := false
		an.EachInstr(fn, func(in ssa.Instruction) {
			if fa, ok := in.(*ssa.FieldAddr); ok && an.TypeField(fa) == "Stage.Pipeline" {
				reads = true
			}
		})
		rec := false
		for _, s := range p.CallSitesOf(fn) {
			if s.Parent() == fn {
				rec = true
			}
		}
		if reads && rec {
			walker = fn
		}
	}
	if walker == nil {
		c.Bad(rule, an.Short(bfd)+":inclusion-walker", bfd.Pos(), "no load-path function follows Stage.Pipeline links: a pipeline that includes itself (directly or through others) is accepted, and running or drawing it recurses for ever")
		return
	}
	c.Anchor("inclusion walker", an.Short(walker))
	// root calls from buildFromDefinition: inside a loop over cfg.Pipelines, fresh mark set per call, error propagated, on every success path
	var roots []ssa.CallInstruction
	for _, s := range p.CallSitesOf(walker) {
		if s.Parent() != walker {
			roots = append(roots, s)
		}
	}
	if len(roots) == 0 {
		c.Bad(rule, an.Short(walker)+":root-call", walker.Pos(), "the inclusion walker is never started")
		return
	}
	for _, root := range roots {
		fn := root.Parent()
		key := an.Short(fn) + ":inclusion-check"
		loop := an.InnermostLoop(an.Loops(fn), root.Block())
		allPipes := false
		if loop != nil {
			allPipes = an.FieldProv(loop.RangeOperand()) == "Config.Pipelines"
		}
		c.Check(allPipes, rule, key+":all-pipelines", root.Pos(), "the walk is started from every pipeline of the configuration", "the inclusion walk is not started from every entry of Config.Pipelines")
		if allPipes {
			// … on every pass: no pass of the loop gets back to the header without having started the walk
			// (a walk started from "top-level" pipelines only never enters a closed cycle that nothing else includes)
			everyPass := true
			for _, latch := range loop.Latches {
				if latch != root.Block() && !root.Block().Dominates(latch) {
					everyPass = false
				}
			}
			c.Check(everyPass, rule, key+":every-pass", root.Pos(), "no pass of the loop over Config.Pipelines skips the walk", "some pass of the loop over Config.Pipelines goes on to the next pipeline without starting the inclusion walk from this one: a cycle that is entered only from skipped pipelines is never walked, the configuration loads, and running or drawing it recurses for ever")
		}
		for _, a := range root.Common().Args {
			if _, isMap := a.Type().Underlying().(*types.Map); !isMap {
				continue
			}
			fresh := false
			for _, r := range an.ResolveAll(a) {
				if mm, ok := r.(*ssa.MakeMap); ok && loop != nil && loop.Blocks[mm.Block()] {
					fresh = true
				} else {
					fresh = false
					break
				}
			}
			c.Check(fresh, rule, key+":fresh-marks", root.Pos(), "each starting pipeline gets its own mark set", "the mark set is shared between starting pipelines ("+an.Prov(a)+"): what an earlier walk marked makes a later walk stop early or report wrongly")
		}
		fate := p.ErrFate(root, noReturn)
		c.Check(fate.Kind == "propagated" || fate.Kind == "converted", rule, key+":err", root.Pos(), "a detected inclusion cycle fails the build", "the walker's error is dropped: "+fate.Detail)
		if fn == bfd {
			for _, ret := range an.Returns(bfd) {
				if an.IsNilConst(an.RetVal(ret, 1)) {
					c.Check(loop != nil && loop.NormalExit() != nil && loop.NormalExit().Dominates(ret.Block()), rule, key+":on-success-path", ret.Pos(), "a configuration is returned only after the inclusion check", "buildFromDefinition can succeed without checking pipeline inclusion")
				}
			}
			// after all pipelines are built
			bp := p.Func("internal/config", "", "buildPipeline")
			for _, s := range p.CallSitesOf(bp) {
				if s.Parent() == bfd {
					bl := an.InnermostLoop(an.Loops(bfd), s.Block())
					okOrder := bl != nil && loop != nil && bl.NormalExit() != nil && bl.NormalExit().Dominates(loop.Header)
					c.Check(okOrder, rule, key+":after-build", root.Pos(), "the check runs when all pipelines are built", "the inclusion check does not run after all pipelines were built")
				}
			}
		}
	}
	// when the check has moved out of the builder (a validate step of its own), every entry point that hands out a
	// configuration must go through it on every successful return
	holderIsBuilder := false
	var holders []*ssa.Function
	for _, root := range roots {
		if root.Parent() == bfd {
			holderIsBuilder = true
		}
		holders = append(holders, root.Parent())
	}
	if !holderIsBuilder {
		var vouches func(fn *ssa.Function, depth int) bool
		vouches = func(fn *ssa.Function, depth int) bool {
			if fn == nil || fn.Blocks == nil || depth > 3 {
				return false
			}
			for _, h := range holders {
				if h == fn {
					return true
				}
			}
			ei := an.ErrResultIndex(fn.Signature)
			var through []ssa.Instruction
			an.EachInstr(fn, func(in ssa.Instruction) {
				call, ok := in.(*ssa.Call)
				if !ok {
					return
				}
				for _, callee := range p.Callees(&call.Call) {
					if callee != fn && an.InModule(callee) && inPkgs("internal/config")(callee) && vouches(callee, depth+1) {
						through = append(through, in)
					}
				}
			})
			// the calls after which a configuration built in this call is on its way out: those that reach the builder
			var builds []ssa.Instruction
			an.EachInstr(fn, func(in ssa.Instruction) {
				call, ok := in.(*ssa.Call)
				if !ok {
					return
				}
				for _, callee := range p.Callees(&call.Call) {
					if callee == fn || !an.InModule(callee) {
						continue
					}
					if callee == bfd {
						builds = append(builds, in)
						continue
					}
					if _, reaches := p.Reach([]*ssa.Function{callee}, func(e an.CallEdge) bool { return e.Kind == an.EdgeCall && inPkgs("internal/config")(e.Callee) })[bfd]; reaches {
						builds = append(builds, in)
					}
				}
			})
			if len(through) == 0 {
				return len(builds) == 0 && fn != bfd && false
			}
			for _, ret := range an.Returns(fn) {
				if ei >= 0 && !an.IsNilConst(an.RetVal(ret, ei)) {
					continue
				}
				// (a successful return that no build can reach — nothing was loaded — has nothing to check)
				afterBuild := len(builds) == 0
				for _, b := range builds {
					if b.Block() == ret.Block() || an.CanReach(b.Block(), ret.Block()) {
						afterBuild = true
					}
				}
				if afterBuild && !an.DominatedBySet(through, ret) {
					return false
				}
			}
			return true
		}
		for _, name := range []string{"Load", "LoadGlobalConfig"} {
			entry := p.Func("internal/config", "Loader", name)
			if entry == nil {
				continue
			}
			c.Check(vouches(entry, 0), rule, an.Short(entry)+":inclusion-check:on-success-path", entry.Pos(), "every successful return of the entry point has passed the inclusion check", an.Short(entry)+" can hand out a configuration that never went through the inclusion check (the check lives in "+an.Short(holders[0])+", which this entry point does not reach on every successful path): a pipeline that includes itself is accepted")
		}
	}
	onPathMarking(c, walker, rule)
	// the walker follows every included pipeline: recursive call argument is stage.Pipeline of a stage of Nodes(g)
	okFollow := false
	for _, s := range p.CallSitesOf(walker) {
		if s.Parent() != walker {
			continue
		}
		for _, a := range s.Common().Args {
			if an.FieldProv(a) == "Stage.Pipeline" {
				okFollow = true
			}
		}
	}
	c.Check(okFollow, rule, an.Short(walker)+":follows-links", walker.Pos(), "the walk recurses into stage.Pipeline", "the walker does not recurse into the pipelines its stages include")
	// … for every stage that includes one, whatever else the stage has: one pass of the walker's loop over
	// the stages, explored with "this stage's Pipeline is set" and nothing else known, reaches the
	// recursive call (or an error return) on every path
	if okFollow {
		var rec *ssa.Call
		for _, s := range p.CallSitesOf(walker) {
			if call, ok := s.(*ssa.Call); ok && s.Parent() == walker {
				rec = call
			}
		}
		var loop *an.Loop
		if rec != nil {
			loop = an.InnermostLoop(an.Loops(walker), rec.Block())
		}
		if rec != nil && loop != nil && loop.BodyEntry() != nil {
			ex := &an.Explorer{P: p, NoReturn: noReturn}
			loop.Bound(ex)
			ex.Atom = func(v ssa.Value) (an.AVal, bool) {
				if x, eq, isNil := an.NilTest(v); isNil && an.FieldProv(x) == "Stage.Pipeline" {
					return an.ABool(eq == false), true // Pipeline != nil holds
				}
				return an.AVal{}, false
			}
			ex.Effect = func(in ssa.Instruction, st *an.State) string {
				if in == ssa.Instruction(rec) {
					return "recurse"
				}
				return ""
			}
			skipped := false
			for _, o := range ex.Run(walker, loop.BodyEntry(), loop.Header, nil) {
				if o.End == "stop" && o.StopBlock == loop.Header && !has(o.Effects, "recurse") {
					skipped = true
				}
			}
			c.Check(!skipped, rule, an.Short(walker)+":follows-every-link", rec.Pos(), "a stage whose Pipeline is set is always followed", "the walker can pass over a stage whose Pipeline is set without following it (the test that skips a stage is not 'Pipeline == nil'): an inclusion cycle through such a stage is accepted")
		}
	}
}

// paramIndexOf returns the index of the parameter v resolves to, or -1
func paramIndexOf(fn *ssa.Function, v ssa.Value) int {
	for _, r := range an.ResolveAll(v) {
		for i, prm := range fn.Params {
			if r == prm {
				return i
			}
		}
	}
	return -1
}

// verdictSurvives: see C18.8.
func verdictSurvives(c *an.Ctx, rule string) {
	p := c.P
	n := 0
	for _, fn := range p.Funcs {
		if !inPkgs("internal/config")(fn) || fn.Blocks == nil || fn.Parent() != nil {
			continue
		}
		res := fn.Signature.Results()
		names := map[string]bool{}
		for i := 0; i < res.Len(); i++ {
			if an.IsErrorType(res.At(i).Type()) && res.At(i).Name() != "" && res.At(i).Name() != "_" {
				names[res.At(i).Name()] = true
			}
		}
		if len(names) == 0 {
			continue
		}
		an.EachInstr(fn, func(in ssa.Instruction) {
			d, ok := in.(*ssa.Defer)
			if !ok {
				return
			}
			mc, ok := d.Call.Value.(*ssa.MakeClosure)
			if !ok {
				return
			}
			clo, ok := mc.Fn.(*ssa.Function)
			if !ok {
				return
			}
			for i, b := range mc.Bindings {
				al, ok := b.(*ssa.Alloc)
				if !ok || !names[al.Comment] || !an.IsErrorType(an.Deref(al.Type())) || i >= len(clo.FreeVars) {
					continue
				}
				fv := clo.FreeVars[i]
				an.EachInstr(clo, func(x ssa.Instruction) {
					st, ok := x.(*ssa.Store)
					if !ok || st.Addr != ssa.Value(fv) {
						return
					}
					n++
					key := an.Short(fn) + ":deferred-store(" + al.Comment + ")"
					// always a fresh error?
					fresh := true
					srcs := an.Sources(st.Val)
					if len(srcs) == 0 {
						fresh = false
					}
					for _, src := range srcs {
						if mi, ok := src.(*ssa.MakeInterface); ok {
							if _, isPtr := mi.X.Type().Underlying().(*types.Pointer); isPtr {
								if _, isAlloc := mi.X.(*ssa.Alloc); isAlloc {
									continue
								}
							}
							fresh = false
							continue
						}
						call, ok := src.(*ssa.Call)
						if !ok {
							fresh = false
							continue
						}
						switch an.ShortCallee(&call.Call) {
						case "fmt.Errorf", "errors.New":
						default:
							fresh = false
						}
					}
					// or only while no error has been recorded yet
					onlyIfNil := false
					for _, g := range an.Guards(st.Block()) {
						bo, ok := g.Cond.(*ssa.BinOp)
						if !ok || (bo.Op != token.EQL && bo.Op != token.NEQ) {
							continue
						}
						x, y := bo.X, bo.Y
						if an.IsNilConst(x) {
							x, y = y, x
						}
						ld, ok := x.(*ssa.UnOp)
						if !ok || ld.Op != token.MUL || ld.X != ssa.Value(fv) || !an.IsNilConst(y) {
							continue
						}
						if (bo.Op == token.EQL) == g.Outcome {
							onlyIfNil = true
						}
					}
					switch {
					case fresh:
						c.OK(rule, key, st.Pos(), "the deferred function stores a freshly built error")
					case onlyIfNil:
						c.OK(rule, key, st.Pos(), "the deferred function stores only while the result is still nil")
					default:
						c.Bad(rule, key, st.Pos(), "a deferred function of %s assigns %s to the named result %s, which may be nil, without testing that no error was recorded: the error the function was returning is replaced, and a configuration it rejected is accepted", an.Short(fn), an.Prov(st.Val), al.Comment)
					}
				})
			}
		})
	}
	if n == 0 {
		c.OK(rule, "internal/config:deferred-stores", token.NoPos, "no deferred function of internal/config writes a named error result")
	}
}
