package rules

import (
	"fmt"
	"go/token"
	"go/types"
	"sort"
	"strings"

	"golang.org/x/tools/go/ssa"

	"taskverif/an"
)

func init() { register("C17", checkC17) }

func checkC17(c *an.Ctx) {
	c.Rule("C17.1", "guard dominates recursion (E3): every call from load/loadDir to load/loadDir is dominated by the false outcome of imports[k] on the very key passed on; load marks imports[file] before it reads the file or recurses; the imports set is replaced only by reset, at the start of Load")
	c.Rule("C17.2", "errors propagate (E7): every error-returning call in load, loadDir, readFile, readURL, unmarshalData, decode, Load, LoadGlobalConfig is propagated or wrapped (exempt, with reasons: mime.ParseMediaType, url.Parse, mapstructure.NewDecoder)")
	c.Rule("C17.3", "path provenance (E5): a file import is loaded from path.Join(path.Dir(<importing file>), <entry>); a directory import from the elements of filepath.Glob(filepath.Join(dir, \"*.yaml\"))")
	c.Rule("C17.4", "nothing loaded is discarded (E3): after a recursive load succeeded, the returned map is merged (mergo.Merge into the importer's map, error propagated) before the loop goes on; the list the import loop ranges over is not shared with the Loader (neither taken from one of its fields nor kept in one): the loop body re-enters load through the same Loader")
	c.Rule("C17.5", "global + project (E3/E5): Load loads the global configuration first, both are merged into Loader.dst, and variables are merged explicitly (= C10.2)")
	c.NotDecided = append(c.NotDecided, "what mergo does with conflicting keys", "remote imports (no network is touched)", "'each taken once' beyond the guard (merging a map with itself is library behaviour)")
	p := c.P
	ld := p.Func("internal/config", "Loader", "load")
	ldir := p.Func("internal/config", "Loader", "loadDir")
	load := p.Func("internal/config", "Loader", "Load")
	glob, globAPI := globalLoader(p)
	if ld == nil || ldir == nil || load == nil || glob == nil {
		c.Und("C17.0", "config.(*Loader).load", token.NoPos, "load / loadDir / Load / LoadGlobalConfig not found")
		return
	}
	// C17.1 (decided on traces, see visited.go: the set, its tests and its marks are found by what they do —
	// a seen/mark method of a set type or a resolver that returns a "skip" verdict are inlined)
	pkgReach := func(from *ssa.Function) map[*ssa.Function][]an.CallEdge {
		return p.Reach([]*ssa.Function{from}, func(e an.CallEdge) bool { return e.Kind == an.EdgeCall && an.Outer(e.Callee).Pkg == ld.Pkg })
	}
	cycle := map[*ssa.Function]bool{}
	for g := range pkgReach(ld) {
		if _, back := pkgReach(g)[ld]; back {
			cycle[g] = true
		}
	}
	cycle[ld], cycle[ldir] = true, true
	vt := &visitedTracer{p: p, onCycle: cycle, sites: map[ssa.Instruction]bool{}, reads: map[ssa.Instruction]bool{}, seedURL: -1}
	vt.setHelpers(ld.Pkg)
	readsInput := func(g *ssa.Function) bool {
		if cycle[g] {
			return false
		}
		found := false
		for h := range pkgReach(g) {
			if cycle[h] || h.Blocks == nil {
				continue
			}
			an.EachInstr(h, func(in ssa.Instruction) {
				if ci, ok := in.(ssa.CallInstruction); ok {
					switch an.ShortCallee(ci.Common()) {
					case "os.Open", "os.ReadFile", "io/ioutil.ReadFile", "io/ioutil.ReadAll", "io.ReadAll", "net/http.Get", "(*net/http.Client).Get", "(*net/http.Client).Do":
						found = true
					}
				}
			})
		}
		return found
	}
	var recSites []ssa.CallInstruction
	for g := range cycle {
		if g.Blocks == nil {
			continue
		}
		an.EachInstr(g, func(in ssa.Instruction) {
			ci, ok := in.(ssa.CallInstruction)
			if !ok {
				return
			}
			for _, callee := range p.Callees(ci.Common()) {
				if cycle[callee] {
					vt.sites[in] = true
					if callee == ld || callee == ldir {
						recSites = append(recSites, ci)
					}
				} else if g == ld && readsInput(callee) {
					vt.reads[in] = true
				}
			}
		})
	}
	sort.Slice(recSites, func(i, j int) bool { return recSites[i].Pos() < recSites[j].Pos() })
	nRec := 0
	setField := ""
	for _, site := range recSites {
		nRec++
		callee := p.Callees(site.Common())[0]
		k := site.Common().Args[1]
		ai, sp, guarded, why := vt.guardedOn(site.Parent(), site.(ssa.Instruction))
		if guarded && ai != 1 {
			guarded, why = false, "the membership test is not on the name passed on"
		}
		if guarded && strings.HasPrefix(sp, "Loader.") {
			if setField != "" && setField != sp {
				guarded, why = false, "the recursive loads consult different sets ("+setField+", "+sp+")"
			}
			setField = sp
		} else if guarded {
			guarded, why = false, "the set consulted ("+sp+") is not held by the loader"
		}
		key := fmt.Sprintf("%s:call(%s)", an.Short(site.Parent()), an.Short(callee))
		c.Check(guarded, "C17.1", key, site.Pos(), "recursive load guarded by !imports[key] on the key passed on", "a recursive load of "+an.Prov(k)+" is not guarded by the visited set on that key ("+why+"): an import cycle through this site never terminates (or a file is loaded twice)")
	}
	if nRec == 0 {
		c.Und("C17.1", an.Short(ld)+":recursion", ld.Pos(), "load/loadDir never load an import")
	}
	// mark before read
	okMark, why := vt.marksBefore(ld, ld.Params[1], setField)
	if !okMark {
		// the mark may be the callers' business: every call of load, wherever it is, is preceded on every path by
		// the insertion of the name it passes on
		sites := p.CallSitesOf(ld)
		all := len(sites) > 0
		for _, site := range sites {
			if !an.InModule(site.Parent()) {
				continue
			}
			in, isIn := site.(ssa.Instruction)
			if !isIn {
				all = false
				continue
			}
			vt.sites[in] = true
			if !vt.callerMarksBefore(site.Parent(), in, 1, setField) {
				all = false
				why += "; " + an.Short(site.Parent()) + " calls load at " + p.Pos(site.Pos()) + " without marking the name first"
			}
		}
		okMark = all
	}
	if okMark {
		c.OK("C17.1", an.Short(ld)+":mark", ld.Pos(), "the file is marked visited before it is read and before any import is followed")
	} else {
		c.Bad("C17.1", an.Short(ld)+":mark", ld.Pos(), "load does not mark the file it is about to read as visited before reading it / following its imports (%s): a file importing itself (directly or through others) is loaded again and again", why)
	}
	if setField == "" {
		setField = "Loader.imports"
	}
	// every entry into load is marked: callers other than load/loadDir pass through the mark too (it is in load itself)
	// imports replaced only by reset
	reset := p.Func("internal/config", "Loader", "reset")
	for _, fn := range p.Funcs {
		an.EachInstr(fn, func(in ssa.Instruction) {
			st, ok := in.(*ssa.Store)
			if !ok {
				return
			}
			fa, ok := st.Addr.(*ssa.FieldAddr)
			// (a set kept in an object of its own: the field of the loader that holds that object)
			held := setField
			if parts := strings.Split(setField, "."); len(parts) > 2 {
				held = parts[0] + "." + parts[1]
			}
			if !ok || an.TypeField(fa) != held {
				return
			}
			fresh, _ := an.FreshBase(fa.X)
			atStart := false
			if fn == load {
				// reset written inline: it must come before anything is loaded
				atStart = true
				names := []string{"(internal/config.Loader).load", "(internal/config.Loader).LoadGlobalConfig"}
				if glob != nil {
					names = append(names, an.Short(glob))
				}
				for _, name := range names {
					for _, ci := range an.CallsIn(load, name) {
						if !an.Dominates(st, ci) {
							atStart = false
						}
					}
				}
			}
			c.Check(fn == reset || fresh || atStart, "C17.1", an.Short(fn)+":write("+setField+")", st.Pos(), "the visited set is replaced only at the start of Load / by the constructor", "the visited set is replaced in "+an.Short(fn)+": marks are lost in the middle of a load")
		})
	}
	if reset != nil {
		for _, site := range p.CallSitesOf(reset) {
			okSite := site.Parent() == load
			if okSite {
				for _, ci := range p.CallSitesOf(ld) {
					if ci.Parent() == load && !an.Dominates(site, ci) {
						okSite = false
					}
				}
			}
			c.Check(okSite, "C17.1", an.Short(site.Parent())+":call(reset)", site.Pos(), "reset runs once, at the start of Load", "the visited set is reset elsewhere than at the start of Load")
		}
	}

	// C17.2
	exempt := map[string]string{
		"mime.ParseMediaType": "an unparsable content type falls back to the URL's extension",
		"net/url.Parse":       "an unparsable URL falls back to the default extension",
		"github.com/mitchellh/mapstructure.NewDecoder": "constant decoder configuration",
	}
	scope := []*ssa.Function{ld, ldir, load, glob,
		p.Func("internal/config", "Loader", "readFile"), p.Func("internal/config", "Loader", "readURL"),
		p.Func("internal/config", "Loader", "unmarshalData"), p.Func("internal/config", "Loader", "decode")}
	nCalls := 0
	for _, fn := range scope {
		if fn == nil {
			continue
		}
		an.EachInstr(fn, func(in ssa.Instruction) {
			ci, ok := in.(ssa.CallInstruction)
			if !ok || ci.Value() == nil {
				return
			}
			if an.ErrResultIndex(ci.Common().Signature()) < 0 {
				return
			}
			name := an.ShortCallee(ci.Common())
			if name == "fmt.Errorf" || name == "errors.New" {
				return // constructors: the value's fate is that of the return it feeds
			}
			key := an.Short(fn) + ":err(" + name + ")"
			if why, ok := exempt[name]; ok {
				c.Note("C17.2", key, in.Pos(), "exempt: %s", why)
				return
			}
			nCalls++
			fate := p.ErrFate(ci, noReturn)
			c.Site("C17.2", key+" "+fate.Kind)
			switch fate.Kind {
			case "propagated", "converted", "fatal":
				c.OK("C17.2", key, in.Pos(), "%s", fate.Kind)
			case "undecided":
				c.Und("C17.2", key, in.Pos(), "cannot decide: %s", fate.Detail)
			default:
				c.Bad("C17.2", key, in.Pos(), "the error of %s is dropped in %s: %s — a broken import or file would be skipped silently and the configuration would be partial", name, an.Short(fn), fate.Detail)
			}
		})
	}
	if nCalls < 5 {
		c.Und("C17.2", "config:error-sites", token.NoPos, "only %d error-returning calls found in the loading functions", nCalls)
	}

	// a broken import fails the load also for the callers that tolerate "no configuration file": the
	// tolerated sentinel never stands for the absence of an imported file
	toleratedSentinels(c, "C17.2", true)

	// C17.3 (call sites in load itself or in a helper of the package it calls; values are followed through helper parameters)
	importScope := p.Reach([]*ssa.Function{ld}, func(e an.CallEdge) bool {
		return an.Outer(e.Callee).Pkg == ld.Pkg && e.Callee != ldir && e.Callee != ld
	})
	stopAtFile := func(x ssa.Value) bool { return x == ssa.Value(ld.Params[1]) }
	isDirOfImporter := func(v ssa.Value) (bool, string) {
		srcs := p.DeepSourcesStop(v, 3, true, stopAtFile)
		if len(srcs) == 0 {
			return false, an.FieldProv(v)
		}
		for _, s := range srcs {
			call, ok := s.(*ssa.Call)
			if !ok || (an.ShortCallee(&call.Call) != "path.Dir" && an.ShortCallee(&call.Call) != "path/filepath.Dir") {
				return false, an.FieldProv(s)
			}
			for _, fs := range p.DeepSourcesStop(call.Call.Args[0], 3, true, stopAtFile) {
				if prm, ok := fs.(*ssa.Parameter); !ok || prm != ld.Params[1] {
					return false, "Dir(" + an.FieldProv(fs) + ")"
				}
			}
		}
		return true, ""
	}
	// decided on the traces of the functions that follow imports (helpers that resolve an entry are
	// inlined, the name passed on is mapped back to what it denotes): where the entry is a URL it is
	// loaded as given; otherwise what is loaded is Join(Dir(<importing file>), <entry>)
	type verdict struct {
		n    int
		bad  string
		site ssa.Instruction
	}
	verdicts := map[string]*verdict{}
	var vkeys []string
	nURL, nFile, nDir := 0, 0, 0
	var importers []*ssa.Function
	for g := range cycle {
		if g != ldir && g.Blocks != nil {
			importers = append(importers, g)
		}
	}
	sort.Slice(importers, func(i, j int) bool { return importers[i].String() < importers[j].String() })
	for _, g := range importers {
		if _, in := importScope[g]; !in && g != ld {
			continue
		}
		for _, world := range []int{1, 0} {
			vt.seedURL = world
			paths, exhausted := vt.trace(g, false)
			if exhausted {
				c.Und("C17.3", an.Short(g)+":import-path", g.Pos(), "the path exploration ran out of budget")
				continue
			}
			for _, path := range paths {
				for i, ev := range path {
					if ev.kind != "call" || ev.site.Parent() != g {
						continue
					}
					callees := p.Callees(ev.site.(ssa.CallInstruction).Common())
					if len(callees) != 1 || (callees[0] != ld && callees[0] != ldir) || len(ev.args) < 2 {
						continue
					}
					arg := ev.args[1]
					asGiven := false
					for j := 0; j < i; j++ {
						if path[j].kind == "url" && sameKey(path[j].key, arg) {
							asGiven = true
						}
						// (the name may have been parked in a list built by an earlier pass)
						for _, alt := range ev.alts[1] {
							if path[j].kind == "url" && sameKey(path[j].key, alt) {
								asGiven = true
							}
						}
					}
					kind := map[bool]string{true: "file", false: "dir"}[callees[0] == ld]
					if world == 1 && asGiven && callees[0] == ld {
						kind = "url"
					}
					key := an.Short(g) + ":import-path(" + kind + ")"
					v := verdicts[key]
					if v == nil {
						v = &verdict{site: ev.site}
						verdicts[key] = v
						vkeys = append(vkeys, key)
					}
					v.n++
					if kind == "url" {
						nURL++
						continue
					}
					if callees[0] == ld {
						nFile++
					} else {
						nDir++
					}
					elems := ev.joins[1]
					if len(elems) < 2 && len(ev.alts[1]) > 0 {
						// collected in an earlier pass: every value the list can hold is either the entry as given
						// (an entry that pass tested with IsURL) or Join(Dir(<importing file>), <entry>)
						for _, alt := range ev.alts[1] {
							given := false
							for j := 0; j < i; j++ {
								if path[j].kind == "url" && sameKey(path[j].key, alt) {
									given = true
								}
							}
							// (the collecting pass is a different loop: a path that skips it and enters this one is an
							// artefact of the exploration — the test is looked for in the function)
							an.EachInstr(g, func(in ssa.Instruction) {
								if uc, ok := in.(*ssa.Call); ok && an.ShortCallee(&uc.Call) == "pkg/utils.IsURL" && sameKey(uc.Call.Args[0], alt) {
									given = true
								}
							})
							if given {
								continue
							}
							jc, isJoin := alt.(*ssa.Call)
							if !isJoin || (an.ShortCallee(&jc.Call) != "path.Join" && an.ShortCallee(&jc.Call) != "path/filepath.Join") {
								v.bad = an.FieldProv(alt)
								continue
							}
							je := an.VariadicElems(jc.Call.Args[0])
							if len(je) < 2 {
								v.bad = an.FieldProv(alt)
								continue
							}
							if ok2, w := isDirOfImporter(je[0]); !ok2 {
								v.bad = "joined with " + w + " — not the directory of the file being loaded by this activation (a value kept in the loader is overwritten by nested loads)"
							}
						}
						continue
					}
					if len(elems) < 2 {
						v.bad = an.FieldProv(arg)
						continue
					}
					if ok2, w := isDirOfImporter(elems[0]); !ok2 {
						v.bad = "joined with " + w + " — not the directory of the file being loaded by this activation (a value kept in the loader is overwritten by nested loads)"
					}
				}
			}
		}
		vt.seedURL = -1
	}
	sort.Strings(vkeys)
	for _, key := range vkeys {
		v := verdicts[key]
		switch {
		case strings.HasSuffix(key, "(url)"):
			c.OK("C17.3", key, v.site.Pos(), "URL imports are loaded as given")
		default:
			kind := "file"
			if strings.HasSuffix(key, "(dir)") {
				kind = "dir"
			}
			c.Check(v.bad == "", "C17.3", key, v.site.Pos(), kind+" imports resolve against the importing file's directory", "an imported "+kind+" is not loaded from Join(Dir(<importing file>), <entry>): "+v.bad)
		}
	}
	if nURL == 0 || nFile == 0 || nDir == 0 {
		c.Und("C17.3", an.Short(ld)+":import-path", ld.Pos(), "the traces under load do not show all three kinds of import being followed (URL %d, file %d, directory %d)", nURL, nFile, nDir)
	}
	for _, site := range p.CallSitesOf(ld) {
		if site.Parent() != ldir {
			continue
		}
		// element of Glob(Join(dir, "*.yaml"))
		good := false
		for _, l := range an.Loops(ldir) {
			_, elems := l.RangeKeyValue()
			for _, e := range elems {
				if an.SameValue(site.Common().Args[1], e) {
					op := an.FieldProv(l.RangeOperand())
					if strings.HasPrefix(op, "filepath.Glob()#0") {
						good = true
					}
				}
			}
		}
		pat := ""
		for _, ci := range an.CallsIn(ldir, "path/filepath.Glob") {
			pat = an.FieldProv(ci.Common().Args[0])
		}
		good = good && strings.Contains(pat, "param:"+ldir.Params[1].Name()) && strings.Contains(pat, `"*.yaml"`)
		c.Check(good, "C17.3", an.Short(ldir)+":entries", site.Pos(), "a directory import loads the matches of <dir>/*.yaml", "loadDir does not load the elements of Glob(Join(dir, \"*.yaml\")): pattern "+pat)
	}

	// C17.4 (helpers of the package that wrap the merge are inlined; the loaded map and the target are followed by identity)
	isMerge := func(in ssa.Instruction) (*ssa.Call, bool) {
		mc, ok := in.(*ssa.Call)
		if !ok {
			return nil, false
		}
		switch an.ShortCallee(&mc.Call) {
		case "github.com/imdario/mergo.Merge", "github.com/imdario/mergo.Map", "github.com/imdario/mergo.MergeWithOverwrite":
			return mc, true
		}
		return nil, false
	}
	mergeDst := map[*ssa.Function][]ssa.Value{}
	listDone := map[*ssa.BasicBlock]bool{}
	for _, fn := range []*ssa.Function{ld, ldir} {
		fn := fn
		for _, callee := range []*ssa.Function{ld, ldir} {
			for _, site := range p.CallSitesOf(callee) {
				if site.Parent() != fn {
					continue
				}
				call, ok := site.(*ssa.Call)
				if !ok {
					continue
				}
				loop := an.InnermostLoop(an.Loops(fn), call.Block())
				if loop == nil {
					c.Und("C17.4", an.Short(fn)+":merge("+an.Short(callee)+")", call.Pos(), "the recursive load is not inside the import loop")
					continue
				}
				// the list the loop goes over belongs to this activation: the loop body re-enters load, so a list
				// whose storage hangs off the Loader (a reused scratch buffer) is rewritten by the nested file's
				// imports while the importer is still half way through its own
				if rng := loop.RangeOperand(); rng != nil && !listDone[loop.Header] {
					listDone[loop.Header] = true
					shared := ""
					srcs := map[ssa.Value]bool{}
					for _, src := range p.DeepSources(rng, 3, false) {
						srcs[src] = true
						if fp := an.FieldProv(src); strings.HasPrefix(fp, "Loader.") {
							shared = "comes from " + fp
						}
					}
					an.EachInstr(fn, func(in ssa.Instruction) {
						st, ok := in.(*ssa.Store)
						if !ok {
							return
						}
						fa, ok := st.Addr.(*ssa.FieldAddr)
						if !ok || !strings.HasPrefix(an.TypeField(fa), "Loader.") {
							return
						}
						if _, isSlice := st.Val.Type().Underlying().(*types.Slice); !isSlice {
							return
						}
						for _, s2 := range p.DeepSources(st.Val, 3, false) {
							if srcs[s2] {
								shared = "is kept in " + an.TypeField(fa)
							}
						}
					})
					c.Check(shared == "", "C17.4", an.Short(fn)+":import-list-private", loop.Header.Instrs[0].Pos(), "the list the import loop goes over is not shared with the Loader", "the list the import loop goes over "+shared+": the loop body loads nested files through the same Loader, which rewrite the list while it is being iterated — imports of the importing file are skipped or replaced by the nested file's")
				}
				res := extractOf(call, 0)
				ex := &an.Explorer{P: p, NoReturn: noReturn, MaxDepth: 2,
					Inline: func(f *ssa.Function) bool { return an.Outer(f).Pkg == fn.Pkg && f != ld && f != ldir }}
				loop.Bound(ex)
				ex.Atom = func(v ssa.Value) (an.AVal, bool) {
					for _, e := range errOf(call) {
						if v == e {
							return an.AVal{K: an.ANil}, true
						}
					}
					return an.AVal{}, false
				}
				ex.Effect = func(in ssa.Instruction, st *an.State) string {
					mc, ok := isMerge(in)
					if !ok {
						return ""
					}
					mergeDst[fn] = append(mergeDst[fn], st.Root(mc.Call.Args[0]))
					// source operand carries the loaded map
					for _, cand := range []ssa.Value{mc.Call.Args[1], st.Root(mc.Call.Args[1])} {
						for _, src := range an.Sources(cand) {
							for _, r := range res {
								if src == r {
									return "merge(loaded)"
								}
							}
						}
					}
					return "merge(other)"
				}
				outs := ex.RunFrom(fn, call, nil)
				bad := ""
				for _, o := range outs {
					if o.End == "stop" && o.StopBlock == loop.Header {
						has := false
						for _, e := range o.Effects {
							if e == "merge(loaded)" {
								has = true
							}
						}
						if !has {
							bad = "the loop goes on to the next import without merging the map that was just loaded"
						}
					}
				}
				if len(outs) == 0 {
					bad = "no path"
				}
				key := an.Short(fn) + ":merge(" + an.Short(callee) + ")"
				if bad != "" {
					c.Bad("C17.4", key, call.Pos(), "%s", bad)
				} else {
					c.OK("C17.4", key, call.Pos(), "the loaded map is merged before the next import (%d paths)", len(outs))
				}
			}
		}
	}
	// the merge target is what the function returns
	for _, fn := range []*ssa.Function{ld, ldir} {
		good := true
		for _, dst0 := range mergeDst[fn] {
			dst := an.Resolve(dst0)
			returned := false
			for _, ret := range an.Returns(fn) {
				for _, src := range an.Sources(an.RetVal(ret, 0)) {
					if u, ok := src.(*ssa.UnOp); ok && u.X == dst {
						returned = true
					}
					if src == dst {
						returned = true
					}
				}
			}
			// dst is &config (an Alloc cell) or a MakeInterface of it
			if !returned {
				// accept: dst is the address of the cell whose load is returned
				for _, ret := range an.Returns(fn) {
					rv := an.RetVal(ret, 0)
					if u, ok := rv.(*ssa.UnOp); ok {
						for _, d := range an.Sources(dst0) {
							if d == u.X {
								returned = true
							}
						}
					}
				}
			}
			if !returned {
				good = false
			}
		}
		c.Check(good, "C17.4", an.Short(fn)+":merge-target", fn.Pos(), "imports are merged into the map the function returns", "imports are merged into a map that is not the one returned")
	}

	// C17.5
	var gsite, lsite ssa.CallInstruction
	for _, g := range []*ssa.Function{glob, globAPI} {
		if g == nil {
			continue
		}
		for _, s := range p.CallSitesOf(g) {
			if s.Parent() == load {
				gsite = s
			}
		}
	}
	for _, s := range p.CallSitesOf(ld) {
		if s.Parent() == load {
			lsite = s
		}
	}
	_ = lsite
	loadPipeline(c, "C17.5", load, map[string]bool{"global-first": true}, false)
	if gsite != nil {
		fate := p.ErrFate(gsite, noReturn)
		c.Check(fate.Kind == "propagated" || fate.Kind == "converted", "C17.5", an.Short(load)+":err(LoadGlobalConfig)", gsite.Pos(), "a broken global configuration fails the load", "a broken global configuration is ignored: "+fate.Detail)
	}
	configVariablesFlow(c, "C17.5")
}
