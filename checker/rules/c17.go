package rules

import (
	"fmt"
	"go/token"
	"strings"

	"golang.org/x/tools/go/ssa"

	"taskverif/an"
)

func init() { register("C17", checkC17) }

func checkC17(c *an.Ctx) {
	c.Rule("C17.1", "guard dominates recursion (E3): every call from load/loadDir to load/loadDir is dominated by the false outcome of imports[k] on the very key passed on; load marks imports[file] before it reads the file or recurses; the imports set is replaced only by reset, at the start of Load")
	c.Rule("C17.2", "errors propagate (E7): every error-returning call in load, loadDir, readFile, readURL, unmarshalData, decode, Load, LoadGlobalConfig is propagated or wrapped (exempt, with reasons: mime.ParseMediaType, url.Parse, mapstructure.NewDecoder)")
	c.Rule("C17.3", "path provenance (E5): a file import is loaded from path.Join(path.Dir(<importing file>), <entry>); a directory import from the elements of filepath.Glob(filepath.Join(dir, \"*.yaml\"))")
	c.Rule("C17.4", "nothing loaded is discarded (E3): after a recursive load succeeded, the returned map is merged (mergo.Merge into the importer's map, error propagated) before the loop goes on")
	c.Rule("C17.5", "global + project (E3/E5): Load loads the global configuration first, both are merged into Loader.dst, and variables are merged explicitly (= C10.2)")
	c.NotDecided = append(c.NotDecided, "what mergo does with conflicting keys", "remote imports (no network is touched)", "'each taken once' beyond the guard (merging a map with itself is library behaviour)")
	p := c.P
	ld := p.Func("internal/config", "Loader", "load")
	ldir := p.Func("internal/config", "Loader", "loadDir")
	load := p.Func("internal/config", "Loader", "Load")
	glob := p.Func("internal/config", "Loader", "LoadGlobalConfig")
	if ld == nil || ldir == nil || load == nil || glob == nil {
		c.Und("C17.0", "config.(*Loader).load", token.NoPos, "load / loadDir / Load / LoadGlobalConfig not found")
		return
	}
	isImports := func(v ssa.Value) bool { return an.FieldProv(v) == "Loader.imports" }

	// C17.1
	nRec := 0
	for _, callee := range []*ssa.Function{ld, ldir} {
		for _, site := range p.CallSitesOf(callee) {
			if site.Parent() != ld && site.Parent() != ldir {
				continue
			}
			nRec++
			k := site.Common().Args[1]
			guarded := false
			for _, g := range an.Guards(site.Block()) {
				lk, ok := g.Cond.(*ssa.Lookup)
				if !ok || !isImports(lk.X) {
					continue
				}
				if !g.Outcome && (an.SameValue(lk.Index, k) || an.Prov(lk.Index) == an.Prov(k)) {
					guarded = true
				}
			}
			key := fmt.Sprintf("%s:call(%s)", an.Short(site.Parent()), an.Short(callee))
			c.Check(guarded, "C17.1", key, site.Pos(), "recursive load guarded by !imports[key] on the key passed on", "a recursive load of "+an.Prov(k)+" is not guarded by the visited set on that key: an import cycle through this site never terminates (or a file is loaded twice)")
		}
	}
	if nRec == 0 {
		c.Und("C17.1", an.Short(ld)+":recursion", ld.Pos(), "load/loadDir never load an import")
	}
	// mark before read
	var mark *ssa.MapUpdate
	an.EachInstr(ld, func(in ssa.Instruction) {
		if mu, ok := in.(*ssa.MapUpdate); ok && isImports(mu.Map) && an.SameValue(mu.Key, ld.Params[1]) {
			if k, ok := mu.Value.(*ssa.Const); ok && k.Value != nil && k.Value.ExactString() == "true" {
				mark = mu
			}
		}
	})
	if mark == nil {
		c.Bad("C17.1", an.Short(ld)+":mark", ld.Pos(), "load does not mark the file it is about to read as visited: a file importing itself (directly or through others) is loaded again and again")
	} else {
		good := true
		for _, name := range []string{"(*internal/config.Loader).readFile", "(*internal/config.Loader).readURL", "(*internal/config.Loader).load", "(*internal/config.Loader).loadDir"} {
			for _, ci := range an.CallsIn(ld, name) {
				if !an.Dominates(mark, ci) {
					good = false
				}
			}
		}
		c.Check(good, "C17.1", an.Short(ld)+":mark", mark.Pos(), "the file is marked visited before it is read and before any import is followed", "the visited mark does not precede reading the file / following its imports")
	}
	// every entry into load is marked: callers other than load/loadDir pass through the mark too (it is in load itself)
	// imports replaced only by reset
	reset := p.Func("internal/config", "Loader", "reset")
	for _, fn := range p.Funcs {
		an.EachInstr(fn, func(in ssa.Instruction) {
			st, ok := in.(*ssa.Store)
			if !ok {
				return
			}
			fa, ok := st.Addr.(*ssa.FieldAddr)
			if !ok || an.TypeField(fa) != "Loader.imports" {
				return
			}
			fresh, _ := an.FreshBase(fa.X)
			atStart := false
			if fn == load {
				// reset written inline: it must come before anything is loaded
				atStart = true
				for _, name := range []string{"(*internal/config.Loader).load", "(*internal/config.Loader).LoadGlobalConfig"} {
					for _, ci := range an.CallsIn(load, name) {
						if !an.Dominates(st, ci) {
							atStart = false
						}
					}
				}
			}
			c.Check(fn == reset || fresh || atStart, "C17.1", an.Short(fn)+":write(Loader.imports)", st.Pos(), "the visited set is replaced only at the start of Load / by the constructor", "the visited set is replaced in "+an.Short(fn)+": marks are lost in the middle of a load")
		})
	}
	if reset != nil {
		for _, site := range p.CallSitesOf(reset) {
			okSite := site.Parent() == load
			if okSite {
				for _, ci := range p.CallSitesOf(ld) {
					if ci.Parent() == load && !an.Dominates(site, ci) {
						okSite = false
					}
				}
			}
			c.Check(okSite, "C17.1", an.Short(site.Parent())+":call(reset)", site.Pos(), "reset runs once, at the start of Load", "the visited set is reset elsewhere than at the start of Load")
		}
	}

	// C17.2
	exempt := map[string]string{
		"mime.ParseMediaType": "an unparsable content type falls back to the URL's extension",
		"net/url.Parse":       "an unparsable URL falls back to the default extension",
		"github.com/mitchellh/mapstructure.NewDecoder": "constant decoder configuration",
	}
	scope := []*ssa.Function{ld, ldir, load, glob,
		p.Func("internal/config", "Loader", "readFile"), p.Func("internal/config", "Loader", "readURL"),
		p.Func("internal/config", "Loader", "unmarshalData"), p.Func("internal/config", "Loader", "decode")}
	nCalls := 0
	for _, fn := range scope {
		if fn == nil {
			continue
		}
		an.EachInstr(fn, func(in ssa.Instruction) {
			ci, ok := in.(ssa.CallInstruction)
			if !ok || ci.Value() == nil {
				return
			}
			if an.ErrResultIndex(ci.Common().Signature()) < 0 {
				return
			}
			name := an.ShortCallee(ci.Common())
			if name == "fmt.Errorf" || name == "errors.New" {
				return // constructors: the value's fate is that of the return it feeds
			}
			key := an.Short(fn) + ":err(" + name + ")"
			if why, ok := exempt[name]; ok {
				c.Note("C17.2", key, in.Pos(), "exempt: %s", why)
				return
			}
			nCalls++
			fate := p.ErrFate(ci, noReturn)
			c.Site("C17.2", key+" "+fate.Kind)
			switch fate.Kind {
			case "propagated", "converted", "fatal":
				c.OK("C17.2", key, in.Pos(), "%s", fate.Kind)
			case "undecided":
				c.Und("C17.2", key, in.Pos(), "cannot decide: %s", fate.Detail)
			default:
				c.Bad("C17.2", key, in.Pos(), "the error of %s is dropped in %s: %s — a broken import or file would be skipped silently and the configuration would be partial", name, an.Short(fn), fate.Detail)
			}
		})
	}
	if nCalls < 5 {
		c.Und("C17.2", "config:error-sites", token.NoPos, "only %d error-returning calls found in the loading functions", nCalls)
	}

	// C17.3 (call sites in load itself or in a helper of the package it calls; values are followed through helper parameters)
	importScope := p.Reach([]*ssa.Function{ld}, func(e an.CallEdge) bool {
		return an.Outer(e.Callee).Pkg == ld.Pkg && e.Callee != ldir && e.Callee != ld
	})
	stopAtFile := func(x ssa.Value) bool { return x == ssa.Value(ld.Params[1]) }
	isDirOfImporter := func(v ssa.Value) (bool, string) {
		srcs := p.DeepSourcesStop(v, 3, true, stopAtFile)
		if len(srcs) == 0 {
			return false, an.FieldProv(v)
		}
		for _, s := range srcs {
			call, ok := s.(*ssa.Call)
			if !ok || (an.ShortCallee(&call.Call) != "path.Dir" && an.ShortCallee(&call.Call) != "path/filepath.Dir") {
				return false, an.FieldProv(s)
			}
			for _, fs := range p.DeepSourcesStop(call.Call.Args[0], 3, true, stopAtFile) {
				if prm, ok := fs.(*ssa.Parameter); !ok || prm != ld.Params[1] {
					return false, "Dir(" + an.FieldProv(fs) + ")"
				}
			}
		}
		return true, ""
	}
	nPathSites := 0
	for _, target := range []*ssa.Function{ld, ldir} {
		for _, site := range p.CallSitesOf(target) {
			g := site.Parent()
			if _, in := importScope[g]; !in {
				continue
			}
			nPathSites++
			k := site.Common().Args[1]
			// URL imports pass the entry itself; file imports pass Join(Dir(file), entry)
			isURLBranch := false
			for _, gd := range an.Guards(site.Block()) {
				if call, ok := gd.Cond.(*ssa.Call); ok && an.ShortCallee(&call.Call) == "pkg/utils.IsURL" && gd.Outcome {
					isURLBranch = true
				}
			}
			kind := map[bool]string{true: "file", false: "dir"}[target == ld]
			key := an.Short(g) + ":import-path"
			if isURLBranch && target == ld {
				c.OK("C17.3", key+"(url)", site.Pos(), "URL imports are loaded as given")
				continue
			}
			good, why := true, ""
			for _, src := range p.DeepSourcesStop(k, 3, true, stopAtFile) {
				call, ok := src.(*ssa.Call)
				if !ok || (an.ShortCallee(&call.Call) != "path.Join" && an.ShortCallee(&call.Call) != "path/filepath.Join") {
					good, why = false, an.FieldProv(src)
					continue
				}
				elems := an.VariadicElems(call.Call.Args[0])
				if len(elems) < 2 {
					good, why = false, an.FieldProv(src)
					continue
				}
				if ok2, w := isDirOfImporter(elems[0]); !ok2 {
					good, why = false, "joined with "+w+" — not the directory of the file being loaded by this activation (a value kept in the loader is overwritten by nested loads)"
				}
			}
			c.Check(good, "C17.3", key+"("+kind+")", site.Pos(), kind+" imports resolve against the importing file's directory", "an imported "+kind+" is not loaded from Join(Dir(<importing file>), <entry>): "+why)
		}
	}
	if nPathSites < 3 {
		c.Und("C17.3", an.Short(ld)+":import-path", ld.Pos(), "only %d recursive load sites found under load (URL, file and directory imports expected)", nPathSites)
	}
	for _, site := range p.CallSitesOf(ld) {
		if site.Parent() != ldir {
			continue
		}
		// element of Glob(Join(dir, "*.yaml"))
		good := false
		for _, l := range an.Loops(ldir) {
			_, elems := l.RangeKeyValue()
			for _, e := range elems {
				if an.SameValue(site.Common().Args[1], e) {
					op := an.FieldProv(l.RangeOperand())
					if strings.HasPrefix(op, "filepath.Glob()#0") {
						good = true
					}
				}
			}
		}
		pat := ""
		for _, ci := range an.CallsIn(ldir, "path/filepath.Glob") {
			pat = an.FieldProv(ci.Common().Args[0])
		}
		good = good && strings.Contains(pat, "param:"+ldir.Params[1].Name()) && strings.Contains(pat, `"*.yaml"`)
		c.Check(good, "C17.3", an.Short(ldir)+":entries", site.Pos(), "a directory import loads the matches of <dir>/*.yaml", "loadDir does not load the elements of Glob(Join(dir, \"*.yaml\")): pattern "+pat)
	}

	// C17.4 (helpers of the package that wrap the merge are inlined; the loaded map and the target are followed by identity)
	isMerge := func(in ssa.Instruction) (*ssa.Call, bool) {
		mc, ok := in.(*ssa.Call)
		if !ok {
			return nil, false
		}
		switch an.ShortCallee(&mc.Call) {
		case "github.com/imdario/mergo.Merge", "github.com/imdario/mergo.Map", "github.com/imdario/mergo.MergeWithOverwrite":
			return mc, true
		}
		return nil, false
	}
	mergeDst := map[*ssa.Function][]ssa.Value{}
	for _, fn := range []*ssa.Function{ld, ldir} {
		fn := fn
		for _, callee := range []*ssa.Function{ld, ldir} {
			for _, site := range p.CallSitesOf(callee) {
				if site.Parent() != fn {
					continue
				}
				call, ok := site.(*ssa.Call)
				if !ok {
					continue
				}
				loop := an.InnermostLoop(an.Loops(fn), call.Block())
				if loop == nil {
					c.Und("C17.4", an.Short(fn)+":merge("+an.Short(callee)+")", call.Pos(), "the recursive load is not inside the import loop")
					continue
				}
				res := extractOf(call, 0)
				ex := &an.Explorer{P: p, NoReturn: noReturn, MaxDepth: 2,
					Inline: func(f *ssa.Function) bool { return an.Outer(f).Pkg == fn.Pkg && f != ld && f != ldir }}
				loop.Bound(ex)
				ex.Atom = func(v ssa.Value) (an.AVal, bool) {
					for _, e := range errOf(call) {
						if v == e {
							return an.AVal{K: an.ANil}, true
						}
					}
					return an.AVal{}, false
				}
				ex.Effect = func(in ssa.Instruction, st *an.State) string {
					mc, ok := isMerge(in)
					if !ok {
						return ""
					}
					mergeDst[fn] = append(mergeDst[fn], st.Root(mc.Call.Args[0]))
					// source operand carries the loaded map
					for _, cand := range []ssa.Value{mc.Call.Args[1], st.Root(mc.Call.Args[1])} {
						for _, src := range an.Sources(cand) {
							for _, r := range res {
								if src == r {
									return "merge(loaded)"
								}
							}
						}
					}
					return "merge(other)"
				}
				outs := ex.RunFrom(fn, call, nil)
				bad := ""
				for _, o := range outs {
					if o.End == "stop" && o.StopBlock == loop.Header {
						has := false
						for _, e := range o.Effects {
							if e == "merge(loaded)" {
								has = true
							}
						}
						if !has {
							bad = "the loop goes on to the next import without merging the map that was just loaded"
						}
					}
				}
				if len(outs) == 0 {
					bad = "no path"
				}
				key := an.Short(fn) + ":merge(" + an.Short(callee) + ")"
				if bad != "" {
					c.Bad("C17.4", key, call.Pos(), "%s", bad)
				} else {
					c.OK("C17.4", key, call.Pos(), "the loaded map is merged before the next import (%d paths)", len(outs))
				}
			}
		}
	}
	// the merge target is what the function returns
	for _, fn := range []*ssa.Function{ld, ldir} {
		good := true
		for _, dst0 := range mergeDst[fn] {
			dst := an.Resolve(dst0)
			returned := false
			for _, ret := range an.Returns(fn) {
				for _, src := range an.Sources(an.RetVal(ret, 0)) {
					if u, ok := src.(*ssa.UnOp); ok && u.X == dst {
						returned = true
					}
					if src == dst {
						returned = true
					}
				}
			}
			// dst is &config (an Alloc cell) or a MakeInterface of it
			if !returned {
				// accept: dst is the address of the cell whose load is returned
				for _, ret := range an.Returns(fn) {
					rv := an.RetVal(ret, 0)
					if u, ok := rv.(*ssa.UnOp); ok {
						for _, d := range an.Sources(dst0) {
							if d == u.X {
								returned = true
							}
						}
					}
				}
			}
			if !returned {
				good = false
			}
		}
		c.Check(good, "C17.4", an.Short(fn)+":merge-target", fn.Pos(), "imports are merged into the map the function returns", "imports are merged into a map that is not the one returned")
	}

	// C17.5
	var gsite, lsite ssa.CallInstruction
	for _, s := range p.CallSitesOf(glob) {
		if s.Parent() == load {
			gsite = s
		}
	}
	for _, s := range p.CallSitesOf(ld) {
		if s.Parent() == load {
			lsite = s
		}
	}
	_ = lsite
	loadPipeline(c, "C17.5", load, map[string]bool{"global-first": true}, false)
	if gsite != nil {
		fate := p.ErrFate(gsite, noReturn)
		c.Check(fate.Kind == "propagated" || fate.Kind == "converted", "C17.5", an.Short(load)+":err(LoadGlobalConfig)", gsite.Pos(), "a broken global configuration fails the load", "a broken global configuration is ignored: "+fate.Detail)
	}
	configVariablesFlow(c, "C17.5")
}
