package rules

import (
	"go/token"

	"golang.org/x/tools/go/ssa"

	"taskverif/an"
)

// The two adjacency relations of an execution graph, found by what the exported accessors return rather than by
// field names: "from" is what ExecutionGraph.From(name) hands out (the stages that depend on name), "to" what
// ExecutionGraph.To(name) hands out (the stages name depends on). A relation lives either in a map of lists of
// its own (`g.from[name]`) or in one field of a struct-valued map shared by both (`g.edges[name].out`).

type edgeLoc struct {
	mapField string // field of ExecutionGraph holding the map
	sub      int    // field of the map's struct value holding the list, -1 when the map value is the list
}

type edgeRoles struct {
	loc map[string]edgeLoc // "from", "to"
}

var edgeRolesCache = map[*an.Prog]*edgeRoles{}

func resolveEdgeRoles(p *an.Prog) *edgeRoles {
	if r, ok := edgeRolesCache[p]; ok {
		return r
	}
	r := &edgeRoles{loc: map[string]edgeLoc{}}
	edgeRolesCache[p] = r
	for _, acc := range []struct{ name, role string }{{"From", "from"}, {"To", "to"}} {
		f := p.Func("pkg/scheduler", "ExecutionGraph", acc.name)
		if f == nil || f.Blocks == nil {
			continue
		}
		for _, ret := range an.Returns(f) {
			if loc, _, ok := edgeListRead(an.ContentOf(an.RetVal(ret, 0))); ok {
				r.loc[acc.role] = loc
			}
		}
	}
	// fallback: the names of today's tree
	for _, role := range []string{"from", "to"} {
		if _, ok := r.loc[role]; !ok {
			r.loc[role] = edgeLoc{mapField: role, sub: -1}
		}
	}
	return r
}

// edgeListRead: v is a list read from an edge map of an execution graph — m[k] or m[k].f with m a field of an
// ExecutionGraph. It returns where the list lives and the key.
func edgeListRead(v ssa.Value) (edgeLoc, ssa.Value, bool) {
	sub := -1
	if fld, ok := v.(*ssa.Field); ok {
		sub, v = fld.Field, fld.X
	}
	if ex, ok := v.(*ssa.Extract); ok && ex.Index == 0 {
		v = ex.Tuple
	}
	lk, ok := v.(*ssa.Lookup)
	if !ok {
		return edgeLoc{}, nil, false
	}
	ap := an.AccessPath(lk.X)
	if ap.LastField() == "" || ap.Base == nil || !an.TypeIs(ap.Base.Type(), "pkg/scheduler", "ExecutionGraph") {
		return edgeLoc{}, nil, false
	}
	return edgeLoc{mapField: ap.LastField(), sub: sub}, lk.Index, true
}

// roleOf names the relation kept at loc ("" when it is neither).
func (r *edgeRoles) roleOf(loc edgeLoc) string {
	for role, l := range r.loc {
		if l == loc {
			return role
		}
	}
	return ""
}

// isEdgeMapField: the field of ExecutionGraph named f holds one of the relations.
func (r *edgeRoles) isEdgeMapField(f string) bool {
	for _, l := range r.loc {
		if l.mapField == f {
			return true
		}
	}
	return false
}

// edgeUpdate is one list written by a map update on an edge map.
type edgeUpdate struct {
	role string    // "from" / "to" ("" for a sub-field that is neither)
	key  ssa.Value // the map key
	val  ssa.Value // the new list
	base ssa.Value // the list it was built from when val is append(base, …) (nil otherwise)
	loc  edgeLoc
}

// edgeUpdates decodes mu, a map update on an edge map of an execution graph. With a struct-valued map the value
// stored is a local struct that was loaded from the map, had one or both lists replaced, and is stored back: every
// replaced list is reported; lists not replaced travel unchanged and are not.
func (r *edgeRoles) edgeUpdates(mu *ssa.MapUpdate) []edgeUpdate {
	ap := an.AccessPath(mu.Map)
	if ap.LastField() == "" || ap.Base == nil || !r.isEdgeMapField(ap.LastField()) {
		return nil
	}
	mapField := ap.LastField()
	var out []edgeUpdate
	plain := edgeLoc{mapField: mapField, sub: -1}
	if r.roleOf(plain) != "" {
		return []edgeUpdate{{role: r.roleOf(plain), key: mu.Key, val: mu.Value, loc: plain}}
	}
	// struct value: `tmp := m[k]; tmp.f = …; m[k] = tmp`
	ld, ok := mu.Value.(*ssa.UnOp)
	if !ok || ld.Op != token.MUL {
		return []edgeUpdate{{role: "", key: mu.Key, val: mu.Value, loc: plain}}
	}
	cell, ok := ld.X.(*ssa.Alloc)
	if !ok || cell.Referrers() == nil {
		return []edgeUpdate{{role: "", key: mu.Key, val: mu.Value, loc: plain}}
	}
	for _, ref := range *cell.Referrers() {
		switch x := ref.(type) {
		case *ssa.Store:
			if x.Addr != ssa.Value(cell) {
				continue
			}
			// the initial value: must be the entry of the same map (any key: the caller compares keys)
			if loc, _, ok := edgeListRead(x.Val); !ok || loc.mapField != mapField || loc.sub != -1 {
				out = append(out, edgeUpdate{role: "", key: mu.Key, val: x.Val, loc: plain})
			}
		case *ssa.FieldAddr:
			if x.Referrers() == nil {
				continue
			}
			for _, r2 := range *x.Referrers() {
				st, ok := r2.(*ssa.Store)
				if !ok || st.Addr != ssa.Value(x) || !an.Dominates(st, mu) {
					continue
				}
				loc := edgeLoc{mapField: mapField, sub: x.Field}
				out = append(out, edgeUpdate{role: r.roleOf(loc), key: mu.Key, val: st.Val, loc: loc})
			}
		}
	}
	return out
}

// staleEntry: the struct stored back by mu was read from the map before another update of the same map that
// comes before mu — `a, b := m[x], m[y]; …; m[x], m[y] = a, b` loses the first update when x == y (a self-edge).
func staleEntry(mu *ssa.MapUpdate) bool {
	ld, ok := mu.Value.(*ssa.UnOp)
	if !ok || ld.Op != token.MUL {
		return false
	}
	cell, ok := ld.X.(*ssa.Alloc)
	if !ok || cell.Referrers() == nil {
		return false
	}
	mapField := an.AccessPath(mu.Map).LastField()
	var read ssa.Instruction
	for _, ref := range *cell.Referrers() {
		if st, ok := ref.(*ssa.Store); ok && st.Addr == ssa.Value(cell) {
			v := st.Val
			if ex, ok := v.(*ssa.Extract); ok {
				v = ex.Tuple
			}
			if lk, ok := v.(*ssa.Lookup); ok {
				read = lk
			}
		}
	}
	if read == nil {
		return false
	}
	stale := false
	an.EachInstr(mu.Parent(), func(in ssa.Instruction) {
		other, ok := in.(*ssa.MapUpdate)
		if !ok || other == mu || an.AccessPath(other.Map).LastField() != mapField {
			return
		}
		if an.Dominates(read, other) && an.Dominates(other, mu) {
			stale = true
		}
	})
	return stale
}

// entryKeyOf: for a struct-valued edge map, the key with which the local struct stored by mu was read.
func entryKeyOf(mu *ssa.MapUpdate) ssa.Value {
	ld, ok := mu.Value.(*ssa.UnOp)
	if !ok || ld.Op != token.MUL {
		return nil
	}
	cell, ok := ld.X.(*ssa.Alloc)
	if !ok || cell.Referrers() == nil {
		return nil
	}
	for _, ref := range *cell.Referrers() {
		if st, ok := ref.(*ssa.Store); ok && st.Addr == ssa.Value(cell) {
			if _, key, ok := edgeListRead(st.Val); ok {
				return key
			}
		}
	}
	return nil
}

// appendBase: v is append(b, …); it returns where b was read from when that is a list of an edge map (through a
// load of a field of a local struct read from the map as well).
func appendBaseRead(b ssa.Value) (edgeLoc, ssa.Value, bool) {
	b = an.Resolve(b)
	if loc, key, ok := edgeListRead(b); ok {
		return loc, key, true
	}
	// *(&tmp.f) with tmp := m[k]
	if ld, ok := b.(*ssa.UnOp); ok && ld.Op == token.MUL {
		if fa, ok := ld.X.(*ssa.FieldAddr); ok {
			if cell, ok := fa.X.(*ssa.Alloc); ok && cell.Referrers() != nil {
				for _, ref := range *cell.Referrers() {
					if st, ok := ref.(*ssa.Store); ok && st.Addr == ssa.Value(cell) {
						if loc, key, ok := edgeListRead(st.Val); ok && loc.sub == -1 {
							return edgeLoc{mapField: loc.mapField, sub: fa.Field}, key, true
						}
					}
				}
			}
		}
	}
	return edgeLoc{}, nil, false
}
