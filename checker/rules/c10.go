package rules

import (
	"fmt"
	"go/token"
	"go/types"
	"sort"
	"strings"

	"golang.org/x/tools/go/ssa"

	"taskverif/an"
)

func init() { register("C10", checkC10) }

func checkC10(c *an.Ctx) {
	c.Rule("C10.1", "variable chain (E5): at every job the template variables are layered runner (= configuration + --set + built-ins) < task < stage; --set is applied to the loaded configuration's container after Load; Root, TempDir, Args, ArgsList are written into that base container; ARGS comes from Args and survives every replacement of the runner's env")
	c.Rule("C10.2", "configuration variables survive loading (E5): Config.merge has an explicit flow src.Variables → dst.Variables (mergo.Merge never overwrites the pre-populated field), and buildFromDefinition merges the definition's variables over the defaults")
	c.Rule("C10.3", "`--` (E2/E4): taskArgs returns the unchanged tail of the arguments after `--`; every target loop leaves the loop on `--` before dispatching anything")
	c.Rule("C10.5", "late resolution (E5 provenance): a loop that renders the values of a variable set in place (ranges over Container.Map(), RenderString on the value, Set of the result) works only on a container that is the fresh result of a Merge — the layered set built for one compilation — never on a container that is held in a field of the runner or the configuration: resolving a lower level alone would freeze references to names that a task or a stage defines later")
	c.Rule("C10.4", "undefined variables (E3): RenderString executes a template built with option missingkey=error; in Execute the rendering of the command dominates the interpreter call and its error returns first; likewise the job dir in CompileCommand; the template is executed over the variable map RenderString was given")
	c.Summaries = append(c.Summaries, "github.com/imdario/mergo v0.3.8 Merge without WithOverride never overwrites a destination field that is non-zero; NewConfig initialises Config.Variables")
	c.NotDecided = append(c.NotDecided, "urfave/cli's own treatment of `--`", "two `--` in one command line (taskArgs keeps what follows the last one: observation)", "text/template semantics of missingkey=error (trusted)")
	p := c.P
	r := resolveRunner(c, "C10.0")
	if !r.ok {
		return
	}
	c.OK("C10.0", "runner roles", r.run.Pos(), "ok")
	ccr := resolveCmdCompiler(p)
	cc := ccr.fn
	if cc == nil {
		c.Und("C10.0", "runner.(*TaskCompiler).CompileCommand", token.NoPos, "not found")
		return
	}
	cfg := chainCfg(p)
	cfg.ParamDepth = 3

	// C10.1: Job.Vars in CompileCommand
	// (a store of its own, or a functional option handed to the job's constructor)
	var varsStore *fieldGiven
	if given := fieldsGivenIn(p, cc, "Job.Vars"); len(given) > 0 {
		varsStore = &given[len(given)-1]
	}
	if varsStore == nil {
		c.Und("C10.1", an.Short(cc)+":Job.Vars", cc.Pos(), "CompileCommand does not set Job.Vars")
		return
	}
	// per caller: bind vars from that caller
	local := chainCfg(p)
	local.Leaf = func(v ssa.Value) (an.Chain, bool) {
		if ccr.spec != nil && ccr.isRole(v, "vars") {
			return an.Chain{{Kind: "param", Label: "param:vars"}}, true
		}
		return nil, false
	}
	for _, site := range compileCommandSites(c, r) {
		key := an.Short(site.fn) + ":CompileCommand(" + site.kind + "):vars"
		argChains := cfg.Chains(ccr.arg1(site.call, "vars"))
		base := local.Chains(varsStore.val) // [TaskCompiler.variables < param:vars]
		for _, b := range base {
			for _, a := range argChains {
				var full an.Chain
				for _, l := range b {
					if l.Label == "param:vars" {
						full = append(full, a...)
					} else {
						full = append(full, l)
					}
				}
				eff := full.Effective()
				var bad []string
				for _, l := range eff {
					if l.Kind == "unknown" || l.Kind == "param" {
						bad = append(bad, "layer of unknown provenance "+l.Label)
					}
				}
				if site.kind == "condition" {
					c.Note("C10.1", key, site.call.Pos(), "the condition job's variables are %s (outside the statement's clauses)", eff)
					continue
				}
				if !eff.Before("TaskRunner.variables", "Task.Variables") {
					bad = append(bad, "task variables must be above the runner's (configuration, --set, built-ins)")
				}
				if eff.Has("TaskCompiler.variables") && !eff.Before("TaskCompiler.variables", "Task.Variables") {
					bad = append(bad, "task variables must be above the compiler's base variables")
				}
				for _, l := range eff {
					if strings.HasSuffix(l.Label, ".Env") {
						bad = append(bad, "an env container is used as template variables: "+l.Label)
					}
					// the levels are configuration (+ --set + built-ins, = the runner's and the compiler's base
					// container), task and stage: a container of any other origin among them puts a level of its
					// own into the precedence
					if l.Kind == "field" || l.Kind == "map" {
						switch l.Label {
						case "TaskCompiler.variables", "TaskRunner.variables", "Task.Variables", "Stage.Variables":
						default:
							bad = append(bad, "a level that is not one of configuration/--set, task, stage takes part in the precedence: "+l.Label)
						}
					}
				}
				if len(bad) > 0 {
					c.Bad("C10.1", key+" "+eff.String(), site.call.Pos(), "variables of the %s job are layered %s: %s", site.kind, eff, strings.Join(dedup(bad), "; "))
				} else {
					c.OK("C10.1", key+" "+eff.String(), site.call.Pos(), "effective precedence %s", eff)
				}
			}
		}
	}
	// stage variables over task variables
	stageLayering(c, "C10.1")
	// the runner's variables come from the configuration + Args/ArgsList
	baseVariables(c, r, "C10.1")
	// $ARGS is the runner's env entry: nothing inherited may be layered over the runner's env
	processEnvEntry(c, "C10.1")
	stableCombinators(c, "C10.1")
	// $ARGS carries the words after `--` verbatim, '=' included
	wholeValues(c, "C10.1")

	configVariablesFlow(c, "C10.2")
	dashHandling(c, "C10.3")
	missingKey(c, r, cc, "C10.4")
	lateResolution(c, "C10.5")
	// "the task fails before that command executes": a rendering error is an error of Execute that is not an
	// exit status, and the job walk fails the task on every such error whatever allow_failure says (= C06.3)
	executeTable(c, r, "C10.4", false)

}

func baseVariables(c *an.Ctx, r *runnerRoles, rule string) {
	p := c.P
	btr, _ := runnerArgs(p)
	if btr == nil {
		c.Und(rule, "cmd/taskctl:runner-builder", token.NoPos, "no function of cmd/taskctl builds the task runner with runner.WithVariables")
		return
	}
	cfg := chainCfg(p)
	// the container handed to WithVariables
	var vars ssa.Value
	for _, ci := range an.CallsIn(btr, "pkg/runner.WithVariables") {
		vars = ci.Common().Args[0]
	}
	if vars == nil {
		c.Bad(rule, an.Short(btr)+":WithVariables", btr.Pos(), "the task runner is built without the configuration's variables")
		return
	}
	okChain := false
	for _, ch := range cfg.Chains(vars) {
		if len(ch) >= 2 && ch[0].Label == "Config.Variables" && strings.HasPrefix(ch[len(ch)-1].Label, "key:Args=") {
			okChain = true
		}
		c.Site(rule, "runner variables "+ch.String())
	}
	c.Check(okChain, rule, an.Short(btr)+":variables", btr.Pos(), "runner variables = Config.Variables with Args on top", "the runner's variables are not built from Config.Variables with Args: "+fmt.Sprint(cfg.Chains(vars)))
	// Args provenance: strings.Join(taskArgs(c), " "); ArgsList: Set on the same container with taskArgs(c)
	isTaskArgs := func(v ssa.Value) bool {
		ok, _, _ := argsTail(p, v)
		return ok
	}
	argsOK, listOK := false, false
	an.EachInstr(btr, func(in ssa.Instruction) {
		call, ok := in.(*ssa.Call)
		if !ok {
			return
		}
		if cc, ok := an.IsCallTo(call, fnWith); ok {
			if k, _ := an.ConstString(cc.Args[0]); k == "Args" {
				for _, src := range an.Sources(cc.Args[1]) {
					if j, ok := src.(*ssa.Call); ok && an.ShortCallee(&j.Call) == "strings.Join" && isTaskArgs(j.Call.Args[0]) {
						if sep, _ := an.ConstString(j.Call.Args[1]); sep == " " {
							argsOK = true
						}
					}
				}
			}
		}
		if cc, ok := an.IsCallTo(call, fnSet); ok {
			if k, _ := an.ConstString(cc.Args[0]); k == "ArgsList" && an.SameValue(cc.Value, vars) && isTaskArgs(cc.Args[1]) {
				listOK = true
			}
		}
	})
	c.Check(argsOK, rule, an.Short(btr)+":Args", btr.Pos(), "Args = the words after `--` joined by one blank", "Args is not strings.Join(taskArgs(c), \" \")")
	c.Check(listOK, rule, an.Short(btr)+":ArgsList", btr.Pos(), "ArgsList = the words after `--`, set on the runner's variables", "ArgsList is not set from taskArgs(c) on the container handed to the runner")
	// WithVariables stores into TaskRunner.variables and the compiler's variables
	wv := p.Func("pkg/runner", "", "WithVariables")
	if wv != nil {
		fieldsSet := map[string]bool{}
		for _, fn := range an.WithAnon(wv) {
			an.EachInstr(fn, func(in ssa.Instruction) {
				if st, ok := in.(*ssa.Store); ok {
					if fa, ok := st.Addr.(*ssa.FieldAddr); ok {
						for _, src := range an.Sources(st.Val) {
							if src == ssa.Value(wv.Params[0]) {
								fieldsSet[an.TypeField(fa)] = true
							}
						}
					}
				}
			})
		}
		c.Check(fieldsSet["TaskRunner.variables"], rule, an.Short(wv)+":stores", wv.Pos(), "WithVariables installs the container as the runner's variables", "WithVariables does not set TaskRunner.variables")
	}
	// ARGS in the runner env from variables["Args"]
	ntr := p.Func("pkg/runner", "", "NewTaskRunner")
	if ntr != nil {
		good := false
		an.EachInstr(ntr, func(in ssa.Instruction) {
			st, ok := in.(*ssa.Store)
			if !ok {
				return
			}
			fa, ok := st.Addr.(*ssa.FieldAddr)
			if !ok || an.TypeField(fa) != "TaskRunner.env" {
				return
			}
			for _, ch := range chainCfg(p).Chains(st.Val) {
				for _, l := range ch {
					c.Site(rule, "runner env layer "+l.Label)
					if strings.Contains(l.Label, "ARGS=Get(TaskRunner.variables,\"Args\")") {
						good = true
					}
				}
			}
		})
		c.Check(good, rule, an.Short(ntr)+":ARGS", ntr.Pos(), "$ARGS is the runner variable Args", "the runner env does not define ARGS from the runner variable Args")
		// … and stays there for every later target: any other function that replaces the runner's env stores a
		// container derived from the one it replaces (With/Merge on it) or one that defines ARGS again
		var derived func(v ssa.Value, depth int) bool
		derived = func(v ssa.Value, depth int) bool {
			if depth > 4 {
				return false
			}
			for _, src := range an.Sources(v) {
				if an.FieldProv(src) == "TaskRunner.env" {
					return true
				}
				if mi, ok := src.(*ssa.MakeInterface); ok && derived(mi.X, depth+1) {
					return true
				}
				call, ok := src.(*ssa.Call)
				if !ok {
					continue
				}
				cc := call.Common()
				if cc.IsInvoke() {
					if derived(cc.Value, depth+1) {
						return true
					}
					continue
				}
				if len(cc.Args) > 0 && an.InModule(cc.StaticCallee()) && derived(cc.Args[0], depth+1) {
					return true
				}
			}
			return false
		}
		for _, fn := range p.Funcs {
			if fn == ntr || !an.InModule(fn) || fn.Blocks == nil {
				continue
			}
			an.EachInstr(fn, func(in ssa.Instruction) {
				st, ok := in.(*ssa.Store)
				if !ok {
					return
				}
				fa, ok := st.Addr.(*ssa.FieldAddr)
				if !ok || an.TypeField(fa) != "TaskRunner.env" {
					return
				}
				if fresh, _ := an.FreshBase(fa.X); fresh {
					return // a runner under construction
				}
				keeps := derived(st.Val, 0)
				if !keeps {
					for _, ch := range chainCfg(p).Chains(st.Val) {
						for _, l := range ch {
							if strings.Contains(l.Label, "ARGS=Get(TaskRunner.variables,\"Args\")") {
								keeps = true
							}
						}
					}
				}
				c.Check(keeps, rule, an.Short(fn)+":replaces(TaskRunner.env)", st.Pos(), "the new runner env is derived from the old one (ARGS stays defined)", an.Short(fn)+" replaces the runner's env by a container that is not derived from it: $ARGS, defined once at construction, is gone for everything that runs afterwards")
			})
		}
	}
	// --set and Root / TempDir
	// (the Set call is found anywhere in cmd/taskctl: fed by StringSlice("set") through helpers, after Load on every way in)
	app := p.Func("cmd/taskctl", "", "makeApp")
	if app != nil {
		found := false
		var afterLoad func(site ssa.Instruction, depth int) bool
		afterLoad = func(site ssa.Instruction, depth int) bool {
			fn := site.Parent()
			for _, ci := range an.CallsIn(fn, "(internal/config.Loader).Load") {
				if an.Dominates(ci, site) {
					return true
				}
			}
			if depth == 0 {
				return false
			}
			sites := p.CallSitesOf(fn)
			if len(sites) == 0 {
				return false
			}
			for _, cs := range sites {
				if _, isCall := cs.(*ssa.Call); !isCall || !afterLoad(cs, depth-1) {
					return false
				}
			}
			return true
		}
		for _, fn := range p.Funcs {
			if !inPkgs("cmd/taskctl")(fn) {
				continue
			}
			an.EachInstr(fn, func(in ssa.Instruction) {
				call, ok := in.(*ssa.Call)
				if !ok {
					return
				}
				cc, ok := an.IsCallTo(call, fnSet)
				if !ok {
					return
				}
				// Set fed by StringSlice("set")
				fed := false
				for _, l := range an.Loops(fn) {
					if !l.Blocks[call.Block()] || l.RangeOperand() == nil {
						continue
					}
					for _, src := range p.DeepSources(l.RangeOperand(), 3, true) {
						if sc, ok := src.(*ssa.Call); ok && strings.HasSuffix(an.ShortCallee(&sc.Call), "cli/v2.Context).StringSlice") {
							if k, _ := an.ConstString(sc.Call.Args[len(sc.Call.Args)-1]); k == "set" {
								fed = true
							}
						}
					}
				}
				if !fed {
					return
				}
				found = true
				recv := an.FieldProv(cc.Value)
				after := afterLoad(call, 3)
				c.Check(recv == "Config.Variables" && after, rule, "cmd/taskctl:--set", call.Pos(), "--set writes into the loaded configuration's variables, after Load", fmt.Sprintf("--set is not applied to Config.Variables after the configuration is loaded (receiver %s, after Load=%v)", recv, after))
			})
		}
		if !found {
			c.Bad(rule, "cmd/taskctl:--set", app.Pos(), "--set is never applied to the configuration's variables")
		}
	}
	load := p.Func("internal/config", "Loader", "Load")
	if load != nil {
		good := false
		for _, ci := range an.CallsIn(load, fnSet) {
			cc := ci.Common()
			if k, _ := an.ConstString(cc.Args[0]); k == "Root" && an.FieldProv(cc.Value) == "Config.Variables" {
				// on the success path: dominates the successful return
				for _, ret := range an.Returns(load) {
					if an.Dominates(ci, ret) && an.IsNilConst(an.RetVal(ret, 1)) {
						good = true
					}
				}
			}
		}
		c.Check(good, rule, an.Short(load)+":Root", load.Pos(), "Root is set on the loaded configuration's variables on the success path", "Load does not define Root on its success path")
	}
	dv := p.Func("internal/config", "", "defaultConfigVariables")
	nc := p.Func("internal/config", "", "NewConfig")
	if dv != nil && nc != nil {
		good := false
		for _, ch := range chainCfg(p).Chains(an.RetVal(an.Returns(dv)[0], 0)) {
			for _, l := range ch {
				if strings.Contains(l.Label, "TempDir=") {
					good = true
				}
			}
		}
		used := false
		an.EachInstr(nc, func(in ssa.Instruction) {
			if st, ok := in.(*ssa.Store); ok {
				if fa, ok := st.Addr.(*ssa.FieldAddr); ok && an.TypeField(fa) == "Config.Variables" {
					for _, src := range an.Sources(st.Val) {
						if call, ok := src.(*ssa.Call); ok {
							for _, callee := range p.Callees(&call.Call) {
								if callee == dv {
									used = true
								}
							}
						}
					}
				}
			}
		})
		c.Check(good && used, rule, an.Short(nc)+":TempDir", nc.Pos(), "every configuration starts with TempDir defined", "NewConfig does not define TempDir")
	}
}

func configVariablesFlow(c *an.Ctx, rule string) {
	p := c.P
	mg := p.Func("internal/config", "Config", "merge")
	if mg == nil {
		c.Und(rule, "config.(*Config).merge", token.NoPos, "merge not found")
		return
	}
	cfg := chainCfg(p)
	good := false
	var seen []string
	for _, st := range an.StoresToField(mg, mg.Params[0], "Variables") {
		for _, ch := range cfg.Chains(st.Val) {
			seen = append(seen, ch.String())
			hasSrc := false
			srcLast := false
			for i, l := range ch {
				if l.Label == "Config.Variables" && l.Base == mg.Params[1].Name() {
					hasSrc = true
					srcLast = i == len(ch)-1
				}
			}
			if hasSrc && srcLast {
				good = true
			}
		}
	}
	c.Check(good, rule, an.Short(mg)+":Variables", mg.Pos(), "the source configuration's variables are merged into the destination explicitly, source on top",
		fmt.Sprintf("Config.merge has no explicit flow from src.Variables to the destination's Variables (stores seen: %v); mergo.Merge alone keeps the destination's pre-populated container, so variables defined in configuration files are dropped", seen))
	// the explicit merge reads the destination's own container: the reflective merge before it must not have
	// replaced that field (library summary: mergo.Merge leaves a non-empty destination field alone unless it is
	// given WithOverride / it is one of the …WithOverwrite variants)
	for _, ci := range an.CallsIn(mg, "github.com/imdario/mergo.Merge", "github.com/imdario/mergo.Map", "github.com/imdario/mergo.MergeWithOverwrite", "github.com/imdario/mergo.MapWithOverwrite") {
		name := an.ShortCallee(ci.Common())
		overriding := strings.HasSuffix(name, "WithOverwrite")
		args := ci.Common().Args
		if len(args) > 2 {
			elems := an.VariadicElems(args[2])
			// options forwarded from the callers of merge (`opts ...func(*mergo.Config)`): what every caller passes
			for _, src := range an.Sources(args[2]) {
				prm, ok := src.(*ssa.Parameter)
				if !ok || prm.Parent() != mg {
					continue
				}
				idx := paramIndexOf(mg, prm)
				for _, site := range p.CallSitesOf(mg) {
					cc := site.Common()
					if idx >= 0 && idx < len(cc.Args) {
						elems = append(elems, an.VariadicElems(cc.Args[idx])...)
					}
				}
			}
			for _, e := range elems {
				if e == nil {
					continue
				}
				for _, src := range an.Sources(e) {
					if oc, ok := src.(*ssa.Call); ok {
						on := an.ShortCallee(&oc.Call)
						if strings.Contains(on, "WithOverride") || strings.Contains(on, "WithOverwrite") {
							overriding = true
						}
					} else if ofn, ok := src.(*ssa.Function); ok && (strings.Contains(ofn.Name(), "WithOverride") || strings.Contains(ofn.Name(), "WithOverwrite")) {
						overriding = true
					}
				}
			}
		}
		c.Check(!overriding, rule, an.Short(mg)+":mergo-keeps-destination", ci.Pos(), "the reflective merge does not replace the destination's populated fields", "Config.merge lets mergo override the destination's fields: the destination's Variables container is replaced by the source's before the explicit merge reads it, so the variables of the configuration loaded earlier (the global one) are lost")
	}
	// called for both global and project configuration, before Load returns
	load := p.Func("internal/config", "Loader", "Load")
	glob, _ := globalLoader(p)
	bfd := p.Func("internal/config", "", "buildFromDefinition")
	// (decided on the Load trace: wherever the phases are called from)
	if load != nil {
		loadPipeline(c, rule, load, map[string]bool{"merge": true}, false)
	}
	if glob != nil {
		loadPipeline(c, rule, glob, map[string]bool{"merge": true}, true)
	}
	if bfd != nil {
		good := false
		// (in buildFromDefinition or in a helper of the package it calls)
		for f := range p.Reach([]*ssa.Function{bfd}, func(e an.CallEdge) bool { return e.Kind == an.EdgeCall && an.Outer(e.Callee).Pkg == bfd.Pkg }) {
			an.EachInstr(f, func(in ssa.Instruction) {
				st, ok := in.(*ssa.Store)
				if !ok {
					return
				}
				fa, ok := st.Addr.(*ssa.FieldAddr)
				if !ok || an.TypeField(fa) != "Config.Variables" {
					return
				}
				for _, ch := range cfg.Chains(st.Val) {
					if len(ch) > 0 && ch[len(ch)-1].Label == "map:configDefinition.Variables" {
						good = true
					}
				}
			})
		}
		c.Check(good, rule, an.Short(bfd)+":Variables", bfd.Pos(), "the definition's variables are merged over the defaults", "buildFromDefinition does not merge the definition's variables into the configuration")
	}
}

// argsTail classifies v as "the words after `--`": every source of v (looked
// through the helpers of cmd/taskctl) is nil or a plain sub-slice
// Args().Slice()[k+1:]. It returns the functions holding those slices.
func argsTail(p *an.Prog, v ssa.Value) (ok bool, why string, homes []*ssa.Function) {
	n := 0
	ok = true
	for _, src := range p.DeepSources(v, 3, false) {
		if an.IsNilConst(src) {
			continue
		}
		sl, isSl := src.(*ssa.Slice)
		if !isSl {
			// the cut may be made by a helper in another package of the module that is handed the words
			if call, isCall := src.(*ssa.Call); isCall {
				if callee := call.Call.StaticCallee(); callee != nil && an.InModule(callee) && callee.Blocks != nil && callee != call.Parent() {
					sub := true
					for _, ret := range an.Returns(callee) {
						okR, whyR, homesR := argsTail(p, an.RetVal(ret, 0))
						if !okR {
							sub, why = false, whyR
						}
						homes = append(homes, homesR...)
					}
					if sub && len(an.Returns(callee)) > 0 {
						n++
						continue
					}
					return false, why, nil
				}
			}
			return false, an.Prov(src), nil
		}
		isArgs := false
		// (the words may reach the function that cuts them as a parameter: what its callers pass)
		_, viaParam := an.Resolve(sl.X).(*ssa.Parameter)
		for _, s2 := range p.DeepSources(sl.X, 3, viaParam) {
			if call, ok := s2.(*ssa.Call); ok && strings.HasSuffix(an.ShortCallee(&call.Call), "cli/v2.Args).Slice") {
				isArgs = true
			}
			if isArgsSlice(s2) {
				isArgs = true
			}
		}
		if !isArgs || sl.High != nil {
			return false, "slice of " + an.Prov(sl.X), nil
		}
		// low bound: index of a "--" element + 1
		lowOK := false
		if bo, isBo := sl.Low.(*ssa.BinOp); isBo && bo.Op == token.ADD {
			if k, isK := an.ConstInt(bo.Y); isK && k == 1 {
				lowOK = true
			}
		}
		if !lowOK {
			return false, "low bound " + an.Prov(sl.Low), nil
		}
		n++
		homes = append(homes, sl.Parent())
	}
	if n == 0 {
		return false, "no sub-slice of the command-line arguments", nil
	}
	return ok, "", homes
}

// runnerArgs finds the function of cmd/taskctl that builds the task runner
// (it calls runner.WithVariables) and the value it joins into the Args variable.
func runnerArgs(p *an.Prog) (btr *ssa.Function, joined ssa.Value) {
	for _, fn := range p.Funcs {
		if inPkgs("cmd/taskctl")(fn) && len(an.CallsIn(fn, "pkg/runner.WithVariables")) > 0 {
			btr = fn
		}
	}
	if btr == nil {
		return nil, nil
	}
	an.EachInstr(btr, func(in ssa.Instruction) {
		call, ok := in.(*ssa.Call)
		if !ok {
			return
		}
		if cc, ok := an.IsCallTo(call, fnWith); ok {
			if k, _ := an.ConstString(cc.Args[0]); k == "Args" {
				for _, src := range an.Sources(cc.Args[1]) {
					if j, ok := src.(*ssa.Call); ok && an.ShortCallee(&j.Call) == "strings.Join" {
						joined = j.Call.Args[0]
					}
				}
			}
		}
	})
	return btr, joined
}

func dashHandling(c *an.Ctx, rule string) {
	p := c.P
	_, joined := runnerArgs(p)
	if joined == nil {
		c.Und(rule, "cmd/taskctl:args-tail", token.NoPos, "the value joined into the runner variable Args was not found")
		return
	}
	good, why, homes := argsTail(p, joined)
	c.Check(good, rule, "cmd/taskctl:args-tail", joined.Pos(), "the task arguments are the unchanged tail of the command line after a `--` element", "the task arguments are not a plain sub-slice after `--`: "+why)
	// the index it uses is that of an element equal to "--"
	eq := false
	for _, h := range homes {
		an.EachInstr(h, func(in ssa.Instruction) {
			if v, isV := in.(ssa.Value); isV {
				if _, lit, isEq, ok := dashTest(v); ok && isEq && lit == "--" {
					eq = true
				}
			}
		})
	}
	c.Check(eq || !good, rule, "cmd/taskctl:args-tail:marker", joined.Pos(), "the split point is an argument equal to `--`", "nothing looks for an argument equal to `--`")

	// target loops
	disp := dispatchers(p)
	n := 0
	for _, fn := range p.Funcs {
		if !inPkgs("cmd/taskctl")(fn) {
			continue
		}
		for _, l := range argLoops(p, fn) {
			dispatches := false
			for b := range l.Blocks {
				for _, in := range b.Instrs {
					if ci, ok := in.(ssa.CallInstruction); ok {
						for _, callee := range p.Callees(ci.Common()) {
							if disp[callee] {
								dispatches = true
							}
						}
					}
				}
			}
			if !dispatches {
				continue
			}
			n++
			if _, cutBy := argLoopOf(p, l); cutBy != nil {
				c.OK(rule, an.Short(fn)+":target-loop(--)", fn.Pos(), "the list the loop ranges over is cut at the first `--` by %s (verified: it returns args[:index of `--`], or args)", an.Short(cutBy))
				continue
			}
			_, elems := l.RangeKeyValue()
			ex := &an.Explorer{P: p, NoReturn: noReturn}
			l.Bound(ex)
			sawTest := false
			ex.Atom = func(v ssa.Value) (an.AVal, bool) {
				x, s, isEq, ok := dashTest(v)
				if !ok {
					return an.AVal{}, false
				}
				isElem := false
				for _, e := range elems {
					if an.SameValue(x, e) {
						isElem = true
					}
				}
				if !isElem {
					return an.AVal{}, false
				}
				if s == "--" {
					sawTest = true
					return an.ABool(isEq), true
				}
				return an.ABool(!isEq), true // the element is "--", so it differs from any other literal
			}
			ex.Effect = func(in ssa.Instruction, st *an.State) string {
				if ci, ok := in.(ssa.CallInstruction); ok {
					for _, callee := range p.Callees(ci.Common()) {
						if disp[callee] {
							return "dispatch"
						}
					}
					if strings.Contains(an.ShortCallee(ci.Common()), "Tasks[") {
						return ""
					}
				}
				if lk, ok := in.(*ssa.Lookup); ok {
					for _, e := range elems {
						if an.SameValue(lk.Index, e) {
							return "lookup"
						}
					}
				}
				return ""
			}
			outs := ex.Run(fn, l.BodyEntry(), l.Header, nil)
			bad := ""
			for _, o := range outs {
				for _, e := range o.Effects {
					if e == "dispatch" {
						bad = "`--` is dispatched as a target"
					}
					if e == "lookup" {
						bad = "`--` is looked up as a task name"
					}
				}
				if o.End == "stop" && o.StopBlock == l.Header {
					bad = "the loop goes on to the words after `--`, which are task arguments, not targets"
				}
			}
			if !sawTest {
				bad = "the loop never compares an argument with `--`"
			}
			key := an.Short(fn) + ":target-loop(--)"
			if bad != "" {
				c.Bad(rule, key, fn.Pos(), "target loop over the command-line arguments: %s", bad)
			} else {
				c.OK(rule, key, fn.Pos(), "on `--` the loop ends without dispatching it (%d paths)", len(outs))
			}
		}
	}
	if n == 0 {
		c.Und(rule, "cmd/taskctl:target-loops", token.NoPos, "no target loop found")
	}
}

func missingKey(c *an.Ctx, r *runnerRoles, cc *ssa.Function, rule string) {
	p := c.P
	// nothing defines a variable behind the user's back: the command compiler writes no name into a variables
	// container it was handed (its vars/env parameters, the compiler's own base set) — a name pre-defined as ""
	// there is defined for every later command compiled against the same container, which then renders an
	// undefined variable as empty
	{
		bad := false
		nSets := 0
		for _, f := range an.WithAnon(cc) {
			an.EachInstr(f, func(in ssa.Instruction) {
				call, ok := in.(*ssa.Call)
				if !ok {
					return
				}
				sc, ok := an.IsCallTo(call, fnSet, "(pkg/variables.Variables).Set")
				if !ok {
					return
				}
				nSets++
				recv := sc.Value
				if !sc.IsInvoke() {
					recv = sc.Args[0]
				}
				for _, src := range p.DeepSources(recv, 2, true) {
					shared := ""
					switch x := src.(type) {
					case *ssa.Parameter:
						shared = "its parameter " + x.Name()
					case *ssa.UnOp:
						if fa, ok := x.X.(*ssa.FieldAddr); ok {
							shared = "the container held in " + an.TypeField(fa)
						}
					}
					if shared != "" {
						bad = true
						c.Bad(rule, an.Short(cc)+":Set("+an.Prov(recv)+")", call.Pos(), "the command compiler defines a variable in %s, a container it shares with the commands compiled before and after this one: a name given a value here (an empty default, say) is no longer undefined for them", shared)
					}
				}
			})
		}
		if !bad {
			c.OK(rule, an.Short(cc)+":no-implicit-definitions", cc.Pos(), "the command compiler sets no variable in a container it was handed (%d Set calls looked at)", nSets)
		}
	}
	rs := p.Func("pkg/utils", "", "RenderString")
	if rs == nil {
		c.Und(rule, "utils.RenderString", token.NoPos, "RenderString not found")
		return
	}
	// every Template.Execute in RenderString is on a template that went through Option("missingkey=error")
	n := 0
	// (the rendering may be split into helpers of pkg/utils: every Execute under RenderString counts)
	rsScope := p.Reach([]*ssa.Function{rs}, func(e an.CallEdge) bool { return e.Kind == an.EdgeCall && an.Outer(e.Callee).Pkg == rs.Pkg })
	var execs []ssa.CallInstruction
	for f := range rsScope {
		execs = append(execs, an.CallsIn(f, "(*text/template.Template).Execute")...)
	}
	sort.Slice(execs, func(i, j int) bool { return execs[i].Pos() < execs[j].Pos() })
	var returnedUpTo func(ci ssa.CallInstruction, depth int) (bool, string)
	returnedUpTo = func(ci ssa.CallInstruction, depth int) (bool, string) {
		fate := p.ErrFate(ci, noReturn)
		if fate.Kind != "propagated" && fate.Kind != "converted" {
			return false, fate.Detail
		}
		f := an.Outer(ci.Parent())
		if f == rs {
			return true, ""
		}
		if depth == 0 {
			return false, "helper chain too deep"
		}
		sites := p.CallSitesOf(f)
		if len(sites) == 0 {
			return false, an.Short(f) + " has no caller"
		}
		for _, cs := range sites {
			if _, in := rsScope[an.Outer(cs.Parent())]; !in {
				continue
			}
			if ok, why := returnedUpTo(cs, depth-1); !ok {
				return false, why
			}
		}
		return true, ""
	}
	for _, ci := range execs {
		n++
		recv := ci.Common().Args[0]
		okOpt := false
		seen := map[ssa.Value]bool{}
		var walk func(v ssa.Value)
		walk = func(v ssa.Value) {
			if v == nil || seen[v] {
				return
			}
			seen[v] = true
			// (a template prepared by a helper of pkg/utils is followed into the helper)
			for _, src := range p.DeepSources(v, 3, an.Outer(ci.Parent()) != rs) {
				switch x := src.(type) {
				case *ssa.Extract:
					walk(x.Tuple)
				case *ssa.Call:
					name := an.ShortCallee(&x.Call)
					if name == "(*text/template.Template).Option" {
						for _, a := range x.Call.Args[1:] {
							// variadic: a slice literal with the constant
							for _, s2 := range an.Sources(a) {
								if sl, ok := s2.(*ssa.Slice); ok {
									if al, ok := sl.X.(*ssa.Alloc); ok {
										for _, rr := range *al.Referrers() {
											if ia, ok := rr.(*ssa.IndexAddr); ok {
												for _, st := range *ia.Referrers() {
													if sto, ok := st.(*ssa.Store); ok {
														if k, _ := an.ConstString(sto.Val); k == "missingkey=error" {
															okOpt = true
														}
													}
												}
											}
										}
									}
								}
							}
						}
					}
					if strings.HasPrefix(name, "(*text/template.Template).") && len(x.Call.Args) > 0 {
						walk(x.Call.Args[0])
					}
				}
			}
		}
		walk(recv)
		c.Check(okOpt, rule, an.Short(rs)+":missingkey=error", ci.Pos(), "the executed template was built with option missingkey=error", "RenderString executes a template without option missingkey=error: an undefined variable renders as <no value> instead of failing")
		// … over the variables it was handed: the data is RenderString's own map parameter (through helpers of the
		// package, a defensive copy counts), not a map derived from it in which one name can stand for another
		if len(ci.Common().Args) >= 3 {
			data := ci.Common().Args[2]
			own := false
			bad := ""
			isOwnParam := func(v ssa.Value) bool {
				prm, ok := v.(*ssa.Parameter)
				return ok && prm.Parent() == rs
			}
			for _, src := range p.DeepSourcesStop(data, 3, an.Outer(ci.Parent()) != rs, isOwnParam) {
				if mi, ok := src.(*ssa.MakeInterface); ok {
					src = mi.X
				}
				if !isOwnParam(src) {
					src = an.ContentOf(src)
				}
				if prm, ok := src.(*ssa.Parameter); ok && prm.Parent() == rs {
					if _, isMap := prm.Type().Underlying().(*types.Map); isMap {
						own = true
						continue
					}
				}
				bad = an.Prov(src)
			}
			c.Check(own && bad == "", rule, an.Short(rs)+":data(Execute)", ci.Pos(), "the template is executed over the variable map RenderString was given", "the template is executed over "+bad+" instead of the variable map RenderString was given: a derived map can define names the layered variables do not define, or hide ones they do")
		}
		// and Execute's error is returned
		retd, whyNot := returnedUpTo(ci, 3)
		c.Check(retd, rule, an.Short(rs)+":err(Execute)", ci.Pos(), "a rendering error is returned", "a rendering error is dropped: "+whyNot)
	}
	if n == 0 {
		c.Und(rule, an.Short(rs)+":Execute", rs.Pos(), "RenderString executes no template")
	}
	// … and nothing relaxes it again: every Template.Option under RenderString sets only missingkey=error
	// (Option mutates the template it is called on, whatever is done with its result)
	relaxed := false
	for f := range p.Reach([]*ssa.Function{rs}, func(e an.CallEdge) bool { return an.Outer(e.Callee).Pkg == rs.Pkg }) {
		for _, ci := range an.CallsIn(f, "(*text/template.Template).Option") {
			for _, a := range ci.Common().Args[1:] {
				for _, e := range an.VariadicElems(a) {
					k, isK := an.ConstString(e)
					if !isK {
						relaxed = true
						c.Bad(rule, an.Short(f)+":Option(?)", ci.Pos(), "a template option that is not a constant is applied under RenderString: missingkey may be relaxed")
						continue
					}
					if strings.HasPrefix(k, "missingkey=") && k != "missingkey=error" {
						relaxed = true
						c.Bad(rule, an.Short(f)+":Option("+k+")", ci.Pos(), "%s switches the template to %s: an undefined variable anywhere in that template renders as <no value> (or empty) instead of failing the command", an.Short(f), k)
					}
				}
			}
		}
	}
	if !relaxed {
		c.OK(rule, an.Short(rs)+":missingkey-not-relaxed", rs.Pos(), "no Template.Option under RenderString sets another missingkey mode")
	}
	// Executor.Execute: render dominates the interpreter call, error returns first
	er := resolveExec(p)
	ex := er.ex
	if ex != nil {
		var render, run ssa.CallInstruction
		for _, ci := range p.CallSitesOf(rs) {
			if er.in[ci.Parent()] {
				if an.FieldProv(ci.Common().Args[0]) == "Job.Command" {
					render = ci
				}
			}
		}
		if er.run != nil {
			run = er.run
		}
		if render == nil || run == nil {
			c.Bad(rule, an.Short(ex)+":render", ex.Pos(), "Execute does not render the job's command before running it")
		} else {
			// on the Execute trace (helpers inlined): every path that runs the interpreter rendered first,
			// and a rendering error ends Execute with an error before the interpreter runs
			order := true
			exp := er.explorer()
			exp.Effect = func(in ssa.Instruction, st *an.State) string {
				switch in {
				case ssa.Instruction(render.(*ssa.Call)):
					return "render"
				case ssa.Instruction(er.run):
					return "run"
				}
				return ""
			}
			for _, o := range exp.Run(ex, ex.Blocks[0], nil, nil) {
				seenRender := false
				for _, e := range o.Effects {
					if e == "render" {
						seenRender = true
					}
					if e == "run" && !seenRender {
						order = false
					}
				}
			}
			errOK := true
			exp2 := er.explorer()
			exp2.Atom = func(v ssa.Value) (an.AVal, bool) {
				for _, e := range errOf(render.(*ssa.Call)) {
					if v == e {
						return an.AVal{K: an.ANonNil}, true
					}
				}
				return an.AVal{}, false
			}
			exp2.Effect = exp.Effect
			nErr := 0
			for _, o := range exp2.Run(ex, ex.Blocks[0], nil, nil) {
				if !has(o.Effects, "render") {
					continue
				}
				nErr++
				if has(o.Effects, "run") || !(o.End == "return" && o.Ret[len(o.Ret)-1].K == an.ANonNil) {
					errOK = false
				}
			}
			c.Check(order && errOK && nErr > 0, rule, an.Short(ex)+":render-before-run", render.Pos(),
				"the command is rendered before the interpreter runs and a rendering error returns first", "rendering does not precede the interpreter call on every path, or a rendering error does not end Execute with an error before the interpreter runs")
			// what is parsed is the rendered text
			// (the program the interpreter runs ← Parser.Parse ← strings.NewReader ← the rendered text, looking through the helpers of pkg/executor)
			parsedOK := false
			isRendered := func(v ssa.Value) bool {
				for _, src := range p.DeepSources(v, 3, true) {
					if e, ok := src.(*ssa.Extract); ok && e.Tuple == render.Value() && e.Index == 0 {
						return true
					}
				}
				return false
			}
			if len(run.Common().Args) >= 3 {
				for _, prog := range er.sources(run.Common().Args[2]) {
					e, ok := prog.(*ssa.Extract)
					if !ok || e.Index != 0 {
						continue
					}
					parse, ok := e.Tuple.(*ssa.Call)
					if !ok || an.ShortCallee(&parse.Call) != "(*mvdan.cc/sh/v3/syntax.Parser).Parse" {
						continue
					}
					for _, rd := range p.DeepSources(parse.Call.Args[1], 3, true) {
						if nr, ok := rd.(*ssa.Call); ok && an.ShortCallee(&nr.Call) == "strings.NewReader" && isRendered(nr.Call.Args[0]) {
							parsedOK = true
						}
					}
				}
			}
			c.Check(parsedOK, rule, an.Short(ex)+":parses-rendered", render.Pos(), "the interpreter parses the rendered text", "the text handed to the shell parser is not the rendered command")
		}
	}
	// CompileCommand: dir rendering error propagates
	for _, ci := range p.CallSitesOf(rs) {
		if ci.Parent() == cc {
			fate := p.ErrFate(ci, noReturn)
			c.Check(fate.Kind == "propagated" || fate.Kind == "converted", rule, an.Short(cc)+":err(RenderString)", ci.Pos(), "an undefined variable in dir fails the compilation", "a rendering error of the job dir is dropped: "+fate.Detail)
		}
	}
}

// lateResolution checks C10.5.
func lateResolution(c *an.Ctx, rule string) {
	p := c.P
	isMapCall := func(v ssa.Value) (ssa.Value, bool) {
		for _, src := range an.Sources(v) {
			call, ok := src.(*ssa.Call)
			if !ok {
				continue
			}
			if call.Call.IsInvoke() && call.Call.Method.Name() == "Map" && an.TypeIs(call.Call.Value.Type(), "pkg/variables", "Container") {
				return call.Call.Value, true
			}
			if an.ShortCallee(&call.Call) == "(pkg/variables.Variables).Map" {
				return call.Call.Args[0], true
			}
		}
		return nil, false
	}
	n := 0
	for _, fn := range p.Funcs {
		if !an.InModule(fn) {
			continue
		}
		for _, l := range an.Loops(fn) {
			op := l.RangeOperand()
			if op == nil {
				continue
			}
			// the set that is resolved: what the loop ranges over (cont.Map()), or — when the names were collected
			// by an earlier pass — the set whose Map() the rendering is given and on which the result is Set
			cont, overMap := isMapCall(op)
			var renderParams []ssa.Value
			var setRecvs []ssa.Value
			for b := range l.Blocks {
				for _, in := range b.Instrs {
					call, ok := in.(*ssa.Call)
					if !ok {
						continue
					}
					if an.ShortCallee(&call.Call) == "pkg/utils.RenderString" {
						if m, isMap := isMapCall(call.Call.Args[1]); isMap {
							renderParams = append(renderParams, m)
						} else {
							renderParams = append(renderParams, nil)
						}
					}
					if cc, ok := an.IsCallTo(call, fnSet, "(pkg/variables.Variables).Set"); ok {
						recv := cc.Value
						if !cc.IsInvoke() {
							recv = cc.Args[0]
						}
						setRecvs = append(setRecvs, recv)
					}
				}
			}
			renders, sets := len(renderParams) > 0, false
			if !overMap {
				for _, rp := range renderParams {
					for _, sr := range setRecvs {
						if rp != nil && an.SameValue(rp, sr) {
							cont = sr
						}
					}
				}
				if cont == nil {
					continue
				}
			}
			for _, sr := range setRecvs {
				if an.SameValue(sr, cont) {
					sets = true
				}
			}
			if !renders || !sets {
				continue
			}
			n++
			key := an.Short(fn) + ":resolves-in-place"
			bad := ""
			srcs := p.DeepSources(cont, 4, true)
			if len(srcs) == 0 {
				srcs = []ssa.Value{cont}
			}
			for _, src := range srcs {
				call, ok := src.(*ssa.Call)
				if ok {
					name := an.ShortCallee(&call.Call)
					if call.Call.IsInvoke() {
						name = "(pkg/variables.Container)." + call.Call.Method.Name() // same spelling as fnMerge
					}
					if name == fnMerge || name == "(pkg/variables.Variables).Merge" {
						continue
					}
				}
				bad = an.FieldProv(src)
			}
			c.Check(bad == "", rule, key, fn.Pos(), "variable values are resolved only in the layered set a Merge built for this compilation", fmt.Sprintf("%s resolves the values of %s in place — a container that is not the fresh result of a Merge: references to names that a task or a stage defines are resolved (and stored) against the lower levels alone, so the override is never seen", an.Short(fn), bad))
		}
	}
	if n == 0 {
		c.Und(rule, "runner:variable-resolution", token.NoPos, "no loop renders the values of a variable set in place (CompileTask is expected to)")
	}
}
