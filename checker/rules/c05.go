package rules

import (
	"go/token"
	"go/types"
	"sort"

	"golang.org/x/tools/go/ssa"

	"taskverif/an"
)

func init() { register("C05", checkC05) }

// returnsSentinel reports whether fn has a return whose error result is the
// package-level sentinel named name.
func returnsSentinel(fn *ssa.Function, name string) bool {
	idx := an.ErrResultIndex(fn.Signature)
	if idx < 0 {
		return false
	}
	for _, r := range an.Returns(fn) {
		for _, v := range an.Sources(an.RetVal(r, idx)) {
			if u, ok := v.(*ssa.UnOp); ok && u.Op == token.MUL {
				if g, ok := u.X.(*ssa.Global); ok && g.Name() == name {
					return true
				}
			}
		}
	}
	return false
}

// errChain computes the functions through which an error originating in
// origins travels upwards, checking every call site on the way (E7).
func errChain(c *an.Ctx, rule string, origins []*ssa.Function, scope func(*ssa.Function) bool, exempt map[string]string) map[*ssa.Function]bool {
	return errChainX(c, rule, origins, scope, exempt, nil)
}

// errChainX is errChain with exemptions decided by role: exemptFn(caller, callee) gives the reason a call site is outside the chain.
func errChainX(c *an.Ctx, rule string, origins []*ssa.Function, scope func(*ssa.Function) bool, exempt map[string]string, exemptFn func(caller, callee *ssa.Function) string) map[*ssa.Function]bool {
	p := c.P
	chain := map[*ssa.Function]bool{}
	var work []*ssa.Function
	for _, o := range origins {
		chain[o] = true
		work = append(work, o)
	}
	for len(work) > 0 {
		f := work[0]
		work = work[1:]
		sites := p.CallSitesOf(f)
		sort.Slice(sites, func(i, j int) bool { return sites[i].Pos() < sites[j].Pos() })
		for _, site := range sites {
			caller := site.Parent()
			if scope != nil && !scope(caller) {
				continue
			}
			key := an.Short(caller) + ":err(" + an.Short(f) + ")"
			if why, ok := exempt[key]; ok {
				c.Note(rule, key, site.Pos(), "exempt: %s", why)
				continue
			}
			if exemptFn != nil {
				if why := exemptFn(caller, f); why != "" {
					c.Note(rule, key, site.Pos(), "exempt: %s", why)
					continue
				}
			}
			fate := p.ErrFate(site, noReturn)
			c.Site(rule, key+" "+fate.Kind)
			switch fate.Kind {
			case "propagated", "converted", "fatal":
				c.OK(rule, key, site.Pos(), "%s (%s)", fate.Kind, fate.Detail)
				if an.ErrResultIndex(caller.Signature) >= 0 && !chain[caller] {
					chain[caller] = true
					work = append(work, caller)
				}
			case "undecided":
				c.Und(rule, key, site.Pos(), "cannot decide what happens to the error: %s", fate.Detail)
			default:
				c.Bad(rule, key, site.Pos(), "the error of %s is dropped in %s: %s", an.Short(f), an.Short(caller), fate.Detail)
			}
		}
	}
	return chain
}

func inPkgs(suffixes ...string) func(*ssa.Function) bool {
	return func(fn *ssa.Function) bool {
		o := an.Outer(fn)
		if o.Pkg == nil {
			return false
		}
		for _, s := range suffixes {
			if o.Pkg.Pkg.Path() == an.ModulePath+"/"+s {
				return true
			}
		}
		return false
	}
}

func checkC05(c *an.Ctx) {
	c.Rule("C05.1", "the cycle error is not lost (E7): from the function that returns ErrCycleDetected every call site up to Loader.Load propagates or wraps the error; the edge recorder runs the detector on every insertion, from an endpoint of the new edge, with a mark set allocated for that insertion; buildPipeline adds every declared stage")
	c.Rule("C05.2", "exposed edges are the declared edges (= C01.5)")
	c.Rule("C05.4", "the edges checked are the edges declared (E5 provenance): every value internal/config stores into Stage.DependsOn is the definition's depends_on list as decoded (a defensive copy is looked through) — a list that was filtered, de-duplicated or expanded on the way can lose the very entry that closes a cycle (a stage naming itself, say)")
	c.Rule("C05.3", "on-path marking (E3/E4): a recursive detector that reports a cycle on meeting a marked node must un-mark the node on every non-error exit (or consult a distinct finished mark); its verdict may depend only on the adjacency map and the per-call mark set")
	c.NotDecided = append(c.NotDecided, "correctness of the detector on all graphs and declaration orders (the 'iff' is a property of an algorithm's result, not a shape fact)")
	p := c.P
	// origin: functions returning the sentinel
	var origins []*ssa.Function
	for _, fn := range p.Funcs {
		if inPkgs("pkg/scheduler")(fn) && returnsSentinel(fn, "ErrCycleDetected") {
			origins = append(origins, fn)
		}
	}
	if len(origins) == 0 {
		c.Und("C05.1", "scheduler.ErrCycleDetected:origin", token.NoPos, "no function of pkg/scheduler returns ErrCycleDetected")
		return
	}
	det := origins[0]
	c.Anchor("cycle detector", an.Short(det))
	chain := errChain(c, "C05.1", origins, inPkgs("pkg/scheduler", "internal/config"), nil)
	load := p.Func("internal/config", "Loader", "Load")
	if load == nil || !chain[load] {
		c.Bad("C05.1", "config.(*Loader).Load:chain", token.NoPos, "the cycle error does not reach Loader.Load through error-propagating calls")
	} else {
		var names []string
		for f := range chain {
			names = append(names, an.Short(f))
		}
		sort.Strings(names)
		c.OK("C05.1", "config.(*Loader).Load:chain", load.Pos(), "cycle error chain: %v", names)
	}
	detectorStarted(c, "C05.1")
	// buildPipeline adds every declared stage
	bp := p.Func("internal/config", "", "buildPipeline")
	add := p.Func("pkg/scheduler", "ExecutionGraph", "AddStage")
	if bp == nil || add == nil {
		c.Und("C05.1", "config.buildPipeline", token.NoPos, "buildPipeline / AddStage not found")
	} else {
		var loop *an.Loop
		for _, l := range an.Loops(bp) {
			op := l.RangeOperand()
			if op == nil {
				continue
			}
			for _, prm := range bp.Params {
				if an.SameValue(op, prm) {
					loop = l
				}
			}
		}
		if loop == nil {
			c.Und("C05.1", an.Short(bp)+":stage-loop", bp.Pos(), "buildPipeline does not range over its stage definitions")
		} else {
			ex := &an.Explorer{P: p, NoReturn: noReturn, MaxDepth: 3,
				Inline: func(f *ssa.Function) bool { return an.Outer(f).Pkg == bp.Pkg && f != bp }}
			loop.Bound(ex)
			ex.Effect = func(in ssa.Instruction, st *an.State) string {
				if call, ok := in.(*ssa.Call); ok {
					for _, callee := range p.Callees(&call.Call) {
						if callee == add {
							return "AddStage"
						}
					}
				}
				return ""
			}
			outs := ex.Run(bp, loop.BodyEntry(), loop.Header, nil)
			okAll := true
			for _, o := range outs {
				if o.End == "stop" && o.StopBlock == loop.Header {
					n := 0
					for _, e := range o.Effects {
						if e == "AddStage" {
							n++
						}
					}
					if n != 1 {
						okAll = false
					}
				}
			}
			c.Check(okAll && len(outs) > 0, "C05.1", an.Short(bp)+":adds-every-stage", bp.Pos(), "every iteration that goes on to the next stage definition has added exactly one stage", "a stage definition can be passed over without AddStage (or added twice)")
		}
	}

	edgeWiring(c, nil, "C05.2")

	// C05.3
	onPathMarking(c, det, "C05.3")
	declaredDependencies(c, "C05.4")
}

func onPathMarking(c *an.Ctx, det *ssa.Function, rule string) {
	p := c.P
	key := an.Short(det)
	recursive := false
	for _, site := range p.CallSitesOf(det) {
		if site.Parent() == det {
			recursive = true
		}
	}
	var marks ssa.Value
	for _, prm := range det.Params {
		if _, ok := prm.Type().Underlying().(*types.Map); ok {
			marks = prm
		}
	}
	if marks == nil {
		// the mark set may be a field of a search object: the map the detector writes constants into,
		// keyed by its own parameter
		an.EachInstr(det, func(in ssa.Instruction) {
			mu, ok := in.(*ssa.MapUpdate)
			if !ok {
				return
			}
			if _, isK := mu.Value.(*ssa.Const); !isK {
				return
			}
			for _, prm := range det.Params {
				if an.SameValue(mu.Key, prm) {
					marks = mu.Map
				}
			}
		})
	}
	if !recursive || marks == nil {
		c.Note(rule, key+":shape", det.Pos(), "the detector is not a recursive function over a mark set; on-path marking is not applicable to this implementation, C05 rests on C05.1–2")
		c.OK(rule, key+":shape", det.Pos(), "not applicable to this detector shape")
		return
	}
	// which mark values mean "on the current path": the constants written into the mark set for which a
	// lookup that yields them makes the detector return its sentinel at once
	idx0 := an.ErrResultIndex(det.Signature)
	constKey := func(k *ssa.Const) string {
		if k.Value == nil {
			return "nil"
		}
		return k.Value.ExactString()
	}
	written := map[string]*ssa.Const{}
	an.EachInstr(det, func(in ssa.Instruction) {
		if mu, ok := in.(*ssa.MapUpdate); ok && an.SameObject(mu.Map, marks) {
			if k, ok := mu.Value.(*ssa.Const); ok {
				written[constKey(k)] = k
			}
		}
	})
	cycleVals := map[string]bool{}
	for ks, k := range written {
		k := k
		ex := &an.Explorer{P: p, NoReturn: noReturn, MaxVisits: 1}
		val := an.AVal{K: an.AConst, C: k.Value}
		ex.Atom = func(v ssa.Value) (an.AVal, bool) {
			switch x := v.(type) {
			case *ssa.Lookup:
				if an.SameObject(x.X, marks) && !x.CommaOk {
					return val, true
				}
			case *ssa.Extract:
				if lk, ok := x.Tuple.(*ssa.Lookup); ok && an.SameObject(lk.X, marks) {
					if x.Index == 0 {
						return val, true
					}
					return an.ABool(true), true
				}
			}
			return an.AVal{}, false
		}
		recursed := false
		ex.Effect = func(in ssa.Instruction, st *an.State) string {
			if ci, ok := in.(ssa.CallInstruction); ok {
				for _, callee := range p.Callees(ci.Common()) {
					if callee == det {
						recursed = true
						return "recurse"
					}
				}
			}
			return ""
		}
		outs := ex.Run(det, det.Blocks[0], nil, nil)
		all := len(outs) > 0
		for _, o := range outs {
			sentinel := false
			if o.End == "return" && idx0 >= 0 && idx0 < len(o.Ret) && o.Ret[idx0].K == an.ANonNil {
				sentinel = true
			}
			if o.End == "return" && idx0 >= 0 && idx0 < len(o.RetVals) {
				for _, src := range an.Sources(o.RetVals[idx0]) {
					if u, ok := src.(*ssa.UnOp); ok {
						if _, isG := u.X.(*ssa.Global); isG {
							sentinel = true
						}
					}
				}
			}
			if !sentinel || len(o.Effects) > 0 {
				all = false
			}
		}
		_ = recursed
		if all {
			cycleVals[ks] = true
		}
	}
	// mark sites: MapUpdate marks[k] = <on-path value>
	var markSites []*ssa.MapUpdate
	an.EachInstr(det, func(in ssa.Instruction) {
		mu, ok := in.(*ssa.MapUpdate)
		if !ok || !an.SameObject(mu.Map, marks) {
			return
		}
		if k, ok := mu.Value.(*ssa.Const); ok && cycleVals[constKey(k)] {
			markSites = append(markSites, mu)
		}
	})
	if len(markSites) == 0 {
		c.Und(rule, key+":mark", det.Pos(), "the detector never marks a node in its mark set")
		return
	}
	idx := an.ErrResultIndex(det.Signature)
	for _, mk := range markSites {
		isUnmark := func(in ssa.Instruction) bool {
			switch x := in.(type) {
			case *ssa.MapUpdate:
				if an.SameObject(x.Map, marks) && an.SameValue(x.Key, mk.Key) {
					if k, ok := x.Value.(*ssa.Const); ok && !cycleVals[constKey(k)] {
						return true
					}
				}
			case ssa.CallInstruction:
				if b, ok := x.Common().Value.(*ssa.Builtin); ok && b.Name() == "delete" {
					if an.SameObject(x.Common().Args[0], marks) && an.SameValue(x.Common().Args[1], mk.Key) {
						return true
					}
				}
				// deferred closure that un-marks
				if d, ok := in.(*ssa.Defer); ok {
					for _, callee := range p.Callees(&d.Call) {
						found := false
						an.EachInstr(callee, func(y ssa.Instruction) {
							if ci, ok := y.(ssa.CallInstruction); ok {
								if b, ok := ci.Common().Value.(*ssa.Builtin); ok && b.Name() == "delete" {
									found = true
								}
							}
							if mu, ok := y.(*ssa.MapUpdate); ok {
								if k, ok := mu.Value.(*ssa.Const); ok && !cycleVals[constKey(k)] {
									found = true
								}
							}
						})
						if found {
							return true
						}
					}
				}
			}
			return false
		}
		errExit := func(b *ssa.BasicBlock) bool {
			if r, ok := b.Instrs[len(b.Instrs)-1].(*ssa.Return); ok && idx >= 0 {
				return !an.IsNilConst(an.RetVal(r, idx))
			}
			return an.IsPanicExit(b)
		}
		ok, w := an.OnAllPathsToExit(mk, isUnmark, errExit)
		if ok {
			c.OK(rule, key+":unmark", mk.Pos(), "the mark set describes the current path: every cycle-free exit clears the node's mark")
		} else {
			at := "-"
			if w != nil {
				at = p.Pos(w.Instrs[len(w.Instrs)-1].Pos())
			}
			c.Bad(rule, key+":unmark", mk.Pos(), "the detector marks a node and returns without a cycle (at %s) leaving it marked: a node reachable along two different paths (a diamond) is then reported as a cycle", at)
		}
	}
	// verdict depends only on adjacency + marks: receiver fields read
	var adj []string
	for _, l := range an.Loops(det) {
		if op := l.RangeOperand(); op != nil {
			if fld, ok := an.Resolve(op).(*ssa.Field); ok {
				// the list is one field of a struct-valued map entry: m[k].f
				op = fld.X
			}
			if lk, ok := an.Resolve(op).(*ssa.Lookup); ok {
				op = lk.X
			}
			if f := an.AccessPath(op).LastField(); f != "" {
				adj = append(adj, f)
			}
		}
	}
	bad := false
	an.EachInstr(det, func(in ssa.Instruction) {
		fa, ok := in.(*ssa.FieldAddr)
		if !ok || len(det.Params) == 0 || !an.SameValue(fa.X, det.Params[0]) {
			return
		}
		name := an.AccessPath(fa).LastField()
		for _, a := range adj {
			if a == name {
				return
			}
		}
		// a search object that carries the mark set is per-search state as a whole (its freshness per
		// insertion is C05.1's / C18.5's clause): its other fields (the edges it was given, a name for the
		// error message) are not remembered graph state
		if mf := an.AccessPath(marks).LastField(); mf != "" && len(det.Params) > 0 && an.SameValue(an.AccessPath(marks).Base, det.Params[0]) {
			return
		}
		bad = true
		c.Bad(rule, key+":reads("+name+")", fa.Pos(), "the detector consults graph state %q besides the adjacency map %v and its per-call mark set: a verdict remembered across insertions goes stale when edges are added", name, adj)
	})
	if !bad {
		c.OK(rule, key+":inputs", det.Pos(), "the verdict depends only on adjacency %v and the per-call mark set", adj)
	}
}

// declaredDependencies checks C05.4.
func declaredDependencies(c *an.Ctx, rule string) {
	declaredList(c, rule, "Stage.DependsOn", "stageDefinition.DependsOn", "the stage's dependencies", "the definition's depends_on", "an entry dropped or rewritten on the way is an edge the cycle check never sees")
}

// declaredList: what internal/config stores into target (a list field of a built object) is the list decoded into
// source (the field of the definition), unchanged — a defensive copy counts, a filter does not.
func declaredList(c *an.Ctx, rule, target, source, what, declared, consequence string) {
	p := c.P
	n := 0
	for _, fn := range p.Funcs {
		if !inPkgs("internal/config")(fn) {
			continue
		}
		an.EachInstr(fn, func(in ssa.Instruction) {
			st, ok := in.(*ssa.Store)
			if !ok {
				return
			}
			fa, ok := st.Addr.(*ssa.FieldAddr)
			if !ok || an.TypeField(fa) != target {
				return
			}
			n++
			prov := an.FieldProv(an.ContentOf(st.Val))
			good := prov == source
			if !good {
				good = true
				srcs := p.DeepSources(st.Val, 3, true)
				if len(srcs) == 0 {
					good = false
				}
				for _, src := range srcs {
					if an.FieldProv(an.ContentOf(src)) != source {
						good = false
						prov = an.FieldProv(src)
					}
				}
			}
			c.Check(good, rule, an.Short(fn)+":"+target, st.Pos(), what+" are "+declared+" as decoded", what+" are not "+declared+" list as decoded but "+prov+": "+consequence)
		})
	}
	if n == 0 {
		c.Und(rule, "config:"+target, token.NoPos, "internal/config never sets "+target)
	}
}

func declaredDependenciesOld(c *an.Ctx, rule string) {
	p := c.P
	n := 0
	for _, fn := range p.Funcs {
		if !inPkgs("internal/config")(fn) {
			continue
		}
		an.EachInstr(fn, func(in ssa.Instruction) {
			st, ok := in.(*ssa.Store)
			if !ok {
				return
			}
			fa, ok := st.Addr.(*ssa.FieldAddr)
			if !ok || an.TypeField(fa) != "Stage.DependsOn" {
				return
			}
			n++
			prov := an.FieldProv(an.ContentOf(st.Val))
			good := prov == "stageDefinition.DependsOn"
			if !good {
				// through helpers of the package that hand the list on unchanged
				good = true
				srcs := p.DeepSources(st.Val, 3, true)
				if len(srcs) == 0 {
					good = false
				}
				for _, src := range srcs {
					if an.FieldProv(an.ContentOf(src)) != "stageDefinition.DependsOn" {
						good = false
						prov = an.FieldProv(src)
					}
				}
			}
			c.Check(good, rule, an.Short(fn)+":Stage.DependsOn", st.Pos(), "the stage's dependencies are the definition's depends_on as decoded", "the stage's dependencies are not the definition's depends_on list as decoded but "+prov+": an entry dropped or rewritten on the way is an edge the cycle check never sees")
		})
	}
	if n == 0 {
		c.Und(rule, "config:Stage.DependsOn", token.NoPos, "internal/config never sets Stage.DependsOn")
	}
}
