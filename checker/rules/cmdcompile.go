package rules

import (
	"go/token"
	"go/types"
	"strings"

	"golang.org/x/tools/go/ssa"

	"taskverif/an"
)

// cmdCompiler is the role "the function of pkg/runner that turns one command
// into an executor.Job": it allocates the Job and returns (*Job, error). Its
// inputs (command, context, dir, timeout, stdin, stdout, stderr, env, vars)
// arrive either as parameters or as the fields of one struct parameter (an
// options struct). A positional wrapper that only forwards to the builder
// (an exported CompileCommand kept for API compatibility) is a second way to
// call it.
type cmdCompiler struct {
	p        *an.Prog
	fn       *ssa.Function   // the builder
	spec     *ssa.Parameter  // the options-struct parameter, or nil when the inputs are positional
	wrappers []*ssa.Function // positional functions that build a spec from their parameters and call fn
}

// ccRoleNames maps a role to the parameter / field names it may carry.
var ccRoleNames = map[string][]string{
	"command": {"command", "cmd"},
	"ctx":     {"executionCtx", "executionContext", "execContext", "ctx"},
	"dir":     {"dir"},
	"timeout": {"timeout"},
	"stdin":   {"stdin"},
	"stdout":  {"stdout"},
	"stderr":  {"stderr"},
	"env":     {"env"},
	"vars":    {"vars", "variables"},
}

var cmdCompilerCache = map[*an.Prog]*cmdCompiler{}

func resolveCmdCompiler(p *an.Prog) *cmdCompiler {
	if cc, ok := cmdCompilerCache[p]; ok {
		return cc
	}
	cc := &cmdCompiler{p: p}
	cmdCompilerCache[p] = cc
	var cands []*ssa.Function
	for _, f := range p.Funcs {
		if !inPkgs("pkg/runner")(f) || f.Parent() != nil || !resultHas(f, "pkg/executor", "Job") {
			continue
		}
		allocs := false
		an.EachInstr(f, func(in ssa.Instruction) {
			if a, ok := in.(*ssa.Alloc); ok && an.TypeIs(a.Type(), "pkg/executor", "Job") {
				allocs = true
			}
		})
		// the builder takes a command (a string input), CompileTask takes a task
		if allocs && !takes(f, "pkg/task", "Task") {
			cands = append(cands, f)
		}
	}
	if len(cands) != 1 {
		// fall back to the name
		if f := p.Func("pkg/runner", "TaskCompiler", "CompileCommand"); f != nil {
			cc.fn = f
		}
		return cc
	}
	cc.fn = cands[0]
	// an options struct: a struct-typed parameter of the package with a string field for the command
	for _, prm := range cc.fn.Params {
		st, ok := prm.Type().Underlying().(*types.Struct)
		if !ok {
			continue
		}
		if named, ok := prm.Type().(*types.Named); !ok || named.Obj().Pkg() == nil || !strings.HasSuffix(named.Obj().Pkg().Path(), "pkg/runner") {
			continue
		}
		if ccFieldIndex(st, "command") >= 0 {
			cc.spec = prm
		}
	}
	// positional wrappers: functions of the package with a *Job result that do nothing but call fn
	for _, site := range p.CallSitesOf(cc.fn) {
		w := site.Parent()
		if w == cc.fn || w.Parent() != nil || !resultHas(w, "pkg/executor", "Job") || takes(w, "pkg/task", "Task") {
			continue
		}
		nCalls := 0
		an.EachInstr(w, func(in ssa.Instruction) {
			if c2, ok := in.(*ssa.Call); ok {
				if _, isB := c2.Call.Value.(*ssa.Builtin); !isB {
					nCalls++
				}
			}
		})
		if nCalls == 1 && paramNamedAny(w, ccRoleNames["command"]) >= 0 {
			cc.wrappers = append(cc.wrappers, w)
		}
	}
	return cc
}

func ccFieldIndex(st *types.Struct, role string) int {
	for i := 0; i < st.NumFields(); i++ {
		for _, n := range ccRoleNames[role] {
			if st.Field(i).Name() == n {
				return i
			}
		}
	}
	return -1
}

func paramNamedAny(fn *ssa.Function, names []string) int {
	for _, n := range names {
		if i := paramNamed(fn, n); i >= 0 {
			return i
		}
	}
	return -1
}

// isFn reports whether f is the builder or one of its positional wrappers.
func (cc *cmdCompiler) isFn(f *ssa.Function) bool {
	if cc == nil || f == nil {
		return false
	}
	if f == cc.fn {
		return true
	}
	for _, w := range cc.wrappers {
		if w == f {
			return true
		}
	}
	return false
}

// asCall recognises a call of the builder (or of a positional wrapper).
func (cc *cmdCompiler) asCall(in ssa.Instruction) (*ssa.Call, bool) {
	call, ok := in.(*ssa.Call)
	if !ok || cc.fn == nil {
		return nil, false
	}
	callee := call.Call.StaticCallee()
	if callee == nil || !cc.isFn(callee) {
		return nil, false
	}
	// the wrapper's own forwarding call is not a site of its own
	if cc.isFn(call.Parent()) && call.Parent() != callee {
		return nil, false
	}
	return call, true
}

// isRole reports whether v, a value inside the builder, denotes the input
// `role`: the parameter, or a load of the options struct's field.
func (cc *cmdCompiler) isRole(v ssa.Value, role string) bool {
	if cc.fn == nil {
		return false
	}
	for _, r := range an.ResolveAll(v) {
		if cc.spec == nil {
			if i := paramNamedAny(cc.fn, ccRoleNames[role]); i >= 0 && r == ssa.Value(cc.fn.Params[i]) {
				return true
			}
			continue
		}
		st := cc.spec.Type().Underlying().(*types.Struct)
		idx := ccFieldIndex(st, role)
		switch x := r.(type) {
		case *ssa.UnOp:
			if fa, ok := x.X.(*ssa.FieldAddr); ok && x.Op == token.MUL && fa.Field == idx && cc.isSpec(fa.X) {
				return true
			}
		case *ssa.Field:
			if x.Field == idx && cc.isSpec(x.X) {
				return true
			}
		}
	}
	return false
}

// isSpec: v is the options-struct parameter or the local it was spilled into.
func (cc *cmdCompiler) isSpec(v ssa.Value) bool {
	if v == ssa.Value(cc.spec) {
		return true
	}
	if a, ok := v.(*ssa.Alloc); ok && a.Referrers() != nil {
		for _, r := range *a.Referrers() {
			if st, ok := r.(*ssa.Store); ok && st.Addr == ssa.Value(a) && st.Val == ssa.Value(cc.spec) {
				return true
			}
		}
	}
	return false
}

// roleType returns the static type of the role's input.
func (cc *cmdCompiler) hasRole(role string) bool {
	if cc.fn == nil {
		return false
	}
	if cc.spec == nil {
		return paramNamedAny(cc.fn, ccRoleNames[role]) >= 0
	}
	return ccFieldIndex(cc.spec.Type().Underlying().(*types.Struct), role) >= 0
}

// arg returns the values supplied for `role` at a call of the builder or of a
// wrapper: the positional argument, or what the options-struct literal (built
// at the call site, or by a helper of the package whose parameters are then
// replaced by the helper call's arguments) gives the field. A field the
// literal does not mention is its zero value and yields no value.
func (cc *cmdCompiler) arg(call *ssa.Call, role string) []ssa.Value {
	callee := call.Call.StaticCallee()
	if callee == nil {
		return nil
	}
	if callee != cc.fn || cc.spec == nil {
		i := paramNamedAny(callee, ccRoleNames[role])
		if i < 0 || i >= len(call.Call.Args) {
			return nil
		}
		return []ssa.Value{call.Call.Args[i]}
	}
	si := paramIndexOf(cc.fn, cc.spec)
	if si < 0 || si >= len(call.Call.Args) {
		return nil
	}
	idx := ccFieldIndex(cc.spec.Type().Underlying().(*types.Struct), role)
	if idx < 0 {
		return nil
	}
	return structFieldGiven(call.Call.Args[si], idx, 2)
}

// structFieldGiven resolves field idx of the struct value v to what its
// literal was given.
func structFieldGiven(v ssa.Value, idx int, depth int) []ssa.Value {
	var out []ssa.Value
	for _, src := range an.ResolveAll(v) {
		switch x := src.(type) {
		case *ssa.UnOp:
			a, ok := x.X.(*ssa.Alloc)
			if !ok || x.Op != token.MUL || a.Referrers() == nil {
				continue
			}
			for _, r := range *a.Referrers() {
				fa, ok := r.(*ssa.FieldAddr)
				if !ok || fa.Field != idx || fa.Referrers() == nil {
					continue
				}
				for _, rr := range *fa.Referrers() {
					if st, ok := rr.(*ssa.Store); ok && st.Addr == ssa.Value(fa) {
						out = append(out, st.Val)
					}
				}
			}
		case *ssa.Call:
			helper := x.Call.StaticCallee()
			if helper == nil || helper.Blocks == nil || !an.InModule(helper) || depth == 0 {
				continue
			}
			for _, ret := range an.Returns(helper) {
				for _, hv := range structFieldGiven(an.RetVal(ret, 0), idx, depth-1) {
					// a parameter of the helper: the argument of this call
					if pi := paramIndexOf(helper, hv); pi >= 0 && pi < len(x.Call.Args) {
						out = append(out, x.Call.Args[pi])
						continue
					}
					// a field of a parameter of the helper (t.Dir with t a parameter): kept as it is — rules
					// that label by type-qualified field see Task.Dir
					out = append(out, hv)
				}
			}
		}
	}
	return out
}

// arg1 is arg for roles that have exactly one supplied value.
func (cc *cmdCompiler) arg1(call *ssa.Call, role string) ssa.Value {
	vs := cc.arg(call, role)
	if len(vs) == 1 {
		return vs[0]
	}
	return nil
}

// fieldGiven is one place where a function gives a value to a field of an object it builds.
type fieldGiven struct {
	val ssa.Value       // the value, in the function's own terms
	at  ssa.Instruction // the store, or the call that carries the functional option
}

// fieldsGivenIn lists what fn gives to the struct field named typeField ("Job.Vars"): by a store of its own, or
// through a functional option — fn calls a constructor of the module whose variadic parameter is a list of
// func(*T) applied in a loop, with an element built by an option constructor whose closure stores its captured
// parameter into that field; the value is then the option constructor's argument at fn's call site.
func fieldsGivenIn(p *an.Prog, fn *ssa.Function, typeField string) []fieldGiven {
	var out []fieldGiven
	an.EachInstr(fn, func(in ssa.Instruction) {
		switch x := in.(type) {
		case *ssa.Store:
			if fa, ok := x.Addr.(*ssa.FieldAddr); ok && an.TypeField(fa) == typeField {
				out = append(out, fieldGiven{x.Val, x})
			}
		case *ssa.Call:
			app := x.Call.StaticCallee()
			if app == nil || !an.InModule(app) || app.Blocks == nil || !app.Signature.Variadic() || len(x.Call.Args) == 0 {
				return
			}
			last := app.Signature.Params().At(app.Signature.Params().Len() - 1).Type()
			sl, ok := last.Underlying().(*types.Slice)
			if !ok {
				return
			}
			optSig, ok := sl.Elem().Underlying().(*types.Signature)
			if !ok || optSig.Params().Len() != 1 || optSig.Results().Len() != 0 {
				return
			}
			// the constructor applies every option: a call of the ranged element inside a loop over the list
			applies := false
			for _, l := range an.Loops(app) {
				if op := l.RangeOperand(); op != nil && an.SameValue(op, app.Params[len(app.Params)-1]) {
					_, elems := l.RangeKeyValue()
					for b := range l.Blocks {
						for _, i2 := range b.Instrs {
							if c2, ok := i2.(*ssa.Call); ok && !c2.Call.IsInvoke() {
								for _, e := range elems {
									if an.SameValue(c2.Call.Value, e) {
										applies = true
									}
								}
							}
						}
					}
				}
			}
			if !applies {
				return
			}
			for _, el := range an.VariadicElems(x.Call.Args[len(x.Call.Args)-1]) {
				if el == nil {
					continue
				}
				for _, src := range an.Sources(el) {
					oc, ok := src.(*ssa.Call)
					if !ok {
						continue
					}
					w := oc.Call.StaticCallee()
					if w == nil || !an.InModule(w) || w.Blocks == nil {
						continue
					}
					for _, ret := range an.Returns(w) {
						rv := an.RetVal(ret, 0)
						for {
							ct, isCT := rv.(*ssa.ChangeType)
							if !isCT {
								break
							}
							rv = ct.X
						}
						mc, ok := rv.(*ssa.MakeClosure)
						if !ok {
							continue
						}
						cl, _ := mc.Fn.(*ssa.Function)
						if cl == nil || len(cl.Params) != 1 {
							continue
						}
						an.EachInstr(cl, func(i3 ssa.Instruction) {
							st, ok := i3.(*ssa.Store)
							if !ok {
								return
							}
							fa, ok := st.Addr.(*ssa.FieldAddr)
							if !ok || an.TypeField(fa) != typeField || !an.SameValue(fa.X, cl.Params[0]) {
								return
							}
							// the stored value: a captured variable of the option constructor, i.e. one of its parameters
							for _, sv := range an.ResolveAll(st.Val) {
								for k, fv := range cl.FreeVars {
									if sv != ssa.Value(fv) || k >= len(mc.Bindings) {
										continue
									}
									for _, bv := range an.ResolveAll(mc.Bindings[k]) {
										for j, prm := range w.Params {
											if bv == ssa.Value(prm) && j < len(oc.Call.Args) {
												out = append(out, fieldGiven{oc.Call.Args[j], oc})
											}
										}
									}
								}
								for j, prm := range w.Params {
									if sv == ssa.Value(prm) && j < len(oc.Call.Args) {
										out = append(out, fieldGiven{oc.Call.Args[j], oc})
									}
								}
							}
						})
					}
				}
			}
		}
	})
	return out
}
