package rules

import (
	"go/token"
	"sort"

	"golang.org/x/tools/go/ssa"

	"taskverif/an"
)

const (
	fnExecIface     = "(pkg/executor.Executor).Execute"
	fnExecDefault   = "(pkg/executor.DefaultExecutor).Execute"
	fnCompileTask   = "(pkg/runner.TaskCompiler).CompileTask"
	fnCompileCmd    = "(pkg/runner.TaskCompiler).CompileCommand"
	fnCtxUp         = "(pkg/runner.ExecutionContext).Up"
	fnCtxDown       = "(pkg/runner.ExecutionContext).Down"
	fnCtxBefore     = "(pkg/runner.ExecutionContext).Before"
	fnCtxAfter      = "(pkg/runner.ExecutionContext).After"
	fnIsExitStatus  = "pkg/executor.IsExitStatus"
	fnNewTaskOutput = "pkg/output.NewTaskOutput"
	fnOutStart      = "(pkg/output.TaskOutput).Start"
	fnOutFinish     = "(pkg/output.TaskOutput).Finish"
	fnMerge         = "(pkg/variables.Container).Merge"
	fnWith          = "(pkg/variables.Container).With"
	fnSet           = "(pkg/variables.Container).Set"
	fnFromMap       = "pkg/variables.FromMap"
)

// runnerRoles are the places of pkg/runner found by what they do. A role is
// the function that *contains* the characteristic instruction — a helper or
// TaskRunner.Run itself when the helper was inlined.
type runnerRoles struct {
	c             *an.Ctx
	p             *an.Prog
	run           *ssa.Function
	cancel        *ssa.Function
	finish        *ssa.Function
	task          *ssa.Parameter  // Run's task
	scope         []*ssa.Function // pkg/runner functions reachable from Run (Run included)
	execute       *ssa.Function   // contains the job walk
	jobLoop       *an.Loop
	ctxFn         *ssa.Function // contains the call of ExecutionContext.Up
	store         *ssa.Function // contains Set on TaskRunner.env
	compileCall   *ssa.Call     // the CompileTask call
	newOutputCall *ssa.Call
	startCall     *ssa.Call
	ok            bool
}

func isExecCall(in ssa.Instruction) (*ssa.CallCommon, bool) {
	return an.IsCallTo(in, fnExecIface, fnExecDefault)
}

func resolveRunner(c *an.Ctx, rule string) *runnerRoles {
	p := c.P
	r := &runnerRoles{c: c, p: p}
	r.run = p.Func("pkg/runner", "TaskRunner", "Run")
	r.cancel = p.Func("pkg/runner", "TaskRunner", "Cancel")
	r.finish = p.Func("pkg/runner", "TaskRunner", "Finish")
	if r.run == nil || r.cancel == nil || r.finish == nil {
		c.Und(rule, "runner.(*TaskRunner).Run", token.NoPos, "TaskRunner.Run / Cancel / Finish not found")
		return r
	}
	for _, prm := range r.run.Params {
		if an.TypeIs(prm.Type(), "pkg/task", "Task") {
			r.task = prm
		}
	}
	reach := p.Reach([]*ssa.Function{r.run}, func(e an.CallEdge) bool {
		return an.InModule(e.Callee) && inPkgs("pkg/runner")(e.Callee)
	})
	for f := range reach {
		r.scope = append(r.scope, f)
	}
	sort.Slice(r.scope, func(i, j int) bool { return r.scope[i].String() < r.scope[j].String() })
	for _, f := range r.scope {
		// job walk: a loop whose header φ advances through .Next and whose body (or a helper it calls) executes
		for _, l := range an.Loops(f) {
			adv := false
			for _, in := range l.Header.Instrs {
				phi, ok := in.(*ssa.Phi)
				if !ok {
					break
				}
				for _, e := range phi.Edges {
					if an.AccessPath(e).LastField() == "Next" {
						adv = true
					}
				}
			}
			if adv {
				// … and executes: the loop that links the jobs together while compiling advances through .Next too
				executes := false
				for b := range l.Blocks {
					for _, in := range b.Instrs {
						ci, ok := in.(ssa.CallInstruction)
						if !ok {
							continue
						}
						if _, isExec := isExecCall(in); isExec {
							executes = true
							continue
						}
						var roots []*ssa.Function
						for _, callee := range p.Callees(ci.Common()) {
							if an.InModule(callee) && inPkgs("pkg/runner")(callee) && callee != f {
								roots = append(roots, callee)
							}
						}
						for g := range p.Reach(roots, func(e an.CallEdge) bool { return e.Kind == an.EdgeCall && inPkgs("pkg/runner")(e.Callee) }) {
							if g.Blocks != nil && len(an.CallsIn(g, fnExecIface, fnExecDefault)) > 0 {
								executes = true
							}
						}
					}
				}
				if executes || r.execute == nil {
					r.execute, r.jobLoop = f, l
				}
			}
		}
		an.EachInstr(f, func(in ssa.Instruction) {
			call, ok := in.(*ssa.Call)
			if !ok {
				return
			}
			switch an.ShortCallee(&call.Call) {
			case fnCtxUp:
				if an.Short(f) != fnCtxBefore {
					r.ctxFn = f
				}
			case fnCompileTask:
				r.compileCall = call
			case fnNewTaskOutput:
				r.newOutputCall = call
			case fnOutStart:
				r.startCall = call
			case fnSet:
				if an.FieldProv(call.Call.Value) == "TaskRunner.env" {
					r.store = f
				}
			}
		})
	}
	missing := ""
	for name, f := range map[string]*ssa.Function{"job walk": r.execute, "context resolution": r.ctxFn, "output store": r.store} {
		if f == nil {
			missing += " " + name
		} else {
			c.Anchor(name, an.Short(f))
		}
	}
	if r.compileCall == nil {
		missing += " CompileTask-call"
	}
	if missing != "" {
		c.Und(rule, "runner:roles", r.run.Pos(), "cannot find by role in pkg/runner (reachable from TaskRunner.Run):%s", missing)
		return r
	}
	r.ok = true
	return r
}

// errOf returns the error value(s) of a call.
func errOf(call *ssa.Call) []ssa.Value { return an.ErrValueOf(call) }

// extractOf returns the Extract #idx values of a tuple call.
func extractOf(call *ssa.Call, idx int) []ssa.Value {
	var out []ssa.Value
	if refs := call.Referrers(); refs != nil {
		for _, r := range *refs {
			if ex, ok := r.(*ssa.Extract); ok && ex.Index == idx {
				out = append(out, ex)
			}
		}
	}
	return out
}

// runnerState names, by what they do, the pieces of the runner's cancellation
// state: the context commands run under and its cancel function (the one
// context.WithCancel pair stored in pkg/runner), the flag Cancel sets, the
// mutex Cancel takes exclusively and the WaitGroup Cancel waits on. They are
// type-qualified field labels ("TaskRunner.ctx", or "runGate.ctx" when the
// state was moved into a type of its own).
type runnerState struct {
	ctx, cancel, canceling, mutex, running string
	ctor                                   *ssa.Function // where the pair is stored
}

var runnerStateCache = map[*an.Prog]*runnerState{}

func resolveRunnerState(p *an.Prog) *runnerState {
	if rs, ok := runnerStateCache[p]; ok {
		return rs
	}
	rs := &runnerState{ctx: "TaskRunner.ctx", cancel: "TaskRunner.cancelFunc", canceling: "TaskRunner.canceling", mutex: "TaskRunner.cancelMutex", running: "TaskRunner.running"}
	runnerStateCache[p] = rs
	type pair struct {
		ctx, cancel string
		fn          *ssa.Function
	}
	var pairs []pair
	for _, fn := range p.Funcs {
		if !inPkgs("pkg/runner")(fn) {
			continue
		}
		byCall := map[*ssa.Call]*pair{}
		an.EachInstr(fn, func(in ssa.Instruction) {
			st, ok := in.(*ssa.Store)
			if !ok {
				return
			}
			fa, ok := st.Addr.(*ssa.FieldAddr)
			e, ok2 := st.Val.(*ssa.Extract)
			if !ok || !ok2 {
				return
			}
			call, ok := e.Tuple.(*ssa.Call)
			if !ok || an.ShortCallee(&call.Call) != "context.WithCancel" {
				return
			}
			pr := byCall[call]
			if pr == nil {
				pr = &pair{fn: fn}
				byCall[call] = pr
			}
			if e.Index == 0 {
				pr.ctx = an.TypeField(fa)
			} else {
				pr.cancel = an.TypeField(fa)
			}
		})
		for _, pr := range byCall {
			if pr.ctx != "" && pr.cancel != "" {
				pairs = append(pairs, *pr)
			}
		}
	}
	if len(pairs) == 1 {
		rs.ctx, rs.cancel, rs.ctor = pairs[0].ctx, pairs[0].cancel, pairs[0].fn
	}
	cancelFn := p.Func("pkg/runner", "TaskRunner", "Cancel")
	if cancelFn != nil {
		scope := p.Reach([]*ssa.Function{cancelFn}, func(e an.CallEdge) bool { return e.Kind == an.EdgeCall && inPkgs("pkg/runner")(e.Callee) })
		for g := range scope {
			if g.Blocks == nil {
				continue
			}
			for _, ci := range an.CallsIn(g, fnWgWait) {
				rs.running = groupKey(ci.Common().Args[0])
			}
			for _, op := range an.BlockingOps(g) {
				if op.Kind == "lock" && op.OnVal != nil {
					rs.mutex = groupKey(op.OnVal)
				}
			}
			an.EachInstr(g, func(in ssa.Instruction) {
				if st, ok := in.(*ssa.Store); ok {
					if fa, ok := st.Addr.(*ssa.FieldAddr); ok {
						if k, ok := st.Val.(*ssa.Const); ok && k.Value != nil && k.Value.ExactString() == "true" {
							rs.canceling = an.TypeField(fa)
						}
					}
				}
			})
		}
	}
	return rs
}
