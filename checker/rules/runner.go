package rules

import (
	"go/token"
	"sort"

	"golang.org/x/tools/go/ssa"

	"taskverif/an"
)

const (
	fnExecIface     = "(pkg/executor.Executor).Execute"
	fnExecDefault   = "(*pkg/executor.DefaultExecutor).Execute"
	fnCompileTask   = "(*pkg/runner.TaskCompiler).CompileTask"
	fnCompileCmd    = "(*pkg/runner.TaskCompiler).CompileCommand"
	fnCtxUp         = "(*pkg/runner.ExecutionContext).Up"
	fnCtxDown       = "(*pkg/runner.ExecutionContext).Down"
	fnCtxBefore     = "(*pkg/runner.ExecutionContext).Before"
	fnCtxAfter      = "(*pkg/runner.ExecutionContext).After"
	fnIsExitStatus  = "pkg/executor.IsExitStatus"
	fnNewTaskOutput = "pkg/output.NewTaskOutput"
	fnOutStart      = "(pkg/output.TaskOutput).Start"
	fnOutFinish     = "(pkg/output.TaskOutput).Finish"
	fnMerge         = "(pkg/variables.Container).Merge"
	fnWith          = "(pkg/variables.Container).With"
	fnSet           = "(pkg/variables.Container).Set"
	fnFromMap       = "pkg/variables.FromMap"
)

// runnerRoles are the functions of pkg/runner found by what they do.
type runnerRoles struct {
	c       *an.Ctx
	p       *an.Prog
	run     *ssa.Function
	cancel  *ssa.Function
	finish  *ssa.Function
	task    *ssa.Parameter // Run's task
	execute *ssa.Function  // walks the job list
	jobLoop *an.Loop
	before  *ssa.Function // ranges over t.Before
	after   *ssa.Function // ranges over t.After
	cond    *ssa.Function // compiles t.Condition
	ctxFn   *ssa.Function // calls Up then Before
	store   *ssa.Function // writes runner env/variables from the task log
	// call sites in Run
	callOf map[*ssa.Function]*ssa.Call
	compileCall, startCall, newOutputCall *ssa.Call
	ok bool
}

func isExecCall(in ssa.Instruction) (*ssa.CallCommon, bool) {
	return an.IsCallTo(in, fnExecIface, fnExecDefault)
}

// rangesOverTaskField finds a loop of fn ranging over <task>.<field>.
func rangesOverTaskField(fn *ssa.Function, field string) *an.Loop {
	for _, l := range an.Loops(fn) {
		op := l.RangeOperand()
		if op == nil {
			continue
		}
		ap := an.AccessPath(op)
		if ap.LastField() == field && an.TypeIs(ap.Base.Type(), "pkg/task", "Task") {
			return l
		}
	}
	return nil
}

func resolveRunner(c *an.Ctx, rule string) *runnerRoles {
	p := c.P
	r := &runnerRoles{c: c, p: p, callOf: map[*ssa.Function]*ssa.Call{}}
	r.run = p.Func("pkg/runner", "TaskRunner", "Run")
	r.cancel = p.Func("pkg/runner", "TaskRunner", "Cancel")
	r.finish = p.Func("pkg/runner", "TaskRunner", "Finish")
	if r.run == nil || r.cancel == nil || r.finish == nil {
		c.Und(rule, "runner.(*TaskRunner).Run", token.NoPos, "TaskRunner.Run / Cancel / Finish not found")
		return r
	}
	for _, prm := range r.run.Params {
		if an.TypeIs(prm.Type(), "pkg/task", "Task") {
			r.task = prm
		}
	}
	reach := p.Reach([]*ssa.Function{r.run}, func(e an.CallEdge) bool {
		return an.InModule(e.Callee) && inPkgs("pkg/runner")(e.Callee)
	})
	var fns []*ssa.Function
	for f := range reach {
		fns = append(fns, f)
	}
	sort.Slice(fns, func(i, j int) bool { return fns[i].String() < fns[j].String() })
	for _, f := range fns {
		if f == r.run || f.Parent() != nil {
			continue
		}
		if l := rangesOverTaskField(f, "Before"); l != nil && r.before == nil {
			r.before = f
		}
		if l := rangesOverTaskField(f, "After"); l != nil && r.after == nil {
			r.after = f
		}
		// job walk: a loop whose header φ advances through .Next and whose body calls Execute
		for _, l := range an.Loops(f) {
			hasExec := false
			for b := range l.Blocks {
				for _, in := range b.Instrs {
					if _, ok := isExecCall(in); ok {
						hasExec = true
					}
				}
			}
			adv := false
			for _, in := range l.Header.Instrs {
				phi, ok := in.(*ssa.Phi)
				if !ok {
					break
				}
				for _, e := range phi.Edges {
					if an.AccessPath(e).LastField() == "Next" {
						adv = true
					}
				}
			}
			if hasExec && adv {
				r.execute, r.jobLoop = f, l
			}
		}
		// condition: compiles t.Condition
		for _, ci := range an.CallsIn(f, fnCompileCmd) {
			args := ci.Common().Args
			if len(args) > 1 && an.AccessPath(args[1]).LastField() == "Condition" {
				r.cond = f
			}
		}
		if len(an.CallsIn(f, fnCtxUp)) > 0 && len(an.CallsIn(f, fnCtxBefore)) > 0 {
			r.ctxFn = f
		}
		// store: Set on TaskRunner.env with a value derived from Task.Log.Stdout
		for _, ci := range an.CallsIn(f, fnSet) {
			recv := an.AccessPath(ci.Common().Value)
			if recv.LastField() == "env" && an.TypeIs(recv.Base.Type(), "pkg/runner", "TaskRunner") {
				r.store = f
			}
		}
	}
	missing := ""
	for name, f := range map[string]*ssa.Function{"job walk": r.execute, "before hooks": r.before, "after hooks": r.after, "condition": r.cond, "context resolution": r.ctxFn, "output store": r.store} {
		if f == nil {
			missing += " " + name
		} else {
			c.Anchor(name, an.Short(f))
		}
	}
	if missing != "" {
		c.Und(rule, "runner:roles", r.run.Pos(), "cannot find by role in pkg/runner:%s", missing)
		return r
	}
	// call sites in Run
	an.EachInstr(r.run, func(in ssa.Instruction) {
		call, ok := in.(*ssa.Call)
		if !ok {
			return
		}
		for _, callee := range p.Callees(&call.Call) {
			switch callee {
			case r.execute, r.before, r.after, r.cond, r.ctxFn, r.store:
				r.callOf[callee] = call
			}
		}
		if _, ok := an.IsCallTo(in, fnCompileTask); ok {
			r.compileCall = call
		}
		if _, ok := an.IsCallTo(in, fnOutStart); ok {
			r.startCall = call
		}
		if _, ok := an.IsCallTo(in, fnNewTaskOutput); ok {
			r.newOutputCall = call
		}
	})
	for name, f := range map[string]*ssa.Function{"job walk": r.execute, "before hooks": r.before, "after hooks": r.after, "condition": r.cond, "context resolution": r.ctxFn, "output store": r.store} {
		if r.callOf[f] == nil {
			c.Und(rule, "runner.(*TaskRunner).Run:call("+name+")", r.run.Pos(), "Run does not call the %s function %s directly", name, an.Short(f))
			return r
		}
	}
	if r.compileCall == nil {
		c.Und(rule, "runner.(*TaskRunner).Run:call(CompileTask)", r.run.Pos(), "Run does not call CompileTask")
		return r
	}
	r.ok = true
	return r
}

// errOf returns the error value(s) of a call.
func errOf(call *ssa.Call) []ssa.Value { return an.ErrValueOf(call) }

// firstResult returns Extract #0 values of a tuple call.
func extractOf(call *ssa.Call, idx int) []ssa.Value {
	var out []ssa.Value
	if refs := call.Referrers(); refs != nil {
		for _, r := range *refs {
			if ex, ok := r.(*ssa.Extract); ok && ex.Index == idx {
				out = append(out, ex)
			}
		}
	}
	return out
}
