package rules

import (
	"fmt"
	"go/token"
	"go/types"
	"os"
	"sort"
	"strings"

	"golang.org/x/tools/go/ssa"

	"taskverif/an"
)

// groupProg is the program used to follow groups through parameters (set by the rules).
var groupProg *an.Prog

// groupKey identifies a WaitGroup / mutex / channel: by struct field when it
// lives in a field, by allocation when it is a local.
func groupKey(v ssa.Value) string {
	// a pointer to the group carried in a field of an object built for one launch (set once, where the
	// object is built): the group it points to
	if u, ok := an.Resolve(v).(*ssa.UnOp); ok && u.Op == token.MUL && groupProg != nil && isPointerType(u.Type()) {
		if _, isFA := u.X.(*ssa.FieldAddr); isFA {
			srcs := groupProg.DeepSources(u, 6, true)
			if len(srcs) == 1 {
				if a, ok := srcs[0].(*ssa.Alloc); ok {
					return "local:" + an.Short(a.Parent()) + ":" + a.Comment
				}
			}
		}
	}
	if k := an.FieldKey(v); k != "" {
		return k
	}
	// a group handed down by pointer is the caller's group
	if prm, ok := an.Resolve(v).(*ssa.Parameter); ok && groupProg != nil {
		fn := prm.Parent()
		idx := -1
		for i, q := range fn.Params {
			if q == prm {
				idx = i
			}
		}
		keys := map[string]bool{}
		for _, site := range groupProg.CallSitesOf(fn) {
			c := site.Common()
			ai := idx
			if c.IsInvoke() {
				ai--
			}
			if ai >= 0 && ai < len(c.Args) && site.Parent() != fn {
				keys[groupKey(c.Args[ai])] = true
			}
		}
		if len(keys) == 1 {
			for k := range keys {
				return k
			}
		}
	}
	for _, r := range an.ResolveAll(v) {
		if a, ok := r.(*ssa.Alloc); ok {
			return "local:" + an.Short(a.Parent()) + ":" + a.Comment
		}
	}
	return "value:" + an.Prov(v)
}

// doneOnAllPaths reports whether fn calls Done on group key on every path
// from entry to exit (directly or through a deferred call).
func doneOnAllPaths(fn *ssa.Function, key string) bool {
	if fn.Blocks == nil {
		return false
	}
	isDone := func(in ssa.Instruction) bool {
		if cc, ok := an.IsCallTo(in, fnWgDone); ok && groupKey(cc.Args[0]) == key {
			return true
		}
		return false
	}
	first := fn.Blocks[0].Instrs[0]
	if isDone(first) {
		return true
	}
	ok, _ := an.OnAllPathsToExit(first, isDone, nil)
	if ok {
		return true
	}
	return false
}

// deferRegistersDone reports whether the Defer/Go instruction runs code that
// calls Done on key on all its paths.
func callRunsDone(p *an.Prog, ci ssa.CallInstruction, key string) bool {
	if cc, ok := an.IsCallTo(ci, fnWgDone); ok && groupKey(cc.Args[0]) == key {
		return true
	}
	if os.Getenv("TV_DEBUG") != "" {
		if cc, ok := an.IsCallTo(ci, fnWgDone); ok {
			fmt.Fprintf(os.Stderr, "callRunsDone: Done on %s (want %s) resolved=%T\n", groupKey(cc.Args[0]), key, an.Resolve(cc.Args[0]))
		}
		for _, callee := range p.Callees(ci.Common()) {
			an.EachInstr(callee, func(in ssa.Instruction) {
				if cc, ok := an.IsCallTo(in, fnWgDone); ok {
					fmt.Fprintf(os.Stderr, "callRunsDone: in %s Done on %s (want %s) resolved=%T %v\n", an.Short(callee), groupKey(cc.Args[0]), key, an.Resolve(cc.Args[0]), an.ResolveAll(cc.Args[0]))
				}
			})
		}
	}
	for _, callee := range p.Callees(ci.Common()) {
		if callee.Blocks != nil && doneOnAllPaths(callee, key) {
			return true
		}
	}
	return false
}

// goBodyDefersDoneFirst reports whether the function started by g registers
// (defers) Done on key before anything that can fail to reach it.
func goBodyDefersDone(p *an.Prog, g *ssa.Go, key string) bool {
	for _, callee := range p.Callees(&g.Call) {
		if callee.Blocks == nil {
			return false
		}
		found := false
		for _, in := range callee.Blocks[0].Instrs {
			if d, ok := in.(*ssa.Defer); ok {
				if callRunsDone(p, d, key) {
					found = true
				}
				break
			}
			switch in.(type) {
			case *ssa.Call, *ssa.Go, *ssa.If, *ssa.Return, *ssa.Panic:
				// something runs before the registration
				if _, isCall := in.(*ssa.Call); isCall {
					// harmless calls (time.Now, logging) may precede the defer
					name := an.ShortCallee(in.(*ssa.Call).Common())
					if strings.HasPrefix(name, "time.") || strings.HasPrefix(name, "github.com/sirupsen/logrus.") {
						continue
					}
				}
				return false
			}
		}
		if !found {
			return false
		}
	}
	return true
}

// addDonePairing checks that every Add on the group is followed, on every
// path, by the registration of a matching Done (E8). It reports per Add site.
func addDonePairing(c *an.Ctx, rule, key string) bool {
	p := c.P
	all := true
	n := 0
	for _, fn := range p.Funcs {
		an.EachInstr(fn, func(in ssa.Instruction) {
			cc, ok := an.IsCallTo(in, fnWgAdd)
			if !ok || groupKey(cc.Args[0]) != key {
				return
			}
			n++
			okPair, witness := an.OnAllPathsToExit(in, func(x ssa.Instruction) bool {
				switch y := x.(type) {
				case *ssa.Defer:
					return callRunsDone(p, y, key)
				case *ssa.Go:
					return goBodyDefersDone(p, y, key)
				case *ssa.Call:
					if _, ok := an.IsCallTo(y, fnWgDone); ok {
						return callRunsDone(p, y, key)
					}
				}
				return false
			}, nil)
			okey := an.Short(fn) + ":Add(" + key + ")"
			if !okPair {
				// the Done may be registered by the caller right after this helper returned
				if why, ok := pairingViaCallers(p, fn, key); ok {
					c.OK(rule, okey, in.Pos(), "%s", why)
					return
				}
			}
			if okPair {
				c.OK(rule, okey, in.Pos(), "every path from Add registers the matching Done (deferred here, or deferred first thing in the goroutine started next)")
			} else {
				all = false
				w := "-"
				if witness != nil && len(witness.Instrs) > 0 {
					w = p.Pos(witness.Instrs[len(witness.Instrs)-1].Pos())
				}
				c.Bad(rule, okey, in.Pos(), "a path from Add(%s) leaves %s (exit at %s) without a registered Done: anyone waiting on the group blocks for ever", key, an.Short(fn), w)
			}
		})
	}
	if n == 0 {
		c.Bad(rule, "Add("+key+"):sites", 0, "group %s is waited on but never added to", key)
		return false
	}
	return all
}

// shortCriticalSections checks that every acquisition of the mutex, anywhere
// in the module, is released on all paths with no blocking operation inside.
func shortCriticalSections(c *an.Ctx, rule, key string) bool {
	p := c.P
	all := true
	for _, fn := range p.Funcs {
		ops := an.BlockingOps(fn)
		for _, op := range ops {
			if (op.Kind != "lock" && op.Kind != "rlock") || groupKey(op.OnVal) != key {
				continue
			}
			okey := an.Short(fn) + ":" + op.Kind + "(" + key + ")"
			// released on all paths: direct unlock, or a deferred unlock registered
			released, _ := an.OnAllPathsToExit(op.Instr, func(x ssa.Instruction) bool {
				if an.IsUnlockOf(x, op) {
					return true
				}
				return false
			}, nil)
			// blocking operations between lock and unlock (same function, direct)
			var inside []string
			for _, o2 := range ops {
				if o2.Instr == op.Instr || o2.Kind == "sleep" {
					continue
				}
				if an.Dominates(op.Instr, o2.Instr) {
					// is there an unlock between?
					unl := false
					an.EachInstr(fn, func(x ssa.Instruction) {
						if an.IsUnlockOf(x, op) {
							if _, isDefer := x.(*ssa.Defer); !isDefer && an.Dominates(op.Instr, x) && an.Dominates(x, o2.Instr) {
								unl = true
							}
						}
					})
					if !unl {
						inside = append(inside, o2.Kind+"("+o2.On+")@"+p.Pos(o2.Instr.Pos()))
					}
				}
			}
			// … nor a call that takes the same mutex again: sync.Mutex is not re-entrant, and a second RLock of an
			// RWMutex deadlocks as soon as a writer has queued up between the two
			an.EachInstr(fn, func(x ssa.Instruction) {
				ci, ok := x.(ssa.CallInstruction)
				if !ok || x == op.Instr || !an.Dominates(op.Instr, x) || an.IsUnlockOf(x, op) {
					return
				}
				if _, isGo := x.(*ssa.Go); isGo {
					return
				}
				over := false
				an.EachInstr(fn, func(u ssa.Instruction) {
					if _, isDefer := u.(*ssa.Defer); !isDefer && an.IsUnlockOf(u, op) && an.Dominates(op.Instr, u) && an.Dominates(u, x) {
						over = true
					}
				})
				if over {
					return
				}
				if _, isDefer := x.(*ssa.Defer); isDefer {
					return // runs at exit; a deferred unlock registered earlier runs after it, but the common shape (defer Unlock) is the unlock itself
				}
				var roots []*ssa.Function
				for _, callee := range p.Callees(ci.Common()) {
					if an.InModule(callee) && callee.Blocks != nil {
						roots = append(roots, callee)
					}
				}
				if len(roots) == 0 {
					return
				}
				reach := p.Reach(roots, func(e an.CallEdge) bool { return e.Kind == an.EdgeCall && an.InModule(e.Callee) })
				for g := range reach {
					for _, o3 := range an.BlockingOps(g) {
						if (o3.Kind == "lock" || o3.Kind == "rlock") && groupKey(o3.OnVal) == key {
							inside = append(inside, "re-acquired ("+o3.Kind+") by "+an.Short(g)+", called at "+p.Pos(x.Pos())+" while it is held")
						}
					}
				}
			})
			if released && len(inside) == 0 {
				c.OK(rule, okey, op.Instr.Pos(), "released on every path, nothing blocks while it is held")
			} else {
				all = false
				c.Bad(rule, okey, op.Instr.Pos(), "mutex %s: released on all paths=%v, blocking operations while held: %v", key, released, inside)
			}
		}
	}
	return all
}

// wakers lists close/send sites on a channel field and whether each is unconditional.
func channelWakers(c *an.Ctx, key string) (sites []string, unconditional bool) {
	for _, fn := range c.P.Funcs {
		an.EachInstr(fn, func(in ssa.Instruction) {
			var ch ssa.Value
			switch x := in.(type) {
			case *ssa.Send:
				ch = x.Chan
			case ssa.CallInstruction:
				if b, ok := x.Common().Value.(*ssa.Builtin); ok && b.Name() == "close" {
					ch = x.Common().Args[0]
				}
			}
			if ch == nil || groupKey(ch) != key {
				return
			}
			g := an.Guards(in.Block())
			cond := len(g) > 0
			sites = append(sites, fmt.Sprintf("%s@%s(conditional=%v)", an.Short(fn), c.P.Pos(in.Pos()), cond))
			if !cond && fn.Parent() == nil {
				unconditional = true
			}
		})
	}
	sort.Strings(sites)
	return
}

// boundedWaits checks that everything that can block, synchronously reachable
// from roots, is a bounded sleep, a WaitGroup wait with Add/Done pairing, or a
// short critical section (C03.5 / C12.1a).
func boundedWaits(c *an.Ctx, rule string, roots []*ssa.Function, what string, skip func(*ssa.Function) bool, allowedPoll ...*an.Loop) {
	boundedWaitsOpt(c, rule, roots, what, waitOpts{skip: skip, allowedPoll: allowedPoll, polls: len(allowedPoll) > 0})
}

// waitOpts selects what boundedWaitsOpt looks at.
type waitOpts struct {
	skip        func(*ssa.Function) bool
	polls       bool // report sleeping loops other than allowedPoll
	allowedPoll []*an.Loop
	onlyChans   bool // channel operations only (no mutexes, no WaitGroups)
	// accepted may vouch for a blocking operation (a reason, or "")
	accepted func(in ssa.Instruction) string
}

func boundedWaitsOpt(c *an.Ctx, rule string, roots []*ssa.Function, what string, o waitOpts) {
	skip, allowedPoll := o.skip, o.allowedPoll
	p := c.P
	reach := p.Reach(roots, func(e an.CallEdge) bool {
		return e.Kind != an.EdgeGo && an.InModule(e.Callee) && (skip == nil || !skip(e.Callee))
	})
	var fns []*ssa.Function
	for f := range reach {
		fns = append(fns, f)
	}
	sort.Slice(fns, func(i, j int) bool { return fns[i].String() < fns[j].String() })
	n := 0
	checkedGroups := map[string]bool{}
	for _, fn := range fns {
		for _, op := range an.BlockingOps(fn) {
			key := an.Short(fn) + ":" + op.Kind + "(" + groupKey(orSelf(op.OnVal)) + ")"
			path := p.PathString(reach[fn])
			switch op.Kind {
			case "sleep":
				// a sleep inside a loop is a polling wait: the loop goes round until something another goroutine
				// does makes its condition change. The scheduling loop is the one such loop whose termination
				// is argued (C03.3/C03.4); any other one under the root is an unbounded wait in disguise
				if l := an.InnermostLoop(an.Loops(fn), op.Instr.Block()); l != nil && o.polls {
					allowed := false
					for _, al := range allowedPoll {
						if al != nil && al.Header == l.Header {
							allowed = true
						}
					}
					// a loop with a constant trip count (retry n times) is bounded by construction
					if !allowed && !boundedCount(l) {
						n++
						c.Bad(rule, an.Short(fn)+":poll", op.Instr.Pos(), "%s can reach a loop in %s that sleeps and goes round until a condition changes that only another goroutine can change (path: %s): if that goroutine waits for this one, or never comes, the call never returns", what, an.Short(fn), path)
					}
				}
				continue
			case "recv", "send", "select", "cond.Wait":
				n++
				if o.accepted != nil {
					if why := o.accepted(op.Instr); why != "" {
						c.OK(rule, key, op.Instr.Pos(), "%s", why)
						continue
					}
				}
				if op.OnVal != nil && (op.Kind == "send" || op.Kind == "recv") && chanAsLock(p, groupKey(op.OnVal)) {
					c.OK(rule, key, op.Instr.Pos(), "%s is a buffered channel used as a lock: every send is followed on all paths by the receive that gives the slot back, and there is no other receive", op.On)
					continue
				}
				if snd, ok := op.Instr.(*ssa.Send); ok && op.OnVal != nil && semaphorePaired(p, snd, groupKey(op.OnVal)) {
					c.OK(rule, key, op.Instr.Pos(), "a slot taken from %s is handed to a goroutine, started on every path, that gives it back first thing (deferred receive)", op.On)
					continue
				}
				if op.OnVal == nil {
					c.Bad(rule, key, op.Instr.Pos(), "%s can block on a %s with no analysable waker (path: %s)", what, op.Kind, path)
					continue
				}
				sites, uncond := channelWakers(c, groupKey(op.OnVal))
				if uncond {
					c.OK(rule, key, op.Instr.Pos(), "%s on %s has an unconditional waker: %v", op.Kind, op.On, sites)
				} else {
					c.Bad(rule, key, op.Instr.Pos(), "%s blocks in an unconditional %s on %s whose only wakers are conditional or absent (%v): with no such waker in flight it never returns (path: %s)", what, op.Kind, op.On, sites, path)
				}
			case "wg.Wait":
				if o.onlyChans {
					continue
				}
				n++
				gk := groupKey(op.OnVal)
				if checkedGroups[gk] {
					continue
				}
				checkedGroups[gk] = true
				if addDonePairing(c, rule, gk) {
					c.OK(rule, key, op.Instr.Pos(), "waits on %s, whose every Add is paired with a registered Done", gk)
				}
			case "lock", "rlock":
				if o.onlyChans {
					continue
				}
				n++
				gk := groupKey(op.OnVal)
				if checkedGroups["m:"+gk] {
					continue
				}
				checkedGroups["m:"+gk] = true
				shortCriticalSections(c, rule, gk)
			}
		}
	}
	c.Sites[rule] = append(c.Sites[rule], fmt.Sprintf("%d functions synchronously reachable for %s, %d blocking operations classified", len(fns), what, n))
}

func orSelf(v ssa.Value) ssa.Value {
	if v == nil {
		return ssa.Value(nil)
	}
	return v
}

// pairingViaCallers explores every module caller of addFn with addFn (and
// other same-package helpers) inlined and checks that on every path that
// returns, each executed Add is matched by an executed Done (a deferred Done
// runs before the return is reported) or by a goroutine that defers Done.
func pairingViaCallers(p *an.Prog, addFn *ssa.Function, key string) (string, bool) {
	sites := p.CallSitesOf(addFn)
	if len(sites) == 0 {
		return "", false
	}
	callers := map[*ssa.Function]bool{}
	for _, s := range sites {
		if _, isGo := s.(*ssa.Go); isGo {
			return "", false
		}
		callers[s.Parent()] = true
	}
	// only a helper of the caller's own package is a candidate: a Done owed by another package's
	// caller would be an obligation on every present and future caller
	for caller := range callers {
		if an.Outer(caller).Pkg != an.Outer(addFn).Pkg {
			return "", false
		}
	}
	n := 0
	adds := 0
	// only the functions that can perform an Add or a Done are looked into; everything else is opaque
	relevant := map[*ssa.Function]bool{}
	touches := func(g *ssa.Function) bool {
		if v, ok := relevant[g]; ok {
			return v
		}
		relevant[g] = false
		for h := range p.Reach([]*ssa.Function{g}, func(e an.CallEdge) bool {
			return e.Kind != an.EdgeGo && an.Outer(e.Callee).Pkg == an.Outer(addFn).Pkg
		}) {
			if len(an.CallsIn(h, fnWgAdd, fnWgDone)) > 0 {
				relevant[g] = true
			}
		}
		return relevant[g]
	}
	for caller := range callers {
		ex := &an.Explorer{P: p, NoReturn: noReturn, MaxDepth: 3, MaxVisits: 2,
			Inline: func(g *ssa.Function) bool {
				return g != caller && (g == addFn || an.Outer(g).Pkg == an.Outer(addFn).Pkg && an.Outer(g).Pkg == an.Outer(caller).Pkg && touches(g))
			}}
		ex.Effect = func(in ssa.Instruction, st *an.State) string {
			ci, ok := in.(ssa.CallInstruction)
			if !ok {
				return ""
			}
			if cc, ok := an.IsCallTo(in, fnWgAdd); ok && groupKey(st.Root(cc.Args[0])) == key {
				return "Add"
			}
			if cc, ok := an.IsCallTo(in, fnWgDone); ok && groupKey(st.Root(cc.Args[0])) == key {
				return "Done"
			}
			if g, ok := in.(*ssa.Go); ok && goBodyDefersDone(p, g, key) {
				return "Done"
			}
			_ = ci
			return ""
		}
		outs := ex.Run(caller, caller.Blocks[0], nil, nil)
		for _, o := range outs {
			if o.End == "bound" {
				continue
			}
			a, d := 0, 0
			for _, e := range o.Effects {
				if e == "Add" {
					a++
				}
				if e == "Done" {
					d++
				}
			}
			if a != d {
				return "", false
			}
			adds += a
			n++
		}
	}
	return fmt.Sprintf("the matching Done is registered by the caller: Add and Done balance on all %d paths of %d caller(s) with %s inlined", n, len(callers), an.Short(addFn)), n > 0 && adds > 0
}

func isPointerType(t types.Type) bool {
	_, ok := t.Underlying().(*types.Pointer)
	return ok
}

// boundedCount reports whether l is a counting loop: its header compares an
// integer induction variable (a φ advanced by a constant step) with a value
// that is not loaded from shared state inside the loop.
func boundedCount(l *an.Loop) bool {
	br, ok := an.BranchOf(l.Header)
	if !ok {
		return false
	}
	bo, ok := br.If.Cond.(*ssa.BinOp)
	if !ok {
		return false
	}
	isInduction := func(v ssa.Value) bool {
		phi, ok := v.(*ssa.Phi)
		if !ok || phi.Block() != l.Header {
			if b2, ok := v.(*ssa.BinOp); ok && (b2.Op == token.ADD || b2.Op == token.SUB) {
				if _, isC := b2.Y.(*ssa.Const); isC {
					phi, ok = b2.X.(*ssa.Phi)
					if !ok || phi.Block() != l.Header {
						return false
					}
				} else {
					return false
				}
			} else {
				return false
			}
		}
		for _, e := range phi.Edges {
			switch x := e.(type) {
			case *ssa.Const:
			case *ssa.BinOp:
				if _, isC := x.Y.(*ssa.Const); !isC || (x.Op != token.ADD && x.Op != token.SUB) {
					return false
				}
			default:
				return false
			}
		}
		return true
	}
	limitOK := func(v ssa.Value) bool {
		switch x := v.(type) {
		case *ssa.Const, *ssa.Parameter:
			return true
		case *ssa.Call:
			if b, ok := x.Call.Value.(*ssa.Builtin); ok && b.Name() == "len" {
				return !l.Blocks[x.Block()] || true
			}
		}
		if in, ok := v.(ssa.Instruction); ok {
			return !l.Blocks[in.Block()]
		}
		return false
	}
	return (isInduction(bo.X) && limitOK(bo.Y)) || (isInduction(bo.Y) && limitOK(bo.X))
}

// semaphorePaired recognises the counting-semaphore use of a buffered
// channel: after the send every path starts a goroutine whose entry block
// defers — before anything that can leave the function — a function that
// receives from the same channel on all its paths.
func semaphorePaired(p *an.Prog, snd *ssa.Send, key string) bool {
	isRecv := func(in ssa.Instruction) bool {
		u, ok := in.(*ssa.UnOp)
		return ok && u.Op == token.ARROW && groupKey(u.X) == key
	}
	recvOnAllPaths := func(fn *ssa.Function) bool {
		if fn == nil || len(fn.Blocks) == 0 {
			return false
		}
		first := fn.Blocks[0].Instrs[0]
		if isRecv(first) {
			return true
		}
		ok, _ := an.OnAllPathsToExit(first, isRecv, nil)
		return ok
	}
	entryDefersRecv := func(fn *ssa.Function) bool {
		if fn == nil || len(fn.Blocks) == 0 {
			return false
		}
		for _, in := range fn.Blocks[0].Instrs {
			switch x := in.(type) {
			case *ssa.Defer:
				all := true
				callees := p.Callees(&x.Call)
				for _, callee := range callees {
					if !recvOnAllPaths(callee) {
						all = false
					}
				}
				if all && len(callees) > 0 {
					return true
				}
			case *ssa.If, *ssa.Return, *ssa.Panic, *ssa.Go, *ssa.Jump:
				return false
			case *ssa.Call:
				name := an.ShortCallee(&x.Call)
				if strings.HasPrefix(name, "time.") || strings.HasPrefix(name, "github.com/sirupsen/logrus.") {
					continue
				}
				return false
			}
		}
		return false
	}
	ok, _ := an.OnAllPathsToExit(snd, func(x ssa.Instruction) bool {
		g, isGo := x.(*ssa.Go)
		if !isGo {
			return false
		}
		callees := p.Callees(&g.Call)
		for _, callee := range callees {
			if !entryDefersRecv(callee) {
				return false
			}
		}
		return len(callees) > 0
	}, nil)
	return ok
}

// leafMutex reports whether the mutex identified by key is a leaf lock everywhere in the module: each of its
// critical sections (from the Lock to the Unlock of the same function, or to the function's end when the unlock
// is deferred) is released on every path and contains no call at all besides the unlock itself and calls of
// sync/atomic — nothing can block or run for long while it is held, and it cannot take part in a lock cycle.
func leafMutex(p *an.Prog, key string) bool {
	if key == "" {
		return false
	}
	n := 0
	for _, fn := range p.Funcs {
		if !an.InModule(fn) {
			continue
		}
		for _, op := range an.BlockingOps(fn) {
			if (op.Kind != "lock" && op.Kind != "rlock") || groupKey(op.OnVal) != key {
				continue
			}
			n++
			released, _ := an.OnAllPathsToExit(op.Instr, func(x ssa.Instruction) bool { return an.IsUnlockOf(x, op) }, nil)
			if !released {
				return false
			}
			leaf := true
			an.EachInstr(fn, func(x ssa.Instruction) {
				ci, ok := x.(ssa.CallInstruction)
				if !ok || x == op.Instr || !an.Dominates(op.Instr, x) || an.IsUnlockOf(x, op) {
					return
				}
				if _, isB := ci.Common().Value.(*ssa.Builtin); isB {
					return
				}
				if strings.HasPrefix(an.ShortCallee(ci.Common()), "sync/atomic.") {
					return
				}
				// after a direct unlock the section is over
				over := false
				an.EachInstr(fn, func(u ssa.Instruction) {
					if _, isDefer := u.(*ssa.Defer); !isDefer && an.IsUnlockOf(u, op) && an.Dominates(op.Instr, u) && an.Dominates(u, x) {
						over = true
					}
				})
				if !over {
					leaf = false
				}
			})
			if !leaf {
				return false
			}
		}
	}
	return n > 0
}

// heldLock returns the key of a mutex that is held at instruction at: a Lock of the same function dominates it and
// no direct Unlock of that acquisition lies between.
func heldLock(fn *ssa.Function, at ssa.Instruction) (string, ssa.Value) {
	for _, op := range an.BlockingOps(fn) {
		if (op.Kind != "lock" && op.Kind != "rlock") || !an.Dominates(op.Instr, at) {
			continue
		}
		over := false
		an.EachInstr(fn, func(u ssa.Instruction) {
			if _, isDefer := u.(*ssa.Defer); !isDefer && an.IsUnlockOf(u, op) && an.Dominates(op.Instr, u) && an.Dominates(u, at) {
				over = true
			}
		})
		if !over {
			return groupKey(op.OnVal), op.OnVal
		}
	}
	return "", nil
}

// locallyWoken vouches for a receive (or a select with such a receive among its cases) on a channel the waiting
// function made itself, when a goroutine that the function starts on every path before the wait signals on that
// channel on every path of its own: the wait lasts as long as that goroutine's work, which the function has
// started. It returns the reason, or "".
func locallyWoken(p *an.Prog, in ssa.Instruction) string {
	fn := in.Parent()
	var chans []ssa.Value
	switch x := in.(type) {
	case *ssa.UnOp:
		if x.Op == token.ARROW {
			chans = append(chans, x.X)
		}
	case *ssa.Select:
		for _, stt := range x.States {
			if stt.Dir == types.RecvOnly {
				chans = append(chans, stt.Chan)
			}
		}
	}
	for _, chv := range chans {
		mk, ok := an.Resolve(chv).(*ssa.MakeChan)
		if !ok || mk.Parent() != fn {
			continue
		}
		found := ""
		an.EachInstr(fn, func(g0 ssa.Instruction) {
			g, ok := g0.(*ssa.Go)
			if !ok || !an.Dominates(g, in) || found != "" {
				return
			}
			for _, body := range p.Callees(&g.Call) {
				if body.Blocks == nil || body.Parent() != fn {
					continue
				}
				signals := func(x ssa.Instruction) bool {
					var ch ssa.Value
					switch y := x.(type) {
					case *ssa.Send:
						ch = y.Chan
					case ssa.CallInstruction:
						if b, ok := y.Common().Value.(*ssa.Builtin); ok && b.Name() == "close" {
							ch = y.Common().Args[0]
						}
					}
					if ch == nil {
						return false
					}
					for _, r := range an.ResolveAll(ch) {
						if r == ssa.Value(mk) {
							return true
						}
					}
					return false
				}
				first := body.Blocks[0].Instrs[0]
				all, _ := an.OnAllPathsToExit(first, signals, nil)
				if signals(first) {
					all = true
				}
				if all {
					found = "waits for a goroutine it has started itself (" + p.Pos(g.Pos()) + "), which signals on this channel on every path"
				}
			}
		})
		if found != "" {
			return found
		}
	}
	return ""
}

// chanAsLock recognises a buffered channel held in a field and used as a mutex: it is made with a constant capacity
// of at least one, every send on it is followed, in the same function and on all paths to the exit, by a receive
// from it (directly, or in a deferred function that receives on all its paths), and every receive is one of those.
// Taking a slot then blocks only while another holder is between its send and its receive.
func chanAsLock(p *an.Prog, key string) bool {
	if key == "" || strings.HasPrefix(key, "local:") {
		return false
	}
	isRecv := func(in ssa.Instruction) bool {
		u, ok := in.(*ssa.UnOp)
		return ok && u.Op == token.ARROW && groupKey(u.X) == key
	}
	recvOnAllPaths := func(fn *ssa.Function) bool {
		if fn == nil || len(fn.Blocks) == 0 || len(fn.Blocks[0].Instrs) == 0 {
			return false
		}
		first := fn.Blocks[0].Instrs[0]
		if isRecv(first) {
			return true
		}
		ok, _ := an.OnAllPathsToExit(first, isRecv, nil)
		return ok
	}
	releases := func(x ssa.Instruction) bool {
		if isRecv(x) {
			return true
		}
		if d, ok := x.(*ssa.Defer); ok {
			callees := p.Callees(&d.Call)
			for _, callee := range callees {
				if !recvOnAllPaths(callee) {
					return false
				}
			}
			return len(callees) > 0
		}
		return false
	}
	nSend, nMake := 0, 0
	paired := map[ssa.Instruction]bool{} // receives accounted for
	ok := true
	for _, fn := range p.Funcs {
		if !an.InModule(fn) || fn.Blocks == nil {
			continue
		}
		an.EachInstr(fn, func(in ssa.Instruction) {
			switch x := in.(type) {
			case *ssa.Send:
				if groupKey(x.Chan) != key {
					return
				}
				nSend++
				if rel, _ := an.OnAllPathsToExit(x, releases, an.IsPanicExit); !rel {
					ok = false
				}
				// the receives this send pays for: those it dominates in its function, and those of the deferred functions
				an.EachInstr(fn, func(y ssa.Instruction) {
					if isRecv(y) && an.Dominates(x, y) {
						paired[y] = true
					}
					if d, isD := y.(*ssa.Defer); isD && an.Dominates(x, y) {
						for _, callee := range p.Callees(&d.Call) {
							an.EachInstr(callee, func(z ssa.Instruction) {
								if isRecv(z) {
									paired[z] = true
								}
							})
						}
					}
				})
			case *ssa.Store:
				if fa, isFA := x.Addr.(*ssa.FieldAddr); isFA && an.FieldKey(fa) == key {
					mk, isMk := x.Val.(*ssa.MakeChan)
					if !isMk {
						ok = false
						return
					}
					if k, isK := an.ConstInt(mk.Size); !isK || k < 1 {
						ok = false
						return
					}
					nMake++
				}
			case *ssa.Select:
				for _, stt := range x.States {
					if groupKey(stt.Chan) == key {
						ok = false
					}
				}
			}
		})
	}
	if !ok || nSend == 0 || nMake == 0 {
		return false
	}
	for _, fn := range p.Funcs {
		if !an.InModule(fn) || fn.Blocks == nil {
			continue
		}
		an.EachInstr(fn, func(in ssa.Instruction) {
			if isRecv(in) && !paired[in] {
				ok = false
			}
		})
	}
	return ok
}
