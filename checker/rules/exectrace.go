package rules

import (
	"go/token"
	"go/types"
	"sort"

	"golang.org/x/tools/go/ssa"

	"taskverif/an"
)

// execRoles: DefaultExecutor.Execute and the helpers of pkg/executor it runs
// synchronously. The interpreter call, the rendering, the deadline and the
// output suffix may live in Execute or in any of those helpers; the rules find
// them by what they call and connect them through the Execute trace (helpers
// inlined) or through deep provenance stopped at Execute's own parameters.
type execRoles struct {
	p     *an.Prog
	ex    *ssa.Function
	scope []*ssa.Function
	in    map[*ssa.Function]bool
	run   *ssa.Call // the synchronous interp.Runner.Run call
	runFn *ssa.Function
	// runGo: when the interpreter runs in a goroutine that its starter always waits for
	// (waitedGoroutine), the go statement; the goroutine then counts as part of Execute
	runGo *ssa.Go
}

const fnInterpRun = "(*mvdan.cc/sh/v3/interp.Runner).Run"

func resolveExec(p *an.Prog) *execRoles {
	er := &execRoles{p: p, ex: p.Func("pkg/executor", "DefaultExecutor", "Execute"), in: map[*ssa.Function]bool{}}
	if er.ex == nil {
		return er
	}
	for f := range p.Reach([]*ssa.Function{er.ex}, func(e an.CallEdge) bool {
		return e.Kind != an.EdgeGo && an.Outer(e.Callee).Pkg == er.ex.Pkg
	}) {
		if f.Blocks != nil {
			er.scope = append(er.scope, f)
			er.in[f] = true
		}
	}
	sort.Slice(er.scope, func(i, j int) bool { return er.scope[i].String() < er.scope[j].String() })
	for _, f := range er.scope {
		for _, ci := range an.CallsIn(f, fnInterpRun) {
			if call, ok := ci.(*ssa.Call); ok {
				er.run, er.runFn = call, f
			}
		}
	}
	if er.run == nil {
		// the interpreter in a goroutine the starter always waits for: as good as a call
		for _, fn := range p.Funcs {
			if an.Outer(fn).Pkg != er.ex.Pkg || er.in[fn] {
				continue
			}
			for _, ci := range an.CallsIn(fn, fnInterpRun) {
				call, ok := ci.(*ssa.Call)
				if !ok || !waitedGoroutine(p, er, fn, call) {
					continue
				}
				er.run, er.runFn = call, fn
				er.runGo, _ = p.CallSitesOf(fn)[0].(*ssa.Go)
				er.in[fn] = true
				er.scope = append(er.scope, fn)
			}
		}
		sort.Slice(er.scope, func(i, j int) bool { return er.scope[i].String() < er.scope[j].String() })
	}
	return er
}

// callsIn lists the calls of the named functions anywhere in the scope.
func (er *execRoles) callsIn(names ...string) []*ssa.Call {
	var out []*ssa.Call
	for _, f := range er.scope {
		for _, ci := range an.CallsIn(f, names...) {
			if call, ok := ci.(*ssa.Call); ok {
				out = append(out, call)
			}
		}
	}
	return out
}

// sources is deep provenance inside the executor: helper parameters are
// followed to their arguments, Execute's own parameters are leaves.
func (er *execRoles) sources(v ssa.Value) []ssa.Value {
	stop := func(x ssa.Value) bool {
		prm, ok := x.(*ssa.Parameter)
		return ok && prm.Parent() == er.ex
	}
	return er.p.DeepSourcesStop(v, 3, true, stop)
}

// explorer returns an explorer of Execute with the helpers inlined.
func (er *execRoles) explorer() *an.Explorer {
	return &an.Explorer{P: er.p, NoReturn: noReturn, MaxDepth: 3,
		Inline: func(f *ssa.Function) bool { return er.in[f] && f != er.ex },
		SyncGo: func(g *ssa.Go) bool { return er.runGo != nil && g == er.runGo }}
}

// carriedBy reports whether v is what was received from a channel onto which
// the module sends nothing but `want` (the result of the awaited goroutine):
// a receive expression or the value component of a select that received.
func carriedBy(p *an.Prog, v ssa.Value, want ssa.Value) bool {
	var ch ssa.Value
	switch x := v.(type) {
	case *ssa.UnOp:
		if x.Op == token.ARROW {
			ch = an.Resolve(x.X)
		}
	case *ssa.Extract:
		if sel, ok := x.Tuple.(*ssa.Select); ok && x.Index >= 2 {
			k := 0
			for _, stt := range sel.States {
				if stt.Dir != types.RecvOnly {
					continue
				}
				if k == x.Index-2 {
					ch = an.Resolve(stt.Chan)
				}
				k++
			}
		}
	}
	if ch == nil {
		return false
	}
	if _, isMake := ch.(*ssa.MakeChan); !isMake {
		return false
	}
	n := 0
	okAll := true
	for _, fn := range p.Funcs {
		an.EachInstr(fn, func(in ssa.Instruction) {
			snd, ok := in.(*ssa.Send)
			if !ok || an.Resolve(snd.Chan) != ch {
				return
			}
			n++
			if an.Resolve(snd.X) != an.Resolve(want) {
				okAll = false
			}
		})
	}
	return n > 0 && okAll
}
