package rules

import (
	"fmt"
	"go/token"
	"go/types"
	"strings"

	"golang.org/x/tools/go/ssa"

	"taskverif/an"
)

func init() { register("C13", checkC13) }

func checkC13(c *an.Ctx) {
	c.Rule("C13.1", "per-job deadline (E2/E5): in Execute, when job.Timeout is set the interpreter runs under context.WithTimeout(<ctx parameter>, *job.Timeout) created in that call, else under the parameter; the derived context is not stored; its cancel function runs on every exit")
	c.Rule("C13.2", "the timeout is on every job kind (E4): CompileCommand stores its timeout parameter in Job.Timeout, all its callers pass Task.Timeout, and every Job built on the way from CompileTask carries a Timeout")
	c.Rule("C13.3", "expiry is fatal (E2): rows 'not an exit status' of the job-walk table (with and without allow_failure) and the hook tables; Execute returns the interpreter's error unchanged, so an expired deadline cannot be taken for an exit status; the interpreter runs programs with the library's default exec handler (option table of C12.5), which reports a program killed at the deadline with the context's error, not with a status")
	c.Rule("C13.4", "decoding (E5): the one mapstructure decoder has StringToTimeDurationHookFunc among its hooks; taskDefinition.Timeout is *time.Duration and buildTask copies it unchanged")
	c.Rule("C13.5", "the configured timeout is not rewritten (E4): Task.Timeout is a pointer, which a value copy of the task shares with the original; no store in the module writes through a pointer loaded from a Task.Timeout field — a per-stage override written that way replaces the task's own timeout for every later use of the task")
	c.Rule("C13.6", "Execute returns when the interpreter does (E8): besides the interpreter call nothing synchronously reachable from Execute in the module can wait without bound — every channel operation, Cond.Wait or polling loop has an unconditional waker or waits for a goroutine the function started itself that signals on every path; a hand-off to a watchdog goroutine that may already have gone keeps a timed-out command's Execute, and the task, from ever being reported")
	c.NotDecided = append(c.NotDecided, "every timing aspect (how soon the process dies, children ignoring SIGINT, command substitutions swallowing the deadline): all inside mvdan.cc/sh")
	p := c.P
	r := resolveRunner(c, "C13.0")
	if !r.ok {
		return
	}
	c.OK("C13.0", "runner roles", r.run.Pos(), "ok")
	ex := p.Func("pkg/executor", "DefaultExecutor", "Execute")
	ccr := resolveCmdCompiler(p)
	cc := ccr.fn
	if ex == nil || cc == nil {
		c.Und("C13.0", "executor.(*DefaultExecutor).Execute", token.NoPos, "Execute / CompileCommand not found")
		return
	}
	perJobDeadline(c, ex, "C13.1")

	// C13.2
	okStore := false
	for _, g := range fieldsGivenIn(p, cc, "Job.Timeout") {
		if ccr.isRole(g.val, "timeout") {
			okStore = true
		}
	}
	c.Check(okStore, "C13.2", an.Short(cc)+":Job.Timeout", cc.Pos(), "CompileCommand stores its timeout parameter in the job", "CompileCommand does not store its timeout parameter in Job.Timeout")
	for _, site := range compileCommandSites(c, r) {
		toArg := ccr.arg1(site.call, "timeout")
		ap := an.AccessPath(toArg)
		good := toArg != nil && ap.LastField() == "Timeout" && len(ap.Fields) == 1 && an.TypeIs(ap.Base.Type(), "pkg/task", "Task")
		if !good && toArg != nil {
			good = c.P.DeepFieldProvCallers(toArg) == "Task.Timeout"
		}
		c.Check(good, "C13.2", an.Short(site.fn)+":CompileCommand("+site.kind+"):timeout", site.call.Pos(), "passes the task's Timeout", "the "+site.kind+" job is compiled without the task's timeout: "+ap.String())
	}
	// every Job allocated in functions reachable from CompileTask has Timeout set
	ct := p.Func("pkg/runner", "TaskCompiler", "CompileTask")
	if ct != nil {
		reach := p.Reach([]*ssa.Function{ct}, func(e an.CallEdge) bool { return an.InModule(e.Callee) })
		n := 0
		for fn := range reach {
			an.EachInstr(fn, func(in ssa.Instruction) {
				a, ok := in.(*ssa.Alloc)
				if !ok || !an.TypeIs(a.Type(), "pkg/executor", "Job") {
					return
				}
				if _, isStruct := an.Deref(a.Type()).Underlying().(*types.Struct); !isStruct {
					return
				}
				n++
				has := false
				for _, st := range an.StoresToField(fn, a, "Timeout") {
					_ = st
					has = true
				}
				// a whole-struct copy carries the field along
				for _, rr := range *a.Referrers() {
					if st, ok := rr.(*ssa.Store); ok && st.Addr == ssa.Value(a) {
						has = true
					}
				}
				if !has && fn.Signature.Variadic() {
					// a constructor that applies functional options: the timeout is its callers' to give
					sites := 0
					all := true
					for _, site := range p.CallSitesOf(fn) {
						if _, inReach := reach[site.Parent()]; !inReach && site.Parent() != ct {
							continue
						}
						sites++
						gives := false
						for _, g := range fieldsGivenIn(p, site.Parent(), "Job.Timeout") {
							if oc, isCall := g.at.(*ssa.Call); isCall {
								for _, el := range an.VariadicElems(site.Common().Args[len(site.Common().Args)-1]) {
									for _, src := range an.Sources(el) {
										if src == ssa.Value(oc) {
											gives = true
										}
									}
								}
							}
						}
						if !gives {
							all = false
						}
					}
					if sites > 0 && all {
						has = true
					}
				}
				c.Check(has, "C13.2", an.Short(fn)+":Job-literal", a.Pos(), "the job carries a Timeout", "a Job is built on the way from CompileTask without a Timeout: commands compiled through it are never bounded")
			})
		}
		if n == 0 {
			c.Und("C13.2", an.Short(ct)+":jobs", ct.Pos(), "no Job is built on the way from CompileTask")
		}
	}

	// C13.3
	executeTable(c, r, "C13.3", false)
	// … nor can the interpreter hand it back as one: programs are run by the library's default handler, which
	// reports a killed program with the context's error (a handler of the module could turn it into a status)
	interpOptions(c, "C13.3")
	// C13.6
	{
		before := len(c.Obs)
		boundedWaitsOpt(c, "C13.6", []*ssa.Function{ex}, "Execute", waitOpts{polls: true, onlyChans: true, accepted: func(in ssa.Instruction) string { return locallyWoken(p, in) }})
		n := 0
		for _, o := range c.Obs[before:] {
			if o.Rule == "C13.6" {
				n++
			}
		}
		if n == 0 {
			c.OK("C13.6", an.Short(ex)+":channel-waits", ex.Pos(), "no channel operation, Cond.Wait or polling loop is synchronously reachable from Execute in the module")
		}
	}
	// C13.5
	{
		n, bad := 0, false
		for _, fn := range p.Funcs {
			if !an.InModule(fn) {
				continue
			}
			an.EachInstr(fn, func(in ssa.Instruction) {
				st, ok := in.(*ssa.Store)
				if !ok {
					return
				}
				n++
				for _, src := range an.Sources(st.Addr) {
					u, ok := src.(*ssa.UnOp)
					if !ok || u.Op != token.MUL {
						continue
					}
					if fa, ok := u.X.(*ssa.FieldAddr); ok && an.TypeField(fa) == "Task.Timeout" {
						bad = true
						c.Bad("C13.5", an.Short(fn)+":write(*Task.Timeout)", st.Pos(), "%s writes through the pointer held in Task.Timeout of %s: the duration is shared by the task and every copy of it, so the task's configured timeout is replaced for all its later uses (another stage, a direct run, a watcher)", an.Short(fn), an.Prov(fa.X))
					}
				}
			})
		}
		if !bad {
			c.OK("C13.5", "module:write(*Task.Timeout)", token.NoPos, "no store writes through a Task.Timeout pointer (%d stores looked at)", n)
		}
	}
	checkRunTable(c, "C13.3", map[string]bool{"hooks": true})

	// C13.4
	decoding(c, "C13.4")
}

func perJobDeadline(c *an.Ctx, ex *ssa.Function, rule string) {
	p := c.P
	er := resolveExec(p)
	run := er.run
	var wt *ssa.Call
	for _, call := range er.callsIn("context.WithTimeout") {
		wt = call
	}
	if run == nil {
		c.Und(rule, an.Short(ex)+":interp.Run", ex.Pos(), "no synchronous interpreter call")
		return
	}
	if wt == nil {
		c.Bad(rule, an.Short(ex)+":WithTimeout", ex.Pos(), "Execute never derives a deadline from the job's timeout")
		return
	}
	ctxParam := ex.Params[1]
	// parent and duration (followed out of a helper to Execute's own parameter)
	parentOK := false
	for _, src := range er.sources(wt.Call.Args[0]) {
		if src == ssa.Value(ctxParam) {
			parentOK = true
		} else {
			parentOK = false
			break
		}
	}
	c.Check(parentOK, rule, an.Short(ex)+":WithTimeout(parent)", wt.Pos(), "the deadline is derived from the context Execute was given (each command gets the full timeout)", "the deadline is not derived from Execute's ctx parameter: "+an.Prov(wt.Call.Args[0]))
	durOK := an.FieldProv(wt.Call.Args[1]) == "Job.Timeout" || strings.HasSuffix(an.Prov(wt.Call.Args[1]), "job.Timeout")
	c.Check(durOK, rule, an.Short(ex)+":WithTimeout(duration)", wt.Pos(), "the duration is *job.Timeout", "the duration is not the job's Timeout: "+an.Prov(wt.Call.Args[1]))
	// rows
	isTimeoutNil := func(v ssa.Value) (eq, ok bool) {
		x, e, isNil := an.NilTest(v)
		if !isNil {
			return false, false
		}
		if an.FieldProv(x) != "Job.Timeout" {
			return false, false
		}
		return e, true
	}
	wtCtx := extractOf(wt, 0)
	for _, set := range []bool{true, false} {
		set := set
		exp := er.explorer()
		exp.Atom = func(v ssa.Value) (an.AVal, bool) {
			if eq, ok := isTimeoutNil(v); ok {
				return an.ABool(eq != set), true
			}
			return an.AVal{}, false
		}
		var used []string
		exp.Effect = func(in ssa.Instruction, st *an.State) string {
			if in != ssa.Instruction(run) {
				return ""
			}
			// which value reaches the ctx argument on this path? through inlined helpers by identity,
			// through φ by the path's evaluation
			arg := st.Root(run.Call.Args[1])
			srcs := phiSourcesUnder(arg, func(cond ssa.Value) (bool, bool) {
				if eq, ok := isTimeoutNil(cond); ok {
					return eq != set, true
				}
				return false, false
			})
			var labels []string
			for _, s := range srcs {
				s = st.Root(s)
				switch {
				case s == ssa.Value(ctxParam):
					labels = append(labels, "param")
				default:
					isWT := false
					for _, w := range wtCtx {
						if s == w {
							isWT = true
						}
					}
					if isWT {
						labels = append(labels, "deadline")
					} else {
						labels = append(labels, "other:"+an.Prov(s))
					}
				}
			}
			used = append(used, strings.Join(dedup(labels), "|"))
			return "run(" + strings.Join(dedup(labels), "|") + ")"
		}
		outs := exp.Run(ex, ex.Blocks[0], nil, nil)
		_ = outs
		want := "param"
		if set {
			want = "deadline"
		}
		good := len(used) > 0
		for _, u := range used {
			if u != want {
				good = false
			}
		}
		key := fmt.Sprintf("%s:row timeout %s", an.Short(ex), map[bool]string{true: "set", false: "unset"}[set])
		c.Check(good, rule, key, run.Pos(), "the interpreter runs under the "+want+" context", fmt.Sprintf("with the job's timeout %s the interpreter runs under %v, want %s", map[bool]string{true: "set", false: "unset"}[set], dedup(used), want))
	}
	// the derived context is not stored in a field
	stored := false
	for _, f := range er.scope {
		an.EachInstr(f, func(in ssa.Instruction) {
			st, ok := in.(*ssa.Store)
			if !ok {
				return
			}
			if _, isField := st.Addr.(*ssa.FieldAddr); !isField {
				return
			}
			for _, src := range er.sources(st.Val) {
				for _, w := range wtCtx {
					if src == w {
						stored = true
					}
				}
			}
		})
	}
	c.Check(!stored, rule, an.Short(ex)+":deadline-not-kept", wt.Pos(), "the derived context lives for this call only", "the derived context is stored in a field: later commands would share one deadline")
	// cancel on every exit: from the point in Execute where the deadline exists (the WithTimeout call, or the
	// call of the helper that makes it), every path to an exit passes a defer that calls the cancel function
	cancelVals := extractOf(wt, 1)
	isCancel := func(v ssa.Value) bool {
		for _, src := range er.sources(v) {
			for _, cv := range cancelVals {
				if src == cv {
					return true
				}
			}
		}
		return false
	}
	var origin ssa.Instruction = wt
	if wt.Parent() != ex {
		origin = nil
		an.EachInstr(ex, func(in ssa.Instruction) {
			call, ok := in.(*ssa.Call)
			if !ok || origin != nil {
				return
			}
			for _, callee := range p.Callees(&call.Call) {
				if er.in[callee] {
					if _, reaches := p.Reach([]*ssa.Function{callee}, func(e an.CallEdge) bool { return er.in[e.Callee] })[wt.Parent()]; reaches {
						origin = call
					}
				}
			}
		})
	}
	released := false
	if origin != nil {
		released, _ = an.OnAllPathsToExit(origin, func(in ssa.Instruction) bool {
			d, ok := in.(*ssa.Defer)
			if !ok {
				return false
			}
			// direct defer cancel()
			if isCancel(d.Call.Value) {
				return true
			}
			for _, callee := range p.Callees(&d.Call) {
				found := false
				an.EachInstr(callee, func(y ssa.Instruction) {
					if call, ok := y.(*ssa.Call); ok && isCancel(call.Call.Value) {
						found = true
					}
				})
				if found {
					return true
				}
			}
			return false
		}, nil)
	}
	c.Check(released, rule, an.Short(ex)+":cancel-released", wt.Pos(), "the deadline's cancel function is deferred on every path", "the deadline's cancel function is not released on every exit")
}

func decoding(c *an.Ctx, rule string) {
	p := c.P
	var sites []ssa.CallInstruction
	for _, fn := range p.Funcs {
		sites = append(sites, an.CallsIn(fn, "github.com/mitchellh/mapstructure.NewDecoder")...)
	}
	if len(sites) != 1 {
		c.Bad(rule, "config:mapstructure.NewDecoder", token.NoPos, "expected exactly one mapstructure decoder in the module, found %d", len(sites))
		return
	}
	site := sites[0]
	// the configuration object given to NewDecoder (possibly built by a helper of the package):
	// every such object has its DecodeHook set to a value the duration hook flows into
	hook, decodeHookSet := false, false
	var cfgs []*ssa.Alloc
	for _, src := range p.DeepSources(site.Common().Args[0], 3, false) {
		if al, ok := src.(*ssa.Alloc); ok && strings.HasSuffix(an.Deref(al.Type()).String(), "mapstructure.DecoderConfig") {
			cfgs = append(cfgs, al)
		}
	}
	if len(cfgs) > 0 {
		hook, decodeHookSet = true, true
	}
	for _, al := range cfgs {
		sts := an.StoresToField(al.Parent(), al, "DecodeHook")
		if len(sts) == 0 {
			decodeHookSet = false
		}
		for _, st := range sts {
			found := strings.Contains(an.FieldProv(st.Val), "StringToTimeDurationHookFunc")
			for _, src := range p.DeepSources(st.Val, 3, false) {
				if strings.Contains(an.FieldProv(src), "StringToTimeDurationHookFunc") {
					found = true
				}
				// a hook composed once into a package variable that nothing reassigns
				if u, ok := src.(*ssa.UnOp); ok && u.Op == token.MUL {
					if g, ok := u.X.(*ssa.Global); ok {
						if iv := globalInitValue(p, g); iv != nil {
							if strings.Contains(an.FieldProv(iv), "StringToTimeDurationHookFunc") {
								found = true
							}
							for _, s2 := range p.DeepSources(iv, 3, false) {
								if strings.Contains(an.FieldProv(s2), "StringToTimeDurationHookFunc") {
									found = true
								}
							}
						}
					}
				}
			}
			if !found {
				hook = false
			}
		}
	}
	c.Check(hook && decodeHookSet, rule, an.Short(site.Parent())+":duration-hook", site.Pos(), "the decoder converts duration strings (StringToTimeDurationHookFunc in DecodeHook)", "the decoder's DecodeHook does not include StringToTimeDurationHookFunc: timeout: 10s is rejected or mis-decoded")
	td := p.Named("internal/config", "taskDefinition")
	okType := false
	if td != nil {
		st := td.Underlying().(*types.Struct)
		for i := 0; i < st.NumFields(); i++ {
			if st.Field(i).Name() == "Timeout" && st.Field(i).Type().String() == "*time.Duration" {
				okType = true
			}
		}
	}
	c.Check(okType, rule, "config.taskDefinition.Timeout:type", token.NoPos, "taskDefinition.Timeout is *time.Duration", "taskDefinition.Timeout is not *time.Duration")
	if tb := resolveTaskBuild(p); tb != nil {
		bt := tb.root
		sts := tb.storesTo("Timeout")
		good := len(sts) > 0
		for _, st := range sts {
			if an.FieldProv(st.Val) != "taskDefinition.Timeout" {
				good = false
			}
		}
		c.Check(good, rule, an.Short(bt)+":Task.Timeout", bt.Pos(), "buildTask copies the definition's timeout unchanged", "buildTask does not copy taskDefinition.Timeout into Task.Timeout")
	} else {
		c.Und(rule, "config.buildTask", token.NoPos, "the function that builds a task.Task from a taskDefinition was not found")
	}
	// … and so does every function that copies a task field by field (a Clone used for per-stage / per-event copies)
	for _, cp := range taskCopiers(p) {
		c.Check(cp.copied["Timeout"], rule, an.Short(cp.fn)+":copies(Task.Timeout)", cp.fn.Pos(), "the field-by-field copy of a task carries the timeout over", fmt.Sprintf("%s copies a task field by field (%d fields) but not its Timeout: a task run through that copy has no timeout, its overrunning commands run to completion and the following commands start", an.Short(cp.fn), len(cp.copied)))
	}
}
