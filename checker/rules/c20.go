package rules

import (
	"fmt"
	"go/constant"
	"go/token"
	"go/types"
	"sort"
	"strings"

	"golang.org/x/tools/go/ssa"

	"taskverif/an"
)

func init() { register("C20", checkC20) }

func checkC20(c *an.Ctx) {
	c.Rule("C20.1", "selection table (E2/E3): NewWatcher globs every include pattern with doublestar.Glob, tests every match against every exclude pattern with doublestar.PathMatch(pattern, match), and appends the match to the watched paths iff no exclude matched; glob and match errors are returned")
	c.Rule("C20.2", "event registry (E9): fsnotifyMap has a key for every exported constant of type fsnotify.Op; the default event list equals the set of its values; configured names are stored as given")
	c.Rule("C20.3", "filter and variables (E3/E5): in the handler the test events[name(event.Op)] dominates the run; the run's task is a fresh copy whose env is [Task.Env < {EventName: name, EventPath: event.Name}]")
	c.Rule("C20.4", "registration (E3): Watcher.Run adds every selected path to fsnotify and returns an Add error; a renamed path is re-added")
	c.Rule("C20.5", "keeps serving (E3/E8): the event loop ends only when the watcher is closed or a channel is closed; each handler runs in its own goroutine registered with the events WaitGroup; no TaskRunner.Run follows a TaskRunner.Cancel on the same runner (the runner's context is created once and Run refuses a cancelled context)")
	c.NotDecided = append(c.NotDecided, "doublestar's matching semantics, fsnotify delivery", "combined Op bit masks (looked up by exact value: observation)", "the 1 s polling period")
	p := c.P
	nw := p.Func("internal/watch", "", "NewWatcher")
	run := p.Func("internal/watch", "Watcher", "Run")
	handle := p.Func("internal/watch", "Watcher", "handle")
	if nw == nil || run == nil {
		c.Und("C20.0", "watch.NewWatcher", token.NoPos, "NewWatcher / Watcher.Run not found")
		return
	}
	selection(c, nw, "C20.1")
	registry(c, nw, "C20.2")
	if handle == nil {
		// by role: the function that looks the event up in fsnotifyMap
		for _, fn := range p.Funcs {
			if inPkgs("internal/watch")(fn) {
				an.EachInstr(fn, func(in ssa.Instruction) {
					if lk, ok := in.(*ssa.Lookup); ok {
						if g, ok := an.Resolve(lk.X).(*ssa.UnOp); ok {
							if gl, ok := g.X.(*ssa.Global); ok && gl.Name() == "fsnotifyMap" {
								handle = fn
							}
						}
					}
				})
			}
		}
	}
	if handle == nil {
		c.Und("C20.3", "watch:handler", token.NoPos, "no function maps an event's Op through fsnotifyMap")
	} else {
		handler(c, handle, "C20.3")
	}
	registration(c, run, "C20.4")
	serving(c, run, handle, "C20.5")
}

func selection(c *an.Ctx, nw *ssa.Function, rule string) {
	p := c.P
	var watchP, exclP *ssa.Parameter
	for _, prm := range nw.Params {
		switch prm.Name() {
		case "watch":
			watchP = prm
		case "exclude":
			exclP = prm
		}
	}
	var glob *ssa.Call
	for _, ci := range an.CallsIn(nw, "github.com/bmatcuk/doublestar.Glob") {
		glob, _ = ci.(*ssa.Call)
	}
	if glob == nil || watchP == nil || exclP == nil {
		c.Bad(rule, an.Short(nw)+":Glob", nw.Pos(), "NewWatcher does not expand its include patterns with doublestar.Glob")
		return
	}
	loops := an.Loops(nw)
	var lInc, lMatch, lExc *an.Loop
	for _, l := range loops {
		op := l.RangeOperand()
		if op == nil {
			continue
		}
		switch {
		case an.SameValue(op, watchP):
			lInc = l
		case an.SameValue(op, exclP):
			lExc = l
		default:
			for _, src := range an.Sources(op) {
				if e, ok := src.(*ssa.Extract); ok && e.Tuple == ssa.Value(glob) && e.Index == 0 {
					lMatch = l
				}
			}
		}
	}
	if lInc == nil || lMatch == nil {
		c.Bad(rule, an.Short(nw)+":loops", nw.Pos(), "NewWatcher does not range over every include pattern and every match of it")
		return
	}
	_, incElems := lInc.RangeKeyValue()
	okGlobArg := false
	for _, e := range incElems {
		if an.SameValue(glob.Call.Args[0], e) {
			okGlobArg = true
		}
	}
	c.Check(okGlobArg && lInc.Blocks[glob.Block()], rule, an.Short(nw)+":Glob(pattern)", glob.Pos(), "each include pattern is globbed", "Glob is not applied to each include pattern")
	fate := p.ErrFate(glob, noReturn)
	c.Check(fate.Kind == "propagated" || fate.Kind == "converted", rule, an.Short(nw)+":err(Glob)", glob.Pos(), "a malformed include pattern is an error", "a Glob error is dropped: "+fate.Detail)
	_, matchElems := lMatch.RangeKeyValue()
	isMatch := func(v ssa.Value) bool {
		for _, e := range matchElems {
			if an.SameValue(v, e) {
				return true
			}
		}
		return false
	}
	// the exclusion test
	var pm *ssa.Call
	for _, ci := range an.CallsIn(nw, "github.com/bmatcuk/doublestar.PathMatch") {
		pm, _ = ci.(*ssa.Call)
	}
	if len(exclUses(nw, exclP)) == 0 {
		c.Bad(rule, an.Short(nw)+":exclude", nw.Pos(), "the exclude patterns are never consulted")
		return
	}
	if pm == nil || lExc == nil {
		c.Bad(rule, an.Short(nw)+":PathMatch", nw.Pos(), "matches are not tested against every exclude pattern with doublestar.PathMatch(pattern, match): an exclude decided by anything else (a shortcut, a precompiled matcher) can disagree with the glob semantics")
		return
	}
	_, excElems := lExc.RangeKeyValue()
	argOK := isMatch(pm.Call.Args[1])
	patOK := false
	for _, e := range excElems {
		if an.SameValue(pm.Call.Args[0], e) {
			patOK = true
		}
	}
	c.Check(argOK && patOK && lMatch.Blocks[lExc.Header], rule, an.Short(nw)+":PathMatch(args)", pm.Pos(), "PathMatch(exclude pattern, match) for every exclude pattern of every match", "the exclusion test is not PathMatch(<each exclude pattern>, <the match>)")
	fate2 := p.ErrFate(pm, noReturn)
	c.Check(fate2.Kind == "propagated" || fate2.Kind == "converted", rule, an.Short(nw)+":err(PathMatch)", pm.Pos(), "a malformed exclude pattern is an error", "a PathMatch error is dropped: "+fate2.Detail)
	// table: matched=false for every exclude → appended once; matched=true → not appended
	matched := extractOf(pm, 0)
	for _, m := range []bool{false, true} {
		m := m
		ex := &an.Explorer{P: p, NoReturn: noReturn, MaxVisits: 3}
		lMatch.Bound(ex)
		ex.Atom = func(v ssa.Value) (an.AVal, bool) {
			for _, x := range matched {
				if v == x {
					return an.ABool(m), true
				}
			}
			for _, e := range errOf(pm) {
				if v == e {
					return an.AVal{K: an.ANil}, true
				}
			}
			return an.AVal{}, false
		}
		ex.Effect = func(in ssa.Instruction, st *an.State) string {
			sto, ok := in.(*ssa.Store)
			if !ok {
				return ""
			}
			fa, ok := sto.Addr.(*ssa.FieldAddr)
			if !ok || an.TypeField(fa) != "Watcher.paths" {
				return ""
			}
			for _, src := range an.Sources(sto.Val) {
				call, ok := src.(*ssa.Call)
				if !ok {
					continue
				}
				if b, ok := call.Call.Value.(*ssa.Builtin); ok && b.Name() == "append" {
					for _, e := range an.VariadicElems(call.Call.Args[1]) {
						if isMatch(e) {
							return "append(match)"
						}
					}
					return "append(other)"
				}
			}
			return "paths:=" + an.Prov(sto.Val)
		}
		outs := ex.Run(nw, lMatch.BodyEntry(), lMatch.Header, nil)
		bad := ""
		sawExcl := false
		for _, o := range outs {
			if o.End != "stop" {
				continue
			}
			n := 0
			for _, e := range o.Effects {
				if e == "append(match)" {
					n++
				} else {
					bad = "unexpected write " + e
				}
			}
			// did this path evaluate at least one exclude pattern?
			tested := false
			for _, u := range o.Unknown {
				if strings.Contains(u, "len(exclude)") || strings.Contains(u, "exclude") {
					tested = true
				}
			}
			_ = tested
			if m {
				// a path that tested an exclude (matched) must not append; a path with no exclude patterns appends
				if n > 1 {
					bad = "a match is appended more than once"
				}
				if n == 1 {
					// acceptable only when the exclude loop was not entered (no patterns)
					entered := false
					for _, u := range o.Unknown {
						if strings.HasSuffix(u, "=true") && strings.Contains(u, "len(") {
							entered = true
						}
					}
					if entered {
						sawExcl = true
						bad = "a match that an exclude pattern matched is still watched"
					}
				}
			} else if n != 1 {
				bad = fmt.Sprintf("a match that no exclude pattern matched is appended %d times, want once", n)
			}
		}
		_ = sawExcl
		if len(outs) == 0 {
			bad = "no path"
		}
		key := fmt.Sprintf("%s:row excluded=%v", an.Short(nw), m)
		if bad != "" {
			c.Bad(rule, key, pm.Pos(), "%s", bad)
		} else {
			c.OK(rule, key, pm.Pos(), "%d paths", len(outs))
		}
	}
}

func exclUses(fn *ssa.Function, prm *ssa.Parameter) []ssa.Instruction {
	var out []ssa.Instruction
	if refs := prm.Referrers(); refs != nil {
		for _, r := range *refs {
			if _, dbg := r.(*ssa.DebugRef); !dbg {
				out = append(out, r)
			}
		}
	}
	return out
}

func registry(c *an.Ctx, nw *ssa.Function, rule string) {
	p := c.P
	sp := p.Pkg("internal/watch")
	initFn := sp.Func("init")
	keys, vals := map[int64]bool{}, map[string]bool{}
	if initFn != nil {
		an.EachInstr(initFn, func(in ssa.Instruction) {
			mu, ok := in.(*ssa.MapUpdate)
			if !ok {
				return
			}
			isMap := false
			for _, src := range an.Sources(mu.Map) {
				_ = src
			}
			// the map literal stored into the global fsnotifyMap
			if mm, ok := mu.Map.(*ssa.MakeMap); ok {
				for _, r := range *mm.Referrers() {
					if st, ok := r.(*ssa.Store); ok {
						if g, ok := st.Addr.(*ssa.Global); ok && g.Name() == "fsnotifyMap" {
							isMap = true
						}
					}
				}
			}
			if !isMap {
				return
			}
			if k, ok := an.ConstInt(mu.Key); ok {
				keys[k] = true
			}
			if s, ok := an.ConstString(mu.Value); ok {
				vals[s] = true
			}
		})
	}
	if len(keys) == 0 {
		c.Und(rule, "watch.fsnotifyMap", token.NoPos, "the event table fsnotifyMap was not found")
		return
	}
	// exported constants of fsnotify.Op
	var missing []string
	nOps := 0
	for _, ip := range p.Pkgs {
		if ip.PkgPath != an.ModulePath+"/internal/watch" {
			continue
		}
		for _, imp := range ip.Types.Imports() {
			if imp.Path() != "github.com/fsnotify/fsnotify" {
				continue
			}
			scope := imp.Scope()
			for _, name := range scope.Names() {
				k, ok := scope.Lookup(name).(*types.Const)
				if !ok || !k.Exported() {
					continue
				}
				if n, ok := k.Type().(*types.Named); !ok || n.Obj().Name() != "Op" {
					continue
				}
				nOps++
				v, _ := constant.Int64Val(k.Val())
				if !keys[v] {
					missing = append(missing, name)
				}
			}
		}
	}
	sort.Strings(missing)
	c.Check(nOps > 0 && len(missing) == 0, rule, "watch.fsnotifyMap:keys", token.NoPos, fmt.Sprintf("all %d fsnotify.Op constants have a name", nOps), fmt.Sprintf("fsnotifyMap has no entry for %v: events of that type are never delivered", missing))
	// default list
	defaults := map[string]bool{}
	an.EachInstr(nw, func(in ssa.Instruction) {
		sl, ok := in.(*ssa.Slice)
		if !ok {
			return
		}
		if _, isStr := sl.Type().Underlying().(*types.Slice); !isStr {
			return
		}
		for _, e := range an.VariadicElems(sl) {
			if s, ok := an.ConstString(e); ok {
				defaults[s] = true
			}
		}
	})
	var diff []string
	for v := range vals {
		if !defaults[v] {
			diff = append(diff, "-"+v)
		}
	}
	for d := range defaults {
		if !vals[d] {
			diff = append(diff, "+"+d)
		}
	}
	sort.Strings(diff)
	c.Check(len(diff) == 0, rule, an.Short(nw)+":default-events", nw.Pos(), "with no events configured all event names are subscribed", fmt.Sprintf("the default event list differs from the names in fsnotifyMap: %v", diff))
	// the default applies exactly when no events are given, and names are stored as given
	okStore := false
	for _, l := range an.Loops(nw) {
		for b := range l.Blocks {
			for _, in := range b.Instrs {
				if mu, ok := in.(*ssa.MapUpdate); ok && an.FieldProv(mu.Map) == "Watcher.events" {
					_, elems := l.RangeKeyValue()
					for _, e := range elems {
						if an.SameValue(mu.Key, e) {
							if k, ok := mu.Value.(*ssa.Const); ok && k.Value != nil && k.Value.ExactString() == "true" {
								okStore = true
							}
						}
					}
				}
			}
		}
	}
	c.Check(okStore, rule, an.Short(nw)+":subscribe", nw.Pos(), "every listed event name is subscribed as given", "the listed event names are not stored unchanged in the subscribed set")
}

func handler(c *an.Ctx, h *ssa.Function, rule string) {
	p := c.P
	var runCall ssa.CallInstruction
	for _, ci := range an.CallsIn(h, "(*pkg/runner.TaskRunner).Run") {
		runCall = ci
	}
	if runCall == nil {
		c.Bad(rule, an.Short(h)+":run", h.Pos(), "the handler never runs the watcher's task")
		return
	}
	// event name = fsnotifyMap[event.Op]
	var name *ssa.Lookup
	an.EachInstr(h, func(in ssa.Instruction) {
		if lk, ok := in.(*ssa.Lookup); ok {
			if u, ok := an.Resolve(lk.X).(*ssa.UnOp); ok {
				if g, ok := u.X.(*ssa.Global); ok && g.Name() == "fsnotifyMap" && an.FieldProv(lk.Index) == "Event.Op" {
					name = lk
				}
			}
		}
	})
	if name == nil {
		c.Bad(rule, an.Short(h)+":event-name", h.Pos(), "the handler does not name the event through fsnotifyMap[event.Op]")
		return
	}
	guarded := false
	for _, g := range an.Guards(runCall.Block()) {
		lk, ok := g.Cond.(*ssa.Lookup)
		if ok && an.FieldProv(lk.X) == "Watcher.events" && an.SameValue(lk.Index, name) && g.Outcome {
			guarded = true
		}
	}
	c.Check(guarded, rule, an.Short(h)+":filter", runCall.Pos(), "the task runs only for subscribed event types", "the run is not dominated by events[name(event.Op)]: unsubscribed events trigger the task (or subscribed ones do not)")
	// fresh copy
	target := runCall.Common().Args[1]
	fresh, copied := an.FreshBase(target)
	c.Check(fresh && copied, rule, an.Short(h)+":copy", runCall.Pos(), "each event run works on its own copy of the task", "the handler runs the shared task object")
	cfg := chainCfg(p)
	for _, field := range []struct{ f, a, b string }{{"Env", "EventName", "EventPath"}} {
		sts := an.StoresToField(h, target, field.f)
		good := false
		var seen []string
		for _, st := range sts {
			for _, ch := range cfg.Chains(st.Val) {
				seen = append(seen, ch.String())
				if len(ch) == 2 && ch[0].Label == "Task."+field.f && strings.HasPrefix(ch[1].Label, "map:{") {
					l := ch[1].Label
					if strings.Contains(l, field.a+"=") && strings.Contains(l, field.b+"=Event.Name") {
						// EventName's value is the looked-up name
						good = true
					}
				}
			}
		}
		c.Check(good, rule, an.Short(h)+":copy."+field.f, runCall.Pos(), "the copy's env is the task's env with EventName/EventPath on top", fmt.Sprintf("the event variables are not layered as [Task.Env < {EventName, EventPath=event.Name}]: %v", seen))
	}
}

func registration(c *an.Ctx, run *ssa.Function, rule string) {
	p := c.P
	var add *ssa.Call
	var loop *an.Loop
	for _, l := range an.Loops(run) {
		if an.FieldProv(l.RangeOperand()) != "Watcher.paths" {
			continue
		}
		for b := range l.Blocks {
			for _, in := range b.Instrs {
				if call, ok := in.(*ssa.Call); ok && an.ShortCallee(&call.Call) == "(*github.com/fsnotify/fsnotify.Watcher).Add" {
					add, loop = call, l
				}
			}
		}
	}
	if add == nil {
		c.Bad(rule, an.Short(run)+":Add", run.Pos(), "Watcher.Run does not register every selected path with fsnotify")
		return
	}
	_, elems := loop.RangeKeyValue()
	okArg := false
	for _, e := range elems {
		if an.SameValue(add.Call.Args[1], e) {
			okArg = true
		}
	}
	c.Check(okArg, rule, an.Short(run)+":Add(path)", add.Pos(), "every selected path is added", "Add is not given each element of the selected paths")
	fate := p.ErrFate(add, noReturn)
	c.Check(fate.Kind == "propagated" || fate.Kind == "converted", rule, an.Short(run)+":err(Add)", add.Pos(), "a path that cannot be watched is an error", "an Add error is dropped: "+fate.Detail)
	// every iteration reaches Add (no continue before it)
	ex := &an.Explorer{P: p, NoReturn: noReturn}
	loop.Bound(ex)
	ex.Effect = func(in ssa.Instruction, st *an.State) string {
		if in == ssa.Instruction(add) {
			return "Add"
		}
		return ""
	}
	outs := ex.Run(run, loop.BodyEntry(), loop.Header, nil)
	all := len(outs) > 0
	for _, o := range outs {
		has := false
		for _, e := range o.Effects {
			if e == "Add" {
				has = true
			}
		}
		if !has {
			all = false
		}
	}
	c.Check(all, rule, an.Short(run)+":Add-every", add.Pos(), "no selected path is skipped", "a selected path can be skipped without being added")
	// rename re-add
	re := false
	for _, fn := range an.WithAnon(run) {
		for _, ci := range an.CallsIn(fn, "(*github.com/fsnotify/fsnotify.Watcher).Add") {
			if an.FieldProv(ci.Common().Args[1]) == "Event.Name" {
				re = true
			}
		}
	}
	c.Check(re, rule, an.Short(run)+":re-add", run.Pos(), "a renamed path is added again", "a renamed path is not re-added to fsnotify")
}

func serving(c *an.Ctx, run, handle *ssa.Function, rule string) {
	p := c.P
	// handlers in their own goroutine, registered with the events group
	var goHandle *ssa.Go
	var loopFn *ssa.Function
	for _, fn := range an.WithAnon(run) {
		an.EachInstr(fn, func(in ssa.Instruction) {
			if g, ok := in.(*ssa.Go); ok && handle != nil {
				for _, callee := range p.Callees(&g.Call) {
					if callee == handle {
						goHandle, loopFn = g, fn
					}
				}
			}
		})
	}
	if goHandle == nil {
		c.Bad(rule, an.Short(run)+":go(handler)", run.Pos(), "events are not handled in their own goroutine: a long-running task blocks the delivery of later events")
	} else {
		c.OK(rule, an.Short(loopFn)+":go(handler)", goHandle.Pos(), "each event is handled in its own goroutine")
		addDonePairing(c, rule, "Watcher.eventsWg")
		// loop exits
		loop := an.InnermostLoop(an.Loops(loopFn), goHandle.Block())
		if loop == nil {
			c.Bad(rule, an.Short(loopFn)+":loop", goHandle.Pos(), "the handler is not started from an event loop")
		} else {
			for _, x := range exitEdges(loop) {
				from := x[0]
				why := ""
				ok := false
				for _, g := range append(an.Guards(from), func() []an.Guard {
					if br, isBr := an.BranchOf(from); isBr {
						// the exit edge itself
						out := br.True
						outcome := true
						if loop.Blocks[br.True] {
							out, outcome = br.False, false
						}
						_ = out
						return []an.Guard{{Cond: br.If.Cond, Outcome: outcome, Block: from}}
					}
					return nil
				}()...) {
					prov := an.FieldProv(g.Cond)
					switch {
					case prov == "Watcher.isClosed" && g.Outcome:
						ok, why = true, "watcher closed"
					case strings.Contains(an.Prov(g.Cond), "select") || isRecvOK(g.Cond):
						if !g.Outcome {
							ok, why = true, "channel closed"
						}
					}
				}
				pos := from.Instrs[len(from.Instrs)-1].Pos()
				c.Check(ok, rule, fmt.Sprintf("%s:loop-exit(block %s)", an.Short(loopFn), from.Comment), pos, "the event loop ends because: "+why, "the event loop can end for a reason other than the watcher or a channel being closed: later events are not served")
			}
		}
	}
	// no Run after Cancel on the same runner
	bad := false
	for _, fn := range p.Funcs {
		if !inPkgs("internal/watch", "cmd/taskctl")(fn) {
			continue
		}
		cancels := an.CallsIn(fn, "(*pkg/runner.TaskRunner).Cancel")
		runs := an.CallsIn(fn, "(*pkg/runner.TaskRunner).Run")
		for _, cc := range cancels {
			for _, rc := range runs {
				if an.FieldProv(cc.Common().Args[0]) != an.FieldProv(rc.Common().Args[0]) {
					continue
				}
				reach := cc.Block() == rc.Block() && an.InstrIndex(cc) < an.InstrIndex(rc) || (cc.Block() != rc.Block() && an.CanReach(cc.Block(), rc.Block()))
				if reach {
					bad = true
					c.Bad(rule, an.Short(fn)+":Run-after-Cancel", rc.Pos(), "%s cancels the runner %s and then runs a task on it: the runner's context is created once and Run refuses a cancelled context, so after the first event no run ever starts again", an.Short(fn), an.FieldProv(cc.Common().Args[0]))
				}
			}
		}
	}
	if !bad {
		c.OK(rule, "internal/watch:Run-after-Cancel", token.NoPos, "no function runs a task on a runner it has just cancelled")
	}
}

func isRecvOK(v ssa.Value) bool {
	e, ok := v.(*ssa.Extract)
	if !ok {
		return false
	}
	switch t := e.Tuple.(type) {
	case *ssa.Select:
		return true
	case *ssa.UnOp:
		return t.Op == token.ARROW && t.CommaOk
	}
	return false
}
