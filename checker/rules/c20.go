package rules

import (
	"fmt"
	"go/constant"
	"go/token"
	"go/types"
	"os"
	"sort"
	"strings"

	"golang.org/x/tools/go/ssa"

	"taskverif/an"
)

func init() { register("C20", checkC20) }

// watchRoles are the parts of internal/watch the rules talk about, found by
// what the code does; only the exported API (NewWatcher, Watcher.Run) is
// looked up by name.
type watchRoles struct {
	nw, run  *ssa.Function
	inW      func(*ssa.Function) bool
	scopeNew map[*ssa.Function]bool // internal/watch functions NewWatcher runs synchronously
	scopeRun map[*ssa.Function]bool // internal/watch functions Watcher.Run reaches (calls, go, closures)
	syncRun  map[*ssa.Function]bool // … by synchronous calls only
	opTable  *ssa.Global            // map[fsnotify.Op]string
	opFn     *ssa.Function          // or: func(fsnotify.Op) string, a switch over the operations
	evLoop   *an.Loop               // the loop that receives from fsnotify's Events channel
	loopFn   *ssa.Function
	pollFn   *ssa.Function       // helper of the loop that receives the event, when the receive is not in the loop itself
	launch   ssa.CallInstruction // the instruction in the event loop that starts the handler
	handle   *ssa.Function
}

func resolveWatch(c *an.Ctx) *watchRoles {
	p := c.P
	wr := &watchRoles{nw: p.Func("internal/watch", "", "NewWatcher"), run: p.Func("internal/watch", "Watcher", "Run"), inW: inPkgs("internal/watch")}
	if wr.nw == nil || wr.run == nil {
		return wr
	}
	set := func(m map[*ssa.Function][]an.CallEdge) map[*ssa.Function]bool {
		out := map[*ssa.Function]bool{}
		for f := range m {
			out[f] = true
		}
		return out
	}
	wr.scopeNew = set(p.Reach([]*ssa.Function{wr.nw}, func(e an.CallEdge) bool { return wr.inW(e.Callee) && e.Kind != an.EdgeGo }))
	wr.scopeRun = set(p.Reach([]*ssa.Function{wr.run}, func(e an.CallEdge) bool { return wr.inW(e.Callee) }))
	wr.syncRun = set(p.Reach([]*ssa.Function{wr.run}, func(e an.CallEdge) bool { return wr.inW(e.Callee) && e.Kind != an.EdgeGo }))
	// the event-name table: the package-level map[fsnotify.Op]string
	if sp := p.Pkg("internal/watch"); sp != nil {
		var names []string
		for name := range sp.Members {
			names = append(names, name)
		}
		sort.Strings(names)
		for _, name := range names {
			g, ok := sp.Members[name].(*ssa.Global)
			if !ok {
				continue
			}
			if m, ok := an.Deref(g.Type()).Underlying().(*types.Map); ok && an.TypeIs(m.Key(), "github.com/fsnotify/fsnotify", "Op") {
				if b, ok := m.Elem().Underlying().(*types.Basic); ok && b.Kind() == types.String {
					wr.opTable = g
				}
			}
		}
	}
	// … or a function of the package from fsnotify.Op to the name
	if wr.opTable == nil {
		for _, f := range p.Funcs {
			if !wr.inW(f) || f.Parent() != nil || f.Signature.Recv() != nil {
				continue
			}
			sig := f.Signature
			if sig.Params().Len() == 1 && sig.Results().Len() == 1 && an.TypeIs(sig.Params().At(0).Type(), "github.com/fsnotify/fsnotify", "Op") {
				if b, ok := sig.Results().At(0).Type().Underlying().(*types.Basic); ok && b.Kind() == types.String {
					wr.opFn = f
				}
			}
		}
	}
	// the event loop: a loop under Watcher.Run that receives from fsnotify.Watcher.Events
	runsTask := func(f *ssa.Function) bool {
		for g := range p.Reach([]*ssa.Function{f}, func(e an.CallEdge) bool { return wr.inW(e.Callee) }) {
			if len(an.CallsIn(g, "(pkg/runner.TaskRunner).Run")) > 0 {
				return true
			}
		}
		return false
	}
	var fns []*ssa.Function
	for f := range wr.scopeRun {
		fns = append(fns, f)
	}
	sort.Slice(fns, func(i, j int) bool { return fns[i].String() < fns[j].String() })
	// (the channel may reach a helper of the package as a parameter: what every caller passes)
	isEvents := func(ch ssa.Value) bool {
		return an.FieldProv(ch) == "Watcher.Events" || p.DeepFieldProvCallers(ch) == "Watcher.Events"
	}
	receives := func(in ssa.Instruction) bool {
		switch x := in.(type) {
		case *ssa.Select:
			for _, stt := range x.States {
				if stt.Dir == types.RecvOnly && isEvents(stt.Chan) {
					return true
				}
			}
		case *ssa.UnOp:
			if x.Op == token.ARROW && isEvents(x.X) {
				return true
			}
		}
		return false
	}
	fnReceives := func(g *ssa.Function) bool {
		found := false
		for h := range p.Reach([]*ssa.Function{g}, func(e an.CallEdge) bool { return e.Kind == an.EdgeCall && wr.inW(e.Callee) }) {
			an.EachInstr(h, func(in ssa.Instruction) {
				if receives(in) {
					found = true
				}
			})
		}
		return found
	}
	for _, f := range fns {
		for _, l := range an.Loops(f) {
			recv := false
			var via *ssa.Function
			for b := range l.Blocks {
				for _, in := range b.Instrs {
					if receives(in) {
						recv = true
					}
					// the receive may sit in a helper the loop calls on every pass
					if call, ok := in.(*ssa.Call); ok && !recv {
						for _, callee := range p.Callees(&call.Call) {
							if wr.inW(callee) && fnReceives(callee) {
								recv, via = true, callee
							}
						}
					}
				}
			}
			if !recv {
				continue
			}
			if wr.evLoop == nil || len(l.Blocks) < len(wr.evLoop.Blocks) {
				wr.evLoop, wr.loopFn, wr.pollFn = l, f, via
			}
		}
	}
	if wr.evLoop != nil {
		var blocks []*ssa.BasicBlock
		for _, b := range wr.loopFn.Blocks {
			if wr.evLoop.Blocks[b] {
				blocks = append(blocks, b)
			}
		}
		// the handler is what the loop starts for an event: a goroutine started in the loop or in a helper
		// the loop calls (a receive-and-dispatch step); failing that, a function called from the loop
		// that runs the task
		helperFns := map[*ssa.Function]bool{}
		for _, b := range blocks {
			for _, in := range b.Instrs {
				call, ok := in.(*ssa.Call)
				if !ok {
					continue
				}
				for _, callee := range p.Callees(&call.Call) {
					if !wr.inW(callee) {
						continue
					}
					for h := range p.Reach([]*ssa.Function{callee}, func(e an.CallEdge) bool { return e.Kind == an.EdgeCall && wr.inW(e.Callee) }) {
						helperFns[h] = true
					}
				}
			}
		}
		all := append([]*ssa.BasicBlock{}, blocks...)
		for _, h := range sortedFns(helperFns) {
			all = append(all, h.Blocks...)
		}
		for _, b := range all {
			for _, in := range b.Instrs {
				g, isGo := in.(*ssa.Go)
				if !isGo {
					continue
				}
				for _, callee := range p.Callees(g.Common()) {
					if wr.inW(callee) && runsTask(callee) && wr.launch == nil {
						wr.launch, wr.handle = g, callee
					}
				}
			}
		}
		if wr.launch == nil {
			for _, b := range blocks {
				for _, in := range b.Instrs {
					ci, ok := in.(*ssa.Call)
					if !ok {
						continue
					}
					for _, callee := range p.Callees(ci.Common()) {
						if wr.inW(callee) && runsTask(callee) && wr.launch == nil {
							wr.launch, wr.handle = ci, callee
						}
					}
				}
			}
		}
	}
	return wr
}

func checkC20(c *an.Ctx) {
	c.Rule("C20.1", "selection table (E2/E3, helpers of internal/watch inlined): NewWatcher globs every include pattern with doublestar.Glob, tests every match against every exclude pattern with doublestar.PathMatch(pattern, match), and appends the match to the watched paths iff no exclude matched; glob and match errors are returned; the configuration's watch/exclude/events lists are handed to the matching parameters")
	c.Rule("C20.2", "event registry (E9): the package's map[fsnotify.Op]string has a key for every exported constant of type fsnotify.Op; the default event list equals the set of its values; configured names are stored as given, and after construction nothing replaces or edits a watcher's subscription or its selected paths (who-may-write)")
	c.Rule("C20.3", "filter and variables (E2 trace of the handler started by the event loop, E5): the task runs exactly once when events[table[event.Op]] holds and not at all otherwise; the run's task is a fresh copy of Watcher.task whose env is [Task.Env < {EventName: table[event.Op], EventPath: event.Name}]")
	c.Rule("C20.4", "registration (E3): Watcher.Run adds every selected path to fsnotify and returns an Add error; a renamed path is re-added")
	c.Rule("C20.5", "keeps serving (E3/E8): the event loop ends only when the watcher is closed or a channel is closed; each handler runs in its own goroutine registered with the events WaitGroup; no TaskRunner.Run follows a TaskRunner.Cancel on the same runner (the runner's context is created once and Run refuses a cancelled context); a mutex taken by the handler is released on every path to its exit, one taken in the event loop on every path to the next pass")
	c.NotDecided = append(c.NotDecided, "doublestar's matching semantics, fsnotify delivery", "combined Op bit masks (looked up by exact value: observation)", "the 1 s polling period")
	wr := resolveWatch(c)
	if wr.nw == nil || wr.run == nil {
		c.Und("C20.0", "watch.NewWatcher", token.NoPos, "NewWatcher / Watcher.Run not found")
		return
	}
	if wr.handle != nil {
		c.Anchor("event handler", an.Short(wr.handle))
	}
	if wr.loopFn != nil {
		c.Anchor("event loop", an.Short(wr.loopFn))
	}
	selection(c, wr, "C20.1")
	registry(c, wr, "C20.2")
	subscriptionFixed(c, wr, "C20.2")
	if wr.handle == nil {
		c.Bad("C20.3", "watch:handler", wr.run.Pos(), "nothing started from the event loop under Watcher.Run runs the watcher's task: file events trigger nothing")
	} else {
		handler(c, wr, "C20.3")
	}
	registration(c, wr, "C20.4")
	serving(c, wr, "C20.5")
}

// rangeElemOfParam reports the parameter of `of` whose elements v denotes:
// v (looked through the helpers of the package and their callers) is the
// element of a range loop over that parameter.
func rangeElemOfParam(p *an.Prog, v ssa.Value, of *ssa.Function) *ssa.Parameter {
	for _, s := range p.DeepSources(v, 3, true) {
		in, ok := s.(ssa.Instruction)
		if !ok || in.Parent() == nil {
			continue
		}
		for _, l := range an.Loops(in.Parent()) {
			_, vals := l.RangeKeyValue()
			isElem := false
			for _, e := range vals {
				if e == s || an.SameValue(e, s) {
					isElem = true
				}
			}
			if !isElem || l.RangeOperand() == nil {
				continue
			}
			stop := func(x ssa.Value) bool { prm, ok := x.(*ssa.Parameter); return ok && prm.Parent() == of }
			for _, o := range p.DeepSourcesStop(l.RangeOperand(), 3, true, stop) {
				if prm, ok := o.(*ssa.Parameter); ok && prm.Parent() == of {
					return prm
				}
			}
		}
	}
	return nil
}

// rangeOperandParam: the parameter of `of` that the range operand op comes from (through helpers), or nil.
func rangeOperandParam(p *an.Prog, op ssa.Value, of *ssa.Function) *ssa.Parameter {
	stop := func(x ssa.Value) bool { prm, ok := x.(*ssa.Parameter); return ok && prm.Parent() == of }
	for _, o := range p.DeepSourcesStop(op, 3, true, stop) {
		if prm, ok := o.(*ssa.Parameter); ok && prm.Parent() == of {
			return prm
		}
	}
	return nil
}

func paramIndex(fn *ssa.Function, prm *ssa.Parameter) int {
	for i, q := range fn.Params {
		if q == prm {
			return i
		}
	}
	return -1
}

func selection(c *an.Ctx, wr *watchRoles, rule string) {
	p := c.P
	nw := wr.nw
	var glob, pm *ssa.Call
	nGlob, nPM := 0, 0
	for _, f := range sortedFns(wr.scopeNew) {
		for _, ci := range an.CallsIn(f, "github.com/bmatcuk/doublestar.Glob") {
			if call, ok := ci.(*ssa.Call); ok {
				glob = call
				nGlob++
			}
		}
		for _, ci := range an.CallsIn(f, "github.com/bmatcuk/doublestar.PathMatch") {
			if call, ok := ci.(*ssa.Call); ok {
				pm = call
				nPM++
			}
		}
	}
	if glob == nil {
		c.Bad(rule, an.Short(nw)+":Glob", nw.Pos(), "NewWatcher does not expand its include patterns with doublestar.Glob")
		return
	}
	if nGlob > 1 || nPM > 1 {
		c.Und(rule, an.Short(nw)+":Glob", nw.Pos(), "more than one Glob (%d) or PathMatch (%d) call under NewWatcher: which one selects the paths is not decided", nGlob, nPM)
		return
	}
	gf := glob.Parent()
	var lMatch *an.Loop
	var matchLoops []*an.Loop
	for _, l := range an.Loops(gf) {
		op := l.RangeOperand()
		if op == nil {
			continue
		}
		for _, src := range an.Sources(op) {
			if e, ok := src.(*ssa.Extract); ok && e.Tuple == ssa.Value(glob) && e.Index == 0 {
				lMatch = l
				matchLoops = append(matchLoops, l)
			}
		}
	}
	// (two passes over the matches — mark the excluded ones, then keep the rest: the loop with the exclusion test
	// is the one the per-match clauses are stated on)
	if pm != nil && pm.Parent() == gf {
		for _, l := range matchLoops {
			if l.Blocks[pm.Block()] {
				lMatch = l
			}
		}
	}
	incP := rangeElemOfParam(p, glob.Call.Args[0], nw)
	if incP == nil || lMatch == nil {
		c.Bad(rule, an.Short(nw)+":loops", glob.Pos(), "NewWatcher does not range over every include pattern (Glob's argument is %s) and every match of it", an.Prov(glob.Call.Args[0]))
		return
	}
	c.OK(rule, an.Short(nw)+":Glob(pattern)", glob.Pos(), "each element of parameter %q is globbed and the matches are ranged over", incP.Name())
	fate := p.ErrFate(glob, noReturn)
	c.Check(fate.Kind == "propagated" || fate.Kind == "converted", rule, an.Short(gf)+":err(Glob)", glob.Pos(), "a malformed include pattern is an error", "a Glob error is dropped: "+fate.Detail)
	_, matchElems := lMatch.RangeKeyValue()
	for _, l := range matchLoops {
		if l != lMatch {
			_, more := l.RangeKeyValue()
			matchElems = append(matchElems, more...)
		}
	}
	isMatch := func(v ssa.Value, st *an.State) bool {
		for _, e := range matchElems {
			if an.SameValue(v, e) || (st != nil && st.SameRoot(v, e)) {
				return true
			}
		}
		return false
	}
	// the exclusion test
	var excP *ssa.Parameter
	if pm != nil {
		excP = rangeElemOfParam(p, pm.Call.Args[0], nw)
	}
	anyOther := false
	for _, prm := range nw.Params {
		if prm != incP && len(exclUses(nw, prm)) > 0 {
			if sl, ok := prm.Type().Underlying().(*types.Slice); ok {
				if b, ok := sl.Elem().Underlying().(*types.Basic); ok && b.Kind() == types.String {
					anyOther = true
				}
			}
		}
	}
	if pm == nil || excP == nil || excP == incP {
		if !anyOther {
			c.Bad(rule, an.Short(nw)+":exclude", nw.Pos(), "the exclude patterns are never consulted")
			return
		}
		c.Bad(rule, an.Short(nw)+":PathMatch", nw.Pos(), "matches are not tested against every exclude pattern with doublestar.PathMatch(pattern, match): an exclude decided by anything else (a shortcut, a precompiled matcher) can disagree with the glob semantics")
		return
	}
	pf := pm.Parent()
	argOK := false
	for _, s := range p.DeepSources(pm.Call.Args[1], 3, true) {
		if isMatch(s, nil) {
			argOK = true
		}
	}
	c.Check(argOK, rule, an.Short(pf)+":PathMatch(args)", pm.Pos(), fmt.Sprintf("PathMatch(<each element of %q>, <the match>)", excP.Name()), "the exclusion test is not PathMatch(<each exclude pattern>, <the match>)")
	fate2 := p.ErrFate(pm, noReturn)
	c.Check(fate2.Kind == "propagated" || fate2.Kind == "converted", rule, an.Short(pf)+":err(PathMatch)", pm.Pos(), "a malformed exclude pattern is an error", "a PathMatch error is dropped: "+fate2.Detail)
	// every exclude pattern is put to the match: no way round the loop over the patterns avoids PathMatch (a
	// shortcut that decides "cannot match" by other means — a literal prefix, a cache — disagrees with the glob
	// semantics for some pattern)
	{
		var lExc *an.Loop
		var lf *ssa.Function
		for _, f := range append([]*ssa.Function{pf}, sortedFns(map[*ssa.Function]bool{nw: true, gf: true})...) {
			for _, l := range an.Loops(f) {
				op := l.RangeOperand()
				if op == nil {
					continue
				}
				if prm := rangeOperandParam(p, op, nw); prm == excP && lExc == nil {
					lExc, lf = l, f
				}
			}
		}
		if lExc == nil {
			c.Und(rule, an.Short(nw)+":exclude-loop", pm.Pos(), "the loop over the exclude patterns was not found")
		} else {
			ex := &an.Explorer{P: p, NoReturn: noReturn, MaxVisits: 1, MaxDepth: 3,
				Inline: func(f *ssa.Function) bool { return wr.inW(f) && f != lf }}
			lExc.Bound(ex)
			ex.Effect = func(in ssa.Instruction, st *an.State) string {
				if in == ssa.Instruction(pm) {
					return "PathMatch"
				}
				return ""
			}
			skips := false
			for _, o := range ex.Run(lf, lExc.BodyEntry(), lExc.Header, nil) {
				if o.End == "stop" && o.StopBlock == lExc.Header && !has(o.Effects, "PathMatch") {
					skips = true
				}
			}
			c.Check(!skips, rule, an.Short(lf)+":every-exclude-pattern", pm.Pos(), "every pass of the loop over the exclude patterns evaluates PathMatch", "a pass of the loop over the exclude patterns can go on to the next pattern without evaluating PathMatch on this one: whether the pattern matches is decided by something other than the glob semantics, so an excluded path can stay selected")
		}
	}
	// errors of the helpers reach NewWatcher's caller
	var helpers []*ssa.Function
	for _, f := range []*ssa.Function{gf, pf} {
		if f != nw {
			helpers = append(helpers, f)
		}
	}
	if len(helpers) > 0 {
		errChain(c, rule, helpers, func(f *ssa.Function) bool { return wr.scopeNew[f] }, nil)
	}
	// the configuration's lists are handed to the matching parameters
	var evP *ssa.Parameter
	for _, f := range sortedFns(wr.scopeNew) {
		an.EachInstr(f, func(in ssa.Instruction) {
			if mu, ok := in.(*ssa.MapUpdate); ok && (an.FieldProv(mu.Map) == "Watcher.events" || eventMapsOf(p, wr)[an.Resolve(mu.Map)]) {
				if prm := rangeElemOfParam(p, mu.Key, nw); prm != nil {
					evP = prm
				}
			}
		})
	}
	for _, site := range p.CallSitesOf(nw) {
		if !an.InModule(site.Parent()) {
			continue
		}
		wiring := func(prm *ssa.Parameter, field string) {
			if prm == nil {
				return
			}
			i := paramIndex(nw, prm)
			if i < 0 || i >= len(site.Common().Args) {
				return
			}
			got := an.FieldProv(site.Common().Args[i])
			c.Check(strings.HasSuffix(got, "."+field), rule, fmt.Sprintf("%s:NewWatcher(%s)", an.Short(site.Parent()), field), site.Pos(), fmt.Sprintf("the watcher's %s list is handed to parameter %q", field, prm.Name()), fmt.Sprintf("parameter %q (the %s list by its use in NewWatcher) receives %s", prm.Name(), field, got))
		}
		wiring(incP, "Watch")
		wiring(excP, "Exclude")
		wiring(evP, "Events")
	}
	// the append calls whose result ends up in Watcher.paths
	pathAppends := map[*ssa.Call]bool{}
	for _, f := range sortedFns(wr.scopeNew) {
		an.EachInstr(f, func(in ssa.Instruction) {
			sto, ok := in.(*ssa.Store)
			if !ok {
				return
			}
			fa, ok := sto.Addr.(*ssa.FieldAddr)
			if !ok || an.TypeField(fa) != "Watcher.paths" {
				return
			}
			seen := map[ssa.Value]bool{}
			var walk func(v ssa.Value, d int)
			walk = func(v ssa.Value, d int) {
				if d > 6 {
					return
				}
				for _, src := range p.DeepSources(v, 3, false) {
					if seen[src] {
						continue
					}
					seen[src] = true
					if call, ok := src.(*ssa.Call); ok {
						if b, ok := call.Call.Value.(*ssa.Builtin); ok && b.Name() == "append" {
							pathAppends[call] = true
							walk(call.Call.Args[0], d+1)
						}
					}
					if phi, ok := src.(*ssa.Phi); ok {
						for _, e := range phi.Edges {
							walk(e, d+1)
						}
					}
				}
			}
			walk(sto.Val, 0)
		})
	}
	if len(pathAppends) == 0 {
		c.Bad(rule, an.Short(nw)+":paths", nw.Pos(), "nothing appended under NewWatcher ends up in the watcher's paths")
		return
	}
	// table: matched=false for every exclude → appended once; matched=true → not appended
	matched := extractOf(pm, 0)
	// two passes: the first marks, in a list of booleans as long as the matches and made for this pattern, the
	// matches an exclude pattern covers; the second keeps the unmarked ones. The table is the composition of the
	// two per-match tables, joined on the mark at the loop's own index
	var lKeep *an.Loop
	for _, l := range matchLoops {
		if l == lMatch {
			continue
		}
		for call := range pathAppends {
			if call.Parent() == gf && l.Blocks[call.Block()] {
				lKeep = l
			}
		}
	}
	if lKeep != nil {
		keyOf := func(l *an.Loop) []ssa.Value { k, _ := l.RangeKeyValue(); return k }
		isKey := func(v ssa.Value, l *an.Loop) bool {
			for _, k := range keyOf(l) {
				if an.SameValue(v, k) {
					return true
				}
			}
			return false
		}
		// the mark list
		var marks *ssa.MakeSlice
		for b := range lMatch.Blocks {
			for _, in := range b.Instrs {
				st, ok := in.(*ssa.Store)
				if !ok {
					continue
				}
				ia, ok := st.Addr.(*ssa.IndexAddr)
				if !ok || !isKey(ia.Index, lMatch) {
					continue
				}
				if mk, ok := an.Resolve(ia.X).(*ssa.MakeSlice); ok && mk.Parent() == gf {
					marks = mk
				}
			}
		}
		sized := false
		if marks != nil {
			for _, src := range an.Sources(marks.Len) {
				if call, ok := src.(*ssa.Call); ok {
					if b, ok := call.Call.Value.(*ssa.Builtin); ok && b.Name() == "len" {
						for _, a := range an.Sources(call.Call.Args[0]) {
							if e, ok := a.(*ssa.Extract); ok && e.Tuple == ssa.Value(glob) && e.Index == 0 {
								sized = true
							}
						}
					}
				}
			}
		}
		key2 := an.Short(nw) + ":two-pass"
		if marks == nil || !sized || !an.Dominates(glob, marks) {
			c.Bad(rule, key2, pm.Pos(), "the matches are excluded in one pass and kept in another, but what carries the verdict from one to the other is not a list of booleans made for this pattern with one entry per match")
			return
		}
		isMarkAddr := func(v ssa.Value, l *an.Loop) bool {
			ia, ok := v.(*ssa.IndexAddr)
			return ok && an.Resolve(ia.X) == ssa.Value(marks) && isKey(ia.Index, l)
		}
		bad := ""
		for _, m := range []bool{false, true} {
			m := m
			ex := &an.Explorer{P: p, NoReturn: noReturn, MaxVisits: 3, MaxDepth: 3,
				Inline: func(f *ssa.Function) bool { return wr.inW(f) && f != gf }}
			lMatch.Bound(ex)
			ex.Atom = func(v ssa.Value) (an.AVal, bool) {
				for _, x := range matched {
					if v == x {
						return an.ABool(m), true
					}
				}
				for _, e := range errOf(pm) {
					if v == e {
						return an.AVal{K: an.ANil}, true
					}
				}
				return an.AVal{}, false
			}
			ex.Effect = func(in ssa.Instruction, st *an.State) string {
				if in == ssa.Instruction(pm) {
					return "PathMatch"
				}
				if sto, ok := in.(*ssa.Store); ok {
					if ia, ok := sto.Addr.(*ssa.IndexAddr); ok && an.Resolve(ia.X) == ssa.Value(marks) {
						if b, isB := st.Eval(sto.Val).IsBool(); isB && b && isMarkAddr(sto.Addr, lMatch) {
							return "mark"
						}
						return "mark(other)"
					}
				}
				return ""
			}
			outs := ex.Run(gf, lMatch.BodyEntry(), lMatch.Header, nil)
			if len(outs) == 0 {
				bad = "no path through the marking pass"
			}
			for _, o := range outs {
				if o.End != "stop" {
					continue
				}
				if has(o.Effects, "mark(other)") {
					bad = "the marking pass writes an entry other than the current match's (or something other than true)"
				}
				if m && has(o.Effects, "PathMatch") && !has(o.Effects, "mark") {
					bad = "a match that an exclude pattern matched is not marked"
				}
				if !m && has(o.Effects, "mark") {
					bad = "a match that no exclude pattern matched is marked"
				}
			}
		}
		for _, mk := range []bool{false, true} {
			mk := mk
			ex := &an.Explorer{P: p, NoReturn: noReturn, MaxVisits: 3, MaxDepth: 3,
				Inline: func(f *ssa.Function) bool { return wr.inW(f) && f != gf }}
			lKeep.Bound(ex)
			seen := false
			ex.Atom = func(v ssa.Value) (an.AVal, bool) {
				if u, ok := v.(*ssa.UnOp); ok && u.Op == token.MUL && isMarkAddr(u.X, lKeep) {
					seen = true
					return an.ABool(mk), true
				}
				return an.AVal{}, false
			}
			ex.Effect = func(in ssa.Instruction, st *an.State) string {
				if call, ok := in.(*ssa.Call); ok {
					if b, ok := call.Call.Value.(*ssa.Builtin); ok && b.Name() == "append" && pathAppends[call] {
						for _, e := range an.VariadicElems(call.Call.Args[1]) {
							if e != nil && isMatch(e, st) {
								return "append(match)"
							}
						}
						return "append(other)"
					}
				}
				if sto, ok := in.(*ssa.Store); ok {
					if ia, ok := sto.Addr.(*ssa.IndexAddr); ok && an.Resolve(ia.X) == ssa.Value(marks) {
						return "mark(other)"
					}
				}
				return ""
			}
			outs := ex.Run(gf, lKeep.BodyEntry(), lKeep.Header, nil)
			if len(outs) == 0 || !seen {
				bad = "the keeping pass does not consult the mark of the current match"
			}
			for _, o := range outs {
				if o.End != "stop" {
					continue
				}
				n := count(o.Effects, "append(match)")
				if has(o.Effects, "append(other)") || has(o.Effects, "mark(other)") {
					bad = "the keeping pass writes something other than the current match"
				}
				if mk && n != 0 {
					bad = "a marked match is still watched"
				}
				if !mk && n != 1 {
					bad = fmt.Sprintf("an unmarked match is appended %d times, want once", n)
				}
			}
		}
		// nothing else writes the marks, and the keeping pass comes after the marking pass
		if exit := lMatch.NormalExit(); exit == nil || !an.CanReach(exit, lKeep.Header) || an.CanReach(lKeep.Header, lMatch.Header) && !sameOuterIteration(lMatch, lKeep) {
			bad = "the keeping pass does not follow the marking pass"
		}
		if bad != "" {
			c.Bad(rule, key2, pm.Pos(), "%s", bad)
		} else {
			c.OK(rule, key2, pm.Pos(), "pass 1 marks exactly the matches an exclude pattern covers (entry of the match's own index, list made per pattern); pass 2 keeps exactly the unmarked ones, once")
		}
		return
	}
	for _, m := range []bool{false, true} {
		m := m
		ex := &an.Explorer{P: p, NoReturn: noReturn, MaxVisits: 3, MaxDepth: 3,
			Inline: func(f *ssa.Function) bool { return wr.inW(f) && f != gf }}
		lMatch.Bound(ex)
		ex.Atom = func(v ssa.Value) (an.AVal, bool) {
			for _, x := range matched {
				if v == x {
					return an.ABool(m), true
				}
			}
			for _, e := range errOf(pm) {
				if v == e {
					return an.AVal{K: an.ANil}, true
				}
			}
			return an.AVal{}, false
		}
		ex.Effect = func(in ssa.Instruction, st *an.State) string {
			if in == ssa.Instruction(pm) {
				return "PathMatch"
			}
			// the match is appended to the slice that becomes the watched paths (directly into the field, or
			// into an accumulator a helper returns: pathAppends below ties the two together)
			if call, ok := in.(*ssa.Call); ok {
				if b, ok := call.Call.Value.(*ssa.Builtin); ok && b.Name() == "append" && pathAppends[call] {
					for _, e := range an.VariadicElems(call.Call.Args[1]) {
						if e != nil && isMatch(e, st) {
							return "append(match)"
						}
					}
					return "append(other)"
				}
			}
			return ""
		}
		outs := ex.Run(gf, lMatch.BodyEntry(), lMatch.Header, nil)
		bad := ""
		for _, o := range outs {
			if o.End != "stop" {
				continue
			}
			n, tested := 0, false
			for _, e := range o.Effects {
				switch e {
				case "append(match)":
					n++
				case "PathMatch":
					tested = true
				default:
					bad = "unexpected write " + e
				}
			}
			if m {
				if n > 1 {
					bad = "a match is appended more than once"
				}
				if n == 1 && tested {
					bad = "a match that an exclude pattern matched is still watched"
				}
			} else if n != 1 {
				bad = fmt.Sprintf("a match that no exclude pattern matched is appended %d times, want once", n)
			}
		}
		if len(outs) == 0 {
			bad = "no path"
		}
		key := fmt.Sprintf("%s:row excluded=%v", an.Short(nw), m)
		if bad != "" {
			c.Bad(rule, key, pm.Pos(), "%s", bad)
		} else {
			c.OK(rule, key, pm.Pos(), "%d paths", len(outs))
		}
	}
}

func sortedFns(m map[*ssa.Function]bool) []*ssa.Function {
	var out []*ssa.Function
	for f := range m {
		out = append(out, f)
	}
	sort.Slice(out, func(i, j int) bool { return out[i].String() < out[j].String() })
	return out
}

func exclUses(fn *ssa.Function, prm *ssa.Parameter) []ssa.Instruction {
	var out []ssa.Instruction
	if refs := prm.Referrers(); refs != nil {
		for _, r := range *refs {
			if _, dbg := r.(*ssa.DebugRef); !dbg {
				out = append(out, r)
			}
		}
	}
	return out
}

func registry(c *an.Ctx, wr *watchRoles, rule string) {
	p := c.P
	nw := wr.nw
	sp := p.Pkg("internal/watch")
	initFn := sp.Func("init")
	keys, vals := map[int64]bool{}, map[string]bool{}
	if initFn != nil && wr.opTable != nil {
		an.EachInstr(initFn, func(in ssa.Instruction) {
			mu, ok := in.(*ssa.MapUpdate)
			if !ok {
				return
			}
			isMap := false
			// the map literal stored into the table
			if mm, ok := mu.Map.(*ssa.MakeMap); ok {
				for _, r := range *mm.Referrers() {
					if st, ok := r.(*ssa.Store); ok && st.Addr == ssa.Value(wr.opTable) {
						isMap = true
					}
				}
			}
			if !isMap {
				return
			}
			if k, ok := an.ConstInt(mu.Key); ok {
				keys[k] = true
			}
			if s, ok := an.ConstString(mu.Value); ok {
				vals[s] = true
			}
		})
	}
	tbl := ""
	if wr.opTable != nil {
		tbl = "watch." + wr.opTable.Name()
	}
	if len(keys) == 0 && wr.opFn != nil {
		// the table as a function: evaluate it for every fsnotify.Op constant (comparisons of its
		// parameter with constants decide the path); an operation is named when every path returns
		// one and the same non-empty constant
		tbl = "watch." + wr.opFn.Name()
		for _, k := range fsnotifyOps(p) {
			k := k
			ex := &an.Explorer{P: p, NoReturn: noReturn}
			prm := wr.opFn.Params[0]
			ex.Atom = func(v ssa.Value) (an.AVal, bool) {
				bo, ok := v.(*ssa.BinOp)
				if !ok || (bo.Op != token.EQL && bo.Op != token.NEQ) {
					return an.AVal{}, false
				}
				x, y := bo.X, bo.Y
				if _, isC := x.(*ssa.Const); isC {
					x, y = y, x
				}
				kc, isK := an.ConstInt(y)
				if !isK || !an.SameValue(x, prm) {
					return an.AVal{}, false
				}
				return an.ABool((kc == k) == (bo.Op == token.EQL)), true
			}
			names := map[string]bool{}
			opaque := false
			for _, o := range ex.Run(wr.opFn, wr.opFn.Blocks[0], nil, nil) {
				if o.End != "return" || len(o.RetVals) == 0 {
					opaque = true
					continue
				}
				if sname, ok := an.ConstString(o.RetVals[0]); ok {
					names[sname] = true
				} else {
					opaque = true
				}
			}
			if !opaque && len(names) == 1 {
				for sname := range names {
					if sname != "" {
						keys[k] = true
						vals[sname] = true
					}
				}
			}
		}
	}
	if len(keys) == 0 {
		c.Und(rule, "watch:event-table", token.NoPos, "no package-level map[fsnotify.Op]string with constant entries (nor a function from fsnotify.Op to constant names) was found in internal/watch")
		return
	}
	// exported constants of fsnotify.Op
	var missing []string
	nOps := 0
	for _, ip := range p.Pkgs {
		if ip.PkgPath != an.ModulePath+"/internal/watch" {
			continue
		}
		for _, imp := range ip.Types.Imports() {
			if imp.Path() != "github.com/fsnotify/fsnotify" {
				continue
			}
			scope := imp.Scope()
			for _, name := range scope.Names() {
				k, ok := scope.Lookup(name).(*types.Const)
				if !ok || !k.Exported() {
					continue
				}
				if n, ok := k.Type().(*types.Named); !ok || n.Obj().Name() != "Op" {
					continue
				}
				nOps++
				v, _ := constant.Int64Val(k.Val())
				if !keys[v] {
					missing = append(missing, name)
				}
			}
		}
	}
	sort.Strings(missing)
	c.Check(nOps > 0 && len(missing) == 0, rule, "watch:event-table:keys", token.NoPos, fmt.Sprintf("all %d fsnotify.Op constants have a name in %s", nOps, tbl), fmt.Sprintf("%s has no entry for %v: events of that type are never delivered", tbl, missing))
	// default list: the literal list(s) of constant strings under NewWatcher
	defaults := map[string]bool{}
	for _, f := range sortedFns(wr.scopeNew) {
		an.EachInstr(f, func(in ssa.Instruction) {
			sl, ok := in.(*ssa.Slice)
			if !ok {
				return
			}
			if _, isStr := sl.Type().Underlying().(*types.Slice); !isStr {
				return
			}
			for _, e := range an.VariadicElems(sl) {
				if s, ok := an.ConstString(e); ok {
					defaults[s] = true
				}
			}
		})
	}
	if len(defaults) == 0 && initFn != nil {
		// a package-level default list read under NewWatcher
		used := map[*ssa.Global]bool{}
		for _, f := range sortedFns(wr.scopeNew) {
			an.EachInstr(f, func(in ssa.Instruction) {
				if u, ok := in.(*ssa.UnOp); ok && u.Op == token.MUL {
					if g, ok := u.X.(*ssa.Global); ok {
						used[g] = true
					}
				}
			})
		}
		an.EachInstr(initFn, func(in ssa.Instruction) {
			st, ok := in.(*ssa.Store)
			if !ok {
				return
			}
			g, ok := st.Addr.(*ssa.Global)
			if !ok || !used[g] {
				return
			}
			for _, e := range an.VariadicElems(st.Val) {
				if s, ok := an.ConstString(e); ok {
					defaults[s] = true
				}
			}
		})
	}
	var diff []string
	for v := range vals {
		if !defaults[v] {
			diff = append(diff, "-"+v)
		}
	}
	for d := range defaults {
		if !vals[d] {
			diff = append(diff, "+"+d)
		}
	}
	sort.Strings(diff)
	c.Check(len(diff) == 0, rule, an.Short(nw)+":default-events", nw.Pos(), "with no events configured all event names are subscribed", fmt.Sprintf("the default event list differs from the names in %s: %v", tbl, diff))
	// names are stored as given (into the field's map, or into a map that a helper builds and NewWatcher stores there)
	eventMaps := map[ssa.Value]bool{}
	for _, f := range sortedFns(wr.scopeNew) {
		an.EachInstr(f, func(in ssa.Instruction) {
			sto, ok := in.(*ssa.Store)
			if !ok {
				return
			}
			if fa, ok := sto.Addr.(*ssa.FieldAddr); ok && an.TypeField(fa) == "Watcher.events" {
				for _, src := range p.DeepSources(sto.Val, 3, false) {
					eventMaps[src] = true
				}
			}
		})
	}
	okStore := false
	for _, f := range sortedFns(wr.scopeNew) {
		for _, l := range an.Loops(f) {
			for b := range l.Blocks {
				for _, in := range b.Instrs {
					if mu, ok := in.(*ssa.MapUpdate); ok && (an.FieldProv(mu.Map) == "Watcher.events" || eventMaps[an.Resolve(mu.Map)]) {
						_, elems := l.RangeKeyValue()
						for _, e := range elems {
							if an.SameValue(mu.Key, e) {
								if k, ok := mu.Value.(*ssa.Const); ok && k.Value != nil && k.Value.ExactString() == "true" {
									okStore = true
								}
								// a set (map to the empty struct): membership is the subscription
								if mt, ok := mu.Map.Type().Underlying().(*types.Map); ok {
									if st, ok := mt.Elem().Underlying().(*types.Struct); ok && st.NumFields() == 0 {
										okStore = true
									}
								}
							}
						}
					}
				}
			}
		}
	}
	c.Check(okStore, rule, an.Short(nw)+":subscribe", nw.Pos(), "every listed event name is subscribed as given", "the listed event names are not stored unchanged in the subscribed set")
}

func handler(c *an.Ctx, wr *watchRoles, rule string) {
	p := c.P
	h := wr.handle
	isTable := func(v ssa.Value) bool {
		for _, r := range an.Sources(v) {
			if u, ok := r.(*ssa.UnOp); ok && u.Op == token.MUL && u.X == ssa.Value(wr.opTable) {
				return true
			}
		}
		return false
	}
	isName := func(v ssa.Value, st *an.State) bool {
		for _, cand := range []ssa.Value{v, st.Root(v)} {
			for _, r := range an.Sources(cand) {
				lk, ok := r.(*ssa.Lookup)
				if !ok {
					if e, isE := r.(*ssa.Extract); isE && e.Index == 0 {
						lk, ok = e.Tuple.(*ssa.Lookup)
					}
				}
				if ok && wr.opTable != nil && isTable(lk.X) && an.FieldProv(st.Root(lk.Index)) == "Event.Op" {
					return true
				}
				// the table as a function: its result for the event's operation
				if call, isC := r.(*ssa.Call); isC && wr.opFn != nil && call.Call.StaticCallee() == wr.opFn && an.FieldProv(st.Root(call.Call.Args[0])) == "Event.Op" {
					return true
				}
			}
		}
		return false
	}
	var runSite ssa.Instruction
	var runTarget ssa.Value
	namedOK, tested := false, false
	for _, sub := range []bool{true, false} {
		sub := sub
		ex := &an.Explorer{P: p, NoReturn: noReturn, MaxDepth: 3,
			Inline: func(f *ssa.Function) bool { return wr.inW(f) && f != h && f != wr.opFn }}
		ex.AtomSt = func(v ssa.Value, st *an.State) (an.AVal, bool) {
			lk, ok := v.(*ssa.Lookup)
			if e, isE := v.(*ssa.Extract); isE && !ok {
				if l2, isL := e.Tuple.(*ssa.Lookup); isL {
					lk, ok = l2, true
				}
			}
			if ok && (an.FieldProv(lk.X) == "Watcher.events" || an.FieldProv(st.Root(lk.X)) == "Watcher.events") && isName(lk.Index, st) {
				tested = true
				return an.ABool(sub), true
			}
			// in the world where the event is subscribed the set of subscribed events is not empty
			if bo, isBo := v.(*ssa.BinOp); isBo && sub {
				if call, isCall := bo.X.(*ssa.Call); isCall {
					if b, isB := call.Call.Value.(*ssa.Builtin); isB && b.Name() == "len" && len(call.Call.Args) == 1 &&
						(an.FieldProv(call.Call.Args[0]) == "Watcher.events" || an.FieldProv(st.Root(call.Call.Args[0])) == "Watcher.events") {
						if k, isK := an.ConstInt(bo.Y); isK && k == 0 {
							switch bo.Op {
							case token.EQL, token.LEQ:
								return an.ABool(false), true
							case token.NEQ, token.GTR:
								return an.ABool(true), true
							}
						}
					}
				}
			}
			return an.AVal{}, false
		}
		ex.Effect = func(in ssa.Instruction, st *an.State) string {
			switch x := in.(type) {
			case *ssa.Call:
				if an.ShortCallee(&x.Call) == "(pkg/runner.TaskRunner).Run" {
					runSite, runTarget = x, st.Root(x.Call.Args[1])
					return "Run"
				}
			case *ssa.MapUpdate:
				if k, ok := an.ConstString(mu(x).Key); ok && (k == "EventName" || k == "EventPath") {
					val := "?" + an.FieldProv(st.Root(x.Value))
					switch {
					case isName(x.Value, st):
						val = "name"
						namedOK = true
					case an.FieldProv(st.Root(x.Value)) == "Event.Name":
						val = "Event.Name"
					}
					return "set:" + k + "=" + val
				}
			}
			return ""
		}
		outs := ex.Run(h, h.Blocks[0], nil, nil)
		bad := ""
		for _, o := range outs {
			if o.End != "return" {
				continue
			}
			n := 0
			sets := map[string]bool{}
			for _, e := range o.Effects {
				if e == "Run" {
					n++
					if sub && !(sets["set:EventName=name"] && sets["set:EventPath=Event.Name"]) {
						bad = fmt.Sprintf("the task runs without EventName = the event's name and EventPath = the event's path set first (seen %v)", o.Effects)
					}
				}
				if strings.HasPrefix(e, "set:") {
					sets[e] = true
				}
			}
			switch {
			case sub && n != 1:
				bad = fmt.Sprintf("a subscribed event runs the task %d times, want once", n)
			case !sub && n != 0:
				bad = "an event the watcher is not subscribed to runs the task"
			}
		}
		if len(outs) == 0 {
			bad = "no path"
		}
		key := fmt.Sprintf("%s:row subscribed=%v", an.Short(h), sub)
		if bad != "" {
			c.Bad(rule, key, h.Pos(), "%s", bad)
		} else {
			c.OK(rule, key, h.Pos(), "%d paths", len(outs))
		}
	}
	_ = namedOK
	c.Check(tested, rule, an.Short(h)+":filter", h.Pos(), "the run is decided by events[table[event.Op]]", "the handler does not test events[table[event.Op]]: unsubscribed events trigger the task (or subscribed ones do not)")
	if runSite == nil {
		c.Bad(rule, an.Short(h)+":run", h.Pos(), "the handler never runs the watcher's task")
		return
	}
	// fresh copy of Watcher.task
	fresh, copied := an.FreshBase(runTarget)
	fromTask := false
	if al, ok := an.Resolve(runTarget).(*ssa.Alloc); ok && al.Referrers() != nil {
		for _, r := range *al.Referrers() {
			if st, ok := r.(*ssa.Store); ok && st.Addr == ssa.Value(al) {
				if u, ok := st.Val.(*ssa.UnOp); ok && u.Op == token.MUL && an.FieldProv(u.X) == "Watcher.task" {
					fromTask = true
				}
			}
		}
	}
	c.Check(fresh && copied && fromTask, rule, an.Short(h)+":copy", runSite.Pos(), "each event run works on its own copy of the watcher's task", "the handler does not run a private copy of the watcher's task (shared object, or a copy of something else)")
	if !fresh {
		return
	}
	cfg := chainCfg(p)
	home := runTarget.(interface{ Parent() *ssa.Function }).Parent()
	sts := an.StoresToField(home, runTarget, "Env")
	good := false
	var seen []string
	for _, st := range sts {
		for _, ch := range cfg.Chains(st.Val) {
			seen = append(seen, ch.String())
			if len(ch) == 2 && ch[0].Label == "Task.Env" && strings.HasPrefix(ch[1].Label, "map:{") && strings.Contains(ch[1].Label, "EventName=") && strings.Contains(ch[1].Label, "EventPath=") {
				good = true
			}
		}
	}
	c.Check(good, rule, an.Short(h)+":copy.Env", runSite.Pos(), "the copy's env is the task's env with EventName/EventPath on top", fmt.Sprintf("the event variables are not layered as [Task.Env < {EventName, EventPath}]: %v", seen))
}

func mu(x *ssa.MapUpdate) *ssa.MapUpdate { return x }

func registration(c *an.Ctx, wr *watchRoles, rule string) {
	p := c.P
	run := wr.run
	var add *ssa.Call
	var loop *an.Loop
	for _, f := range sortedFns(wr.syncRun) {
		for _, l := range an.Loops(f) {
			if l.RangeOperand() == nil || an.FieldProv(l.RangeOperand()) != "Watcher.paths" {
				continue
			}
			for b := range l.Blocks {
				for _, in := range b.Instrs {
					if call, ok := in.(*ssa.Call); ok && an.ShortCallee(&call.Call) == "(*github.com/fsnotify/fsnotify.Watcher).Add" {
						add, loop = call, l
					}
				}
			}
		}
	}
	if add == nil {
		c.Bad(rule, an.Short(run)+":Add", run.Pos(), "Watcher.Run does not register every selected path with fsnotify")
		return
	}
	af := add.Parent()
	keys, elems := loop.RangeKeyValue()
	okArg := false
	for _, e := range elems {
		if an.SameValue(add.Call.Args[1], e) {
			okArg = true
		}
	}
	// `for i := range paths { p := paths[i] … }`
	for _, src := range an.Sources(add.Call.Args[1]) {
		if u, ok := src.(*ssa.UnOp); ok && u.Op == token.MUL {
			if ia, ok := u.X.(*ssa.IndexAddr); ok && an.FieldProv(ia.X) == "Watcher.paths" {
				for _, k := range keys {
					if an.SameValue(ia.Index, k) {
						okArg = true
					}
				}
				if phi, ok := ia.Index.(*ssa.Phi); ok && phi.Block() == loop.Header {
					okArg = true
				}
			}
		}
	}
	c.Check(okArg, rule, an.Short(run)+":Add(path)", add.Pos(), "every selected path is added", "Add is not given each element of the selected paths")
	fate := p.ErrFate(add, noReturn)
	c.Check(fate.Kind == "propagated" || fate.Kind == "converted", rule, an.Short(run)+":err(Add)", add.Pos(), "a path that cannot be watched is an error", "an Add error is dropped: "+fate.Detail)
	if af != run {
		errChain(c, rule, []*ssa.Function{af}, func(f *ssa.Function) bool { return wr.syncRun[f] }, nil)
	}
	// every iteration reaches Add (no continue before it)
	ex := &an.Explorer{P: p, NoReturn: noReturn}
	loop.Bound(ex)
	ex.Effect = func(in ssa.Instruction, st *an.State) string {
		if in == ssa.Instruction(add) {
			return "Add"
		}
		return ""
	}
	outs := ex.Run(af, loop.BodyEntry(), loop.Header, nil)
	all := len(outs) > 0
	for _, o := range outs {
		has := false
		for _, e := range o.Effects {
			if e == "Add" {
				has = true
			}
		}
		if !has {
			all = false
		}
	}
	c.Check(all, rule, an.Short(run)+":Add-every", add.Pos(), "no selected path is skipped", "a selected path can be skipped without being added")
	// rename re-add
	re := false
	for _, fn := range sortedFns(wr.scopeRun) {
		for _, ci := range an.CallsIn(fn, "(*github.com/fsnotify/fsnotify.Watcher).Add") {
			for _, src := range p.DeepSources(ci.Common().Args[1], 2, true) {
				if an.FieldProv(src) == "Event.Name" {
					re = true
				}
			}
		}
	}
	c.Check(re, rule, an.Short(run)+":re-add", run.Pos(), "a renamed path is added again", "a renamed path is not re-added to fsnotify")
	// a selected path is never un-registered while the watcher serves (zero sites expected)
	nRemove := 0
	for _, fn := range sortedFns(wr.scopeRun) {
		for _, ci := range an.CallsIn(fn, "(*github.com/fsnotify/fsnotify.Watcher).Remove") {
			nRemove++
			c.Bad(rule, an.Short(fn)+":Remove", ci.Pos(), "%s un-registers %s from fsnotify while the watcher is serving: later events on that path — for instance after the file is moved back — are never delivered", an.Short(fn), an.FieldProv(ci.Common().Args[1]))
		}
	}
	if nRemove == 0 {
		c.OK(rule, an.Short(run)+":no-Remove", run.Pos(), "nothing under Watcher.Run un-registers a path from fsnotify")
	}
}

func serving(c *an.Ctx, wr *watchRoles, rule string) {
	p := c.P
	run := wr.run
	// handlers in their own goroutine, registered with the events group
	goHandle, _ := wr.launch.(*ssa.Go)
	loopFn := wr.loopFn
	if wr.evLoop == nil {
		c.Bad(rule, an.Short(run)+":loop", run.Pos(), "nothing under Watcher.Run receives fsnotify's events in a loop")
	} else if goHandle == nil {
		c.Bad(rule, an.Short(run)+":go(handler)", run.Pos(), "events are not handled in their own goroutine: a long-running task blocks the delivery of later events")
	} else {
		c.OK(rule, an.Short(run)+":go(handler)", goHandle.Pos(), "each event is handled in its own goroutine")
		// the handlers' group: the WaitGroup(s) Watcher.Run waits on (found by what is waited on, not by name)
		groups := map[string]bool{}
		for f := range wr.syncRun {
			for _, ci := range an.CallsIn(f, "(*sync.WaitGroup).Wait") {
				groups[groupKey(ci.Common().Args[0])] = true
			}
		}
		if len(groups) == 0 {
			c.Bad(rule, an.Short(run)+":wait(handlers)", run.Pos(), "Watcher.Run does not wait for the handlers it started")
		}
		for _, k := range keys(groups) {
			addDonePairing(c, rule, k)
		}
	}
	// the watcher serves until it is closed from outside: nothing that runs under Watcher.Run (the event loop,
	// the handlers, the initial run) closes the watcher itself — whatever a run of the task ended with
	nSelfClose := 0
	for _, fn := range sortedFns(wr.scopeRun) {
		for _, ci := range an.CallsIn(fn, "(internal/watch.Watcher).Close") {
			nSelfClose++
			c.Bad(rule, an.Short(fn)+":self-close", ci.Pos(), "%s, which runs under Watcher.Run, closes the watcher: an outcome of one run of the task (a failure, a timeout, a cancelled context) ends the serving of all later events", an.Short(fn))
		}
	}
	if nSelfClose == 0 {
		c.OK(rule, an.Short(run)+":no-self-close", run.Pos(), "nothing under Watcher.Run closes the watcher")
	}
	if wr.evLoop != nil && loopFn != nil {
		// nothing the event loop does on its own goroutine can block for ever: a semaphore or queue it
		// waits on must be released on every path of whoever holds it
		boundedWaitsOpt(c, rule, []*ssa.Function{loopFn}, "the watcher's event loop", waitOpts{skip: func(f *ssa.Function) bool { return !wr.inW(f) }, onlyChans: true})
	}
	if wr.evLoop != nil {
		// loop exits
		loop := wr.evLoop
		// semantic fallback for exits that are not recognised by their guard: explore one pass of the loop
		// (helpers of the package inlined) in the world where the watcher is not closed and every receive
		// from an fsnotify channel reports the channel open — no path may leave the loop in that world
		staysWhileOpen := func() (bool, string) {
			ex := &an.Explorer{P: p, NoReturn: noReturn, MaxDepth: 3,
				Inline: func(f *ssa.Function) bool { return wr.inW(f) && f != wr.loopFn && f != wr.handle }}
			loop.Bound(ex)
			ex.AtomSt = func(v ssa.Value, st *an.State) (an.AVal, bool) {
				if e, ok := v.(*ssa.Extract); ok && e.Index == 1 && isRecvOK(v) {
					return an.ABool(true), true
				}
				if u, ok := v.(*ssa.UnOp); ok && u.Op == token.MUL && an.FieldProv(u) == "Watcher.isClosed" {
					return an.ABool(false), true
				}
				return an.AVal{}, false
			}
			entry := loop.BodyEntry()
			if entry == nil {
				return false, "the loop has no body"
			}
			outs := ex.Run(wr.loopFn, entry, loop.Header, nil)
			if ex.Exhausted || len(outs) == 0 {
				return false, "the exploration of one pass did not finish"
			}
			for _, o := range outs {
				if o.End == "stop" && o.StopBlock == loop.Header {
					continue
				}
				if o.End == "bound" {
					continue
				}
				return false, "a path leaves the loop (" + o.End + ") although the watcher and the channels are open" + fmt.Sprint(" [forks: ", o.Unknown, "]")
			}
			return true, ""
		}
		{
			for _, x := range exitEdges(loop) {
				from := x[0]
				why := ""
				ok := false
				for _, g := range append(an.Guards(from), func() []an.Guard {
					if br, isBr := an.BranchOf(from); isBr {
						// the exit edge itself
						outcome := true
						if loop.Blocks[br.True] {
							outcome = false
						}
						return []an.Guard{{Cond: br.If.Cond, Outcome: outcome, Block: from}}
					}
					return nil
				}()...) {
					prov := an.FieldProv(g.Cond)
					if closedOnly(p, wr, g.Cond, g.Outcome) {
						ok, why = true, "channel closed (reported by the polling helper)"
					}
					switch {
					case prov == "Watcher.isClosed" && g.Outcome:
						ok, why = true, "watcher closed"
					case strings.Contains(an.Prov(g.Cond), "select") || isRecvOK(g.Cond):
						if !g.Outcome {
							ok, why = true, "channel closed"
						}
					}
				}
				if !ok {
					stays, whyNot := staysWhileOpen()
					if stays {
						ok, why = true, "with the watcher and the channels open no path of a pass leaves the loop (explored)"
					} else if os.Getenv("TASKVERIF_DEBUG") != "" {
						fmt.Println("DEBUG staysWhileOpen:", whyNot)
					}
				}
				pos := from.Instrs[len(from.Instrs)-1].Pos()
				c.Check(ok, rule, fmt.Sprintf("%s:loop-exit(block %s)", an.Short(run), from.Comment), pos, "the event loop ends because: "+why, "the event loop can end for a reason other than the watcher or a channel being closed: later events are not served")
			}
		}
	}
	_ = loopFn
	// a lock taken for an event is given back for the next one: in the handler (and the helpers of the package it
	// calls) every acquired mutex is released on every path to the exit; in the event loop, on every path that
	// goes on to the next pass (a path that leaves the loop ends the loop's goroutine and is not a pass)
	if wr.handle != nil {
		perEvent := p.Reach([]*ssa.Function{wr.handle}, func(e an.CallEdge) bool { return e.Kind == an.EdgeCall && wr.inW(e.Callee) })
		nLocks := 0
		for _, fn := range sortedFns(func() map[*ssa.Function]bool {
			m := map[*ssa.Function]bool{}
			for f := range perEvent {
				m[f] = true
			}
			return m
		}()) {
			for _, op := range an.BlockingOps(fn) {
				if op.Kind != "lock" && op.Kind != "rlock" {
					continue
				}
				nLocks++
				op := op
				released, at := an.OnAllPathsToExit(op.Instr, func(x ssa.Instruction) bool { return an.IsUnlockOf(x, op) }, an.IsPanicExit)
				key := an.Short(fn) + ":" + op.Kind + "(" + groupKey(op.OnVal) + "):released"
				if released {
					c.OK(rule, key, op.Instr.Pos(), "released on every path of the handler")
				} else {
					where := ""
					if at != nil && len(at.Instrs) > 0 {
						where = p.Pos(at.Instrs[len(at.Instrs)-1].Pos())
					}
					c.Bad(rule, key, op.Instr.Pos(), "%s, which runs for every event, returns at %s with %s still held: the next event (and the event loop, if it takes the same mutex) blocks for ever and no later event is served", an.Short(fn), where, groupKey(op.OnVal))
				}
			}
		}
		if wr.evLoop != nil && wr.loopFn != nil {
			loop := wr.evLoop
			for _, op := range an.BlockingOps(wr.loopFn) {
				if (op.Kind != "lock" && op.Kind != "rlock") || !loop.Blocks[op.Instr.Block()] {
					continue
				}
				nLocks++
				// walk forward inside the loop; an unlock ends a path, the header reached with the lock held is a leak
				type item struct {
					b   *ssa.BasicBlock
					idx int
				}
				seen := map[*ssa.BasicBlock]bool{}
				work := []item{{op.Instr.Block(), an.InstrIndex(op.Instr) + 1}}
				leak := false
				for len(work) > 0 && !leak {
					it := work[len(work)-1]
					work = work[:len(work)-1]
					hit := false
					for i := it.idx; i < len(it.b.Instrs); i++ {
						if an.IsUnlockOf(it.b.Instrs[i], op) {
							hit = true
							break
						}
					}
					if hit {
						continue
					}
					for _, sc := range it.b.Succs {
						if !loop.Blocks[sc] {
							continue
						}
						if sc == loop.Header {
							leak = true
							break
						}
						if !seen[sc] {
							seen[sc] = true
							work = append(work, item{sc, 0})
						}
					}
				}
				key := an.Short(wr.loopFn) + ":" + op.Kind + "(" + groupKey(op.OnVal) + "):released-per-pass"
				c.Check(!leak, rule, key, op.Instr.Pos(), "released before the next pass of the event loop", "a pass of the event loop can end with "+groupKey(op.OnVal)+" still held: the next pass blocks on it for ever")
			}
		}
		if nLocks == 0 {
			c.OK(rule, an.Short(wr.handle)+":locks", wr.handle.Pos(), "neither the handler nor the event loop takes a mutex")
		}
	}
	// no Run after Cancel on the same runner
	bad := false
	for _, fn := range p.Funcs {
		if !inPkgs("internal/watch", "cmd/taskctl")(fn) {
			continue
		}
		cancels := an.CallsIn(fn, "(pkg/runner.TaskRunner).Cancel")
		runs := an.CallsIn(fn, "(pkg/runner.TaskRunner).Run")
		for _, cc := range cancels {
			for _, rc := range runs {
				if an.FieldProv(cc.Common().Args[0]) != an.FieldProv(rc.Common().Args[0]) {
					continue
				}
				reach := cc.Block() == rc.Block() && an.InstrIndex(cc) < an.InstrIndex(rc) || (cc.Block() != rc.Block() && an.CanReach(cc.Block(), rc.Block()))
				if reach {
					bad = true
					c.Bad(rule, an.Short(fn)+":Run-after-Cancel", rc.Pos(), "%s cancels the runner %s and then runs a task on it: the runner's context is created once and Run refuses a cancelled context, so after the first event no run ever starts again", an.Short(fn), an.FieldProv(cc.Common().Args[0]))
				}
			}
		}
	}
	if !bad {
		c.OK(rule, "internal/watch:Run-after-Cancel", token.NoPos, "no function runs a task on a runner it has just cancelled")
	}
}

func isRecvOK(v ssa.Value) bool {
	e, ok := v.(*ssa.Extract)
	if !ok {
		return false
	}
	switch t := e.Tuple.(type) {
	case *ssa.Select:
		return true
	case *ssa.UnOp:
		return t.Op == token.ARROW && t.CommaOk
	}
	return false
}

// eventMapsOf lists the values that NewWatcher (or a helper) stores into Watcher.events.
func eventMapsOf(p *an.Prog, wr *watchRoles) map[ssa.Value]bool {
	out := map[ssa.Value]bool{}
	for _, f := range sortedFns(wr.scopeNew) {
		an.EachInstr(f, func(in ssa.Instruction) {
			sto, ok := in.(*ssa.Store)
			if !ok {
				return
			}
			if fa, ok := sto.Addr.(*ssa.FieldAddr); ok && an.TypeField(fa) == "Watcher.events" {
				for _, src := range p.DeepSources(sto.Val, 3, false) {
					out[src] = true
				}
			}
		})
	}
	return out
}

// closedOnly reports whether cond == outcome can only hold because a channel
// was closed: cond is (the negation of) the bool result of a helper of the
// package, and every return of that helper with the matching constant is
// guarded by a failed receive (`v, ok := <-ch; !ok`).
func closedOnly(p *an.Prog, wr *watchRoles, cond ssa.Value, outcome bool) bool {
	for {
		u, ok := cond.(*ssa.UnOp)
		if !ok || u.Op != token.NOT {
			break
		}
		cond, outcome = u.X, !outcome
	}
	call, ok := cond.(*ssa.Call)
	if !ok {
		return false
	}
	callee := call.Call.StaticCallee()
	if callee == nil || !wr.inW(callee) || callee.Blocks == nil {
		return false
	}
	n := 0
	for _, ret := range an.Returns(callee) {
		if len(ret.Results) != 1 {
			return false
		}
		k, isK := an.RetVal(ret, 0).(*ssa.Const)
		if !isK || k.Value == nil {
			return false
		}
		if (k.Value.ExactString() == "true") != outcome {
			continue
		}
		n++
		guarded := false
		for _, g := range an.Guards(ret.Block()) {
			if isRecvOK(g.Cond) && !g.Outcome {
				guarded = true
			}
		}
		if !guarded {
			return false
		}
	}
	return n > 0
}

// fsnotifyOpConsts lists the exported constants of type fsnotify.Op.
func fsnotifyOpConsts(p *an.Prog) map[string]int64 {
	out := map[string]int64{}
	for _, ip := range p.Pkgs {
		if ip.PkgPath != an.ModulePath+"/internal/watch" {
			continue
		}
		for _, imp := range ip.Types.Imports() {
			if imp.Path() != "github.com/fsnotify/fsnotify" {
				continue
			}
			scope := imp.Scope()
			for _, name := range scope.Names() {
				k, ok := scope.Lookup(name).(*types.Const)
				if !ok || !k.Exported() {
					continue
				}
				if n, ok := k.Type().(*types.Named); !ok || n.Obj().Name() != "Op" {
					continue
				}
				v, _ := constant.Int64Val(k.Val())
				out[name] = v
			}
		}
	}
	return out
}

func fsnotifyOps(p *an.Prog) []int64 {
	var out []int64
	for _, v := range fsnotifyOpConsts(p) {
		out = append(out, v)
	}
	sort.Slice(out, func(i, j int) bool { return out[i] < out[j] })
	return out
}

// sameOuterIteration: b follows a inside one iteration of a loop that contains both (the only way back from b to a
// is round that outer loop).
func sameOuterIteration(a, b *an.Loop) bool {
	return !a.Blocks[b.Header] && !b.Blocks[a.Header]
}

// subscriptionFixed: what a watcher reacts to is what it was configured with. The subscribed events and the selected
// paths are written while the watcher is built (NewWatcher and the helpers it runs) and by nobody afterwards — a
// later "configure" step fed from state shared between watchers gives one watcher another one's subscription.
func subscriptionFixed(c *an.Ctx, wr *watchRoles, rule string) {
	p := c.P
	guarded := map[string]bool{"Watcher.events": true, "Watcher.paths": true}
	n := 0
	for _, fn := range p.Funcs {
		if !an.InModule(fn) || fn.Blocks == nil || wr.scopeNew[an.Outer(fn)] {
			continue
		}
		an.EachInstr(fn, func(in ssa.Instruction) {
			what := ""
			switch x := in.(type) {
			case *ssa.Store:
				if fa, ok := x.Addr.(*ssa.FieldAddr); ok && guarded[an.TypeField(fa)] {
					if fresh, copied := an.FreshBase(fa.X); fresh && !copied {
						return
					}
					what = an.TypeField(fa)
				}
			case *ssa.MapUpdate:
				if guarded[an.FieldProv(x.Map)] {
					what = an.FieldProv(x.Map)
				}
			}
			if what == "" {
				return
			}
			n++
			c.Bad(rule, an.Short(fn)+":write("+what+")", in.Pos(), "%s writes %s of a watcher after it was built: the watcher no longer reacts to (or watches) what its configuration says", an.Short(fn), what)
		})
	}
	if n == 0 {
		c.OK(rule, "internal/watch:subscription-writers", token.NoPos, "only the construction of a watcher writes its subscribed events and selected paths")
	}
}
