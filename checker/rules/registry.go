// Package rules holds one file per property: anchors, obligations and oracle
// tables (DESIGN.md §5).
package rules

import "taskverif/an"

// Registry maps property ids to their rule sets.
var Registry = map[string]func(*an.Ctx){}

func register(id string, f func(*an.Ctx)) {
	Registry[id] = func(c *an.Ctx) {
		groupProg = c.P
		bindStatusAccessors(c.P)
		f(c)
	}
}

// Thorough runs the additional work of the thorough tier.
func Thorough(c *an.Ctx, prop string, seed int64, extra map[string]interface{}) {
	thorough(c, prop, seed, extra)
}
