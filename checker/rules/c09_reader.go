package rules

import (
	"go/token"
	"sort"

	"golang.org/x/tools/go/ssa"

	"taskverif/an"
)

// envFileReader implements C09.5: the env_file level contains every name the
// file defines only if the reader hands every line on. The rule knows the
// contracts of the standard readers:
//
//   - (*bufio.Reader).ReadString / ReadBytes return the data read so far
//     together with io.EOF when the input does not end in the delimiter; the
//     data must be used on the path where the error is io.EOF;
//   - (*bufio.Scanner).Scan stops on a read error, which only Err reports; a
//     successful return must pass a call of Err whose result is returned
//     when non-nil.
//
// Whole-file reads (os.ReadFile, ioutil.ReadFile, io.ReadAll) have nothing to
// drop. Anything else is reported as an observation, not decided.
func envFileReader(c *an.Ctx, rule string) {
	p := c.P
	ref := p.Func("pkg/utils", "", "ReadEnvFile")
	if ref == nil {
		c.Und(rule, "utils.ReadEnvFile", token.NoPos, "ReadEnvFile not found")
		return
	}
	scope := p.Reach([]*ssa.Function{ref}, func(e an.CallEdge) bool { return an.Outer(e.Callee).Pkg == ref.Pkg })
	var fns []*ssa.Function
	for f := range scope {
		if f.Blocks != nil {
			fns = append(fns, f)
		}
	}
	sort.Slice(fns, func(i, j int) bool { return fns[i].String() < fns[j].String() })
	n := 0
	for _, fn := range fns {
		fn := fn
		// delimiter readers
		for _, ci := range an.CallsIn(fn, "(*bufio.Reader).ReadString", "(*bufio.Reader).ReadBytes") {
			call, ok := ci.(*ssa.Call)
			if !ok {
				continue
			}
			n++
			data := extractOf(call, 0)
			errs := errOf(call)
			isData := func(v ssa.Value) bool {
				for _, r := range an.Sources(v) {
					for _, d := range data {
						if r == d {
							return true
						}
					}
				}
				return false
			}
			isErr := func(v ssa.Value) bool {
				for _, e := range errs {
					if v == e {
						return true
					}
				}
				return false
			}
			isEOF := func(v ssa.Value) bool {
				for _, r := range an.Sources(v) {
					if u, ok := r.(*ssa.UnOp); ok && u.Op == token.MUL {
						if g, ok := u.X.(*ssa.Global); ok && g.Name() == "EOF" && g.Pkg != nil && g.Pkg.Pkg.Path() == "io" {
							return true
						}
					}
				}
				return false
			}
			ex := &an.Explorer{P: p, NoReturn: noReturn, MaxVisits: 1}
			if l := an.InnermostLoop(an.Loops(fn), call.Block()); l != nil {
				l.Bound(ex)
			}
			ex.Atom = func(v ssa.Value) (an.AVal, bool) {
				if isErr(v) {
					return an.AVal{K: an.ANonNil}, true
				}
				switch x := v.(type) {
				case *ssa.BinOp:
					if (x.Op == token.EQL || x.Op == token.NEQ) && (isErr(x.X) && isEOF(x.Y) || isErr(x.Y) && isEOF(x.X)) {
						return an.ABool(x.Op == token.EQL), true
					}
				case *ssa.Call:
					if an.ShortCallee(&x.Call) == "errors.Is" && isErr(x.Call.Args[0]) && isEOF(x.Call.Args[1]) {
						return an.ABool(true), true
					}
				}
				return an.AVal{}, false
			}
			ex.Effect = func(in ssa.Instruction, st *an.State) string {
				if _, dbg := in.(*ssa.DebugRef); dbg {
					return ""
				}
				for _, op := range in.Operands(nil) {
					if *op != nil && isData(*op) {
						if _, isPhi := in.(*ssa.Phi); isPhi {
							continue
						}
						return "use"
					}
				}
				return ""
			}
			outs := ex.RunFrom(fn, call, nil)
			dropped := false
			for _, o := range outs {
				if o.End == "exit" {
					continue
				}
				if o.End == "return" && len(o.Ret) > 0 && o.Ret[len(o.Ret)-1].K == an.ANonNil {
					continue
				}
				used := false
				for _, e := range o.Effects {
					if e == "use" {
						used = true
					}
				}
				if !used {
					dropped = true
				}
			}
			c.Check(!dropped && len(outs) > 0, rule, an.Short(fn)+":"+an.ShortCallee(&call.Call)+":data-with-EOF", call.Pos(), "what the reader returns together with io.EOF is used", "what "+an.ShortCallee(&call.Call)+" returns together with io.EOF (a last line without a newline) is dropped: a variable defined on that line is missing from the env_file level")
		}
		// scanners
		for _, ci := range an.CallsIn(fn, "bufio.NewScanner") {
			n++
			sc, ok := ci.(*ssa.Call)
			if !ok {
				continue
			}
			var errCall *ssa.Call
			for _, e := range an.CallsIn(fn, "(*bufio.Scanner).Err") {
				if ec, ok := e.(*ssa.Call); ok && an.SameValue(ec.Call.Args[0], sc) {
					errCall = ec
				}
			}
			if errCall == nil {
				// the scanner kept in a field of a reader object (the loop and the final check are methods of it):
				// Err is consulted on the same field somewhere in the package and its error is handed on
				field := ""
				if sc.Referrers() != nil {
					for _, r := range *sc.Referrers() {
						if st, ok := r.(*ssa.Store); ok {
							if fa, ok := st.Addr.(*ssa.FieldAddr); ok {
								field = an.TypeField(fa)
							}
						}
					}
				}
				handed := false
				if field != "" {
					for _, g := range p.Funcs {
						if an.Outer(g).Pkg != fn.Pkg || g.Blocks == nil {
							continue
						}
						for _, e := range an.CallsIn(g, "(*bufio.Scanner).Err") {
							ec, ok := e.(*ssa.Call)
							if !ok {
								continue
							}
							same := an.FieldProv(ec.Call.Args[0]) == field
							for _, src := range an.Sources(ec.Call.Args[0]) {
								if src == ssa.Value(sc) {
									same = true
								}
							}
							if !same {
								continue
							}
							if fate := p.ErrFate(ec, noReturn); fate.Kind == "propagated" || fate.Kind == "converted" {
								handed = true
							}
						}
					}
				}
				if handed {
					c.OK(rule, an.Short(fn)+":Scanner.Err", sc.Pos(), "the scanner is kept in "+field+"; its Err is consulted there and the error handed on")
					continue
				}
				c.Bad(rule, an.Short(fn)+":Scanner.Err", sc.Pos(), "the scanner's Err is never consulted: a read error (or an over-long line) ends the loop like the end of the file, and the variables defined after it are silently missing from the env_file level")
				continue
			}
			good := true
			for _, ret := range an.Returns(fn) {
				idx := an.ErrResultIndex(fn.Signature)
				if idx >= 0 && an.IsNilConst(an.RetVal(ret, idx)) && an.CanReach(sc.Block(), ret.Block()) && !an.Dominates(errCall, ret) {
					good = false
				}
			}
			fate := p.ErrFate(errCall, noReturn)
			c.Check(good && (fate.Kind == "propagated" || fate.Kind == "converted"), rule, an.Short(fn)+":Scanner.Err", errCall.Pos(), "every successful return passes Scanner.Err, whose error is returned", "a successful return does not pass Scanner.Err, or its error is dropped ("+fate.Detail+"): a truncated read is taken for the whole file")
		}
		for range an.CallsIn(fn, "os.ReadFile", "io/ioutil.ReadFile", "io.ReadAll", "io/ioutil.ReadAll") {
			n++
			c.OK(rule, an.Short(fn)+":whole-file", fn.Pos(), "the file is read whole")
		}
	}
	if n == 0 {
		c.Note(rule, an.Short(ref)+":reader", ref.Pos(), "ReadEnvFile uses none of the readers this rule knows (bufio.Scanner, bufio.Reader.ReadString/ReadBytes, whole-file reads): whether every line is handed on is not decided")
	}
}
